/* C18 - spawn.c getcmd()/docmd()/err(): the spawners' command channel.
 *
 * Encoded from /repo: spawn.c (getcmd, docmd, err, okwrite; main is cut off), stralloc
 * units, byte_rchr.c, open_read.c.  spawn() (program specific, qmail-lspawn.c /
 * qmail-rspawn.c) and report() are outside: spawn() is an observing stub.
 *
 * Reference (qmail-lspawn(8)/qmail-rspawn(8), INTERNALS.md, the property text): a command
 * is  <delnum byte> <messid> NUL <sender> NUL <recip> NUL.  Every complete command is
 * answered by exactly one of: an error report <delnum byte> <text> NUL, or the start of
 * one delivery (spawn) that occupies slot delnum.  The message file is opened only if
 * its name consists of digits and '/' and starts with a digit; a delivery is started only
 * if the file is regular and owned by the queue user; delivery numbers outside the
 * spawner's table or already in use are refused.
 *
 * Three obligations (one inlined copy of docmd per byte of every read made the combined
 * query 12 GB):
 *   MODE 0  getcmd(): framing.  docmd() cut to an observer.  For every NB-byte stream split
 *           arbitrarily over two reads: docmd is called once per complete command, in
 *           order, with exactly that command's delivery number, message id, sender and
 *           recipient; an incomplete command has no effect.
 *   MODE 2  docmd(): one command with symbolic fields (message id ML bytes, recipient RL
 *           bytes): exactly one answer; open/fstat/spawn conditions as above.
 *   MODE 1  err(): the report format.
 */
#include "verif.h"
#include <errno.h>
#include <sys/types.h>
#include <sys/stat.h>
#include <fcntl.h>
#include <unistd.h>
#ifndef MODE
#define MODE 0
#endif
#include "gen_spawn.c"

#ifndef NB
#define NB 8
#endif
#ifndef ML
#define ML 3
#endif
#ifndef RL
#define RL 3
#endif
#define UIDQ 777

unsigned char cmd[NB];
unsigned int split;              /* MODE 0: first read returns cmd[0..split), second the rest */
unsigned char mid[ML + 1], rcp[RL + 1], in_delnum;   /* MODE 2 */
unsigned int in_mode, in_uid;    /* what fstat reports */
unsigned char in_used;           /* is the addressed slot already in use? */
unsigned char in_stale;          /* bytes left in the slot's output buffer by the delivery that used it before */
int in_open_fail, in_fstat_fail, in_pipe_fail, in_spawn_fail;

void sym_inputs(void)
{
#ifdef REPLAY
#include "replay_inputs.inc"
#else
  SYM_ARR(cmd); SYM(split); SYM_ARR(mid); SYM_ARR(rcp); SYM(in_delnum); SYM(in_mode); SYM(in_uid); SYM(in_used); SYM(in_stale);
  SYM(in_open_fail); SYM(in_fstat_fail); SYM(in_pipe_fail); SYM(in_spawn_fail);
#endif
}

/* conf-spawn (auto_spawn) is a configuration value; the harness uses a table of 4 slots
 * (+10, exactly what main() allocates), so cbmc's bounds check guards the index arithmetic */
int auto_spawn = 4;
#define NSLOT (4 + 10)
static struct delivery slots[NSLOT];
static unsigned int rpos, nread, n_open, n_spawn, n_reports, n_docmd;
static int open_fds, rep_delnum = -1;
static char rep_letter;

int coe(int fd) { return 0; }
int ideal_getc(substdio *s) { CHECK(0, "no substdio input"); return -1; }

#if MODE == 1
/* ------------------------------------------------------------------ err() */
static unsigned char outb[8]; static unsigned int outn, flushed_at;
int ideal_putc(substdio *s, unsigned char c) { CHECK(s == &ssout, "reports are written to descriptor 1"); if (outn < 8) outb[outn] = c; ++outn; return 0; }
int ideal_flush(substdio *s) { flushed_at = outn; return 0; }
int spawn(int a, int b, char *s, char *r, int at) { return -1; }
void vmain(void)
{
  sym_inputs();
  substdio_fdbuf(&ssout, okwrite, 1, outbuf, sizeof outbuf);
  delnum = cmd[0];
  err("Zab");
  CHECK(outn == 5 && outb[0] == cmd[0] && outb[1] == 'Z' && outb[2] == 'a' && outb[3] == 'b' && outb[4] == 0,
        "C18: a report is <delivery number byte> <text> NUL");
  CHECK(flushed_at == 5, "the report is flushed at once");
  WITNESS("report_written");
}

#elif MODE == 0
/* ------------------------------------------------------------------ getcmd(): framing */
int ideal_putc(substdio *s, unsigned char c) { CHECK(0, "framing writes nothing itself"); return -1; }
int ideal_flush(substdio *s) { return 0; }
int spawn(int a, int b, char *s, char *r, int at) { return -1; }

/* reference: the k-th complete command inside cmd[]: start and length of its three fields */
static int ref_cmd(unsigned int k, unsigned int *dn, unsigned int st[3], unsigned int ln[3])
{
  unsigned int p = 0, c, f;
  for (c = 0; c < NB; ++c) {
    if (p >= NB) return 0;
    *dn = cmd[p++];
    for (f = 0; f < 3; ++f) {
      st[f] = p;
      while (p < NB && cmd[p]) ++p;
      if (p >= NB) return 0;
      ln[f] = p - st[f];
      ++p;
    }
    if (c == k) return 1;
  }
  return 0;
}

static int field_is(stralloc *sa, unsigned int st, unsigned int ln)
{
  unsigned int i;
  if (sa->len != ln + 1) return 0;
  for (i = 0; i < NB; ++i) { if (i > ln) break; if ((unsigned char) sa->s[i] != (i < ln ? cmd[st + i] : 0)) return 0; }
  return 1;
}

void docmd(void)
{
  unsigned int dn, st[3], ln[3];
  int have = ref_cmd(n_docmd, &dn, st, ln);
  CHECK(have, "C18: a command is executed only when it is complete");
  if (have) {
    CHECK((unsigned int) delnum == dn, "C18: the command keeps its delivery number");
    CHECK(field_is(&messid, st[0], ln[0]) && field_is(&sender, st[1], ln[1]) && field_is(&recip, st[2], ln[2]),
          "C18: message id, sender and recipient are exactly the command's three NUL-terminated fields");
    CHECK(!flagabort, "no allocation failure inside the bound");
  }
  ++n_docmd;
}

ssize_t vf_read(int fd, void *buf, size_t n)
{
  unsigned int k, end, i;
  CHECK(fd == 0, "commands are read from descriptor 0");
  ++nread;
  end = (nread == 1) ? split : NB;
  if (rpos >= NB) return 0;
  k = end - rpos;
  CHECK(n >= NB, "command buffer larger than the stream (harness sizing)");
  for (i = 0; i < NB; ++i) { if (i >= k) break; ((char *) buf)[i] = (char) cmd[rpos + i]; }
  rpos = end;
  return (ssize_t) k;
}
int vf_open(const char *p, int f, ...) { CHECK(0, "framing opens nothing"); return -1; }
int vf_fstat(int fd, struct stat *st) { return -1; }
int vf_pipe(int pi[2]) { return -1; }
int vf_close(int fd) { return 0; }

void vmain(void)
{
  unsigned int dn, st[3], ln[3], total = 0, k;
  sym_inputs();
  ASSUME(split <= NB);
  stralloc_copys(&messid, ""); stralloc_copys(&sender, ""); stralloc_copys(&recip, "");
  getcmd();                       /* first read: cmd[0..split) */
  getcmd();                       /* second read: the rest */
  getcmd();                       /* end of input */
  CHECK(flagreading == 0, "end of input is noticed");
  for (k = 0; k < NB / 4 + 1; ++k) if (ref_cmd(k, &dn, st, ln)) total = k + 1;
  CHECK(n_docmd == total, "C18: every complete command is executed exactly once; an incomplete one has no effect");
  if (total == 0) WITNESS("incomplete_command_waits");
  if (total == 1) WITNESS("one_command");
  if (total == 2) WITNESS("two_commands");
}

#else
/* ------------------------------------------------------------------ docmd(): one command */
void err(char *s)
{
  ++n_reports; rep_delnum = delnum; rep_letter = s[0];
  CHECK(s[0] == 'Z' || s[0] == 'D', "a refusal is a temporary (Z) or permanent (D) report");
}
int ideal_putc(substdio *s, unsigned char c) { CHECK(0, "command handling writes reports only through err()"); return -1; }
int ideal_flush(substdio *s) { return 0; }
ssize_t vf_read(int fd, void *b, size_t n) { return 0; }

static int ref_messid_ok(void)
{
  unsigned int i;
  if (ML == 0 || ML > 100) return 0;
  for (i = 0; i < ML; ++i) {
    unsigned char ch = mid[i];
    if (ch >= '0' && ch <= '9') continue;
    if (ch == '/' && i > 0) continue;
    return 0;
  }
  return 1;
}

int vf_open(const char *path, int flags, ...)
{
  unsigned int i;
  ++n_open;
  CHECK((flags & O_ACCMODE) == O_RDONLY, "message files are opened read-only");
  CHECK(path == messid.s, "the file opened is the command's message id");
  CHECK(ref_messid_ok(), "C18: only numerically named message files (digits and '/', starting with a digit) are opened");
  for (i = 0; i < ML + 1; ++i) { if (!path[i]) break; CHECK((path[i] >= '0' && path[i] <= '9') || (path[i] == '/' && i > 0), "C18: the name handed to open() consists of digits and '/' only"); }
  if (in_open_fail) { errno = ENOENT; return -1; }
  ++open_fds;
  return 8;
}
int vf_fstat(int fd, struct stat *st)
{
  CHECK(fd == 8, "fstat on the message file");
  if (in_fstat_fail) { errno = EIO; return -1; }
  st->st_mode = in_mode; st->st_uid = in_uid;
  return 0;
}
int vf_pipe(int pi[2]) { if (in_pipe_fail) { errno = EMFILE; return -1; } pi[0] = 9; pi[1] = 10; open_fds += 2; return 0; }
int vf_close(int fd) { CHECK(fd == 8 || fd == 9 || fd == 10, "closes its own descriptors"); --open_fds; return 0; }

/* main() blocks SIGCHLD before its loop and opens the window only around select(): while docmd() forks a delivery and
 * records its pid in the slot, a child that dies at once must not be reaped by sigchld() - the handler would find no slot
 * with that pid, drop the status, and the command would never be answered */
static int chld_blocked = 1;
void sig_childblock(void) { chld_blocked = 1; }
void sig_childunblock(void) { chld_blocked = 0; }

int spawn(int fdmess, int fdout, char *s, char *r, int at)
{
  ++n_spawn;
  CHECK(chld_blocked, "C18: SIGCHLD stays blocked from the fork of a delivery until its slot is recorded (every command gets its one report)");
  CHECK(fdmess == 8 && fdout == 10, "delivery gets the message file and the report pipe");
  CHECK((in_mode & S_IFMT) == S_IFREG && in_uid == UIDQ, "C18: a delivery starts only for a regular file owned by the queue user");
  CHECK(ref_messid_ok(), "C18: a delivery starts only for a numerically named message file");
  CHECK(r == recip.s && r[at] == '@', "recipient is split at its last @");
  CHECK(in_delnum < (unsigned int) auto_spawn && !in_used, "C18: a delivery occupies the slot named in the command, which is inside the table and free");
  if (in_spawn_fail) return -1;
  return 4321;
}

void vmain(void)
{
  unsigned int i;
  sym_inputs();
  ASSUME(in_used <= 1);
  ASSUME(in_open_fail >= 0 && in_open_fail <= 1 && in_fstat_fail >= 0 && in_fstat_fail <= 1 && in_pipe_fail >= 0 && in_pipe_fail <= 1 && in_spawn_fail >= 0 && in_spawn_fail <= 1);
  auto_uidq = UIDQ;
  d = slots;
  stralloc_copys(&messid, ""); stralloc_copys(&sender, ""); stralloc_copys(&recip, "");
  /* the three fields as getcmd() leaves them: NUL-terminated, no NUL inside (MODE 0) */
  for (i = 0; i < ML; ++i) { char c = (char) mid[i]; ASSUME(mid[i] != 0); stralloc_append(&messid, &c); }
  stralloc_append(&messid, "");
  stralloc_copys(&sender, "s@h"); stralloc_append(&sender, "");
  for (i = 0; i < RL; ++i) { char c = (char) rcp[i]; ASSUME(rcp[i] != 0); stralloc_append(&recip, &c); }
  stralloc_append(&recip, "");
  delnum = in_delnum;
  if (in_delnum < NSLOT) slots[in_delnum].used = in_used;
  /* arbitrary valid pre-state: the slot was used before, its output buffer still holds that delivery's report */
  ASSUME(in_stale <= 3);
  if (in_delnum < (unsigned int) auto_spawn && !in_used) {
    static char stalebuf[8] = "Kold";
    slots[in_delnum].output.s = stalebuf; slots[in_delnum].output.a = 8; slots[in_delnum].output.len = in_stale;
  }

  docmd();

  /* a delivery that could not be forked is answered by a report instead */
  CHECK((n_spawn == 1 && !in_spawn_fail ? 1 : 0) + n_reports == 1 && n_spawn <= 1, "C18: a command gets exactly one answer: one report or one started delivery");
  if (n_reports) {
    CHECK(rep_delnum == (int) in_delnum, "C18: the report carries the delivery number of its command");
    CHECK(open_fds == 0, "descriptors are not leaked on refusals");
    if (in_delnum >= (unsigned int) auto_spawn) WITNESS("delnum_too_big_refused");
    if (n_open == 0 && !ref_messid_ok()) WITNESS("bad_messid_refused");
    if (n_open == 1) WITNESS("refused_after_open");
    if (n_spawn == 1) WITNESS("fork_failed_reported");
  } else {
    if (!in_spawn_fail) {
      CHECK(in_delnum < NSLOT && slots[in_delnum].used == 1 && slots[in_delnum].pid == 4321, "the slot records the running delivery");
      CHECK(open_fds == 2, "only the report pipe stays open");
      CHECK(slots[in_delnum].output.len == 0, "C09/C18: a delivery starts with an empty report buffer (nothing of the slot's previous delivery is reported again)");
      if (in_stale) WITNESS("slot_reused");
      WITNESS("delivery_started");
    }
  }
  if (!ref_messid_ok()) CHECK(n_open == 0, "C18: a message id that is not numeric is never opened");
}
#endif
