/* C18 - spawn.c getcmd()/docmd()/err(): the spawners' command channel, every command
 * stream of NB bytes (concrete length, symbolic bytes, symbolic split into two reads).
 *
 * Encoded from /repo: spawn.c (getcmd, docmd, err, okwrite; main is cut off), stralloc
 * units, byte_rchr.c.  spawn() (program specific, qmail-lspawn.c / qmail-rspawn.c) and
 * report() are outside: spawn() is an observing stub.
 *
 * Reference (qmail-lspawn(8)/qmail-rspawn(8), INTERNALS.md, the property text): a command
 * is  <delnum byte> <messid> NUL <sender> NUL <recip> NUL.  Every complete command is
 * answered by exactly one of: an error report <delnum byte> <text> NUL, or the start of
 * one delivery (spawn) that occupies slot delnum.  The message file is opened only if
 * its name consists of digits and '/' and starts with a digit; a delivery is started only
 * if the file is regular and owned by the queue user; delivery numbers outside the
 * spawner's table or already in use are refused.
 */
#include "verif.h"
#include <errno.h>
#include <sys/types.h>
#include <sys/stat.h>
#include <fcntl.h>
#include <unistd.h>
#include "gen_spawn.c"

#ifndef NB
#define NB 8
#endif
#define UIDQ 777

unsigned char cmd[NB];
unsigned int split;              /* first read returns cmd[0..split), second the rest */
unsigned int in_mode, in_uid;    /* what fstat reports */
unsigned char in_used;           /* is the addressed slot already in use? */
int in_open_fail, in_fstat_fail, in_pipe_fail, in_spawn_fail;

void sym_inputs(void)
{
#ifdef REPLAY
#include "replay_inputs.inc"
#else
  SYM_ARR(cmd); SYM(split); SYM(in_mode); SYM(in_uid); SYM(in_used);
  SYM(in_open_fail); SYM(in_fstat_fail); SYM(in_pipe_fail); SYM(in_spawn_fail);
#endif
}

/* conf-spawn (auto_spawn) is a configuration value; the harness uses a table of 4 slots so
 * that d[delnum] with a symbolic delnum stays small (a 130-element struct array at a
 * symbolic index ran out of memory).  The allocation is exactly what main() makes:
 * auto_spawn + 10 elements, so cbmc's bounds check guards the real index arithmetic. */
int auto_spawn = 4;
#define NSLOT (4 + 10)
static struct delivery slots[NSLOT];
static unsigned int rpos, nread;
static unsigned int n_open, n_spawn, n_reports, n_cmds_done;
static int open_fds, rep_delnum = -1;
static unsigned int rep_len; static int in_report;
static char opened_path[NB + 2];
static int spawn_delnum_ok;

/* ---- reference: the k-th complete command inside cmd[] */
static int ref_cmd(unsigned int k, unsigned int *delnum, unsigned int *mid0, unsigned int *midlen, unsigned int *rc0, unsigned int *rclen)
{
  unsigned int p = 0, c, f;
  for (c = 0; c < NB; ++c) {
    unsigned int start[3], len[3];
    if (p >= NB) return 0;
    *delnum = cmd[p++];
    for (f = 0; f < 3; ++f) {
      start[f] = p;
      while (p < NB && cmd[p]) ++p;
      if (p >= NB) return 0;           /* incomplete */
      len[f] = p - start[f];
      ++p;
    }
    if (c == k) { *mid0 = start[0]; *midlen = len[0]; *rc0 = start[2]; *rclen = len[2]; return 1; }
  }
  return 0;
}

static int ref_messid_ok(unsigned int m0, unsigned int mlen)
{
  unsigned int i;
  if (mlen == 0 || mlen > 100) return 0;
  for (i = 0; i < NB; ++i) {
    unsigned char ch;
    if (i >= mlen) break;
    ch = cmd[m0 + i];
    if (ch >= '0' && ch <= '9') continue;
    if (ch == '/' && i > 0) continue;
    return 0;
  }
  return 1;
}

/* ---- environment */
ssize_t vf_read(int fd, void *buf, size_t n)
{
  unsigned int k, end, i;
  CHECK(fd == 0, "commands are read from descriptor 0");
  ++nread;
  end = (nread == 1) ? split : NB;
  if (rpos >= NB) return 0;
  k = end - rpos;
  CHECK(n >= NB, "command buffer larger than the stream (harness sizing)");
  for (i = 0; i < NB; ++i) { if (i >= k) break; ((char *) buf)[i] = (char) cmd[rpos + i]; }
  rpos = end;
  return (ssize_t) k;
}

int vf_open(const char *path, int flags, ...)
{
  unsigned int i, dn, m0, ml, r0, rl;
  ++n_open;
  CHECK((flags & O_ACCMODE) == O_RDONLY, "message files are opened read-only");
  CHECK(ref_cmd(0, &dn, &m0, &ml, &r0, &rl), "open only while serving a complete command");
  CHECK(path[0] >= '0' && path[0] <= '9', "C18: the message file name starts with a digit");
  for (i = 0; i < NB + 1; ++i) {
    if (!path[i]) break;
    CHECK((path[i] >= '0' && path[i] <= '9') || path[i] == '/', "C18: the message file name consists of digits and '/' only");
    if (i < NB + 1) opened_path[i] = path[i];
  }
  if (in_open_fail) { errno = ENOENT; return -1; }
  ++open_fds;
  return 8;
}

int vf_fstat(int fd, struct stat *st)
{
  CHECK(fd == 8, "fstat on the message file");
  if (in_fstat_fail) { errno = EIO; return -1; }
  st->st_mode = in_mode; st->st_uid = in_uid;
  return 0;
}

int vf_pipe(int pi[2]) { if (in_pipe_fail) { errno = EMFILE; return -1; } pi[0] = 9; pi[1] = 10; open_fds += 2; return 0; }
int vf_close(int fd) { CHECK(fd == 8 || fd == 9 || fd == 10, "closes its own descriptors"); --open_fds; return 0; }
int coe(int fd) { return 0; }

int spawn(int fdmess, int fdout, char *s, char *r, int at)
{
  unsigned int dn, m0, ml, r0, rl;
  ++n_spawn;
  CHECK(ref_cmd(0, &dn, &m0, &ml, &r0, &rl), "a delivery starts only for a complete command");
  CHECK(fdmess == 8 && fdout == 10, "delivery gets the message file and the report pipe");
  CHECK((in_mode & S_IFMT) == S_IFREG && in_uid == UIDQ, "C18: a delivery starts only for a regular file owned by the queue user");
  CHECK(ref_messid_ok(m0, ml), "C18: a delivery starts only for a numerically named message file");
  CHECK(r[at] == '@', "recipient is split at its last @");
  spawn_delnum_ok = ((unsigned int) delnum == dn && dn < (unsigned int) auto_spawn && !in_used);
  CHECK(spawn_delnum_ok, "C18: a delivery occupies the slot named in the command, which is inside the table and free");
  if (in_spawn_fail) return -1;
  return 4321;
}

/* reports go through ssout (ideal stream): <delnum byte> text NUL, flushed */
int ideal_putc(substdio *s, unsigned char c)
{
  CHECK(s == &ssout, "reports are written to descriptor 1");
  if (!in_report) { in_report = 1; rep_delnum = c; rep_len = 0; return 0; }
  if (c == 0) { in_report = 0; ++n_reports; return 0; }
  ++rep_len;
  return 0;
}
int ideal_flush(substdio *s) { return 0; }
int ideal_getc(substdio *s) { CHECK(0, "no substdio input"); return -1; }

void vmain(void)
{
  unsigned int dn = 0, m0 = 0, ml = 0, r0 = 0, rl = 0;
  sym_inputs();
  ASSUME(split <= NB);
  ASSUME(in_used <= 1);
  ASSUME((in_open_fail | in_fstat_fail | in_pipe_fail | in_spawn_fail) <= 1 && in_open_fail >= 0 && in_fstat_fail >= 0 && in_pipe_fail >= 0 && in_spawn_fail >= 0);
  auto_uidq = UIDQ;
  d = slots;
  substdio_fdbuf(&ssout, okwrite, 1, outbuf, sizeof outbuf);
  stralloc_copys(&messid, ""); stralloc_copys(&sender, ""); stralloc_copys(&recip, "");
  /* the slot addressed by the first command may already be in use */
  if (cmd[0] < NSLOT) slots[cmd[0]].used = in_used;

  /* bound of this harness: at most one complete command in the stream (plus an incomplete tail) */
  ASSUME(!ref_cmd(1, &dn, &m0, &ml, &r0, &rl));
  getcmd();                       /* first read: cmd[0..split) */
  getcmd();                       /* second read: the rest */
  getcmd();                       /* end of input */
  CHECK(flagreading == 0, "end of input is noticed");
  n_cmds_done = ref_cmd(0, &dn, &m0, &ml, &r0, &rl) ? 1 : 0;
  CHECK(n_spawn + n_reports == n_cmds_done, "C18: every complete command gets exactly one answer (one report or one started delivery)");
  CHECK(!in_report, "no report is left unterminated");
  if (ref_cmd(0, &dn, &m0, &ml, &r0, &rl)) {
    if (n_reports >= 1 && n_spawn == 0 && n_cmds_done == 1) {
      CHECK(rep_delnum == (int) dn, "C18: the report carries the delivery number of its command");
      CHECK(rep_len >= 2, "the report has a status letter and a text");
      WITNESS("command_refused_with_report");
    }
    if (n_spawn == 1 && n_cmds_done == 1) {
      if (!in_spawn_fail) { CHECK(slots[dn].used == 1 && slots[dn].pid == 4321, "the slot records the running delivery"); WITNESS("delivery_started"); }
    }
    if (!ref_messid_ok(m0, ml)) CHECK(n_open == 0, "C18: a message id that is not numeric is never opened");
  } else {
    CHECK(n_spawn == 0 && n_reports == 0 && n_open == 0, "C18: an incomplete command has no effect");
    WITNESS("incomplete_command_waits");
  }
  CHECK(open_fds == ((n_spawn == 1 && !in_spawn_fail) ? 2 : 0), "descriptors are not leaked: only a running delivery keeps its report pipe");
}
