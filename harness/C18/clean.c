/* C18 - qmail-clean.c main(): every request stream of up to N bytes.
 * Encoded from /repo: qmail-clean.c main, respond (cleanuppid cut: it only looks at
 * pid/), fmtqfn.c, fmt_ulong.c, fmt_str.c, scan_ulong.c, stralloc units.
 * Reference (qmail-clean(8), INTERNALS.md): a request is  "foop/" | "todo/"  followed by
 * 1.. decimal digits and NUL, 7 <= length <= 100.  foop/N removes intd/N then
 * mess/(N mod split)/N; todo/N removes intd/N then todo/N; answer '+', or '!' after the
 * first unlink that fails with anything but ENOENT; every other request: 'x', no unlink.
 * Exactly one status byte per request. */
#include "verif.h"
#include <errno.h>
#include "gen_qmail-clean.c"
#include "auto_split.h"

/* sizes are concrete per query (DESIGN.md 2.4): request 1 has L1 bytes including its
 * NUL, request 2 has L2 bytes (0 = absent), then TAIL unterminated bytes, then EOF */
#ifndef L1
#define L1 9
#endif
#ifndef L2
#define L2 0
#endif
#ifndef TAIL
#define TAIL 0
#endif
#define N (L1 + L2 + TAIL)

unsigned char in[N];
static const unsigned int inlen = N;
unsigned char ufail[4];        /* per unlink call: 0 ok, 1 ENOENT, 2 EIO */

static unsigned int inpos;
static unsigned int nresp;     /* status bytes written so far */
static unsigned int nreq;      /* complete requests handed to the program so far */
static unsigned int req_start, req_end;   /* current request = in[req_start..req_end) incl. NUL */
static unsigned int nunlink_req;          /* unlink calls during current request */
static unsigned int nunlink_total;
static int failed_req;                    /* an unlink of this request failed hard */
static char last_status;

char auto_qmail[] = "/var/qmail";
static char inbuf_[16], outbuf_[16];
static substdio ssi_ = SUBSTDIO_FDBUF(read, 0, inbuf_, sizeof inbuf_);
static substdio sso_ = SUBSTDIO_FDBUF(write, 1, outbuf_, sizeof outbuf_);
substdio *subfdinsmall = &ssi_;
substdio *subfdoutsmall = &sso_;

void sym_inputs(void)
{
#ifdef REPLAY
#include "replay_inputs.inc"
#else
  SYM_FEED();
  SYM_ARR(in); SYM_ARR(ufail);
#endif
}

/* ---- reference classification of the current request (no 64-bit arithmetic: the
 * expected path names are built from the request's own digits) */
static int ref_wellformed(int *kind)
{
  unsigned int len = req_end - req_start, i;
  const unsigned char *r = in + req_start;
  if (len < 7 || len > 100) return 0;
  if (r[0] == 'f' && r[1] == 'o' && r[2] == 'o' && r[3] == 'p' && r[4] == '/') *kind = 0;
  else if (r[0] == 't' && r[1] == 'o' && r[2] == 'd' && r[3] == 'o' && r[4] == '/') *kind = 1;
  else return 0;
  for (i = 5; i < N; ++i) {
    if (i >= len - 1) break;
    if (r[i] < '0' || r[i] > '9') return 0;
  }
  return 1;
}

#define PATHMAX (N + 12)
static int str_eq(const char *a, const char *b)
{
  unsigned int i;
  for (i = 0; i < PATHMAX; ++i) { if (a[i] != b[i]) return 0; if (!a[i]) return 1; }
  return 0;
}

static void ref_path(char *out, int kind, int which)
{
  /* which 0: intd/N   which 1: mess/S/N (foop) or todo/N (todo); N printed in decimal
   * without leading zeros, S = N mod auto_split */
  unsigned int n = 0, len = req_end - req_start, i, first;
  const unsigned char *r = in + req_start;
  const char *pre = (which == 0) ? "intd/" : (kind == 0 ? "mess/" : "todo/");
  for (i = 0; i < 5; ++i) out[n++] = pre[i];
  if (which == 1 && kind == 0) {
    unsigned int m = 0;
    for (i = 5; i < N; ++i) { if (i >= len - 1) break; m = (m * 10 + (r[i] - '0')) % (unsigned int) auto_split; }
    if (m >= 100) out[n++] = '0' + (m / 100) % 10;
    if (m >= 10) out[n++] = '0' + (m / 10) % 10;
    out[n++] = '0' + m % 10;
    out[n++] = '/';
  }
  first = 5;
  for (i = 5; i < N; ++i) { if (i + 2 >= len) break; if (r[i] == '0' && first == i) first = i + 1; }
  for (i = 5; i < N; ++i) { if (i >= len - 1) break; if (i >= first) out[n++] = r[i]; }
  out[n] = 0;
}

/* ---- environment */
int ideal_getc(substdio *s)
{
  CHECK(s == subfdinsmall, "requests are read from descriptor 0 only");
  if (inpos >= inlen) return -1;
  if (inpos == req_end) {              /* first byte of a new request is being read */
    CHECK(nresp == nreq, "C18: exactly one status byte per request (before reading the next)");
  }
  {
    unsigned char c = in[inpos++];
    if (c == 0) {                      /* request complete: in[req_end_old .. inpos) */
      req_start = req_end; req_end = inpos; ++nreq;
      nunlink_req = 0; failed_req = 0;
    }
    return c;
  }
}

int ideal_putc(substdio *s, unsigned char c)
{
  int kind;
  CHECK(s == subfdoutsmall, "status bytes go to descriptor 1 only");
  ++nresp;
  last_status = (char) c;
  CHECK(nreq >= 1 && nresp == nreq, "C18: at most one status byte per request");
  if (nreq >= 1 && ref_wellformed(&kind)) {
    if (failed_req) { CHECK(c == '!', "C18: hard unlink failure is answered '!'"); }
    else { CHECK(c == '+', "C18: well-formed request is answered '+'");
           CHECK(nunlink_req == 2, "C18: both files of the message were unlinked before '+'"); }
  } else {
    CHECK(c == 'x', "C18: malformed request is answered 'x'");
    CHECK(nunlink_req == 0, "C18: rejected request changes nothing");
  }
  return 0;
}

int ideal_flush(substdio *s) { return 0; }

int vf_unlink(const char *path)
{
  int kind; char want[PATHMAX + 1];
  unsigned int k = nunlink_total < 4 ? nunlink_total : 3;
  int wf = (nreq >= 1) && ref_wellformed(&kind);
  CHECK(wf, "C18: unlink only while serving a well-formed request");
  CHECK(nresp == nreq - 1, "C18: unlink only before the request was answered");
  CHECK(nunlink_req < 2 && !failed_req, "C18: at most two unlinks per request, none after a hard failure");
  if (wf && nunlink_req < 2) {
    ref_path(want, kind, nunlink_req);
    CHECK(str_eq(path, want), "C18: unlink path is intd/N, mess/S/N or todo/N of the requested number");
  }
  ++nunlink_req; ++nunlink_total;
  if (ufail[k] == 1) { errno = ENOENT; return -1; }
  if (ufail[k] == 2) { errno = EIO; failed_req = 1; return -1; }
  return 0;
}

int vf_chdir(const char *p) { return 0; }
void sig_pipeignore(void) {}
void cleanuppid(void) {}           /* definition cut from the generated copy */

void vmain(void)
{
  int rc, kind;
  sym_inputs();
  { unsigned int i;
    for (i = 0; i < N; ++i) {
      int isnul = (i == L1 - 1) || (L2 && i == L1 + L2 - 1);
      ASSUME(isnul ? in[i] == 0 : in[i] != 0);
    } }
  ASSUME(ufail[0] <= 2 && ufail[1] <= 2 && ufail[2] <= 2 && ufail[3] <= 2);
  rc = clean_main();
  CHECK(rc == 0, "qmail-clean ends with status 0 at end of input");
  CHECK(nresp == nreq, "C18: exactly one status byte per request (at end of input)");
  if (nreq == 1 && last_status == '+' && ref_wellformed(&kind) && kind == 0) WITNESS("foop_done");
  if (nreq == 1 && last_status == '+' && ref_wellformed(&kind) && kind == 1) WITNESS("todo_done");
  if (nreq == 1 && last_status == '!') WITNESS("hard_failure");
  if (nreq == 1 && last_status == 'x' && req_end - req_start >= 7) WITNESS("rejected_long_enough");
  CHECK(nreq == (L2 ? 2 : 1), "both requests were consumed");
  WITNESS("end_of_input");
}
