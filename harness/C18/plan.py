from vlib import Obl, Prog, borrow

SMALL = ["fmtqfn.c", "fmt_ulong.c", "fmt_str.c", "scan_ulong.c", "auto_split.c",
         "stralloc_catb.c", "stralloc_opyb.c", "stralloc_pend.c", "stralloc_cats.c", "stralloc_opys.c",
         "byte_copy.c"]

def obligations(tier):
    if tier == "quick":
        grid = [{"L1": l} for l in range(1, 11)] + [{"L1": 7, "L2": 7}, {"L1": 8, "L2": 7, "TAIL": 1}, {"L1": 2, "L2": 8}]
    else:
        # measured: L1=10 76 s, L1>=12 no verdict in 900 s (every further digit doubles the paths through fmt_ulong/scan_ulong)
        grid = [{"L1": l} for l in range(1, 12)] + [{"L1": a, "L2": b, "TAIL": t} for a in (1, 7, 8) for b in (1, 7, 8) for t in (0, 2)]
    SPAWN_UNITS = ["stralloc_catb.c", "stralloc_opyb.c", "stralloc_pend.c", "stralloc_cats.c", "stralloc_opys.c", "byte_copy.c",
                   "byte_rchr.c", "open_read.c", "substdio.c"]
    spawn_err = Obl("spawn_err", "spawn.c", progs=[Prog("spawn.c", nomain=True)], repo=SPAWN_UNITS,
        lib=["ideal_substdio.c", "arena_stralloc.c"], defines={"ARENA_CAP": 48, "ARENA_SLOTS": 8, "MODE": 1, "NB": 4},
        sysrename=["read", "open", "fstat", "pipe", "close"], unwind_default=12, timeout=300,
        functions=["spawn.c:err"], claim="err() writes <delivery number byte> <text> NUL to descriptor 1 and flushes (contract used by spawn_commands)",
        expect_witnesses=["report_written"])
    SPAWN_COMMON = dict(repo=SPAWN_UNITS, lib=["ideal_substdio.c", "arena_stralloc.c"],
                        sysrename=["read", "open", "fstat", "pipe", "close"],
                        stubs=["read: the NB bytes in two chunks (symbolic split)", "open/fstat/pipe: may fail; fstat reports symbolic mode and owner",
                               "conf-spawn (auto_spawn) set to 4 in the harness"])
    spawn_framing = Obl("spawn_getcmd", "spawn.c", progs=[Prog("spawn.c", nomain=True, cut=["docmd"])],
        defines={"ARENA_CAP": 48, "ARENA_SLOTS": 8, "MODE": 0},
        grid=[{"NB": n} for n in ((4, 6) if tier == "quick" else (4, 6, 7, 8))],
        unwind_default=lambda p: p["NB"] + 3, timeout=900 if tier == "quick" else 3400, backend="cadical",
        functions=["spawn.c:getcmd"], cuts=["docmd -> observer (proved by obligation spawn_docmd)"],
        assumes=["command stream of exactly NB symbolic bytes, split at a symbolic point over two reads, then end of input"],
        outside=["streams longer than NB bytes, out-of-memory (flagabort) path"],
        claim="getcmd() executes every complete command exactly once, in order, with exactly its delivery number, message id, sender and recipient, "
              "whatever the split into reads; an incomplete command has no effect",
        expect_witnesses=lambda p: ["incomplete_command_waits", "one_command"] + (["two_commands"] if p["NB"] >= 8 else []), **SPAWN_COMMON)
    spawn = Obl("spawn_docmd", "spawn.c", progs=[Prog("spawn.c", nomain=True, cut=["err"])],
        defines={"ARENA_CAP": 48, "ARENA_SLOTS": 8, "MODE": 2},
        grid=[{"ML": m, "RL": r} for (m, r) in (((1, 3), (3, 3), (4, 1)) if tier == "quick" else ((0, 3), (1, 3), (2, 3), (3, 3), (4, 3), (5, 4), (4, 1), (3, 0)))],
        unwind_default=lambda p: p["ML"] + p["RL"] + 8, timeout=900,
        functions=["spawn.c:docmd", "open_read.c", "byte_rchr.c"],
        cuts=["err -> observed (contract proved by obligation spawn_err)", "spawn() (qmail-lspawn.c/qmail-rspawn.c) -> observing stub", "coe -> no-op"],
        assumes=["one command: symbolic delivery number byte, message id of ML symbolic non-NUL bytes, recipient of RL symbolic non-NUL bytes, "
                 "addressed slot free or in use, symbolic file type/owner, open/fstat/pipe/fork may fail"],
        outside=["message ids longer than 5 bytes (the 100-byte limit is not executed)"],
        claim="docmd() answers a command with exactly one error report carrying its delivery number or one started delivery in its own free slot inside the "
              "table; open() only for ids made of digits and '/' starting with a digit; delivery only for a regular file owned by the queue user; no descriptor leak",
        expect_witnesses=lambda p: ["delnum_too_big_refused"] + (["bad_messid_refused"] if p["ML"] >= 1 else [])
                         + (["refused_after_open", "delivery_started", "slot_reused"] if p["ML"] >= 1 and p["RL"] >= 3 else []), **SPAWN_COMMON)
    NS3 = False     # three slots: enabled once measured
    spawn_main = Obl("spawn_main", "spawnmain.c", progs=[Prog("spawn.c", main_as="spawn_main", cut=["getcmd"])],
        repo=["stralloc_opys.c", "stralloc_opyb.c", "stralloc_cats.c", "stralloc_catb.c", "byte_copy.c", "byte_rchr.c", "open_read.c",
              "wait_nohang.c", "substdio.c"],
        lib=["ideal_substdio.c", "arena_stralloc.c"], defines={"ARENA_CAP": 8, "ARENA_SLOTS": 3},
        sysrename=["read", "close", "select", "waitpid", "_exit", "sleep", "chdir"],
        # measured: K=4 150 s, K=5 445 s (both under load)
        grid=[{"NS": 2, "K": k, "OL": 2, "TR": tr} for (k, tr) in (((4, 0),) if tier == "quick" else ((4, 3000), (5, 0)))]
             + ([{"NS": 3, "K": 4, "OL": 1, "TR": 0}] if NS3 else []),
        unwind=lambda p: {"spawn_main~for (;;)": p["K"] + 2, "sigchld~while": p["NS"] + 2},
        # FD_ZERO is a 16-iteration loop
        unwind_default=18, timeout=900 if tier == "quick" else 3000,
        functions=["spawn.c:main", "spawn.c:sigchld", "spawn.c:okwrite", "wait_nohang.c:wait_nohang"],
        cuts=["getcmd -> an accepted command occupies a free slot exactly as docmd() leaves it (obligations spawn_getcmd, spawn_docmd)",
              "report -> observer (real ones: C09 rspawn_report, C20 report_lspawn)"],
        stubs=["select/read/close/waitpid: model of NS children with symbolic output (0..OL bytes), symbolic death instant and wait status; SIGCHLD "
               "delivered inside select() only (the real handler runs), late or for several children at once; EINTR; arbitrary non-empty subsets of "
               "what is ready; short reads and read errors", "sig_*: record blocked/unblocked", "ssout: ideal stream"],
        assumes=["K loop iterations, NS slots, child output <= OL bytes; truncreport TR (0 = qmail-rspawn, 3000 = qmail-lspawn; not reached by OL bytes)"],
        outside=["the truncation branch for outputs longer than truncreport", "more than K iterations"],
        claim="the spawner's event loop reports every started delivery exactly once, after its child was reaped, with that child's own wait status and "
              "exactly its output, framed <slot> .. NUL and flushed; slots and pipe ends are released exactly then; it exits only at end of commands "
              "with nothing outstanding",
        expect_witnesses=lambda p: ["bound_reached", "clean_exit", "crashed_child_reported_with_its_status", "full_output_reported"]
                                   + (["two_deliveries_then_exit"] if p["K"] >= 5 else []))
    # the queue manager's side of the report channel (shared with C03)
    shared = borrow("C03", ["del_dochan", "del_dochan_truncation"], tier)
    return shared + [spawn_err, spawn_framing, spawn, spawn_main,
        Obl("clean_requests", "clean.c",
            progs=[Prog("qmail-clean.c", main_as="clean_main", cut=["cleanuppid"])],
            repo=SMALL, lib=["ideal_substdio.c", "ideal_getln.c", "arena_stralloc.c"],
            defines={"ARENA_CAP": 208, "ARENA_SLOTS": 2},
            sysrename=["unlink", "chdir"],
            grid=grid,
            unwind_default=lambda p: p["L1"] + p.get("L2", 0) + p.get("TAIL", 0) + 3,
            unwind=lambda p: {"clean_main~for (;;)": 5, "fmt_str": 8,
                              # message numbers inside the bound have at most L-6 digits; the unwinding
                              # assertion proves that fmt_ulong never needs more iterations than that
                              "fmt_ulong": max(2, max(p["L1"], p.get("L2", 0)) - 6 + 2)},
            timeout=900 if tier == "quick" else 2400,
            functions=["qmail-clean.c:main", "qmail-clean.c:respond", "fmtqfn.c:fmtqfn", "fmt_ulong.c", "fmt_str.c",
                       "scan_ulong.c", "stralloc_*.c"],
            cuts=["cleanuppid -> no-op (touches only pid/, not part of the request protocol)"],
            stubs=["getln/substdio: ideal streams", "unlink: records path, may fail ENOENT/EIO (symbolic per call)",
                   "chdir, sig_pipeignore: no-ops", "stralloc_ready/readyplus: arena (208 bytes)"],
            assumes=["request stream = request of L1 bytes (+ request of L2 bytes) (+ TAIL unterminated bytes) then EOF; lengths concrete per query, all non-NUL byte values symbolic"],
            outside=["requests longer than the grid (in particular digit strings that overflow unsigned long)"],
            claim="every request gets exactly one status byte; unlink is called only for well-formed requests and only on "
                  "intd/N, mess/(N%split)/N or todo/N of the decimal number named; malformed requests change nothing",
            expect_witnesses=lambda p: ["end_of_input"] + (["foop_done", "todo_done", "hard_failure", "rejected_long_enough"]
                                                             if p["L1"] >= 7 and not p.get("L2") else [])),
    ]
