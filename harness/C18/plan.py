from vlib import Obl, Prog, borrow

SMALL = ["fmtqfn.c", "fmt_ulong.c", "fmt_str.c", "scan_ulong.c", "auto_split.c",
         "stralloc_catb.c", "stralloc_opyb.c", "stralloc_pend.c", "stralloc_cats.c", "stralloc_opys.c",
         "byte_copy.c"]

def obligations(tier):
    if tier == "quick":
        grid = [{"L1": l} for l in range(1, 11)] + [{"L1": 7, "L2": 7}, {"L1": 8, "L2": 7, "TAIL": 1}, {"L1": 2, "L2": 8}]
    else:
        grid = [{"L1": l} for l in range(1, 15)] + [{"L1": a, "L2": b, "TAIL": t} for a in (1, 6, 7, 8, 9) for b in (1, 6, 7, 8, 9) for t in (0, 2)]
    spawn = Obl("spawn_commands", "spawn.c",
        progs=[Prog("spawn.c", nomain=True)],
        repo=["stralloc_catb.c", "stralloc_opyb.c", "stralloc_pend.c", "stralloc_cats.c", "stralloc_opys.c", "byte_copy.c",
              "byte_rchr.c", "open_read.c", "substdio.c"],
        lib=["ideal_substdio.c", "arena_stralloc.c"], defines={"ARENA_CAP": 48, "ARENA_SLOTS": 8},
        sysrename=["read", "open", "fstat", "pipe", "close"],
        grid=[{"NB": n} for n in ((4, 6, 8) if tier == "quick" else (4, 5, 6, 7, 8, 9, 10, 12))],
        unwind_default=lambda p: p["NB"] + 3, unwind={"substdio_put": 60}, timeout=900,
        functions=["spawn.c:getcmd", "spawn.c:docmd", "spawn.c:err", "spawn.c:okwrite", "open_read.c", "byte_rchr.c"],
        cuts=["spawn() (qmail-lspawn.c/qmail-rspawn.c) -> observing stub", "coe -> no-op", "main loop, sigchld, report() outside this obligation"],
        stubs=["read: the NB bytes in two chunks (symbolic split)", "open/fstat/pipe: may fail; fstat reports symbolic mode and owner",
               "reports: ideal stream on descriptor 1"],
        assumes=["command stream of exactly NB symbolic bytes holding at most one complete command; addressed slot free or in use (symbolic); "
                 "conf-spawn (auto_spawn) set to 4 in the harness (delivery numbers 4..255 are then 'too big')"],
        outside=["streams with several commands, commands longer than NB bytes, out-of-memory (flagabort) path"],
        claim="every complete command is answered by exactly one error report carrying its delivery number or by one started delivery in its own free slot "
              "inside the table; the message file is opened only if its id is digits and '/' starting with a digit; a delivery starts only for a regular file "
              "owned by the queue user; incomplete commands have no effect; no descriptor leaks on refusals",
        expect_witnesses=lambda p: ["incomplete_command_waits", "command_refused_with_report"] + (["delivery_started"] if p["NB"] >= 8 else []))
    # the queue manager's side of the report channel (shared with C03)
    shared = borrow("C03", ["del_dochan", "del_dochan_truncation"], tier)
    return shared + [spawn,
        Obl("clean_requests", "clean.c",
            progs=[Prog("qmail-clean.c", main_as="clean_main", cut=["cleanuppid"])],
            repo=SMALL, lib=["ideal_substdio.c", "ideal_getln.c", "arena_stralloc.c"],
            defines={"ARENA_CAP": 208, "ARENA_SLOTS": 2},
            sysrename=["unlink", "chdir"],
            grid=grid,
            unwind_default=lambda p: p["L1"] + p.get("L2", 0) + p.get("TAIL", 0) + 3,
            unwind=lambda p: {"clean_main~for (;;)": 5, "fmt_str": 8,
                              # message numbers inside the bound have at most L-6 digits; the unwinding
                              # assertion proves that fmt_ulong never needs more iterations than that
                              "fmt_ulong": max(2, max(p["L1"], p.get("L2", 0)) - 6 + 2)},
            timeout=900,
            functions=["qmail-clean.c:main", "qmail-clean.c:respond", "fmtqfn.c:fmtqfn", "fmt_ulong.c", "fmt_str.c",
                       "scan_ulong.c", "stralloc_*.c"],
            cuts=["cleanuppid -> no-op (touches only pid/, not part of the request protocol)"],
            stubs=["getln/substdio: ideal streams", "unlink: records path, may fail ENOENT/EIO (symbolic per call)",
                   "chdir, sig_pipeignore: no-ops", "stralloc_ready/readyplus: arena (208 bytes)"],
            assumes=["request stream = request of L1 bytes (+ request of L2 bytes) (+ TAIL unterminated bytes) then EOF; lengths concrete per query, all non-NUL byte values symbolic"],
            outside=["requests longer than the grid (in particular digit strings that overflow unsigned long)"],
            claim="every request gets exactly one status byte; unlink is called only for well-formed requests and only on "
                  "intd/N, mess/(N%split)/N or todo/N of the decimal number named; malformed requests change nothing",
            expect_witnesses=lambda p: ["end_of_input"] + (["foop_done", "todo_done", "hard_failure", "rejected_long_enough"]
                                                             if p["L1"] >= 7 and not p.get("L2") else [])),
    ]
