/* C18 / C09 / C04 - spawn.c main() and sigchld(): the spawners' event loop.
 *
 * Encoded from /repo: spawn.c main(), sigchld(), okwrite() (getcmd() is cut: command
 * parsing and docmd() are the obligations spawn_getcmd / spawn_docmd; here a command that
 * was accepted simply occupies a free slot exactly as docmd() leaves it).  report() and
 * initialize() are program specific (qmail-lspawn.c / qmail-rspawn.c): report() is an
 * observing stub (the real ones are C09 rspawn_report / C20 report_lspawn).
 *
 * Environment: NS delivery slots; every started child has a symbolic output of 0..OL bytes
 * (any bytes) sitting in its pipe and exits, with a symbolic wait status, during a symbolic
 * select() call.  SIGCHLD is delivered (the REAL handler runs) inside select() only - the
 * loop keeps it blocked elsewhere, which is checked - possibly late, possibly for several
 * children at once; select() may then fail with EINTR.  End of file on a pipe arrives only
 * when the child is dead AND the spawner's own copy of the write end is closed.  select()
 * reports an arbitrary non-empty subset of what is ready; read() returns 1..available bytes
 * or fails.  K loop iterations.
 *
 * Checked (property texts C18 "answer every well-formed delivery command with exactly one
 * report carrying its delivery number", C09 "never upgrades ... a crash ... to success" -
 * i.e. the status handed to report() is the status of THAT delivery's child, C04 "at most
 * one attempt outstanding" - a slot is free again only after its report):
 *   - report() is called once per started delivery, after its child was reaped, with that
 *     child's wait status and exactly the bytes the child wrote, in order;
 *   - on the report stream it is framed as <slot byte> ... NUL and flushed before the loop
 *     blocks again; the first byte on the stream is the spawner's concurrency limit;
 *   - the slot is marked free, and its pipe closed, exactly when the report is out;
 *   - the write end is closed exactly once, when the child is reaped;
 *   - only descriptors that select() reported are read; every running delivery is watched;
 *   - exit (status 0) only at end of commands with no delivery outstanding.
 */
#include "verif.h"
#include <errno.h>
#include <sys/types.h>
#include <sys/stat.h>
#include <sys/select.h>
#include <fcntl.h>
#include <unistd.h>
void getcmd(void);
#include "gen_spawn.c"

#ifndef NS
#define NS 2
#endif
#ifndef K
#define K 5
#endif
#ifndef OL
#define OL 2
#endif
#ifndef TR
#define TR 0
#endif
#define OCAP (OL + 40)

/* ---- symbolic schedule, one entry per select() call (and per slot) */
unsigned char sel_exit[K * NS], sel_sig[K], sel_eintr[K], sel_ready0[K], sel_ready[K * NS];
unsigned char gc_choice[K], gc_slot[K], gc_total[K], gc_early[K];
int gc_wstat[K];
unsigned char rd_chunk[K * NS], rd_err[K * NS];
unsigned char ob[NS * OL + 1];

void sym_inputs(void)
{
#ifdef REPLAY
#include "replay_inputs.inc"
#else
  SYM_ARR(sel_exit); SYM_ARR(sel_sig); SYM_ARR(sel_eintr); SYM_ARR(sel_ready0); SYM_ARR(sel_ready);
  SYM_ARR(gc_choice); SYM_ARR(gc_slot); SYM_ARR(gc_total); SYM_ARR(gc_wstat); SYM_ARR(gc_early);
  SYM_ARR(rd_chunk); SYM_ARR(rd_err); SYM_ARR(ob);
#endif
}

int auto_spawn = NS;
int truncreport = TR;

/* ---- model of the children and pipes, scalar arrays indexed by slot */
static int c_pid[NS], c_wstat[NS];
static unsigned int c_total[NS], c_pos[NS];
static unsigned char c_running[NS], c_exited[NS], c_reaped[NS], c_wr_parent_open[NS], c_rd_open[NS];
static unsigned int n_started[NS], n_reported[NS];
static unsigned char last_ready[NS], last_ready0;
static unsigned int nsel, pidctr, blocked = 1, in_handler;
static char obuf[NS * OCAP];

/* ---- report stream */
static unsigned char outb[2 * K + 4];
static unsigned int outn, flushed_at;
int ideal_getc(substdio *s) { CHECK(0, "no substdio input"); return -1; }
int ideal_putc(substdio *s, unsigned char c)
{
  CHECK(s == &ssout, "reports go to descriptor 1");
  if (outn < sizeof outb) outb[outn] = c;
  ++outn;
  return 0;
}
int ideal_flush(substdio *s) { flushed_at = outn; return 0; }

void initialize(int argc, char **argv) { }
int spawn(int a, int b, char *s, char *r, int at) { CHECK(0, "no delivery is forked by the event loop itself"); return -1; }
int coe(int fd) { return 0; }
void sig_pipeignore(void) { }
void sig_childcatch(void (*f)()) { CHECK(f == sigchld, "SIGCHLD is handled by sigchld()"); }
void sig_childblock(void) { blocked = 1; }
void sig_childunblock(void) { blocked = 0; }
unsigned int vf_sleep(unsigned int s) { return 0; }
int vf_chdir(const char *p) { return 0; }

/* a command was accepted: the slot as docmd() leaves it (obligation spawn_docmd) */
void getcmd(void)
{
  unsigned int it = nsel - 1, k;
  CHECK(flagreading && last_ready0, "commands are read only when descriptor 0 was reported readable");
  if (it >= K) return;
  if (gc_choice[it] == 0) { flagreading = 0; return; }       /* end of commands */
  if (gc_choice[it] == 1) return;                            /* incomplete or refused command: no slot taken */
  ASSUME(gc_slot[it] < NS);
  ASSUME(gc_total[it] <= OL);
  ++pidctr;
  for (k = 0; k < NS; ++k) {         /* concrete index per unrolled iteration: no struct write at a symbolic index */
    if (k != gc_slot[it]) continue;
    ASSUME(!d[k].used);            /* docmd() refuses a slot that is in use (spawn_docmd) */
    /* fork() has returned; the child may die at once.  If SIGCHLD is deliverable here, the handler runs BEFORE the slot
     * records the child (docmd() fills the table after spawn() returns) */
    c_pid[k] = 100 + (int) pidctr; c_wstat[k] = gc_wstat[it]; c_total[k] = gc_total[it]; c_pos[k] = 0;
    c_running[k] = 1; c_exited[k] = 0; c_reaped[k] = 0; c_wr_parent_open[k] = 1; c_rd_open[k] = 1;
    if (!blocked && gc_early[it]) { c_exited[k] = 1; in_handler = 1; sigchld(); in_handler = 0; }
    d[k].output.s = obuf + k * OCAP; d[k].output.a = OCAP; d[k].output.len = 0;      /* stralloc_copys(&d[delnum].output,"") */
    d[k].fdin = 10 + k; d[k].fdout = 20 + k; d[k].pid = 100 + (int) pidctr; d[k].used = 1;
    ++n_started[k];
  }
}

pid_t vf_waitpid(pid_t pid, int *wstat, int opts)
{
  unsigned int k;
  CHECK(in_handler, "children are reaped in the SIGCHLD handler");
  CHECK(pid == -1 && (opts & WNOHANG), "wait_nohang");
  for (k = 0; k < NS; ++k)
    if (c_running[k] && c_exited[k] && !c_reaped[k]) { c_reaped[k] = 1; c_running[k] = 0; *wstat = c_wstat[k]; return c_pid[k]; }
  return 0;
}

static void invariants(const char *where)
{
  unsigned int k, reports = 0;
  for (k = 0; k < NS; ++k) {
    CHECK(n_started[k] - n_reported[k] == (d[k].used ? 1u : 0u), "C18: a delivery slot is in use exactly from its command to its one report");
    if (d[k].used) {
      CHECK(c_rd_open[k], "the report pipe of a running delivery stays open");
      CHECK(c_wr_parent_open[k] == (c_reaped[k] ? 0 : 1), "the spawner's copy of the write end is closed exactly when the child is reaped (else end of file never arrives / arrives early)");
    } else if (n_started[k]) {
      CHECK(!c_rd_open[k] && !c_wr_parent_open[k], "both pipe ends of a finished delivery are closed");
    }
    reports += n_reported[k];
  }
  CHECK(outn == 1 + 2 * reports && outn >= 1 && outb[0] == NS, "C18: the report stream is the concurrency byte followed by one <slot> .. NUL frame per report");
  CHECK(flushed_at == outn, "C18: reports are flushed before the spawner blocks or exits");
}

int vf_select(int nfds, fd_set *rfds, fd_set *w, fd_set *e, struct timeval *tv)
{
  unsigned int it = nsel, k, any = 0;
  int got_sig = 0;
  CHECK(!blocked, "SIGCHLD is unblocked while waiting");
  CHECK(w == 0 && e == 0 && tv == 0, "waits for input only, without timeout");
  invariants("select");
  if (nsel >= K) { WITNESS("bound_reached"); PATH_END(); }
  ++nsel;
  CHECK((FD_ISSET(0, rfds) ? 1 : 0) == (flagreading ? 1 : 0), "commands are awaited until end of input");
  for (k = 0; k < NS; ++k) {
    if (d[k].used) CHECK(FD_ISSET(10 + k, rfds) && nfds > 10 + (int) k, "C18: every running delivery's pipe is watched");
    if (c_running[k] && !c_exited[k] && sel_exit[it * NS + k]) c_exited[k] = 1;     /* the child dies now */
  }
  if (sel_sig[it]) {
    for (k = 0; k < NS; ++k) if (c_running[k] && c_exited[k]) got_sig = 1;
    if (got_sig) { in_handler = 1; sigchld(); in_handler = 0; }
  }
  last_ready0 = 0;
  for (k = 0; k < NS; ++k) last_ready[k] = 0;
  if (got_sig && sel_eintr[it]) { errno = EINTR; return -1; }
  FD_ZERO(rfds);
  if (flagreading && sel_ready0[it]) { FD_SET(0, rfds); last_ready0 = 1; ++any; }
  for (k = 0; k < NS; ++k)
    if (d[k].used && sel_ready[it * NS + k])
      if (c_pos[k] < c_total[k] || (c_exited[k] && !c_wr_parent_open[k])) { FD_SET(10 + k, rfds); last_ready[k] = 1; ++any; }
  if (!any) {
    if (got_sig) { errno = EINTR; return -1; }
    PATH_END();                     /* nothing happens any more in this schedule */
  }
  return (int) any;
}

static ssize_t read_slot(unsigned int k, int fd, void *buf, size_t n)
{
  unsigned int it = nsel - 1, c, i;
  CHECK(d[k].used && d[k].fdin == fd && last_ready[k], "C18: only pipes that select() reported are read");
  last_ready[k] = 0;
  if (rd_err[it * NS + k]) { errno = EIO; return -1; }
  if (c_pos[k] >= c_total[k]) return 0;           /* end of file (select() reported it only when both write ends are closed) */
  c = rd_chunk[it * NS + k];
  ASSUME(c >= 1 && c <= c_total[k] - c_pos[k] && c <= n);
  for (i = 0; i < OL; ++i) { if (i >= c) break; ((char *) buf)[i] = (char) ob[k * OL + c_pos[k] + i]; }
  c_pos[k] += c;
  return (ssize_t) c;
}
ssize_t vf_read(int fd, void *buf, size_t n)
{
  unsigned int k;
  CHECK(fd >= 10 && fd < 10 + NS, "the event loop reads delivery pipes only");
  CHECK(blocked, "SIGCHLD is blocked while the table is used");
  for (k = 0; k < NS; ++k) if (fd == 10 + (int) k) return read_slot(k, fd, buf, n);
  PATH_END();
  return -1;
}

int vf_close(int fd)
{
  unsigned int k;
  for (k = 0; k < NS; ++k) {
    if (fd == 20 + (int) k) {
      CHECK(in_handler && c_wr_parent_open[k] && c_reaped[k], "the write end is closed once, when the child is reaped");
      c_wr_parent_open[k] = 0;
      return 0;
    }
    if (fd == 10 + (int) k) {
      CHECK(c_rd_open[k] && n_reported[k] == n_started[k], "the report pipe is closed once, after the report");
      c_rd_open[k] = 0;
      return 0;
    }
  }
  CHECK(0, "the event loop closes only its own pipe ends");
  return 0;
}

static void report_slot(unsigned int k, int wstat, char *s, int len)
{
  unsigned int i, same = 1;
  CHECK(d[k].used && n_started[k] == n_reported[k] + 1, "C18: one report per delivery command");
  CHECK(outn >= 1 && outb[(outn - 1) % sizeof outb] == k && outn == 2 + 2 * (n_reported[0] + (NS > 1 ? n_reported[NS - 1] : 0) + (NS > 2 ? n_reported[1] : 0)),
        "C18: the report carries the delivery number of its own slot");
  CHECK(c_reaped[k], "C09: a delivery is reported only after its child was reaped (its wait status is known)");
  CHECK(wstat == c_wstat[k], "C09: the wait status handed to report() is the status of this delivery's own child");
#if TR == 0 || TR > OL
  CHECK(len >= 0 && (unsigned int) len == c_total[k] && c_pos[k] == c_total[k], "C09/C18: the report is built from the child's complete output");
  for (i = 0; i < OL; ++i) { if (i >= c_total[k]) break; if ((unsigned char) s[i] != ob[k * OL + i]) same = 0; }
  CHECK(same, "C09/C18: ... exactly its bytes, in order");
#endif
  ++n_reported[k];
  if (WIFSIGNALED(wstat)) WITNESS("crashed_child_reported_with_its_status");
  if (c_total[k] == OL) WITNESS("full_output_reported");
}
void report(substdio *ss, int wstat, char *s, int len)
{
  unsigned int k;
  CHECK(ss == &ssout, "reports go to the queue manager");
  for (k = 0; k < NS; ++k) if (s == obuf + k * OCAP) { report_slot(k, wstat, s, len); return; }
  CHECK(0, "report() gets the output buffer of a delivery slot");
}

void vf__exit(int code)
{
  unsigned int k;
  CHECK(code == 0, "the spawner exits 0");
  CHECK(!flagreading, "C18: exits only at end of commands");
  for (k = 0; k < NS; ++k) CHECK(!d[k].used && n_started[k] == n_reported[k], "C18: exits only when every delivery was reported");
  invariants("exit");
  if (n_reported[0] + n_reported[NS - 1] >= 2) WITNESS("two_deliveries_then_exit");
  WITNESS("clean_exit");
  PATH_END();
#ifdef VERIF_CBMC
  __CPROVER_assume(0);
#endif
}

void vmain(void)
{
  sym_inputs();
  spawn_main(0, 0);
}
