/* arena_small.c - private variant of lib/arena_stralloc.c for the C10 harnesses:
 * replaces only stralloc_eady.c (stralloc_ready, stralloc_readyplus) by fixed-capacity
 * slots.  At most 6 slots, each its own object, handed out by a switch on a counter that
 * stays concrete, so that a pointer into one stralloc never aliases the others in the
 * encoding (with the 24-slot table of lib/arena_stralloc.c every byte written through a
 * parser cursor was encoded as a conditional update of all 24 slots).
 * "Growth is not needed inside the bound" is an obligation (the CHECKs below). */
#include "verif.h"
#include "stralloc.h"

#ifndef ARENA_CAP
#define ARENA_CAP 32
#endif
#ifndef ARENA_SLOTS
#define ARENA_SLOTS 6
#endif
#if ARENA_SLOTS > 6
#error "at most 6 slots"
#endif

static char as0[ARENA_CAP], as1[ARENA_CAP], as2[ARENA_CAP], as3[ARENA_CAP], as4[ARENA_CAP], as5[ARENA_CAP];
static unsigned int arena_used = 0;

static int arena_need(stralloc *x, unsigned int n)
{
  if (!x->s) {
    CHECK(arena_used < ARENA_SLOTS, "arena: more strallocs than ARENA_SLOTS (harness sizing)");
    ASSUME(arena_used < ARENA_SLOTS);
    switch (arena_used) {
      case 0: x->s = as0; break;
      case 1: x->s = as1; break;
      case 2: x->s = as2; break;
      case 3: x->s = as3; break;
      case 4: x->s = as4; break;
      default: x->s = as5; break;
    }
    ++arena_used;
    x->a = ARENA_CAP;
    x->len = 0;
  }
  CHECK(n <= x->a, "arena: stralloc growth beyond its capacity inside the bound (harness sizing)");
  ASSUME(n <= x->a);
  return 1;
}

int stralloc_ready(stralloc *x, unsigned int n) { return arena_need(x, n); }

int stralloc_readyplus(stralloc *x, unsigned int n)
{
  unsigned int len = x->s ? x->len : 0;
  CHECK(n <= 0xffffffffu - len, "arena: len+n wraps");
  ASSUME(n <= 0xffffffffu - len);
  return arena_need(x, len + n);
}
