/* C10 - qmail-send.c senderadd(): per-recipient (VERP) envelope senders.
 * addresses(5): "envelope sender addresses of the form pre@host-@[] are used to support
 * variable envelope return paths (VERPs). qmail-send will rewrite pre@host-@[] as
 * prerecip=domain@host for deliveries to recip@domain."   Every other sender (including
 * the empty sender and #@[]) is handed to the delivery command as it is.
 *
 * Encoded from /repo: qmail-send.c senderadd (text before main), byte_rchr.c, str_rchr.c,
 * stralloc_catb/cats/copyb, byte_copy.c.  Lengths concrete per query, bytes symbolic.
 */
#include "verif.h"
#include "gen_qmail-send.c"

#ifndef SL
#define SL 7           /* sender length */
#endif
#ifndef RL
#define RL 3           /* recipient length */
#endif
#define PL 2           /* bytes already in the command buffer */
#define EMAX (SL + RL + 2)

unsigned char snd[SL + 1];
unsigned char rcp[RL + 1];
unsigned char pre[PL];

void sym_inputs(void)
{
#ifdef REPLAY
#include "replay_inputs.inc"
#else
  SYM_ARR(snd); SYM_ARR(rcp); SYM_ARR(pre);
#endif
}

static unsigned char ex[EMAX + 1]; static unsigned int exlen;
static int undetermined, verp;

static void model(void)
{
  unsigned int i, n = SL;
  int j = -1, k = -1;
  exlen = 0;
  if (n >= 4 && snd[n - 4] == '-' && snd[n - 3] == '@' && snd[n - 2] == '[' && snd[n - 1] == ']') {
    for (i = 0; i + 4 < SL; ++i) if (snd[i] == '@') j = (int) i;        /* pre@host: host after the final @ */
    for (i = 0; i < RL; ++i) if (rcp[i] == '@') k = (int) i;            /* recip@domain: domain after the final @ */
    if (j >= 0) {
      if (k < 0) { undetermined = 1; return; }     /* the documents define VERP only for recipients recip@domain */
      verp = 1;
      for (i = 0; i < SL; ++i) { if ((int) i >= j) break; ex[exlen++] = snd[i]; }
      for (i = 0; i < RL; ++i) { if ((int) i >= k) break; ex[exlen++] = rcp[i]; }
      ex[exlen++] = '=';
      for (i = 0; i < RL; ++i) { if ((int) i > k) ex[exlen++] = rcp[i]; }
      ex[exlen++] = '@';
      for (i = 0; i + 4 < SL; ++i) { if ((int) i > j) ex[exlen++] = snd[i]; }
      return;
    }
  }
  for (i = 0; i < SL; ++i) ex[exlen++] = snd[i];                         /* any other sender: unchanged */
}

void vmain(void)
{
  static stralloc sa;
  static char s[SL + 1], r[RL + 1];
  unsigned int i;

  sym_inputs();
  for (i = 0; i < SL; ++i) { ASSUME(snd[i] != 0); s[i] = (char) snd[i]; }
  for (i = 0; i < RL; ++i) { ASSUME(rcp[i] != 0); r[i] = (char) rcp[i]; }
  s[SL] = 0; r[RL] = 0;
  CHECK(stralloc_copyb(&sa, (char *) pre, PL), "arena");

  senderadd(&sa, s, r);
  model();

  CHECK(sa.len >= PL && (unsigned char) sa.s[0] == pre[0] && (unsigned char) sa.s[1] == pre[1],
        "C10: senderadd appends, earlier bytes of the command are kept");
  if (!undetermined) {
    CHECK(sa.len == PL + exlen, "C10(VERP): sender has the documented length");
    for (i = 0; i < EMAX; ++i) {
      if (i >= exlen || PL + i >= sa.len) break;
      CHECK((unsigned char) sa.s[PL + i] == ex[i], "C10(VERP): sender is pre+recip=domain@host for pre@host-@[], unchanged otherwise");
    }
    if (verp) WITNESS("verp_expanded");
    if (!verp && SL >= 4 && snd[SL - 1] == ']' && snd[SL - 2] == '[' && snd[SL - 3] == '@' && snd[SL - 4] == '#') WITNESS("double_bounce_sender_unchanged");
    if (!verp) WITNESS("unchanged");
  } else {
    WITNESS("verp_recipient_without_at");
  }
}
