/* C10 - qmail-send.c rewrite(): classification (local/remote) and rewriting of one
 * envelope recipient by the control files, against a reference model written from
 * qmail-send(8) [envnoathost, locals, percenthack, virtualdomains], addresses(5) and the
 * property text.
 *
 * Encoded from /repo: qmail-send.c rewrite() (text before main), byte_rchr.c, the real
 * stralloc_copys/cats/cat/catb/copyb/append, byte_copy.c.  stralloc growth: arena.
 * constmap() is CUT: the harness supplies the case-insensitive exact-match lookup over
 * its own symbolic tables; constmap_lemma.c proves on the real constmap.c that
 * constmap_init+constmap is exactly that lookup.
 *
 * Sizes: recipient length R is concrete per query; table sizes and entry lengths are
 * symbolic up to the maxima below (they only drive loops in this harness and the final
 * copies); all contents symbolic.
 */
#include "verif.h"
#include "gen_qmail-send.c"

#ifndef R
#define R 5            /* recipient length */
#endif
#ifndef NLOC
#define NLOC 2         /* locals: entries */
#endif
#ifndef LOCMAX
#define LOCMAX 3       /* locals: entry length */
#endif
#ifndef NVD
#define NVD 2          /* virtualdomains: entries */
#endif
#ifndef VKMAX
#define VKMAX 4        /* virtualdomains: key length (user@dom, dom, .dom, empty) */
#endif
#ifndef VTMAX
#define VTMAX 2        /* virtualdomains: prepend length (0 = exception) */
#endif
#ifndef NPH
#define NPH 1          /* percenthack: entries */
#endif
#ifndef PHMAX
#define PHMAX 3
#endif
#ifndef ENMAX
#define ENMAX 2        /* envnoathost length */
#endif

#define AMAX (R + 1 + ENMAX)            /* longest address after the default host step */
#define OMAX (VTMAX + 1 + AMAX)         /* longest rewritten address */
#ifndef KMAX
#define KMAX 8
#endif

/* ---- symbolic inputs */
unsigned char rcp[R + 1];
unsigned int nloc, nvd, nph;
unsigned char loc_key[NLOC][LOCMAX]; unsigned int loc_len[NLOC];
unsigned char vd_key[NVD][VKMAX];    unsigned int vd_len[NVD];
char vd_tag[NVD][VTMAX + 1];                             /* NUL-terminated prepend */
unsigned char ph_key[NPH][PHMAX];    unsigned int ph_len[NPH];
unsigned char en[ENMAX + 1];         unsigned int en_len;

void sym_inputs(void)
{
#ifdef REPLAY
#include "replay_inputs.inc"
#else
  SYM_ARR(rcp); SYM(nloc); SYM(nvd); SYM(nph);
  { unsigned _ia, _ib;     /* names starting with _i: not recorded as inputs by the driver */
    for (_ia = 0; _ia < NLOC; ++_ia) { SYM(loc_len[_ia]); for (_ib = 0; _ib < LOCMAX; ++_ib) SYM(loc_key[_ia][_ib]); }
    for (_ia = 0; _ia < NVD; ++_ia) { SYM(vd_len[_ia]); for (_ib = 0; _ib < VKMAX; ++_ib) SYM(vd_key[_ia][_ib]);
                                      for (_ib = 0; _ib < VTMAX + 1; ++_ib) SYM(vd_tag[_ia][_ib]); }
    for (_ia = 0; _ia < NPH; ++_ia) { SYM(ph_len[_ia]); for (_ib = 0; _ib < PHMAX; ++_ib) SYM(ph_key[_ia][_ib]); } }
  SYM_ARR(en); SYM(en_len);
#endif
}

/* ---- the lookup contract of the cut constmap() (proved by constmap_lemma.c) */
static unsigned char fold(unsigned char c) { return (c >= 'A' && c <= 'Z') ? (unsigned char) (c + 32) : c; }

static int same(const unsigned char *k, unsigned int klen, const unsigned char *s, unsigned int n)
{
  unsigned int j;
  if (klen != n) return 0;
  for (j = 0; j < KMAX; ++j) { if (j >= n) break; if (fold(k[j]) != fold(s[j])) return 0; }
  return 1;
}

static int in_locals(const unsigned char *s, unsigned int n)
{
  unsigned int e;
  for (e = 0; e < NLOC; ++e) { if (e >= nloc) break; if (same(loc_key[e], loc_len[e], s, n)) return 1; }
  return 0;
}

static int in_percenthack(const unsigned char *s, unsigned int n)
{
  unsigned int e;
  for (e = 0; e < NPH; ++e) { if (e >= nph) break; if (same(ph_key[e], ph_len[e], s, n)) return 1; }
  return 0;
}

static int in_vdoms(const unsigned char *s, unsigned int n)     /* entry index or -1 */
{
  unsigned int e;
  for (e = 0; e < NVD; ++e) { if (e >= nvd) break; if (same(vd_key[e], vd_len[e], s, n)) return (int) e; }
  return -1;
}

static unsigned int n_lookups;

char *constmap(struct constmap *cm, char *s, int len)
{
  int e;
  ++n_lookups;
  CHECK(len >= 0, "constmap called with a non-negative length");
  if (cm == &maplocals) return in_locals((unsigned char *) s, (unsigned int) len) ? "" : 0;
  if (cm == &mappercenthack) return in_percenthack((unsigned char *) s, (unsigned int) len) ? "" : 0;
  CHECK(cm == &mapvdoms, "rewrite consults only locals, percenthack and virtualdomains");
  e = in_vdoms((unsigned char *) s, (unsigned int) len);
  return e < 0 ? (char *) 0 : vd_tag[e];
}

/* ---- reference model (documents only) ------------------------------------------------
 * addresses(5): the domain part is everything after the final @; an envelope recipient
 *   without @ is at envnoathost; domains are compared without regard to case.
 * qmail-send(8): percenthack: if domain is listed, user%fqdn@domain becomes user@fqdn,
 *   repeatedly, before locals; locals: user@domain is local if domain is listed;
 *   virtualdomains (after locals): user@domain:prepend, domain:prepend, .suffix:prepend,
 *   :prepend (catch-all); address becomes prepend-user@domain and is local; an empty
 *   prepend is an exception: not virtual.  Property text: most specific entry decides
 *   (full address, domain, successively shorter dot-suffixes, catch-all). */
static unsigned char m_addr[AMAX + 1]; static unsigned int m_len;
static unsigned char m_out[OMAX + 1];  static unsigned int m_outlen;
static int m_chan;                      /* 1 local, 2 remote */
static int m_undetermined;              /* documents do not define the result */
static int m_fqdn_at;                   /* percent-hack "fqdn" containing @ (witness only) */
static int m_steps, m_rule, m_noat;     /* for the witnesses only */

static int last_at(unsigned int upto)   /* index of the final '@' before upto, or -1 */
{
  int at = -1; unsigned int i;
  for (i = 0; i < AMAX; ++i) { if (i >= upto) break; if (m_addr[i] == '@') at = (int) i; }
  return at;
}

static void model(void)
{
  unsigned int i, o, step;
  int at, e;

  m_len = R;
  for (i = 0; i < R; ++i) m_addr[i] = rcp[i];
  if (last_at(m_len) < 0) {                                /* no @: default host */
    m_noat = 1;
    m_addr[m_len++] = '@';
    for (i = 0; i < ENMAX; ++i) { if (i >= en_len) break; m_addr[m_len++] = en[i]; }
  }
  for (step = 0; step < R + 1; ++step) {                   /* percent hack, repeatedly */
    int pc = -1;
    at = last_at(m_len);
    if (!in_percenthack(m_addr + at + 1, m_len - (unsigned int) at - 1)) break;
    for (i = 0; i < AMAX; ++i) { if ((int) i >= at) break; if (m_addr[i] == '%') pc = (int) i; }
    if (pc < 0) break;                                     /* not of the form user%fqdn@domain */
    /* The documents call the text after the last % a fully qualified domain name.  When
     * that text itself contains @ (user%x@y@domain) the rewritten address user@x@y is
     * still fully determined by addresses(5): its domain part is everything after the
     * FINAL @.  (First version: result left open for this class; a seeded change that
     * takes the position of the converted % for the domain showed the class matters.) */
    for (i = 0; i < AMAX; ++i) { if ((int) i >= at) break; if ((int) i > pc && m_addr[i] == '@') m_fqdn_at = 1; }
    m_addr[pc] = '@';
    m_len = (unsigned int) at;
    ++m_steps;
    /* ... with one exception that stays open: if the domain after the final @ of the new
     * address is again a percenthack domain, a literal reading applies the hack once more
     * while the code looks at the text after the converted % (which contains an @) and
     * stops.  The documents do not settle this; only this sub-class is left undetermined. */
    if (m_fqdn_at) {
      int at2 = last_at(m_len);
      if (in_percenthack(m_addr + at2 + 1, m_len - (unsigned int) at2 - 1)) { m_undetermined = 1; break; }
      /* ... and the mirror image: the text after the converted % (which contains an @) is itself listed in percenthack - an
       * entry with an @ in it, which no domain is - so the code goes on where the literal reading (domain = text after the
       * FINAL @) stops.  Found by the thorough tier on the unchanged tree (%%@@Y with percenthack entries "@" and "Y"): my
       * model was one-sided, the documents are as silent here as above. */
      if (in_percenthack(m_addr + pc + 1, m_len - (unsigned int) pc - 1)) { m_undetermined = 1; break; }
    }
  }
  at = last_at(m_len);
  m_outlen = 0; o = 0;
  if (in_locals(m_addr + at + 1, m_len - (unsigned int) at - 1)) { m_chan = 1; m_rule = 1; }
  else {
    m_chan = 2; m_rule = 0;
    e = in_vdoms(m_addr, m_len);                           /* full address */
    if (e >= 0) m_rule = 2;
    if (e < 0) { e = in_vdoms(m_addr + at + 1, m_len - (unsigned int) at - 1); if (e >= 0) m_rule = 3; }   /* domain */
    for (i = 0; i < AMAX; ++i) {                           /* .suffix, longest first */
      if (i >= m_len) break;
      if (e < 0 && (int) i > at && m_addr[i] == '.') { e = in_vdoms(m_addr + i, m_len - i); if (e >= 0) m_rule = 4; }
    }
    if (e < 0) { e = in_vdoms(m_addr + m_len, 0); if (e >= 0) m_rule = 5; }   /* catch-all */
    if (e >= 0) {
      if (vd_tag[e][0]) {
        m_chan = 1;
        for (i = 0; i < VTMAX; ++i) { if (!vd_tag[e][i]) break; m_out[o++] = (unsigned char) vd_tag[e][i]; }
        m_out[o++] = '-';
      } else m_rule += 10;                                 /* exception entry: stays remote */
    }
  }
  for (i = 0; i < AMAX; ++i) { if (i >= m_len) break; m_out[o++] = m_addr[i]; }
  m_outlen = o;
}

void vmain(void)
{
  unsigned int i, a, b;
  int r;
  static char recip[R + 1];

  sym_inputs();
  /* ---- stated domain */
  for (i = 0; i < R; ++i) ASSUME(rcp[i] != 0);                         /* C string of length R */
  ASSUME(nloc <= NLOC && nvd <= NVD && nph <= NPH && en_len <= ENMAX);
  /* control_readfile() drops empty lines: locals and percenthack entries are non-empty */
  for (a = 0; a < NLOC; ++a) { ASSUME(loc_len[a] >= 1 && loc_len[a] <= LOCMAX); for (b = 0; b < LOCMAX; ++b) ASSUME(loc_key[a][b] != 0); }
  for (a = 0; a < NPH; ++a) { ASSUME(ph_len[a] >= 1 && ph_len[a] <= PHMAX); for (b = 0; b < PHMAX; ++b) ASSUME(ph_key[a][b] != 0); }
  for (a = 0; a < NVD; ++a) {
    ASSUME(vd_len[a] <= VKMAX);
    for (b = 0; b < VKMAX; ++b) ASSUME(vd_key[a][b] != 0 && vd_key[a][b] != ':');   /* key = text before the first colon */
    ASSUME(vd_tag[a][VTMAX] == 0);
  }
  for (i = 0; i < ENMAX; ++i) ASSUME(en[i] != 0 && en[i] != '@');      /* envnoathost is a domain name */
  /* the same key listed twice is outside the domain (documents do not say which wins) */
  for (a = 0; a < NLOC; ++a) for (b = 0; b < NLOC; ++b)
    if (a < b && b < nloc) ASSUME(!same(loc_key[a], loc_len[a], loc_key[b], loc_len[b]));
  for (a = 0; a < NVD; ++a) for (b = 0; b < NVD; ++b)
    if (a < b && b < nvd) ASSUME(!same(vd_key[a], vd_len[a], vd_key[b], vd_len[b]));
  for (a = 0; a < NPH; ++a) for (b = 0; b < NPH; ++b)
    if (a < b && b < nph) ASSUME(!same(ph_key[a], ph_len[a], ph_key[b], ph_len[b]));

  /* ---- run the real code */
  envnoathost.s = (char *) en; envnoathost.len = en_len; envnoathost.a = ENMAX + 1;
  for (i = 0; i < R; ++i) recip[i] = (char) rcp[i];
  recip[R] = 0;
  r = rewrite(recip);

  /* ---- compare */
  model();
  CHECK(r == 1 || r == 2, "rewrite succeeds when memory is available");
  if (!m_undetermined) {
    CHECK(r == m_chan, "C10: recipient is classified local/remote as documented");
    CHECK(rwline.len == m_outlen + 2, "C10: rewritten recipient has the documented length");
    CHECK(rwline.len >= 2 && rwline.s[0] == 'T' && rwline.s[rwline.len - 1] == 0, "rwline is a T record ending in NUL");
    for (i = 0; i < OMAX; ++i) {
      if (i >= m_outlen || i + 2 >= rwline.len) break;
      CHECK((unsigned char) rwline.s[1 + i] == m_out[i], "C10: rewritten recipient is the documented address");
    }
    if (m_rule == 1) WITNESS("locals");
    if (m_rule == 1 && m_steps >= 1 && m_noat) WITNESS("default_host_then_percenthack");
    if (m_steps >= 2) WITNESS("percenthack_twice");
    if (m_rule == 2) WITNESS("virtual_user");
    if (m_rule == 3) WITNESS("virtual_domain");
    if (m_rule == 4) WITNESS("virtual_wildcard");
    if (m_rule == 5) WITNESS("virtual_catchall");
    if (m_rule >= 10) WITNESS("virtual_exception");
    if (m_rule == 0) WITNESS("remote");
    if (m_fqdn_at) WITNESS("undetermined_fqdn_with_at");   /* name kept from the first version: now compared */
  } else {
    WITNESS("percenthack_again_after_fqdn_with_at");
  }
}
