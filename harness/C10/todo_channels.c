/* C10 - qmail-send.c todo_do(), T branch: every recipient record of a new message is
 * written, rewritten as rewrite() says, to exactly one channel file (local/<id> or
 * remote/<id>), in the order of the envelope; none dropped, duplicated or merged; a
 * channel file exists only if it has recipients; the message is scheduled on exactly the
 * channels that got recipients.
 *
 * Encoded from /repo: qmail-send.c todo_do, fnmake_* (text before main), fmtqfn.c,
 * fmt_ulong.c, fmt_str.c, scan_ulong.c, open_read.c, open_excl.c, substdio.c.
 * rewrite() is CUT (its own obligation): the stub returns the channel from a symbolic
 * tape and leaves 'T' + a symbolic tag byte + the recipient + NUL in rwline, so that what
 * must arrive in the channel file differs from the input record.
 * Environment: no failing system call (failure handling of todo_do is C03's subject);
 * substdio/getln = ideal streams; todo/7 holds u, p, F records and K T records with
 * one-byte symbolic recipients.
 */
#include <sys/types.h>
#include <sys/stat.h>
#include <dirent.h>
#include <stdarg.h>
#include <time.h>
#include "verif.h"
#include "gen_qmail-send.c"

#ifndef K
#define K 2
#endif
#define HEAD 9                    /* "u1\0p2\0Fs\0" */
#define INLEN (HEAD + 3 * K)

unsigned char rc[K + 1];          /* recipients (one byte each) */
unsigned char chan[K + 1];        /* what rewrite() says: 1 local, 2 remote */
unsigned char tag[K + 1];         /* byte that rewrite() puts in front */

void sym_inputs(void)
{
#ifdef REPLAY
#include "replay_inputs.inc"
#else
  SYM_ARR(rc); SYM_ARR(chan); SYM_ARR(tag);
#endif
}

/* ---- todo/7 */
static unsigned char in[INLEN + 1]; static unsigned int inpos;

/* ---- files written */
#define FD_TODO 10
#define FD_INFO 11
#define FD_LOCAL 12
#define FD_REMOTE 13
#define OUTMAX (4 * K + 4)
static unsigned char out[2][OUTMAX]; static unsigned int outlen[2];
static unsigned char info[8]; static unsigned int infolen;
static unsigned int opened[2], cleaned, n_rewrite, ins[2], ins_done;
static char rwbuf[4];

int rewrite(char *recip)          /* cut */
{
  unsigned int k = n_rewrite++;
  CHECK(k < K, "rewrite is called once per recipient record");
  if (k >= K) k = 0;
  CHECK((unsigned char) recip[0] == rc[k] && recip[1] == 0, "C10: rewrite sees the recipients in envelope order, unchanged");
  rwbuf[0] = 'T'; rwbuf[1] = (char) tag[k]; rwbuf[2] = recip[0]; rwbuf[3] = 0;
  rwline.s = rwbuf; rwline.len = 4; rwline.a = 4;
  return chan[k];
}

/* ---- system */
static struct dirent fake_ent; static int fake_dir;
struct dirent *vf_readdir(DIR *d) { (void) d; fake_ent.d_name[0] = '7'; fake_ent.d_name[1] = 0; return &fake_ent; }

static int starts(const char *s, const char *p) { unsigned int i; for (i = 0; i < 8; ++i) { if (!p[i]) return 1; if (s[i] != p[i]) return 0; } return 0; }

int vf_open(const char *path, int flags, ...)
{
  (void) flags;
  if (starts(path, "todo/")) return FD_TODO;
  if (starts(path, "info/")) return FD_INFO;
  if (starts(path, "local/")) { ++opened[0]; return FD_LOCAL; }
  if (starts(path, "remote/")) { ++opened[1]; return FD_REMOTE; }
  CHECK(0, "todo_do opens only todo/, info/, local/ and remote/ files");
  return -1;
}
int vf_stat(const char *path, struct stat *st) { (void) path; st->st_size = 100; st->st_mtime = 0; return 0; }
int vf_unlink(const char *path) { (void) path; return 0; }
int vf_fsync(int fd) { (void) fd; return 0; }
int vf_close(int fd) { (void) fd; return 0; }

int ideal_getc(substdio *s)
{
  if (s == &ssfromqc) return '+';                      /* qmail-clean: done */
  CHECK(s->fd == FD_TODO, "only the todo file is read");
  if (inpos >= INLEN) return -1;
  return in[inpos++];
}
int ideal_putc(substdio *s, unsigned char c)
{
  if (s == &sstoqc) { ++cleaned; return 0; }
  if (s->fd == FD_INFO) { if (infolen < sizeof info) info[infolen] = c; ++infolen; return 0; }
  if (s->fd == FD_LOCAL || s->fd == FD_REMOTE) {
    int w = s->fd == FD_REMOTE;
    CHECK(outlen[w] < OUTMAX, "channel file fits (harness sizing)");
    ASSUME(outlen[w] < OUTMAX);
    out[w][outlen[w]++] = c;
    return 0;
  }
  CHECK(0, "todo_do writes only info/, local/, remote/ and the qmail-clean pipe");
  return 0;
}
int ideal_flush(substdio *s) { (void) s; return 0; }

void log1(char *a) { (void) a; }
void log3(char *a, char *b, char *c) { (void) a; (void) b; (void) c; }
void qslog2(char *a, char *b) { (void) a; (void) b; }
void logsafe(char *a) { (void) a; }
void nomem(void) { CHECK(0, "no allocation failure inside the bound"); }
time_t vf_time(time_t *t) { if (t) *t = 1000; return 1000; }      /* now.h: now() = time(0) */
int prioq_insert(prioq *pq, struct prioq_elt *pe)
{
  CHECK(pe->id == 7, "the message is scheduled under its own number");
  if (pq == &pqchan[0]) ++ins[0]; else if (pq == &pqchan[1]) ++ins[1]; else if (pq == &pqdone) ++ins_done;
  else CHECK(0, "unknown queue");
  return 1;
}

void vmain(void)
{
  unsigned int k, n = 0, e[2] = { 0, 0 };
  static const unsigned char head[HEAD] = { 'u', '1', 0, 'p', '2', 0, 'F', 's', 0 };
  sym_inputs();
  for (k = 0; k < HEAD; ++k) in[n++] = head[k];
  for (k = 0; k < K; ++k) {
    ASSUME(rc[k] != 0 && (chan[k] == 1 || chan[k] == 2));
    in[n++] = 'T'; in[n++] = rc[k]; in[n++] = 0;
  }
  fnmake_init();
  tododir = (DIR *) &fake_dir;                          /* a scan of todo/ is under way */

  todo_do((fd_set *) 0);

  CHECK(n_rewrite == K, "C10: every recipient record is classified exactly once");
  /* expected channel files: the rewritten records of that channel, in envelope order */
  for (k = 0; k < K; ++k) {
    unsigned int w = chan[k] == 2;
    CHECK(e[w] + 4 <= outlen[w]
          && out[w][e[w]] == 'T' && out[w][e[w] + 1] == tag[k] && out[w][e[w] + 2] == rc[k] && out[w][e[w] + 3] == 0,
          "C10: each recipient is written, as rewritten, to the channel rewrite() chose, in envelope order");
    e[w] += 4;
  }
  CHECK(outlen[0] == e[0] && outlen[1] == e[1], "C10: nothing else is written to a channel file (no recipient duplicated or merged)");
  CHECK(opened[0] == (e[0] ? 1u : 0u) && opened[1] == (e[1] ? 1u : 0u), "C10: a channel file is created exactly when it has recipients");
  CHECK(ins[0] == (e[0] ? 1u : 0u) && ins[1] == (e[1] ? 1u : 0u), "C10: the message is scheduled on exactly the channels that have recipients");
  CHECK(ins_done == ((e[0] || e[1]) ? 0u : 1u), "a message without recipients goes straight to the done queue");
  CHECK(infolen == 3 && info[0] == 'F' && info[1] == 's' && info[2] == 0, "the sender record goes to info/");
  CHECK(cleaned > 0, "qmail-clean is asked to remove the todo file");
  if (e[0] && e[1]) WITNESS("both_channels");
  if (e[0] && !e[1]) WITNESS("local_only");
  if (!e[0] && !e[1]) WITNESS("no_recipients");
  WITNESS("preprocessed");
}
