/* C10 - qmail-send.c regetcontrols(): after a HUP the lookup tables are rebuilt from the
 * freshly read control/locals and control/virtualdomains.
 * qmail-send(8): "If qmail-send receives a HUP signal, it will reread locals and
 * virtualdomains."  locals defaults to control/me; without a virtualdomains file there
 * are no virtual domains.
 *
 * control_readfile(), constmap_init() and constmap_free() are observed (cut).  The
 * harness runs TWO successive HUPs with symbolic file contents and read results and
 * checks after each one that the buffer each table was last built over (constmap keeps
 * pointers into it) holds exactly the contents of the last successfully read file -
 * also after a later reread that fails half-way and has already overwritten the read
 * buffers.  What constmap_init builds from a buffer is the subject of constmap_lemma.c;
 * that rewrite() consults &maplocals/&mapvdoms is checked in rewrite.c.
 */
#include "verif.h"
#include "gen_qmail-send.c"

#ifndef FL
#define FL 4
#endif
#define ROUNDS 2

unsigned char f_loc[ROUNDS][FL], f_vd[ROUNDS][FL];   /* fresh file images as control_readfile delivers them */
unsigned int f_loclen[ROUNDS], f_vdlen[ROUNDS];
int r_loc[ROUNDS], r_vd[ROUNDS];                     /* results of the reads: 1 ok, 0 no file, -1 error */
unsigned char old_loc[FL], old_vd[FL];               /* tables in use before the first HUP */

void sym_inputs(void)
{
#ifdef REPLAY
#include "replay_inputs.inc"
#else
  unsigned int _ia, _ib;
  for (_ia = 0; _ia < ROUNDS; ++_ia) {
    for (_ib = 0; _ib < FL; ++_ib) { SYM(f_loc[_ia][_ib]); SYM(f_vd[_ia][_ib]); }
    SYM(f_loclen[_ia]); SYM(f_vdlen[_ia]); SYM(r_loc[_ia]); SYM(r_vd[_ia]);
  }
  SYM_ARR(old_loc); SYM_ARR(old_vd);
#endif
}

/* ---- observed calls of the current round */
#define EV_READ_LOC 1
#define EV_READ_VD 2
#define EV_FREE_LOC 3
#define EV_FREE_VD 4
#define EV_INIT_LOC 5
#define EV_INIT_VD 6
#define EV_OTHER 7
static int ev[10]; static unsigned int nev;
static unsigned int n_alert, hup;

/* the buffer each table is currently built over, and what it must contain */
static char *cur_s[2]; static int cur_len[2]; static int cur_colon[2];
static unsigned char want[2][FL]; static unsigned int wantlen[2];

static void event(int e) { if (nev < 10) ev[nev] = e; ++nev; }
static int evpos(int e) { unsigned int i; for (i = 0; i < 10; ++i) { if (i >= nev) break; if (ev[i] == e) return (int) i; } return -1; }
static int evcount(int e) { unsigned int i; int n = 0; for (i = 0; i < 10; ++i) { if (i >= nev) break; if (ev[i] == e) ++n; } return n; }

int control_readfile(stralloc *sa, char *fn, int flagme)
{
  /* the real control_readfile() empties sa before it opens the file, and on a read
   * error has stored an arbitrary prefix: whatever sa held before is gone */
  static char scribble[FL];
  unsigned int i;
  for (i = 0; i < FL; ++i) scribble[i] = 'x';
  CHECK(stralloc_copyb(sa, scribble, FL), "arena");
  sa->len = 0;
  if (!strcmp(fn, "control/locals")) {
    event(EV_READ_LOC);
    CHECK(flagme == 1, "C10(HUP): locals falls back to control/me");
    if (r_loc[hup] == 1) CHECK(stralloc_copyb(sa, (char *) f_loc[hup], f_loclen[hup]), "arena");
    return r_loc[hup];
  }
  if (!strcmp(fn, "control/virtualdomains")) {
    event(EV_READ_VD);
    CHECK(flagme == 0, "C10(HUP): virtualdomains has no default");
    if (r_vd[hup] == 1) CHECK(stralloc_copyb(sa, (char *) f_vd[hup], f_vdlen[hup]), "arena");
    return r_vd[hup];
  }
  event(EV_OTHER);
  return -1;
}

void constmap_free(struct constmap *cm)
{
  event(cm == &maplocals ? EV_FREE_LOC : cm == &mapvdoms ? EV_FREE_VD : EV_OTHER);
}

int constmap_init(struct constmap *cm, char *s, int len, int flagcolon)
{
  int w = cm == &maplocals ? 0 : cm == &mapvdoms ? 1 : -1;
  if (w < 0) { event(EV_OTHER); return 1; }
  event(w ? EV_INIT_VD : EV_INIT_LOC);
  cur_s[w] = s; cur_len[w] = len; cur_colon[w] = flagcolon;
  return 1;
}

void log1(char *s) { (void) s; ++n_alert; }
void nomem(void) { CHECK(0, "no allocation failure inside the bound"); }

static int holds(int w)
{
  unsigned int i;
  if (cur_len[w] < 0 || (unsigned int) cur_len[w] != wantlen[w]) return 0;
  for (i = 0; i < FL; ++i) { if (i >= wantlen[w]) break; if ((unsigned char) cur_s[w][i] != want[w][i]) return 0; }
  return 1;
}

static void expect(int w, const unsigned char *img, unsigned int n)
{
  unsigned int i;
  wantlen[w] = n;
  for (i = 0; i < FL; ++i) want[w][i] = img[i];
}

void vmain(void)
{
  unsigned int k;
  sym_inputs();
  for (k = 0; k < ROUNDS; ++k) {
    ASSUME(f_loclen[k] <= FL && f_vdlen[k] <= FL);
    ASSUME(r_loc[k] >= -1 && r_loc[k] <= 1 && r_vd[k] >= -1 && r_vd[k] <= 1);
  }
  /* tables in use before the first HUP (as getcontrols() leaves them) */
  CHECK(stralloc_copyb(&locals, (char *) old_loc, FL), "arena");
  CHECK(stralloc_copyb(&vdoms, (char *) old_vd, FL), "arena");
  cur_s[0] = locals.s; cur_len[0] = FL; cur_colon[0] = 0; expect(0, old_loc, FL);
  cur_s[1] = vdoms.s; cur_len[1] = FL; cur_colon[1] = 1; expect(1, old_vd, FL);

  for (hup = 0; hup < ROUNDS; ++hup) {
    unsigned int alerts = n_alert;
    nev = 0;
    regetcontrols();

    CHECK(evcount(EV_OTHER) == 0, "regetcontrols touches only locals and virtualdomains");
    if (r_loc[hup] != 1 || r_vd[hup] == -1) {
      /* a control file could not be read: keep running with the tables in use */
      CHECK(evcount(EV_FREE_LOC) + evcount(EV_FREE_VD) + evcount(EV_INIT_LOC) + evcount(EV_INIT_VD) == 0,
            "C10(HUP): unreadable control file: the tables in use are neither released nor rebuilt");
      CHECK(n_alert > alerts, "the failure is logged");
      if (hup == 1) WITNESS("second_reread_failed");
      if (hup == 0) WITNESS("reread_failed");
    } else {
      CHECK(evcount(EV_FREE_LOC) == 1 && evcount(EV_INIT_LOC) == 1 && evpos(EV_FREE_LOC) < evpos(EV_INIT_LOC),
            "C10(HUP): old locals table is released once, then rebuilt");
      CHECK(evcount(EV_FREE_VD) == 1 && evcount(EV_INIT_VD) == 1 && evpos(EV_FREE_VD) < evpos(EV_INIT_VD),
            "C10(HUP): old virtualdomains table is released once, then rebuilt");
      CHECK(evpos(EV_READ_LOC) < evpos(EV_FREE_LOC) && evpos(EV_READ_VD) < evpos(EV_FREE_LOC)
            && evpos(EV_READ_VD) < evpos(EV_FREE_VD) && evpos(EV_READ_LOC) < evpos(EV_FREE_VD),
            "C10(HUP): nothing is released before both files have been read");
      expect(0, f_loc[hup], f_loclen[hup]);
      if (r_vd[hup] == 1) expect(1, f_vd[hup], f_vdlen[hup]);
      else expect(1, f_vd[hup], 0);                     /* no virtualdomains file: empty table */
      if (hup == 1) WITNESS("second_reread_ok");
      if (hup == 0 && r_vd[hup] == 1) WITNESS("reread_both");
      if (hup == 0 && r_vd[hup] == 0) WITNESS("reread_no_virtualdomains");
    }
    CHECK(cur_colon[0] == 0 && cur_colon[1] == 1, "C10(HUP): locals is a plain list, virtualdomains a key:value list");
    CHECK(holds(0), "C10(HUP): the buffer under the locals table holds exactly the last successfully read control/locals");
    CHECK(holds(1), "C10(HUP): the buffer under the virtualdomains table holds exactly the last successfully read control/virtualdomains");
  }
}
