/* C10 lemma - constmap.c: constmap_init() + constmap() on a control-file image is a
 * case-insensitive exact-match lookup over the listed entries (duplicates excluded).
 * This is the contract under which harness/C10/rewrite.c cuts constmap().
 *
 * Encoded from /repo: constmap.c (hash, constmap_init, constmap), case_diffb.c.
 * Image layout as produced by control_readfile(): NE entries, each followed by one NUL.
 * Entry lengths are concrete per query (ELEN0,ELEN1,ELEN2), entry bytes and the query are symbolic.
 *   COLON=0  (locals, percenthack): key = the whole entry; result non-null iff listed.
 *   COLON=1  (virtualdomains):      key = bytes before the first ':', entries without ':'
 *            are ignored; result = pointer to the text after that ':' (the NUL-terminated
 *            "prepend"), null if not listed.
 * malloc is replaced by five typed fixed arrays (no symbolic-size heap object in the query).
 */
#include <stddef.h>
#include "verif.h"
#include "constmap.h"

#ifndef NE
#define NE 2
#endif
#ifndef ELEN0
#define ELEN0 2
#endif
#ifndef ELEN1
#define ELEN1 2
#endif
#ifndef ELEN2
#define ELEN2 0
#endif
#ifndef QL
#define QL 2
#endif
#ifndef COLON
#define COLON 0
#endif

#if NE == 0
#define IMGLEN 0                     /* control file absent or empty: constmap_init(cm,"",0,flag) */
#elif NE == 1
#define IMGLEN (ELEN0 + 1)
#elif NE == 2
#define IMGLEN (ELEN0 + 1 + ELEN1 + 1)
#else
#define IMGLEN (ELEN0 + 1 + ELEN1 + 1 + ELEN2 + 1)
#endif
#define LMAXE 8                      /* > every entry length used by the plan */

static const unsigned int elen[3] = { ELEN0, ELEN1, ELEN2 };

unsigned char img[IMGLEN + 1];       /* control-file image (symbolic entry bytes) */
unsigned char q[QL + 1];             /* looked-up string, any bytes */

void sym_inputs(void)
{
#ifdef REPLAY
#include "replay_inputs.inc"
#else
  SYM_ARR(img); SYM_ARR(q);
#endif
}

/* ---- allocation: constmap_init asks for five arrays, in this order */
static int a_first[64];
static char *a_input[NE + 1];
static int a_inputlen[NE + 1];
static constmap_hash a_hash[NE + 1];
static int a_next[NE + 1];
static int nalloc;

void *vf_malloc(size_t n)
{
  void *p = 0;
  size_t cap = 0;
  switch (nalloc++) {
    case 0: p = a_first; cap = sizeof a_first; break;
    case 1: p = a_input; cap = sizeof a_input; break;
    case 2: p = a_inputlen; cap = sizeof a_inputlen; break;
    case 3: p = a_hash; cap = sizeof a_hash; break;
    case 4: p = a_next; cap = sizeof a_next; break;
    default: CHECK(0, "constmap_init allocates exactly five arrays (harness sizing)");
  }
  CHECK(n <= cap, "constmap_init: table sizes fit the entry count (harness sizing)");
  ASSUME(n <= cap);
  return p;
}

void vf_free(void *p) { (void) p; }

/* ---- reference: documented matching, written without looking at constmap.c */
static unsigned char fold(unsigned char c) { return (c >= 'A' && c <= 'Z') ? (unsigned char) (c + 32) : c; }

static unsigned int estart(unsigned int e)        /* offset of entry e in the image */
{
  unsigned int o = 0, i;
  for (i = 0; i < 3; ++i) { if (i >= e) break; o += elen[i] + 1; }
  return o;
}

/* key length of entry e, or -1 if the entry carries no key (COLON form without ':') */
static int keylen(unsigned int e)
{
  unsigned int o = estart(e), k;
#if COLON
  for (k = 0; k < LMAXE; ++k) { if (k >= elen[e]) break; if (img[o + k] == ':') return (int) k; }
  return -1;
#else
  (void) o; (void) k;
  return (int) elen[e];
#endif
}

static int key_is(unsigned int e, const unsigned char *s, unsigned int n)
{
  int kl = keylen(e);
  unsigned int o = estart(e), k;
  if (kl < 0 || (unsigned int) kl != n) return 0;
  for (k = 0; k < LMAXE; ++k) { if (k >= n) break; if (fold(img[o + k]) != fold(s[k])) return 0; }
  return 1;
}

void vmain(void)
{
  struct constmap cm, cm0;
  static int s_first[64]; static char *s_input[NE + 1]; static int s_inputlen[NE + 1];
  static constmap_hash s_hash[NE + 1]; static int s_next[NE + 1]; static unsigned char s_img[IMGLEN + 1];
  int same;
  unsigned int e, f, k;
  char *r;
  int found = -1;

  sym_inputs();
  /* image shape: entries contain no NUL, each is followed by exactly one NUL */
  for (e = 0; e < NE; ++e) {
    unsigned int o = estart(e);
    for (k = 0; k < LMAXE; ++k) { if (k >= elen[e]) break; ASSUME(img[o + k] != 0); }
    ASSUME(img[o + elen[e]] == 0);
  }
  /* the same key listed twice is outside the property's domain */
  for (e = 0; e < NE; ++e)
    for (f = 0; f < NE; ++f)
      if (e < f && keylen(e) >= 0)
        ASSUME(!key_is(f, img + estart(e), (unsigned int) keylen(e)));

  CHECK(constmap_init(&cm, (char *) img, IMGLEN, COLON) == 1, "constmap_init succeeds when memory is available");
  for (k = 0; k < 64; ++k) s_first[k] = a_first[k];
  for (k = 0; k < NE + 1; ++k) { s_input[k] = a_input[k]; s_inputlen[k] = a_inputlen[k]; s_hash[k] = a_hash[k]; s_next[k] = a_next[k]; }
  for (k = 0; k < IMGLEN + 1; ++k) s_img[k] = img[k];
  cm0 = cm;

  r = constmap(&cm, (char *) q, QL);

  /* a lookup changes nothing: the table answers any number of lookups the same way */
  same = cm.num == cm0.num && cm.mask == cm0.mask && cm.hash == cm0.hash && cm.first == cm0.first
         && cm.next == cm0.next && cm.input == cm0.input && cm.inputlen == cm0.inputlen;
  for (k = 0; k < 64; ++k) if (s_first[k] != a_first[k]) same = 0;
  for (k = 0; k < NE + 1; ++k)
    if (s_input[k] != a_input[k] || s_inputlen[k] != a_inputlen[k] || s_hash[k] != a_hash[k] || s_next[k] != a_next[k]) same = 0;
  for (k = 0; k < IMGLEN + 1; ++k) if (s_img[k] != img[k]) same = 0;
  CHECK(same, "C10(lemma): constmap() does not modify the table or the control-file image");

  for (e = 0; e < NE; ++e) if (key_is(e, q, QL)) found = (int) e;

  if (found < 0) {
    CHECK(r == 0, "C10(lemma): a string that is not listed (ignoring case) is not found");
    WITNESS("not_listed");
  } else {
    CHECK(r != 0, "C10(lemma): a listed string is found whatever its case");
#if COLON
    CHECK(r == (char *) img + estart((unsigned int) found) + keylen((unsigned int) found) + 1,
          "C10(lemma): the value returned is the text after the first colon of that entry");
#endif
    if (found == NE - 1) WITNESS("listed_last");
#if QL > 0
    if (found == 0 && q[0] != img[0]) WITNESS("listed_other_case");
#endif
    WITNESS("listed");
  }
}
