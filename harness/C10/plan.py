# C10 - recipients are routed and rewritten exactly by the control files.
#
# obligations:  constmap_lemma   constmap.c: constmap_init+constmap == case-insensitive exact-match lookup (plain and key:value images)
#               rewrite          qmail-send.c rewrite() == reference model of qmail-send(8)/addresses(5), constmap() cut under that lemma
#               senderadd        qmail-send.c senderadd(): VERP expansion pre@host-@[] -> pre+box=dom@host
#               regetcontrols    qmail-send.c regetcontrols(): two HUPs, tables rebuilt over buffers holding the fresh files
#               todo_channels    qmail-send.c todo_do() T branch: each recipient once, in order, to the channel rewrite() chose
# not here:     failure paths of todo_do (C03), control_readfile parsing.
#
# kills: (hand-made mutants of a scratch worktree, VERIF_REPO=/tmp/wt-c10-1 ./check C10 --only <obl>; each printed VIOLATION, native replay rc 1)
#   rewrite:        vd_before_locals (virtualdomains consulted before locals), no_catchall ("|| (i == addr.len)" removed),
#                   percent_once (break after the first percent-hack round), no_dash ('-' after the prepend dropped),
#                   exception_continue (empty prepend: continue to less specific entries instead of break), first_at (domain taken after the FIRST @)
#   constmap_lemma: case_sensitive (case_diffb.c without folding), hash_case (constmap.c hash() without folding)
#   senderadd:      verp_no_eq ('=' replaced by '-'), verp_keep_suffix (host copied one byte too long: keeps the '-' of "-@[]")
#   regetcontrols:  reget_init_before_copy (constmap_init(&maplocals) before stralloc_copy(&locals,&newlocals)),
#                   reget_vd_from_new (table built over the read buffer newvdoms), reget_free_early (constmap_free before the files are read)
#   todo_channels:  todo_swap (remote recipients written to local/), todo_merge (record written without its NUL: recipients merge),
#                   todo_noflag (flagchan[c] never set: message not scheduled on its channel)
#   not a VIOLATION but exit 2: a mutant that removes a callee named in an unwind key (e.g. str_rchr -> str_chr in senderadd) is
#   reported as "unwind keys match no loop" by the driver.
from vlib import load_plan, Obl, Prog, borrow


def lemma_grid(tier):
    """Shapes of the control-file image: COLON=0 plain lists (locals, percenthack: entries of 1..3 bytes),
    COLON=1 key:value lists (virtualdomains: key 0..4 + ':' + prepend 0..2, the colon position is symbolic
    inside the entry).  QL = length of the looked-up string."""
    pts = []

    def add(colon, lens, qls):
        for ql in qls:
            p = {"COLON": colon, "NE": len(lens), "QL": ql}
            for i, l in enumerate(lens):
                p["ELEN%d" % i] = l
            pts.append(p)

    if tier == "quick":
        add(0, [], [1]); add(1, [], [0])
        for l in (1, 2, 3):
            add(0, [l], [l, l + 1])
        for lens in ([2, 2], [1, 3], [3, 1], [3, 3]):
            add(0, lens, [1, 2, 3])
        for l in (1, 3, 5):
            add(1, [l], [0, 2])
        for lens in ([3, 3], [1, 4], [5, 2]):
            add(1, lens, [0, 1, 2, 3])
        add(0, [3, 3, 3], [3])
    else:
        add(0, [], [0, 1]); add(1, [], [0, 1])
        for a in (1, 2, 3):
            add(0, [a], range(0, 5))
            for b in (1, 2, 3):
                add(0, [a, b], range(0, 5))
        for a in (1, 2, 3, 5, 7):
            add(1, [a], range(0, 6))
            for b in (1, 2, 3, 5, 7):
                add(1, [a, b], range(0, 6))
        add(0, [3, 3, 3], [2, 3]); add(0, [1, 2, 3], [1, 2, 3]); add(1, [4, 4, 4], [0, 1, 2, 3]); add(1, [7, 5, 3], [0, 2, 4])
    return pts


def lemma_witnesses(p):
    lens = [p["ELEN%d" % i] for i in range(p["NE"])]
    keylens = [set(range(0, l)) if p["COLON"] else {l} for l in lens]      # possible key lengths per entry
    w = ["not_listed"]
    if any(p["QL"] in k for k in keylens):
        w.append("listed")
    if keylens and p["QL"] in keylens[-1]:
        w.append("listed_last")
    if keylens and p["QL"] > 0 and p["QL"] in keylens[0]:
        w.append("listed_other_case")
    return w


STRALLOC = ["stralloc_opys.c", "stralloc_opyb.c", "stralloc_cats.c", "stralloc_catb.c", "stralloc_cat.c",
            "stralloc_copy.c", "stralloc_pend.c", "byte_copy.c", "byte_rchr.c", "byte_chr.c", "str_rchr.c"]


def obligations(tier):
    rls = [0, 1, 2, 3, 4, 5, 6] if tier == "quick" else [0, 1, 2, 3, 4, 5, 6, 7, 8, 9]
    big = 900 if tier == "quick" else 3000
    return [
        Obl("rewrite", "rewrite.c",
            progs=[Prog("qmail-send.c", nomain=True)],
            repo=STRALLOC, lib=["harness/C10/arena_small.c"],
            defines={"ARENA_SLOTS": 2, "KMAX": 4},
            grid=[{"R": r, "ARENA_CAP": r + 10} for r in reversed(rls)]       # longest first
                 + ([] if tier == "quick" else
                    # larger tables at a mid-size recipient: 3 virtualdomains entries with keys up to 5 bytes, 3 locals up to 4 bytes, 2 percenthack
                    [{"R": 5, "ARENA_CAP": 17, "NVD": 3, "VKMAX": 5, "KMAX": 5, "NLOC": 3, "LOCMAX": 4, "NPH": 2, "VTMAX": 3, "ENMAX": 3}]),
            # tight per-loop bounds (each is proved sufficient by its unwinding assertion):
            # longest address = R + '@' + envnoathost(2); byte_copy/byte_rchr are unrolled 4x
            unwind=lambda p: {"strlen": max(p["R"] + 2, p.get("VTMAX", 2) + 2),
                              # both loops of rewrite(): percent hack <= R/2+1 rounds, candidate scan <= R+4 positions
                              # (one function-level key so that a change to either loop cannot orphan the key)
                              "rewrite": p["R"] + p.get("ENMAX", 2) + 3,
                              "byte_copy": (p["R"] + p.get("ENMAX", 2) + 1) // 4 + 2,
                              "byte_rchr": (p["R"] + p.get("ENMAX", 2) + 1) // 4 + 2,
                              "same": p.get("KMAX", 4) + 1},
            unwind_default=lambda p: p["R"] + p.get("ENMAX", 2) + p.get("VTMAX", 2) + 4,
            backend="cadical", timeout=big,
            functions=["qmail-send.c:rewrite", "byte_rchr.c:byte_rchr", "stralloc_*.c"],
            cuts=["constmap -> case-insensitive exact-match lookup over the harness's symbolic tables (non-null iff listed; "
                  "virtualdomains: pointer to the NUL-terminated prepend), proved on the real constmap.c by obligation constmap_lemma in the same run"],
            stubs=["stralloc_ready/readyplus: arena (harness/C10/arena_small.c), growth inside the bound is checked"],
            assumes=["recipient: exactly R bytes, any values except NUL",
                     "locals <= 2 entries x 1..3 bytes, percenthack <= 1 entry x 1..3 bytes, virtualdomains <= 2 entries "
                     "(key 0..4 bytes without ':' and NUL, prepend 0..2 bytes), envnoathost 0..2 bytes without '@'; table sizes and "
                     "entry lengths symbolic inside these maxima, all bytes symbolic; no key listed twice (ignoring case)",
                     "percent hack whose 'fqdn' (text after the last % of the local part) itself contains '@' is not a documented "
                     "form: result not compared (witness undetermined_fqdn_with_at shows the class is non-empty)"],
            outside=["recipients longer than the grid; larger tables; control-file parsing (control_readfile)"],
            claim="for every recipient of R bytes and every control-table content inside the bound, rewrite() returns the channel "
                  "(1 local / 2 remote) and leaves in rwline 'T' + address + NUL exactly as the documented rules say: default host, "
                  "repeated percent hack first, locals win, else most specific virtualdomains entry (address, domain, dot-suffixes "
                  "longest first, catch-all) prepends tag- and makes it local unless the tag is empty; all matching ignores case",
            expect_witnesses=lambda p: (["locals", "virtual_user", "virtual_domain", "virtual_wildcard", "virtual_catchall",
                                         "virtual_exception", "remote"]
                                        + (["default_host_then_percenthack"] if p["R"] >= 2 else [])
                                        + (["percenthack_twice"] if p["R"] >= 3 else [])
                                        + (["undetermined_fqdn_with_at"] if p["R"] >= 4 else []))),
        Obl("senderadd", "senderadd.c",
            progs=[Prog("qmail-send.c", nomain=True)],
            repo=STRALLOC, lib=["harness/C10/arena_small.c"],
            defines={"ARENA_SLOTS": 1, "ARENA_CAP": 32},
            grid=[{"SL": sl, "RL": rl} for sl in ([0, 3, 4, 5, 6, 7, 8] if tier == "quick" else range(0, 12))
                  for rl in ([0, 1, 2, 3, 4] if tier == "quick" else range(0, 8))],
            unwind=lambda p: {"strlen": max(p["SL"], p["RL"]) + 2, "senderadd": 2,      # while (!stralloc_...) nomem();
                              "byte_copy": max(p["SL"], p["RL"]) // 4 + 2},
            unwind_default=lambda p: p["SL"] + p["RL"] + 4,
            backend="cadical", timeout=600,
            functions=["qmail-send.c:senderadd", "byte_rchr.c:byte_rchr", "str_rchr.c:str_rchr", "stralloc_*.c"],
            stubs=["stralloc_ready/readyplus: arena"],
            assumes=["sender exactly SL bytes, recipient exactly RL bytes, any values except NUL",
                     "VERP sender with a recipient that has no @ is not a documented combination: result not compared "
                     "(rewrite() always produces an @)"],
            outside=["longer senders/recipients"],
            claim="senderadd() appends pre+recipbox=recipdomain@host for a sender pre@host-@[] (host after the final @ of the prefix, "
                  "recipient split at its final @) and the unchanged sender otherwise, keeping what is already in the buffer",
            expect_witnesses=lambda p: (["unchanged"]
                                        + (["verp_expanded"] if p["SL"] >= 5 and p["RL"] >= 1 else [])
                                        + (["verp_recipient_without_at"] if p["SL"] >= 5 else [])
                                        + (["double_bounce_sender_unchanged"] if p["SL"] >= 4 else []))),
        Obl("regetcontrols", "reget.c",
            progs=[Prog("qmail-send.c", nomain=True)],
            repo=["stralloc_opyb.c", "stralloc_copy.c", "byte_copy.c"], lib=["harness/C10/arena_small.c"],
            defines={"ARENA_SLOTS": 4, "ARENA_CAP": 8, "FL": 4},
            unwind={"regetcontrols": 2, "byte_copy": 4}, unwind_default=12,
            backend="cadical", timeout=600,
            functions=["qmail-send.c:regetcontrols"],
            cuts=["control_readfile -> overwrites its target, then delivers a symbolic fresh image (<= 4 bytes) and a symbolic result 1/0/-1 per file (control-file parsing is outside C10)",
                  "constmap_free/constmap_init -> observed (order, arguments); what constmap_init builds is obligation constmap_lemma"],
            stubs=["log1: counted", "nomem: must not be reached"],
            assumes=["two successive HUPs; file images <= 4 bytes each, contents, lengths and read results (1/0/-1) symbolic"],
            outside=["signal delivery and the main loop's flagreadasap test; chdir in reread()"],
            claim="over two successive HUPs: when both files are readable maplocals/mapvdoms are each released once and then rebuilt "
                  "(plain / key:value), with an unreadable file nothing is released or rebuilt; after every HUP the buffer under each "
                  "table holds exactly the last successfully read file (also when a later, failing reread has overwritten the read buffers)",
            expect_witnesses=["reread_failed", "reread_both", "reread_no_virtualdomains", "second_reread_failed", "second_reread_ok"]),
        Obl("todo_channels", "todo_channels.c",
            progs=[Prog("qmail-send.c", nomain=True, cut=["rewrite"])],
            repo=["fmtqfn.c", "fmt_ulong.c", "fmt_str.c", "scan_ulong.c", "auto_split.c", "open_read.c", "open_excl.c", "substdio.c",
                  "stralloc_pend.c", "stralloc_opyb.c", "stralloc_opys.c", "byte_copy.c"],
            lib=["harness/C10/arena_small.c", "ideal_substdio.c", "ideal_getln.c"],
            sysrename=["open", "stat", "unlink", "fsync", "close", "readdir", "time"],
            defines={"ARENA_SLOTS": 3, "ARENA_CAP": 48},
            grid=[{"K": k} for k in ([0, 1, 2, 3] if tier == "quick" else [0, 1, 2, 3, 4])],
            unwind=lambda p: {"todo_do~for (;;)": p["K"] + 5, "strlen": 48, "strcmp": 8},
            unwind_default=lambda p: 4 * p["K"] + 24,
            backend="cadical", timeout=900, std_checks=True,
            functions=["qmail-send.c:todo_do", "qmail-send.c:fnmake_*", "fmtqfn.c:fmtqfn", "scan_ulong.c", "fmt_ulong.c"],
            cuts=["rewrite -> channel from a symbolic tape, rwline = 'T' + symbolic tag + recipient + NUL (what rewrite() really returns: obligation rewrite)"],
            stubs=["open/stat/unlink/fsync/close/readdir: always succeed (failure paths: C03)", "substdio/getln: ideal streams",
                   "prioq_insert, time, log*: observing stubs"],
            assumes=["todo/7 = u, p, F records and K recipient records of one symbolic byte each; every system call succeeds"],
            outside=["failing system calls, crash points, the todo/ directory scan and trigger (C03, C16)"],
            claim="todo_do() passes each of the K recipients once, in order, to rewrite() and appends rwline to local/7 or remote/7 as rewrite() "
                  "returned; nothing else is written there; a channel file is created and the message scheduled on a channel iff it has recipients",
            expect_witnesses=lambda p: ["preprocessed"] + (["no_recipients"] if p["K"] == 0 else ["local_only"]) + (["both_channels"] if p["K"] >= 2 else [])),
        Obl("constmap_lemma", "constmap_lemma.c",
            repo=["constmap.c", "case_diffb.c"],
            sysrename=["malloc", "free"],
            grid=lemma_grid(tier),
            unwind={"constmap_init~for (h = 0": 66, "vmain~k < 64": 66},
            unwind_default=lambda p: p.get("ELEN0", 0) + p.get("ELEN1", 0) + p.get("ELEN2", 0) + 6,
            backend="cadical", timeout=900,
            functions=["constmap.c:constmap_init", "constmap.c:constmap", "constmap.c:hash", "case_diffb.c:case_diffb"],
            stubs=["malloc/free: five typed fixed arrays handed out in call order (sizes checked)"],
            assumes=["control-file image = NE entries of the concrete lengths of the grid point, each followed by one NUL, "
                     "no NUL inside an entry; no two entries with the same key (ignoring case)"],
            outside=["more than 3 entries / entries longer than the grid", "allocation failure"],
            claim="constmap_init+constmap == case-insensitive exact-match linear search over the entries "
                  "(flagcolon: key before the first ':', value pointer after it, entries without ':' ignored); a lookup leaves table and image unchanged",
            expect_witnesses=lemma_witnesses),
    ] + [load_plan("C16").signals_obligation(tier)] \
      + borrow("C08", ["control_readfile_ref", "control_readline_ref", "control_readint_ref"], tier)   # (h2) getcontrols()/regetcontrols() read locals, virtualdomains, percenthack through control_readfile, envnoathost through control_rldef: the tables are what the FILES say
    # load_plan("C16"): after a HUP newly listed domains apply: the main loop never forgets a HUP (flag cleared before the reading starts)
