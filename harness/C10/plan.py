from vlib import Obl, Prog


def lemma_grid(tier):
    pts = []
    if tier == "quick":
        shapes0 = [(2, 2)]
        shapes1 = [(3, 3)]
        qls = [0, 1, 2]
    else:
        shapes0 = [(2, 2)]
        shapes1 = [(3, 3)]
        qls = [0, 1, 2]
    pts.append({"NE": 3, "ELEN0": 3, "ELEN1": 3, "ELEN2": 3, "QL": 3, "COLON": 0})
    pts.append({"NE": 3, "ELEN0": 4, "ELEN1": 4, "ELEN2": 4, "QL": 3, "COLON": 1})
    for (a, b) in shapes0:
        for ql in qls:
            pts.append({"NE": 2, "ELEN0": a, "ELEN1": b, "QL": ql, "COLON": 0})
    for (a, b) in shapes1:
        for ql in qls:
            pts.append({"NE": 2, "ELEN0": a, "ELEN1": b, "QL": ql, "COLON": 1})
    return pts


STRALLOC = ["stralloc_opys.c", "stralloc_opyb.c", "stralloc_cats.c", "stralloc_catb.c", "stralloc_cat.c",
            "stralloc_copy.c", "stralloc_pend.c", "byte_copy.c", "byte_rchr.c", "str_rchr.c"]


def obligations(tier):
    rls = [0, 1, 2, 3, 4, 5] if tier == "quick" else [0, 1, 2, 3, 4, 5, 6, 7]
    return [
        Obl("rewrite", "rewrite.c",
            progs=[Prog("qmail-send.c", nomain=True)],
            repo=STRALLOC, lib=["arena_stralloc.c"],
            defines={"ARENA_SLOTS": 2, "KMAX": 4},
            grid=[{"R": r, "ARENA_CAP": r + 10} for r in rls],
            # tight per-loop bounds (each is proved sufficient by its unwinding assertion):
            # longest address = R + '@' + envnoathost(2); byte_copy/byte_rchr are unrolled 4x
            unwind=lambda p: {"strlen": p["R"] + 2,
                              "rewrite~while (constmap": p["R"] // 2 + 2,
                              "rewrite~for (i = 0": p["R"] + 5,
                              "byte_copy": (p["R"] + 3) // 4 + 2,
                              "byte_rchr": (p["R"] + 3) // 4 + 2,
                              "same": 5},
            unwind_default=lambda p: p["R"] + 8,
            backend="cadical", timeout=900,
            functions=["qmail-send.c:rewrite", "byte_rchr.c:byte_rchr", "stralloc_*.c"],
            cuts=["constmap -> case-insensitive exact-match lookup over the harness's symbolic tables (non-null iff listed; "
                  "virtualdomains: pointer to the NUL-terminated prepend), proved on the real constmap.c by obligation constmap_lemma in the same run"],
            stubs=["stralloc_ready/readyplus: arena (lib/arena_stralloc.c), growth inside the bound is checked"],
            assumes=["recipient: exactly R bytes, any values except NUL",
                     "locals <= 2 entries x 1..3 bytes, percenthack <= 1 entry x 1..3 bytes, virtualdomains <= 2 entries "
                     "(key 0..4 bytes without ':' and NUL, prepend 0..2 bytes), envnoathost 0..2 bytes without '@'; table sizes and "
                     "entry lengths symbolic inside these maxima, all bytes symbolic; no key listed twice (ignoring case)",
                     "percent hack whose 'fqdn' (text after the last % of the local part) itself contains '@' is not a documented "
                     "form: result not compared (witness undetermined_fqdn_with_at shows the class is non-empty)"],
            outside=["recipients longer than the grid; larger tables; control-file parsing (control_readfile)"],
            claim="for every recipient of R bytes and every control-table content inside the bound, rewrite() returns the channel "
                  "(1 local / 2 remote) and leaves in rwline 'T' + address + NUL exactly as the documented rules say: default host, "
                  "repeated percent hack first, locals win, else most specific virtualdomains entry (address, domain, dot-suffixes "
                  "longest first, catch-all) prepends tag- and makes it local unless the tag is empty; all matching ignores case",
            expect_witnesses=lambda p: (["locals", "virtual_user", "virtual_domain", "virtual_wildcard", "virtual_catchall",
                                         "virtual_exception", "remote"]
                                        + (["default_host_then_percenthack"] if p["R"] >= 2 else [])
                                        + (["percenthack_twice"] if p["R"] >= 3 else [])
                                        + (["undetermined_fqdn_with_at"] if p["R"] >= 4 else []))),
        Obl("constmap_lemma", "constmap_lemma.c",
            repo=["constmap.c", "case_diffb.c"],
            sysrename=["malloc", "free"],
            grid=lemma_grid(tier),
            unwind={"constmap_init~for (h = 0": 66},
            unwind_default=lambda p: p["ELEN0"] + p["ELEN1"] + p.get("ELEN2", 0) + 6,
            backend="cadical", timeout=900,
            functions=["constmap.c:constmap_init", "constmap.c:constmap", "constmap.c:hash", "case_diffb.c:case_diffb"],
            stubs=["malloc/free: five typed fixed arrays handed out in call order (sizes checked)"],
            assumes=["control-file image = NE entries of the concrete lengths of the grid point, each followed by one NUL, "
                     "no NUL inside an entry; no two entries with the same key (ignoring case)"],
            outside=["more than 3 entries / entries longer than the grid", "allocation failure"],
            claim="constmap_init+constmap == case-insensitive exact-match linear search over the entries "
                  "(flagcolon: key before the first ':', value pointer after it, entries without ':' ignored)",
            expect_witnesses=lambda p: ["not_listed"] + (["listed", "listed_last"] if p["QL"] in (p["ELEN0"], p["ELEN1"]) and not p["COLON"] else [])),
    ]
