/* C14 - qmail-send.c addbounce() + stripvdomprepend(): the text appended to bounce/N for
 * one failed recipient, for every recipient of RL bytes and every report of PL bytes.
 * Encoded from /repo: qmail-send.c addbounce, stripvdomprepend, fnmake_init,
 * fnmake2_bounce; fmtqfn.c, fmt_ulong.c, fmt_str.c, str_rchr.c, open_append.c, stralloc
 * units.  Cut: constmap() -> one-entry case-insensitive table (the lemma "constmap_init +
 * constmap == case-insensitive linear search" is C10's).
 *
 * Oracle (property C14; qmail-send(8) virtualdomains; INTERNALS "appends a note to
 * bounce/457"):  the appended text T is exactly one paragraph:
 *  (1) it starts with "<name>:" LF, where name is the recipient with the virtual-domain
 *      prepend removed, and has no LF in it (a recipient LF is replaced by another byte);
 *  (2) the failure text follows unchanged, except that an LF may be replaced (the code:
 *      second of two consecutive LFs -> '/'), plus an LF if the text lacked its final one;
 *  (3) it ends with an empty line (LF LF), and no empty line occurs earlier inside it
 *      unless nothing but LFs follows (a report ending in two LFs leaves one extra empty
 *      line at the very end: DESIGN 5, not a forged paragraph) - so whatever bytes the
 *      report holds, no line after an empty line can start a second "<...>:" paragraph;
 *  (4) T is appended to bounce/N in full even when write() is short or fails first, and
 *      nothing else is written.
 * Virtual-domain prepend (qmail-send(8)): an entry  domain:prepend  (or  .suffix:prepend ,
 * or the catch-all  :prepend ) makes user@domain be delivered as prepend-user@domain, so a
 * recipient "prepend-user@domain" whose domain is controlled by the entry is named
 * user@domain; an entry with empty prepend is an exception (not virtual).  Entries for
 * virtual USERS (key with '@') are not modelled: the documents do not say how they are
 * named in a bounce.  A recipient without '@' has no domain, hence no prepend. */
#include "verif.h"
#include <fcntl.h>
#include <errno.h>

/* observing stand-ins for qsutil.c / constmap.c (prototypes before the program text) */
struct constmap;
char *constmap(struct constmap *cm, char *s, int len);
#include "gen_qmail-send.c"

#ifndef RL
#define RL 3          /* recipient length */
#endif
#ifndef PL
#define PL 4          /* report length */
#endif
#ifndef WT
#define WT 0          /* 1: write() may be short / return 0 / fail, driven by a 3-entry tape (run at one small
                         size: with the tape on, every file position is symbolic and RL=3,PL=3 took 64 s instead of 9 s) */
#endif
#define KLMAX 2       /* virtualdomains entry: key and prepend lengths 0..2 */
#define TMAX (RL + PL + 8)
#define BOUNCE_ID 7UL

unsigned char in_recip[RL + 1];
unsigned char in_report[PL + 1];
unsigned char in_vd;                 /* 1: virtualdomains has the entry below, 0: empty */
unsigned char in_key[KLMAX]; unsigned int in_keylen;
unsigned char in_pre[KLMAX + 1]; unsigned int in_prelen;
unsigned char in_wtape[3];           /* per write call: 0 all, 1..: at most that many bytes, 255: fails (-1), 254: returns 0 */
unsigned char in_openfail;           /* first open_append fails */

static unsigned char file[TMAX];
static unsigned int flen;
static int nopen, nclose, nwrite, fd_open, nsleep;
static char prebuf[KLMAX + 1];

void sym_inputs(void)
{
#ifdef REPLAY
#include "replay_inputs.inc"
#else
  SYM_ARR(in_recip); SYM_ARR(in_report); SYM(in_vd); SYM_ARR(in_key); SYM(in_keylen);
  SYM_ARR(in_pre); SYM(in_prelen); SYM_ARR(in_wtape); SYM(in_openfail);
#endif
}

static unsigned char lc(unsigned char c) { return (c >= 'A' && c <= 'Z') ? (unsigned char) (c + 32) : c; }

/* ---- cut: constmap over a one-entry table, case-insensitive like the real one */
char *constmap(struct constmap *cm, char *s, int len)
{
  unsigned int i;
  CHECK(cm == &mapvdoms, "only virtualdomains is consulted");
  CHECK(len >= 0, "constmap length is not negative");
  if (!in_vd) return 0;
  if ((unsigned int) len != in_keylen) return 0;
  for (i = 0; i < KLMAX; ++i) {
    if (i >= in_keylen) break;
    if (lc((unsigned char) s[i]) != lc(in_key[i])) return 0;
  }
  return prebuf;
}

/* ---- system calls on the bounce file */
int vf_open(const char *path, int flags, ...)
{
  static const char want[] = "bounce/7";
  unsigned int i;
  for (i = 0; i < sizeof want; ++i) CHECK(path[i] == want[i], "C14: the note goes to bounce/N of the message");
  CHECK((flags & O_APPEND) && (flags & O_CREAT) && (flags & O_WRONLY), "bounce/N is opened for appending, created if necessary");
  CHECK(!fd_open, "one descriptor at a time");
  ++nopen;
  if (in_openfail && nopen == 1) { errno = EIO; return -1; }
  fd_open = 1;
  return 9;
}

ssize_t vf_write(int fd, const void *buf, size_t n)
{
  unsigned int i, w = (unsigned int) n;
  unsigned char t = (WT && nwrite < 3) ? in_wtape[nwrite] : 0;
  CHECK(fd == 9 && fd_open, "write goes to the open bounce file");
  CHECK(n >= 1 && n <= TMAX, "write length inside the text");
  ASSUME(n >= 1 && n <= TMAX);
  ++nwrite;
  if (t == 255) { errno = ENOSPC; return -1; }
  if (t == 254) return 0;
  if (t && t < w) w = t;
  for (i = 0; i < TMAX; ++i) {
    if (i >= w) break;
    CHECK(flen < TMAX, "appended text fits RL+PL+8 (harness sizing)");
    ASSUME(flen < TMAX);
    file[flen++] = ((const unsigned char *) buf)[i];
  }
  return (ssize_t) w;
}

/* strlen / strncmp (str_len, str_diffn) are renamed to these by the plan: plain byte loops
 * with a constant bound instead of cbmc's library models unwound 160 / 64 times over
 * symbolic strings (that alone made the RL=3, PL=3 query take 100 s) */
#define STRMAX (RL + PL + 4)
size_t vf_strlen(const char *p)
{
  size_t n;
  for (n = 0; n < STRMAX; ++n) if (!p[n]) return n;
  CHECK(0, "strlen: no NUL within the bound (harness sizing)");
  ASSUME(0);
  return n;
}

int vf_strncmp(const char *a, const char *b, size_t n)
{
  size_t i;
  for (i = 0; i < STRMAX; ++i) {
    if (i >= n) return 0;
    if (a[i] != b[i]) return (unsigned char) a[i] < (unsigned char) b[i] ? -1 : 1;
    if (!a[i]) return 0;
  }
  CHECK(0, "strncmp: longer than the bound (harness sizing)");
  ASSUME(0);
  return 0;
}

int vf_close(int fd) { CHECK(fd == 9 && fd_open, "close of the open bounce file"); fd_open = 0; ++nclose; return 0; }
unsigned int vf_sleep(unsigned int s) { ++nsleep; return 0; }
void log1(char *s) {}
void nomem(void) { CHECK(0, "no allocation failure inside the bound (arena)"); ASSUME(0); }

/* ---- reference: the name that must appear between < and > */
static unsigned int ref_strip(void)     /* returns the offset of the name inside in_recip */
{
  unsigned int at = RL, i, dl, off;
  const unsigned char *dom;
  for (i = 0; i < RL; ++i) if (in_recip[i] == '@') at = i;
  if (at == RL) return 0;                               /* caller treats "no @" separately */
  if (!in_vd || in_prelen == 0) return 0;               /* no entry / exception entry */
  dom = in_recip + at + 1; dl = RL - at - 1;
  /* does the entry control this domain?  "domain", ".suffix" (proper suffix starting at a
   * dot, or the whole domain if that begins with the dot), "" = catch-all */
  if (in_keylen > dl) return 0;
  off = dl - in_keylen;
  for (i = 0; i < KLMAX; ++i) { if (i >= in_keylen) break; if (lc(dom[off + i]) != lc(in_key[i])) return 0; }
  if (in_keylen == 0) ;                                 /* catch-all */
  else if (off == 0) ;                                  /* whole domain */
  else if (in_key[0] == '.') ;                          /* wildcard: suffix beginning with the dot */
  else return 0;
  /* recipient = prepend - rest ? */
  if (in_prelen + 1 > RL) return 0;
  for (i = 0; i < KLMAX; ++i) { if (i >= in_prelen) break; if (in_recip[i] != in_pre[i]) return 0; }
  if (in_recip[in_prelen] != '-') return 0;
  return in_prelen + 1;
}

void vmain(void)
{
  unsigned int i, off, namelen, hdr, has_at = 0, extra, at;
  sym_inputs();
  for (i = 0; i < RL; ++i) ASSUME(in_recip[i] != 0);
  for (i = 0; i < PL; ++i) ASSUME(in_report[i] != 0);
  ASSUME(in_recip[RL] == 0 && in_report[PL] == 0);
  ASSUME(in_vd <= 1 && in_keylen <= KLMAX && in_prelen <= KLMAX && in_openfail <= 1);
  for (i = 0; i < KLMAX; ++i) {
    if (i < in_keylen) ASSUME(in_key[i] != '@' && in_key[i] != 0);      /* virtual-domain entries only */
    if (i < in_prelen) ASSUME(in_pre[i] != 0);
    prebuf[i] = (i < in_prelen) ? (char) in_pre[i] : 0;
  }
  prebuf[KLMAX] = 0;
  /* a wildcard / catch-all entry that would also match a shorter tail first is the same
   * entry here (one-entry table), so precedence between entries does not arise */
  for (i = 0; i < RL; ++i) if (in_recip[i] == '@') has_at = 1;

  fnmake_init();
  addbounce(BOUNCE_ID, (char *) in_recip, (char *) in_report);

  CHECK(nopen == 1 + in_openfail && nclose == 1 && !fd_open, "bounce/N opened (retried after a failure) and closed once");
  extra = (PL && in_report[PL - 1] != '\n') ? 1 : 0;
  /* the appended text has the shape  < name > : LF  text [LF]  LF ; name is what is left */
  CHECK(flen >= 4 + PL + extra + 1 && flen <= 4 + RL + PL + extra + 1,
        "C14: appended text = header line naming (a suffix of) the recipient + failure text (+ LF) + empty line, nothing else");
  if (!(flen >= 4 + PL + extra + 1 && flen <= 4 + RL + PL + extra + 1)) return;
  namelen = flen - (4 + PL + extra + 1);
  off = RL - namelen;
  hdr = namelen + 4;
  /* which suffix: documented cases only.  Not documented (accepted as they come): a
   * prepend that would reach beyond the local part (rewrite() cannot have produced it) */
  at = RL;
  for (i = 0; i < RL; ++i) if (in_recip[i] == '@') at = i;
  if (!has_at) { CHECK(off == 0, "C14(1): a recipient without domain is named as it is"); }
  else if (in_vd && in_prelen && in_prelen + 1 > at) WITNESS("prepend_beyond_local_part");
  else CHECK(off == ref_strip(), "C14(1): exactly the virtual-domain prepend of the controlling entry is removed");

  /* (1) header line */
  CHECK(file[0] == '<', "C14(1): paragraph starts with <");
  for (i = 0; i < RL; ++i) {
    unsigned char r, f;
    if (i >= namelen) break;
    r = in_recip[off + i]; f = file[1 + i];
    if (r == '\n') { CHECK(f != '\n', "C14(1): LF in the recipient is replaced"); }
    else CHECK(f == r, "C14(1): the recipient is named");
  }
  CHECK(file[1 + namelen] == '>' && file[2 + namelen] == ':' && file[3 + namelen] == '\n', "C14(1): name is followed by >: LF");

  /* (2) failure text */
  for (i = 0; i < PL; ++i) {
    unsigned char r = in_report[i], f = file[hdr + i];
    if (r == '\n') { CHECK(f == '\n' || f == '/', "C14(2): an LF of the failure text stays or becomes /"); }
    else CHECK(f == r, "C14(2): failure text is copied unchanged");
  }
  /* (3) one paragraph */
  CHECK(file[flen - 1] == '\n' && file[flen - 2] == '\n', "C14(3): the paragraph ends with an empty line");
  {
    int blank = 0;                     /* an empty line has been seen */
    for (i = 1; i < TMAX; ++i) {
      if (i >= flen) break;
      if (blank) CHECK(file[i] == '\n', "C14(3): nothing but LF follows an empty line inside the appended text (no forged paragraph)");
      if (file[i] == '\n' && file[i - 1] == '\n') blank = 1;
    }
  }

  if (off > 0) WITNESS("vdom_prepend_stripped");
  if (has_at && in_vd && in_prelen && off == 0) WITNESS("vdom_entry_not_applicable");
  if (has_at && in_vd && in_keylen == 2 && in_key[0] == '.' && off > 0 && in_prelen + 1 <= at && RL - at - 1 > 2)
    WITNESS("wildcard_entry");                      /* .x controls a.x */
  if (PL >= 3 && in_report[0] == '\n' && in_report[1] == '\n' && in_report[2] == '<') WITNESS("report_with_blank_lines");
  if (PL >= 2 && in_report[PL - 1] == '\n' && in_report[PL - 2] == '\n') WITNESS("report_ends_in_two_lf");
  if (RL >= 1 && in_recip[0] == '\n') WITNESS("recipient_with_lf");
  if (WT && nwrite >= 4 && nsleep >= 1) WITNESS("short_and_failed_writes");
  if (!WT) CHECK(nwrite == 1 && nsleep == in_openfail, "one write when the kernel takes everything");
  if (in_openfail) WITNESS("open_retried");
  WITNESS("appended");
}
