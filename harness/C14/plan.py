from vlib import Obl, Prog

STRALLOC = ["stralloc_opys.c", "stralloc_opyb.c", "stralloc_cats.c", "stralloc_catb.c", "stralloc_pend.c", "byte_copy.c"]
FMT = ["fmtqfn.c", "fmt_ulong.c", "fmt_str.c", "auto_split.c"]


def obligations(tier):
    if tier == "quick":
        ab_grid = [{"RL": 2, "PL": p} for p in range(0, 9)] + [{"RL": r, "PL": 3} for r in (0, 1, 3, 4, 5, 6)]
    else:
        ab_grid = [{"RL": r, "PL": p} for r in range(0, 7) for p in range(0, 13)]
    ab_grid += [{"RL": 1, "PL": 2, "WT": 1}, {"RL": 3, "PL": 1, "WT": 1}]
    return [
        Obl("addbounce", "addbounce.c",
            progs=[Prog("qmail-send.c", nomain=True)],
            repo=STRALLOC + FMT + ["str_rchr.c", "open_append.c"],
            lib=["harness/C14/arena1d.c"],
            defines={"ARENA_CAP": 64, "ARENA_SLOTS": 3},
            sysrename=["open", "write", "close", "sleep", "strlen", "strncmp"],
            grid=ab_grid,
            unwind_default=lambda p: p["RL"] + p["PL"] + 10,
            unwind=lambda p: {"addbounce~nomem()": 1, "fnmake_init~nomem()": 1, "addbounce~for (;;)": 3,
                              "addbounce~while (pos < bouncetext.len)": 5, "constmap": 3, "ref_strip": max(3, p["RL"] + 1),
                              "vf_open": 10, "fmt_ulong": 3,
                              "vf_strlen": p["RL"] + p["PL"] + 5, "vf_strncmp": p["RL"] + p["PL"] + 5},
            backend="cadical", timeout=900,
            functions=["qmail-send.c:addbounce", "qmail-send.c:stripvdomprepend", "qmail-send.c:fnmake2_bounce", "qmail-send.c:fnmake_init",
                       "fmtqfn.c:fmtqfn", "open_append.c:open_append", "str_rchr.c", "stralloc_cats.c", "stralloc_opys.c"],
            cuts=["constmap -> one-entry case-insensitive table (key 0..2 bytes without '@', prepend 0..2 bytes, or no entry); "
                  "lemma constmap_init+constmap == case-insensitive linear search: C10"],
            stubs=["open/write/close/sleep: syscall stubs; open may fail once, write may be short, return 0 or -1 (3-entry tape), bytes recorded",
                   "log1: no-op; nomem: must be unreachable; stralloc_ready/readyplus: arena (64 bytes, harness/C14/arena1d.c)",
                   "strlen/strncmp: plain bounded byte loops in the harness"],
            assumes=["recipient exactly RL non-NUL bytes, report exactly PL non-NUL bytes (sizes concrete per query), bounce id 7",
                     "virtualdomains: empty or one virtual-domain entry (domain / .suffix / catch-all, possibly the empty-prepend exception)"],
            outside=["virtual-user entries (user@domain:prepend) and several interacting entries", "reports longer than the grid"],
            claim="the text appended to bounce/N is exactly '<name>:' LF + failure text (LFs possibly replaced) [+ LF] + LF: name = recipient "
                  "minus the virtual-domain prepend, no LF in the header line, ends with an empty line and nothing but LF follows any earlier "
                  "empty line (no forged recipient paragraph), written completely despite short/failed writes",
            expect_witnesses=lambda p: ["appended", "open_retried"] + (["short_and_failed_writes"] if p.get("WT") else [])
            + (["recipient_with_lf"] if p["RL"] >= 1 else [])
            + (["vdom_prepend_stripped", "vdom_entry_not_applicable"] if p["RL"] >= 3 else [])
            + (["prepend_beyond_local_part"] if p["RL"] >= 2 else [])
            + (["wildcard_entry"] if p["RL"] >= 5 else [])
            + (["report_ends_in_two_lf"] if p["PL"] >= 2 else [])
            + (["report_with_blank_lines"] if p["PL"] >= 3 else [])),
    ]
