# C14 - bounces: qmail-send.c addbounce()/stripvdomprepend() (what is appended to bounce/N) and injectbounce()
# (to whom / from whom the notice goes, when bounce/N is removed, chain step).
#
# kills (hand-made mutants of /repo in a scratch worktree; each reported as VIOLATION with a native replay, rc 1):
#   addbounce():        recipient LF -> '_' replacement dropped                      addbounce C14(1) LF in the recipient
#                       second LF -> '/' replacement dropped                         addbounce C14(3) forged paragraph
#                       '/' loop stops early (`pos > 0` -> `pos > 4`)                addbounce C14(3)
#                       final stralloc_cats("\n") dropped (no terminating empty line) addbounce (shape of the appended text)
#   stripvdomprepend(): `if (recip[i] != '-') break;` dropped                        addbounce C14(1) prepend / over-read (RL<=2)
#   injectbounce():     `if (*qmail_close(&qqt))` result ignored                     injectbounce (removed only after close == "")
#                       unlink(fn2.s) inserted before qmail_from()                   injectbounce (unlink order)
#                       double bounce sent with sender "" instead of "#@[]"          injectbounce SL=0 + bounce_chain STEP 2
#                       "#@[]" no longer discarded (`if (0)`)                        injectbounce SL=4 + bounce_chain STEP 3
#                       VERP suffix not stripped (`if (sender.len >= 5)` -> `if (0)`) injectbounce SL=8 (pre@host)
#                       single bounce sent with a non-empty envelope sender          bounce_chain STEP 1 (sender "" or #@[])
#   qmail.c:            qmail_close `case 0: if (!qq->flagerr) return ""` -> `return ""` qmail_envelope (success after qmail_fail)
#                       qmail_from: close(qq->fdm) dropped                            qmail_envelope (message EOF before envelope)
#                       qmail_to writes "R" instead of "T"                            qmail_envelope (envelope format)
from vlib import Obl, Prog

STRALLOC = ["stralloc_opys.c", "stralloc_opyb.c", "stralloc_cats.c", "stralloc_catb.c", "stralloc_pend.c", "byte_copy.c"]
FMT = ["fmtqfn.c", "fmt_ulong.c", "fmt_str.c", "auto_split.c"]


def obligations(tier):
    if tier == "quick":
        ab_grid = [{"RL": 2, "PL": p} for p in range(0, 9)] + [{"RL": r, "PL": 3} for r in (0, 1, 3, 4, 5, 6)]
    else:
        ab_grid = [{"RL": r, "PL": p} for r in range(0, 7) for p in range(0, 13)]
    ab_grid += [{"RL": 1, "PL": 2, "WT": 1}, {"RL": 3, "PL": 1, "WT": 1}]
    inj = dict(
        progs=[Prog("qmail-send.c", nomain=True, cut=["getinfo"])],
        repo=STRALLOC + FMT + ["open_read.c", "substdio.c"],
        lib=["ideal_substdio.c", "harness/C14/arena1d.c"],
        defines={"ARENA_CAP": 64, "ARENA_SLOTS": 8},
        sysrename=["stat", "open", "close", "unlink", "time", "strlen", "strcmp"],
        # lengths are symbolic for symex (only SAT knows strlen <= SL), so every loop over a string is unrolled to its
        # bound: keep the bounds exact (unwinding assertions prove them) - with 2*SL+12 everywhere the SL=4 query had 830k steps
        unwind_default=lambda p: max(p["SL"], 3) + 3,
        unwind=lambda p: {"injectbounce~nomem()": 1, "fnmake_init~nomem()": 1, "vf_strlen": 261, "vf_strcmp": 17,
                          "substdio_get": 4, "fmt_ulong": 5, "fmt_str": 9, "path_is": 13, "qmail_from": 9,
                          "byte_copy": max(p["SL"], 8) + 2, "injectbounce~while ((r = substdio_get": 4},
        timeout=900,
        functions=["qmail-send.c:injectbounce", "qmail-send.c:fnmake2_bounce", "qmail-send.c:fnmake_mess", "fmtqfn.c:fmtqfn", "open_read.c:open_read", "substdio.c:substdio_fdbuf"],
        cuts=["getinfo -> returns the symbolic envelope sender (or fails)",
              "qmail_open/qp/put/from/to/fail/close (qmail.c) -> observing stubs; close returns \"\" iff no qmail_fail and qmail-queue "
              "succeeded (symbolic) - contract proved on the real qmail.c by obligation qmail_envelope",
              "newfield_datemake -> fixed Date line", "quote/quote2 -> fixed text (header formatting only; quoting is C17's)"],
        stubs=["stat/open/close/unlink/time: syscall stubs; stat: ok/ENOENT/EIO, open of either file may fail, unlink may fail (symbolic)",
               "substdio_get: ideal stream over 2-byte bounce/N and mess/N with an optional read error; strlen/strcmp: bounded byte loops",
               "log1/log3/qslog2: no-ops; stralloc_ready/readyplus: arena"],
        assumes=["sender exactly SL non-NUL bytes; doublebounceto@doublebouncehost 3 symbolic bytes; bounce/N and mess/N 2 symbolic bytes each; id 7"],
        outside=["senders longer than the grid", "header text of the notice (From:/To:/Subject: lines, explanatory text)"])
    sls = [0, 1, 4, 5, 8] if tier == "quick" else [0, 1, 2, 3, 4, 5, 6, 7, 8, 9, 10]
    return [
        Obl("injectbounce", "inject.c", grid=[{"SL": n} for n in sls],
            claim="per sender form: ordinary -> F'' T<sender>; pre@host-@[] -> F'' T<pre@host>; '' -> F'#@[]' T<doublebounceto>; '#@[]' -> nothing "
                  "queued, bounce/N removed; bounce/N removed only after qmail_close()==''; qq start/close failure, unreadable file -> return 0, "
                  "bounce/N stays; bytes of bounce/N then mess/N handed over unchanged",
            expect_witnesses=lambda p: ["no_info", "no_bounce_file", "qq_not_started"]
            + (["double_bounce_sent"] if p["SL"] == 0 else ["single_bounce_sent"])
            + (["double_bounce_discarded", "unspecified_sender_form"] if p["SL"] == 4 else [])
            + (["verp_bounce_sent"] if p["SL"] >= 5 else [])
            + (["verp_of_double_bounce_discarded"] if p["SL"] == 8 else [])
            + ["qq_failed", "read_failed", "unlink_failed", "queued_and_removed"], **inj),
        Obl("bounce_chain", "inject.c", grid=[{"STEP": 1, "SL": 6}, {"STEP": 2, "SL": 0}, {"STEP": 3, "SL": 4}],
            claim="loop freedom by induction on the sender form: (1) whatever the sender, a queued notice has envelope sender '' or '#@[]'; "
                  "(2) a message with sender '' yields only a notice with sender '#@[]' (to doublebounceto); (3) a message with sender '#@[]' "
                  "yields nothing - so a chain of notices has at most two members",
            expect_witnesses=lambda p: {1: ["single_bounce_sent", "verp_bounce_sent", "queued_and_removed"],
                                        2: ["double_bounce_sent", "queued_and_removed"],
                                        3: ["double_bounce_discarded"]}[p["STEP"]], **inj),
        Obl("qmail_envelope", "qq.c",
            repo=["qmail.c", "substdio.c"], lib=["ideal_substdio.c"],
            sysrename=["close"],
            grid=[{"FL": 0, "TL": 2}, {"FL": 4, "TL": 3}],
            unwind_default=lambda p: p["FL"] + p["TL"] + 6,
            unwind={"strlen": 8, "qmail_errstr": 5},
            timeout=600,
            functions=["qmail.c:qmail_put", "qmail.c:qmail_fail", "qmail.c:qmail_from", "qmail.c:qmail_to", "qmail.c:qmail_close",
                       "qmail.c:qmail_errstr", "substdio.c:substdio_fdbuf"],
            stubs=["substdio: ideal streams, the k-th written byte may fail (symbolic k); close: records; wait_pid: symbolic status or failure",
                   "qmail_open: replaced by the struct state it leaves (pipes/fork/exec are outside)"],
            assumes=["sender FL, recipient TL non-NUL bytes; 2 body bytes; qmail-queue's error text <= 3 bytes, starting with D or Z when it exits 82"],
            outside=["qmail_open (pipe/fork/exec)", "a child exiting 82 with an error string that starts with NUL"],
            claim="discharges the cut used by injectbounce: qmail_close() returns \"\" only if no qmail_fail, no failed write, child waited for, "
                  "not crashed, exit 0, and then descriptor 1 received exactly F<sender>NUL T<recipient>NUL NUL after the message descriptor "
                  "was closed; otherwise a Z.../D... string",
            expect_witnesses=["queued", "failed_by_caller", "failed_by_write", "qq_crashed", "qq_custom_error"]),
        Obl("stripvdom", "stripvdom.c",
            progs=[Prog("qmail-send.c", nomain=True)],
            repo=["str_rchr.c"],
            grid=[{"R": r} for r in ([5, 6] if tier == "quick" else [5, 6, 7, 8])],
            unwind_default=lambda p: p["R"] + 4, timeout=900,
            functions=["qmail-send.c:stripvdomprepend", "str_rchr.c:str_rchr"],
            cuts=["constmap -> case-insensitive exact-match lookup over a symbolic two-entry table (C10 constmap_lemma)"],
            assumes=["recipient: any R bytes without NUL; virtualdomains: 0..2 entries, keys <= 4 bytes, prepends <= 2 bytes, all symbolic"],
            outside=["more than two entries; longer keys, prepends and recipients"],
            claim="stripvdomprepend removes exactly the prefix that the most specific matching virtualdomains entry added (whole domain, dot-suffixes, "
                  "catch-all, in that order); an exception entry or no entry removes nothing",
            expect_witnesses=["prefix_removed", "exception_entry_keeps_the_name", "no_at", "not_virtual",
                              "exception_under_a_catch_all_whose_prepend_the_name_happens_to_start_with"]),
        Obl("addbounce", "addbounce.c",
            progs=[Prog("qmail-send.c", nomain=True)],
            repo=STRALLOC + FMT + ["str_rchr.c", "open_append.c"],
            lib=["harness/C14/arena1d.c"],
            defines={"ARENA_CAP": 64, "ARENA_SLOTS": 3},
            sysrename=["open", "write", "close", "sleep", "strlen", "strncmp"],
            grid=ab_grid,
            unwind_default=lambda p: p["RL"] + p["PL"] + 10,
            unwind=lambda p: {"addbounce~nomem()": 1, "fnmake_init~nomem()": 1, "addbounce~for (;;)": 3,
                              "addbounce~while (pos < bouncetext.len)": 5, "constmap": 3, "ref_strip": max(3, p["RL"] + 1),
                              "vf_open": 10, "fmt_ulong": 3,
                              "vf_strlen": p["RL"] + p["PL"] + 5, "vf_strncmp": p["RL"] + p["PL"] + 5},
            timeout=900,
            functions=["qmail-send.c:addbounce", "qmail-send.c:stripvdomprepend", "qmail-send.c:fnmake2_bounce", "qmail-send.c:fnmake_init",
                       "fmtqfn.c:fmtqfn", "open_append.c:open_append", "str_rchr.c", "stralloc_cats.c", "stralloc_opys.c"],
            cuts=["constmap -> one-entry case-insensitive table (key 0..2 bytes without '@', prepend 0..2 bytes, or no entry); "
                  "lemma constmap_init+constmap == case-insensitive linear search: C10"],
            stubs=["open/write/close/sleep: syscall stubs; open may fail once, write may be short, return 0 or -1 (3-entry tape), bytes recorded",
                   "log1: no-op; nomem: must be unreachable; stralloc_ready/readyplus: arena (64 bytes, harness/C14/arena1d.c)",
                   "strlen/strncmp: plain bounded byte loops in the harness"],
            assumes=["recipient exactly RL non-NUL bytes, report exactly PL non-NUL bytes (sizes concrete per query), bounce id 7",
                     "virtualdomains: empty or one virtual-domain entry (domain / .suffix / catch-all, possibly the empty-prepend exception)"],
            outside=["virtual-user entries (user@domain:prepend) and several interacting entries", "reports longer than the grid"],
            claim="the text appended to bounce/N is exactly '<name>:' LF + failure text (LFs possibly replaced) [+ LF] + LF: name = recipient "
                  "minus the virtual-domain prepend, no LF in the header line, ends with an empty line and nothing but LF follows any earlier "
                  "empty line (no forged recipient paragraph), written completely despite short/failed writes",
            expect_witnesses=lambda p: ["appended", "open_retried"] + (["short_and_failed_writes"] if p.get("WT") else [])
            + (["recipient_with_lf"] if p["RL"] >= 1 else [])
            + (["vdom_prepend_stripped", "vdom_entry_not_applicable"] if p["RL"] >= 3 else [])
            + (["prepend_beyond_local_part"] if p["RL"] >= 2 else [])
            + (["wildcard_entry"] if p["RL"] >= 6 else [])
            + (["report_ends_in_two_lf"] if p["PL"] >= 2 else [])
            + (["report_with_blank_lines"] if p["PL"] >= 3 else [])),
    ]
