from vlib import Obl, Prog

STRALLOC = ["stralloc_opys.c", "stralloc_opyb.c", "stralloc_cats.c", "stralloc_catb.c", "stralloc_pend.c", "byte_copy.c"]
FMT = ["fmtqfn.c", "fmt_ulong.c", "fmt_str.c", "auto_split.c"]


def obligations(tier):
    if tier == "quick":
        ab_grid = [{"RL": 2, "PL": p} for p in range(0, 9)] + [{"RL": r, "PL": 3} for r in (0, 1, 3, 4, 5, 6)]
    else:
        ab_grid = [{"RL": r, "PL": p} for r in range(0, 7) for p in range(0, 13)]
    ab_grid += [{"RL": 1, "PL": 2, "WT": 1}, {"RL": 3, "PL": 1, "WT": 1}]
    inj = dict(
        progs=[Prog("qmail-send.c", nomain=True, cut=["getinfo"])],
        repo=STRALLOC + FMT + ["stralloc_copy.c", "stralloc_cat.c", "str_rchr.c", "open_read.c", "quote.c", "substdio.c"],
        lib=["ideal_substdio.c", "harness/C14/arena1d.c"],
        defines={"ARENA_CAP": 64, "ARENA_SLOTS": 8},
        sysrename=["stat", "open", "close", "unlink", "time", "strlen", "strcmp"],
        unwind_default=lambda p: 2 * p["SL"] + 12,
        unwind=lambda p: {"injectbounce~nomem()": 1, "fnmake_init~nomem()": 1, "vf_strlen": 261, "vf_strcmp": 17,
                          "substdio_get": 4, "fmt_ulong": 5, "quote_need~for (i = 0;i < n;++i)": p["SL"] + 15},
        timeout=900,
        functions=["qmail-send.c:injectbounce", "qmail-send.c:fnmake2_bounce", "qmail-send.c:fnmake_mess", "quote.c:quote2", "quote.c:quote",
                   "quote.c:quote_need", "quote.c:doit", "fmtqfn.c:fmtqfn", "open_read.c:open_read", "substdio.c:substdio_fdbuf"],
        cuts=["getinfo -> returns the symbolic envelope sender (or fails)",
              "qmail_open/qp/put/from/to/fail/close (qmail.c) -> observing stubs; close returns \"\" iff no qmail_fail and qmail-queue "
              "succeeded (symbolic) - the contract of qmail.c:qmail_close",
              "newfield_datemake -> fixed Date line"],
        stubs=["stat/open/close/unlink/time: syscall stubs; stat: ok/ENOENT/EIO, open of either file may fail, unlink may fail (symbolic)",
               "substdio_get: ideal stream over 2-byte bounce/N and mess/N with an optional read error; strlen/strcmp: bounded byte loops",
               "log1/log3/qslog2: no-ops; stralloc_ready/readyplus: arena"],
        assumes=["sender exactly SL non-NUL bytes; doublebounceto@doublebouncehost 3 symbolic bytes; bounce/N and mess/N 2 symbolic bytes each; id 7"],
        outside=["senders longer than the grid", "header text of the notice (From:/To:/Subject: lines, explanatory text)"])
    sls = [0, 1, 4, 5, 8] if tier == "quick" else [0, 1, 2, 3, 4, 5, 6, 7, 8, 9, 10]
    return [
        Obl("injectbounce", "inject.c", grid=[{"SL": n} for n in sls],
            claim="per sender form: ordinary -> F'' T<sender>; pre@host-@[] -> F'' T<pre@host>; '' -> F'#@[]' T<doublebounceto>; '#@[]' -> nothing "
                  "queued, bounce/N removed; bounce/N removed only after qmail_close()==''; qq start/close failure, unreadable file -> return 0, "
                  "bounce/N stays; bytes of bounce/N then mess/N handed over unchanged",
            expect_witnesses=lambda p: ["no_info", "no_bounce_file", "qq_not_started"]
            + (["double_bounce_sent"] if p["SL"] == 0 else ["single_bounce_sent"])
            + (["double_bounce_discarded", "unspecified_sender_form"] if p["SL"] == 4 else [])
            + (["verp_bounce_sent"] if p["SL"] >= 5 else [])
            + (["verp_of_double_bounce_discarded"] if p["SL"] == 8 else [])
            + ["qq_failed", "read_failed", "unlink_failed", "queued_and_removed"], **inj),
        Obl("bounce_chain", "inject.c", grid=[{"STEP": 1, "SL": 6}, {"STEP": 2, "SL": 0}, {"STEP": 3, "SL": 4}],
            claim="loop freedom by induction on the sender form: (1) whatever the sender, a queued notice has envelope sender '' or '#@[]'; "
                  "(2) a message with sender '' yields only a notice with sender '#@[]' (to doublebounceto); (3) a message with sender '#@[]' "
                  "yields nothing - so a chain of notices has at most two members",
            expect_witnesses=lambda p: {1: ["single_bounce_sent", "verp_bounce_sent", "queued_and_removed"],
                                        2: ["double_bounce_sent", "queued_and_removed"],
                                        3: ["double_bounce_discarded"]}[p["STEP"]], **inj),
        Obl("addbounce", "addbounce.c",
            progs=[Prog("qmail-send.c", nomain=True)],
            repo=STRALLOC + FMT + ["str_rchr.c", "open_append.c"],
            lib=["harness/C14/arena1d.c"],
            defines={"ARENA_CAP": 64, "ARENA_SLOTS": 3},
            sysrename=["open", "write", "close", "sleep", "strlen", "strncmp"],
            grid=ab_grid,
            unwind_default=lambda p: p["RL"] + p["PL"] + 10,
            unwind=lambda p: {"addbounce~nomem()": 1, "fnmake_init~nomem()": 1, "addbounce~for (;;)": 3,
                              "addbounce~while (pos < bouncetext.len)": 5, "constmap": 3, "ref_strip": max(3, p["RL"] + 1),
                              "vf_open": 10, "fmt_ulong": 3,
                              "vf_strlen": p["RL"] + p["PL"] + 5, "vf_strncmp": p["RL"] + p["PL"] + 5},
            timeout=900,
            functions=["qmail-send.c:addbounce", "qmail-send.c:stripvdomprepend", "qmail-send.c:fnmake2_bounce", "qmail-send.c:fnmake_init",
                       "fmtqfn.c:fmtqfn", "open_append.c:open_append", "str_rchr.c", "stralloc_cats.c", "stralloc_opys.c"],
            cuts=["constmap -> one-entry case-insensitive table (key 0..2 bytes without '@', prepend 0..2 bytes, or no entry); "
                  "lemma constmap_init+constmap == case-insensitive linear search: C10"],
            stubs=["open/write/close/sleep: syscall stubs; open may fail once, write may be short, return 0 or -1 (3-entry tape), bytes recorded",
                   "log1: no-op; nomem: must be unreachable; stralloc_ready/readyplus: arena (64 bytes, harness/C14/arena1d.c)",
                   "strlen/strncmp: plain bounded byte loops in the harness"],
            assumes=["recipient exactly RL non-NUL bytes, report exactly PL non-NUL bytes (sizes concrete per query), bounce id 7",
                     "virtualdomains: empty or one virtual-domain entry (domain / .suffix / catch-all, possibly the empty-prepend exception)"],
            outside=["virtual-user entries (user@domain:prepend) and several interacting entries", "reports longer than the grid"],
            claim="the text appended to bounce/N is exactly '<name>:' LF + failure text (LFs possibly replaced) [+ LF] + LF: name = recipient "
                  "minus the virtual-domain prepend, no LF in the header line, ends with an empty line and nothing but LF follows any earlier "
                  "empty line (no forged recipient paragraph), written completely despite short/failed writes",
            expect_witnesses=lambda p: ["appended", "open_retried"] + (["short_and_failed_writes"] if p.get("WT") else [])
            + (["recipient_with_lf"] if p["RL"] >= 1 else [])
            + (["vdom_prepend_stripped", "vdom_entry_not_applicable"] if p["RL"] >= 3 else [])
            + (["prepend_beyond_local_part"] if p["RL"] >= 2 else [])
            + (["wildcard_entry"] if p["RL"] >= 5 else [])
            + (["report_ends_in_two_lf"] if p["PL"] >= 2 else [])
            + (["report_with_blank_lines"] if p["PL"] >= 3 else [])),
    ]
