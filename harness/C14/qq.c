/* C14 - qmail.c: the contract that inject.c's observing stubs assume of
 * qmail_put/qmail_from/qmail_to/qmail_fail/qmail_close (the cut is discharged here).
 * Encoded from /repo: qmail.c qmail_put, qmail_fail, qmail_from, qmail_to, qmail_close,
 * qmail_errstr; substdio.c substdio_fdbuf.  qmail_open (pipe/fork/exec) is replaced by
 * setting up the struct the way it leaves it.
 *
 * Oracle (envelopes(5)/qmail-queue(8): the envelope read from descriptor 1 is
 * F sender NUL, T recipient NUL ..., NUL; message on descriptor 0, read to EOF first):
 *   - the bytes written to the message descriptor are exactly the bytes put, and that
 *     descriptor is closed before the first envelope byte is written;
 *   - qmail_close() returns "" ONLY IF no qmail_fail() happened, no write failed, the
 *     child was waited for, did not crash and exited 0 - and then the envelope descriptor
 *     received exactly  F from NUL T to NUL NUL  and was closed before the wait;
 *   - otherwise it returns a non-empty string starting with Z or D (never success). */
#include "verif.h"
#include <unistd.h>
#include "qmail.h"
#include "substdio.h"

/* qmail.h declares these without prototypes; the definitions in qmail.c take these types
 * (an unprototyped call with an int length would leave the upper half of the size_t
 * unconstrained in cbmc: DESIGN 2.1) */
void qmail_put(struct qmail *qq, char *s, size_t len);
void qmail_from(struct qmail *qq, char *s);
void qmail_to(struct qmail *qq, char *s);
void qmail_fail(struct qmail *qq);
char *qmail_close(struct qmail *qq);
extern int wait_pid(int *wstat, int pid);

#ifndef FL
#define FL 2          /* envelope sender length */
#endif
#ifndef TL
#define TL 2          /* envelope recipient length */
#endif
#define BODY 2
#define ENVMAX (FL + TL + 8)
#define EL 3          /* bytes qmail-queue may write to its error descriptor */

unsigned char in_from[FL + 1], in_to[TL + 1], in_body[BODY];
unsigned char in_fail;            /* the caller reports a failure (qmail_fail) */
unsigned int in_wfail;            /* the k-th byte written (message or envelope) fails; 0: none */
unsigned char in_waitbad;         /* wait_pid does not return the child */
unsigned char in_sig, in_exit;    /* how qmail-queue ended */
unsigned char in_err[EL]; unsigned int in_errlen;

static struct qmail qq;
static unsigned char msg[BODY + 1], env[ENVMAX];
static unsigned int msglen, envlen, nwritten, errpos;
static int closed_m, closed_e, closed_err, waited, write_failed;

void sym_inputs(void)
{
#ifdef REPLAY
#include "replay_inputs.inc"
#else
  SYM_ARR(in_from); SYM_ARR(in_to); SYM_ARR(in_body); SYM(in_fail); SYM(in_wfail); SYM(in_waitbad);
  SYM(in_sig); SYM(in_exit); SYM_ARR(in_err); SYM(in_errlen);
#endif
}

int ideal_putc(substdio *s, unsigned char c)
{
  CHECK(s == &qq.ss, "only the connection to qmail-queue is written");
  if (++nwritten == in_wfail) { write_failed = 1; return -1; }
  if (s->fd == 5) {
    CHECK(!closed_m, "message descriptor is open while written");
    CHECK(msglen < sizeof msg, "message bytes (harness sizing)"); ASSUME(msglen < sizeof msg);
    msg[msglen++] = c;
  } else {
    CHECK(s->fd == 6 && !closed_e, "envelope descriptor is open while written");
    CHECK(closed_m, "C14(qq): the message descriptor is closed (EOF) before the envelope is written");
    CHECK(envlen < ENVMAX, "envelope bytes (harness sizing)"); ASSUME(envlen < ENVMAX);
    env[envlen++] = c;
  }
  return 0;
}
int ideal_flush(substdio *s) { return 0; }
int ideal_getc(substdio *s)
{
  CHECK(s == &qq.ss && s->fd == 7 && closed_e, "only qmail-queue's error descriptor is read, after the envelope was closed");
  if (errpos >= in_errlen) return -1;
  return in_err[errpos++];
}

int vf_close(int fd)
{
  if (fd == 5) closed_m = 1; else if (fd == 6) closed_e = 1; else { CHECK(fd == 7, "close of a descriptor of this connection"); closed_err = 1; }
  return 0;
}

int wait_pid(int *wstat, int pid)
{
  CHECK(pid == 1234 && closed_e, "wait for qmail-queue after the envelope descriptor was closed");
  waited = 1;
  if (in_waitbad) return -1;
  *wstat = in_sig ? in_sig : (in_exit << 8);
  return pid;
}

void vmain(void)
{
  unsigned int i, k;
  char *r;
  sym_inputs();
  for (i = 0; i < FL; ++i) ASSUME(in_from[i] != 0);
  for (i = 0; i < TL; ++i) ASSUME(in_to[i] != 0);
  in_from[FL] = 0; in_to[TL] = 0;
  ASSUME(in_fail <= 1 && in_waitbad <= 1 && in_sig <= 126 && in_errlen <= EL && in_wfail <= ENVMAX + BODY);
  /* qmail-queue(8): with exit code 82 "a custom error string is written to descriptor 6 ...
   * starting with D ... or Z".  A child that exits 82 and writes a string starting with
   * NUL would be reported as SUCCESS by qmail_close() (it returns that string unchecked);
   * that is outside the documented interface of the trusted child, hence assumed away -
   * noted in the report as a robustness gap, not a C14 violation. */
  ASSUME(in_exit != 82 || in_errlen <= 2 || in_err[0] == 'D' || in_err[0] == 'Z');

  /* the state qmail_open() leaves behind */
  qq.pid = 1234; qq.fdm = 5; qq.fde = 6; qq.fderr = 7; qq.flagerr = 0;
  substdio_fdbuf(&qq.ss, write, qq.fdm, qq.buf, sizeof qq.buf);

  qmail_put(&qq, (char *) in_body, (size_t) BODY);
  if (in_fail) qmail_fail(&qq);
  qmail_from(&qq, (char *) in_from);
  qmail_to(&qq, (char *) in_to);
  r = qmail_close(&qq);

  CHECK(r != 0, "qmail_close returns a string");
  CHECK(closed_m && closed_e && closed_err, "all three descriptors are closed");
  if (r[0] == 0) {
    CHECK(!in_fail, "C14(qq): success is never reported after qmail_fail()");
    CHECK(!write_failed, "C14(qq): success is never reported after a failed write");
    CHECK(waited && !in_waitbad && !in_sig && in_exit == 0, "C14(qq): success only if qmail-queue was waited for, did not crash, exited 0");
    CHECK(msglen == BODY && msg[0] == in_body[0] && msg[1] == in_body[1], "C14(qq): the message descriptor got exactly the bytes put");
    /* F from NUL T to NUL NUL */
    CHECK(envlen == FL + TL + 5, "C14(qq): envelope = F sender NUL T recipient NUL NUL");
    if (envlen == FL + TL + 5) {
      k = 0;
      CHECK(env[k++] == 'F', "C14(qq): envelope starts with F");
      for (i = 0; i < FL; ++i) CHECK(env[k++] == in_from[i], "C14(qq): sender bytes");
      CHECK(env[k++] == 0, "C14(qq): sender terminated by NUL");
      CHECK(env[k++] == 'T', "C14(qq): recipient introduced by T");
      for (i = 0; i < TL; ++i) CHECK(env[k++] == in_to[i], "C14(qq): recipient bytes");
      CHECK(env[k++] == 0 && env[k++] == 0, "C14(qq): recipient and envelope terminated by NUL");
    }
    WITNESS("queued");
  } else {
    CHECK(r[0] == 'Z' || r[0] == 'D', "C14(qq): a failure is reported as Z... or D...");
    if (in_fail && !in_sig && in_exit == 0 && !in_waitbad) WITNESS("failed_by_caller");
    if (write_failed && !in_fail && !in_sig && in_exit == 0 && !in_waitbad) WITNESS("failed_by_write");
    if (in_sig) WITNESS("qq_crashed");
    if (!in_sig && in_exit == 82 && in_errlen == 3) WITNESS("qq_custom_error");
  }
}
