/* C14 - qmail-send.c stripvdomprepend(): "names every failed recipient (with any
 * virtual-domain prefix removed)".  The prefix is the one rewrite() added (C10): the MOST
 * SPECIFIC matching virtualdomains entry decides - whole domain, then successively shorter
 * dot-suffixes, then the catch-all; an entry with an empty prepend is the documented
 * exception "this domain is not virtual" (qmail-send(8)), for which nothing was added and
 * nothing may be removed - a less specific entry never applies then.
 *
 * Encoded from /repo: qmail-send.c stripvdomprepend (text before main), str_rchr.c.
 * constmap() is CUT to the case-insensitive exact-match lookup over a symbolic table of two
 * entries (C10 constmap_lemma proves that contract on the real constmap.c).
 * Recipient: any R bytes without NUL; keys <= 4 bytes, prepends <= 2 bytes, all symbolic. */
#include "verif.h"
#include "gen_qmail-send.c"

#ifndef R
#define R 6
#endif
#define NVD 2
#define VKMAX 4
#define VTMAX 2

unsigned char rcp[R + 1];
unsigned int nvd;
unsigned char vd_key[NVD * VKMAX]; unsigned int vd_len[NVD];
char vd_tag[NVD * (VTMAX + 1)];

void sym_inputs(void)
{
#ifdef REPLAY
#include "replay_inputs.inc"
#else
  SYM_ARR(rcp); SYM(nvd); SYM_ARR(vd_key); SYM_ARR(vd_len); SYM_ARR(vd_tag);
#endif
}

static unsigned char fold(unsigned char c) { return (c >= 'A' && c <= 'Z') ? (unsigned char) (c + 32) : c; }
static int lookup(const unsigned char *s, unsigned int n)       /* entry index or -1 */
{
  unsigned int e, j;
  for (e = 0; e < NVD; ++e) {
    int ok = 1;
    if (e >= nvd) break;
    if (vd_len[e] != n) continue;
    for (j = 0; j < VKMAX; ++j) { if (j >= n) break; if (fold(vd_key[e * VKMAX + j]) != fold(s[j])) ok = 0; }
    if (ok) return (int) e;
  }
  return -1;
}
char *constmap(struct constmap *cm, char *s, int len)
{
  int e;
  CHECK(cm == &mapvdoms && len >= 0, "only virtualdomains is consulted");
  e = lookup((unsigned char *) s, (unsigned int) len);
  return e < 0 ? (char *) 0 : vd_tag + e * (VTMAX + 1);
}

void vmain(void)
{
  unsigned int i, at = R, dlen, k;
  int e = -1, have_at = 0;
  char *res;
  unsigned int want = 0;          /* number of bytes to strip */
  sym_inputs();
  ASSUME(nvd <= NVD);
  for (i = 0; i < R; ++i) ASSUME(rcp[i] != 0);
  rcp[R] = 0;
  for (i = 0; i < NVD; ++i) { ASSUME(vd_len[i] <= VKMAX); vd_tag[i * (VTMAX + 1) + VTMAX] = 0; }

  /* reference: the most specific matching entry, in the documented order */
  for (i = 0; i < R; ++i) if (rcp[i] == '@') { at = i; have_at = 1; }
  if (have_at) {
    dlen = R - at - 1;
    for (k = 0; k < R + 1; ++k) {
      if (k > dlen) break;
      if (k == 0 || k == dlen || rcp[at + 1 + k] == '.') {
        e = lookup(rcp + at + 1 + k, dlen - k);
        if (e >= 0) break;
      }
    }
    if (e >= 0) {
      const char *tag = vd_tag + e * (VTMAX + 1);
      unsigned int tl = 0, same = 1;
      for (i = 0; i < VTMAX; ++i) { if (!tag[i]) break; ++tl; }
      for (i = 0; i < VTMAX; ++i) { if (i >= tl) break; if ((unsigned char) tag[i] != rcp[i]) same = 0; }
      if (tl > 0 && same && rcp[tl] == '-') want = tl + 1;
    }
  }

  res = stripvdomprepend((char *) rcp);

  CHECK(res >= (char *) rcp && res <= (char *) rcp + R, "result points into the recipient");
  CHECK((unsigned int) (res - (char *) rcp) == want,
        "C14: exactly the prefix that the most specific matching virtualdomains entry added is removed; an exception entry (empty prepend) "
        "or no entry removes nothing");
  if (want) WITNESS("prefix_removed");
  if (e >= 0 && !vd_tag[e * (VTMAX + 1)]) WITNESS("exception_entry_keeps_the_name");
  if (e >= 0 && !vd_tag[e * (VTMAX + 1)] && nvd == 2 && vd_len[1 - e] == 0 && vd_tag[(1 - e) * (VTMAX + 1)] == rcp[0] && rcp[1] == '-' && !vd_tag[(1 - e) * (VTMAX + 1) + 1])
    WITNESS("exception_under_a_catch_all_whose_prepend_the_name_happens_to_start_with");
  if (!have_at) WITNESS("no_at");
  if (have_at && e < 0) WITNESS("not_virtual");
}
