/* arena1d.c - private twin of lib/arena_stralloc.c for the C14 harnesses: same contract
 * (stralloc_ready/readyplus over fixed-capacity slots, growth inside the bound is a CHECK),
 * but every slot is its own one-dimensional array.  With the two-dimensional
 * `arena[SLOTS][CAP]` of lib/arena_stralloc.c cbmc 6.11 returned a counterexample for
 * addbounce() in which a byte read through bouncetext.s[pos] differed from the byte
 * just stored there (inputs fixed by assumptions: still "failed"; same inputs concrete, or
 * this file instead of the lib one: passes; native replay: passes). */
#include "verif.h"
#include "stralloc.h"

#ifndef ARENA_CAP
#define ARENA_CAP 32
#endif
#ifndef ARENA_SLOTS
#define ARENA_SLOTS 8
#endif
#if ARENA_SLOTS > 8
#error "arena1d.c has 8 slots"
#endif

static char a0[ARENA_CAP], a1[ARENA_CAP], a2[ARENA_CAP], a3[ARENA_CAP], a4[ARENA_CAP], a5[ARENA_CAP], a6[ARENA_CAP], a7[ARENA_CAP];
static char *const arena[8] = { a0, a1, a2, a3, a4, a5, a6, a7 };
static unsigned int arena_used = 0;

static int arena_need(stralloc *x, unsigned int n)
{
  if (!x->s) {
    CHECK(arena_used < ARENA_SLOTS, "arena: more strallocs than ARENA_SLOTS (harness sizing)");
    ASSUME(arena_used < ARENA_SLOTS);
    x->s = arena[arena_used++];
    x->a = ARENA_CAP;
    x->len = 0;
  }
  CHECK(n <= x->a, "arena: stralloc growth beyond ARENA_CAP inside the bound (harness sizing)");
  ASSUME(n <= x->a);
  return 1;
}

int stralloc_ready(stralloc *x, unsigned int n) { return arena_need(x, n); }

int stralloc_readyplus(stralloc *x, unsigned int n)
{
  unsigned int len = x->s ? x->len : 0;
  CHECK(n <= 0xffffffffu - len, "arena: len+n wraps");
  ASSUME(n <= 0xffffffffu - len);
  return arena_need(x, len + n);
}
