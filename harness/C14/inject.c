/* C14 - qmail-send.c injectbounce(): to whom, from whom, and when the bounce file goes.
 * Encoded from /repo: qmail-send.c injectbounce, fnmake2_bounce, fnmake_mess, fnmake_init;
 * fmtqfn.c, fmt_*.c, open_read.c, substdio.c (substdio_fdbuf), stralloc units.
 * Cut: getinfo() -> returns the symbolic envelope sender of the message (or fails);
 *      qmail_open/put/from/to/fail/close/qp (qmail.c) -> observing stubs: what the envelope
 *      and body handed to qmail-queue are, in which order, and what qmail_close returned
 *      (contract taken from qmail.c: "" iff qmail-queue exited 0 and no qmail_fail/put error);
 *      newfield_datemake -> fixed Date line;
 *      quote()/quote2() (quote.c) -> fixed text: they only format the From:/To:/Return-Path:
 *      header lines of the notice, which the property does not speak about (C17 owns
 *      quoting); with the real ones, whose output position is symbolic for every byte, the
 *      SL=4 query needed 390k steps / 265 s.
 *
 * Oracle (property C14; envelopes(5) "bounced mail is sent back to the envelope sender
 * address ... doesn't list an envelope sender"; addresses(5) "#@[] is used as an envelope
 * sender address for double bounces", "pre@host-@[] ... bounces directly from qmail-send
 * will come back to pre@host"; qmail-send(8) doublebounceto: "sends a double-bounce
 * notice to doublebounceto@doublebouncehost. (If that bounces, qmail-send gives up.)";
 * INTERNALS: "(1) injects a new bounce message, created from bounce/457 and mess/457;
 * (2) deletes bounce/457"):
 *   sender ordinary            -> one message queued: envelope sender "", recipient = sender
 *   sender pre@host-@[]        -> envelope sender "", recipient pre@host
 *   sender ""   (a bounce)     -> envelope sender "#@[]", recipient doublebounceto@doublebouncehost
 *   sender "#@[]" (a double b.)-> NOTHING queued, bounce/N removed (discard)
 *   in every case the sender of a queued notice is "" or "#@[]"  (=> chain ends after 3 steps)
 *   bounce/N is unlinked only after qmail_close() returned "" (or in the discard case);
 *   if qmail-queue cannot be started or reports failure, or a file could not be read:
 *   return 0 ("try later") and bounce/N stays; no bounce file: return 1, nothing queued.
 *   body: the bytes of bounce/N, then of mess/N, are handed over unchanged and in order.
 * Not decided by the documents (accepted as they come, only the chain invariant and the
 * unlink order are demanded): a sender ending in -@[] whose remainder has no '@'
 * ("-@[]", "x-@[]"), and pre@host-@[] with pre@host = "#@[]". */
#include "verif.h"
#include <errno.h>
#include <fcntl.h>
#include <sys/stat.h>
#include "stralloc.h"
#include "datetime.h"

#ifndef SL
#define SL 4          /* sender length */
#endif
#ifndef STEP
#define STEP 0        /* 0: any sender of SL bytes; 1,2,3: the three chain-step queries */
#endif
#define BL 2          /* bytes in bounce/N */
#define ML 2          /* bytes in mess/N */
#define DL 3          /* length of doublebounceto@doublebouncehost */
#define BOUNCE_ID 7UL

unsigned char in_sender[SL + 1];
unsigned char in_dbl[DL + 1];
unsigned char in_bfile[BL], in_mfile[ML];
unsigned char in_getinfo_fail, in_stat, in_openqq_fail, in_close_fail, in_unlink_fail;
unsigned char in_openfile_fail;     /* 1: bounce/N cannot be opened, 2: mess/N cannot be opened */
unsigned char in_read_fail;         /* 1: read error in bounce/N, 2: in mess/N (after its first byte) */

/* ---- observations */
static int qq_open_called, qq_opened, qq_failed, qq_closed, qq_close_ok;
static struct qmail *the_qq;
static int n_from, n_to, n_unlink, unlink_ok;
static char env_from[8], env_to[SL + DL + 2];
static unsigned char pend[BL + ML];      /* bytes read from a file and not yet handed to qmail_put */
static unsigned int npend, ncopied;
static unsigned int bpos, mpos;
static int put_after_from;

struct qmail;
int getinfo(stralloc *sa, datetime_sec *dt, unsigned long id);
int ref_discard_ok(void);
#include "gen_qmail-send.c"

void sym_inputs(void)
{
#ifdef REPLAY
#include "replay_inputs.inc"
#else
  SYM_FEED();
  SYM_ARR(in_sender); SYM_ARR(in_dbl); SYM_ARR(in_bfile); SYM_ARR(in_mfile);
  SYM(in_getinfo_fail); SYM(in_stat); SYM(in_openqq_fail); SYM(in_close_fail); SYM(in_unlink_fail);
  SYM(in_openfile_fail); SYM(in_read_fail);
#endif
}

/* ---- bounded string primitives (strlen/strcmp renamed by the plan).  The terminating
 * NULs of all strings in this harness are CONSTANTS (assigned, not assumed), so symbolic
 * execution ends every scan at the terminator: constant texts cost their length, symbolic
 * strings at most SL+1 iterations.  (First version: terminators only assumed, sender copied
 * with strlen -> every length and arena offset symbolic: 830k steps, no verdict in 900 s.) */
#define STRMAX 260
size_t vf_strlen(const char *p)
{
  size_t n;
  for (n = 0; n < STRMAX; ++n) {
    if (!p[n]) return n;
  }
  CHECK(0, "strlen: no NUL within the bound (harness sizing)");
  ASSUME(0);
  return n;
}

int vf_strcmp(const char *a, const char *b)
{
  size_t i;
  for (i = 0; i < 16; ++i) {
    if (a[i] != b[i]) return (unsigned char) a[i] < (unsigned char) b[i] ? -1 : 1;
    if (!a[i]) return 0;
  }
  CHECK(0, "strcmp: longer than the bound (harness sizing)");
  ASSUME(0);
  return 0;
}

static int str_is(const char *a, const char *b) { return vf_strcmp(a, b) == 0; }

/* ---- cut callees */
int getinfo(stralloc *sa, datetime_sec *dt, unsigned long id)
{
  CHECK(id == BOUNCE_ID, "info of the message being bounced");
  if (in_getinfo_fail) return 0;
  *dt = 1000;
  if (!stralloc_copyb(sa, (char *) in_sender, SL)) return 0;     /* concrete length: see vf_strlen */
  if (!stralloc_0(sa)) return 0;
  return 1;
}

int quote(stralloc *out, stralloc *in) { return stralloc_copys(out, "q"); }
int quote2(stralloc *out, char *s) { return stralloc_copys(out, "q@q"); }
stralloc newfield_date = { "Date: 1 Jan 1970 00:00:00 -0000\n", 32, 33 };
int newfield_datemake(datetime_sec t) { return 1; }
time_t vf_time(time_t *t) { return 1000; }
void log1(char *a) {}
void log3(char *a, char *b, char *c) {}
void qslog2(char *a, char *b) {}
void nomem(void) { CHECK(0, "no allocation failure inside the bound (arena)"); ASSUME(0); }

int qmail_open(struct qmail *qq)
{
  CHECK(!qq_open_called, "C14: at most one notice is queued per call");
  qq_open_called = 1; the_qq = qq;
  qq->flagerr = 0;                 /* as the real qmail_open() does; callers may look at it */
  CHECK(!str_is((char *) in_sender, "#@[]"), "C14: a failing double bounce is discarded, nothing is queued");
  if (in_openqq_fail) return -1;
  qq_opened = 1;
  return 0;
}

unsigned long qmail_qp(struct qmail *qq) { return 4321; }
void qmail_fail(struct qmail *qq) { CHECK(qq_opened && !qq_closed, "qmail_fail on the open connection"); qq_failed = 1; qq->flagerr = 1; }

void qmail_put(struct qmail *qq, char *s, unsigned int len)
{
  unsigned int i;
  CHECK(qq_opened && !qq_closed, "qmail_put on the open connection");
  if (n_from) put_after_from = 1;
  if (npend) {
    /* bytes just read from bounce/N or mess/N: they must be what is handed over now */
    CHECK(len == npend, "C14: the bytes read from the file are handed to qmail-queue, all of them");
    for (i = 0; i < BL + ML; ++i) {
      if (i >= npend || i >= len) break;
      CHECK((unsigned char) s[i] == pend[i], "C14: ... unchanged and in order");
    }
    ncopied += npend;
    npend = 0;
  }
}

void qmail_from(struct qmail *qq, char *s)
{
  unsigned int i;
  CHECK(qq_opened && !qq_closed && n_from == 0 && n_to == 0, "envelope sender is given once, before the recipient");
  CHECK(npend == 0, "nothing read is left behind");
  ++n_from;
  CHECK(str_is(s, "") || str_is(s, "#@[]"), "C14(chain): the envelope sender of a notice is empty or #@[]");
  for (i = 0; i < sizeof env_from; ++i) { env_from[i] = s[i]; if (!s[i]) break; }
  env_from[sizeof env_from - 1] = 0;
}

void qmail_to(struct qmail *qq, char *s)
{
  unsigned int i;
  CHECK(qq_opened && !qq_closed && n_from == 1 && n_to == 0, "exactly one envelope recipient, after the sender");
  ++n_to;
  for (i = 0; i < sizeof env_to; ++i) { env_to[i] = s[i]; if (!s[i]) break; }
  CHECK(i < sizeof env_to, "C14: recipient is not longer than sender / doublebounceto");
  env_to[sizeof env_to - 1] = 0;
}

char *qmail_close(struct qmail *qq)
{
  CHECK(qq_opened && !qq_closed && n_from == 1 && n_to == 1, "message is closed after sender and recipient were given");
  CHECK(!put_after_from, "no body data after the envelope has begun");
  qq_closed = 1;
  /* qmail_close() reports a temporary (Z...) or a permanent (D...) failure of qmail-queue:
   * either way the notice was NOT queued (qmail-queue(8), qmail.c exit-code table) */
  if (in_close_fail == 2) return "Dqq permanent problem (#5.3.0)";
  if (qq_failed || in_close_fail) return "Zqq read error (#4.3.0)";
  qq_close_ok = 1;
  return "";
}

/* ---- files */
static int path_is(const char *p, const char *want)
{
  unsigned int i;
  for (i = 0; i < 12; ++i) { if (p[i] != want[i]) return 0; if (!p[i]) return 1; }
  return 0;
}

int vf_stat(const char *path, struct stat *st)
{
  CHECK(path_is(path, "bounce/7"), "stat of bounce/N");
  if (in_stat == 1) { errno = ENOENT; return -1; }
  if (in_stat == 2) { errno = EIO; return -1; }
  st->st_mode = S_IFREG | 0600;
  return 0;
}

int vf_open(const char *path, int flags, ...)
{
  CHECK((flags & O_ACCMODE) == O_RDONLY, "files are only read");
  if (path_is(path, "bounce/7")) { if (in_openfile_fail == 1) { errno = EIO; return -1; } bpos = 0; return 10; }
  CHECK(path_is(path, "mess/7/7"), "C14: only bounce/N and mess/N of the message are read");
  if (in_openfile_fail == 2) { errno = EIO; return -1; }
  mpos = 0;
  return 11;
}

int vf_close(int fd) { CHECK(fd == 10 || fd == 11, "close of a file that was opened"); return 0; }

int vf_unlink(const char *path)
{
  CHECK(path_is(path, "bounce/7"), "C14: only bounce/N is removed");
  CHECK(n_unlink == 0, "removed once");
  ++n_unlink;
  if (qq_opened) { CHECK(qq_closed && qq_close_ok, "C14: bounce/N is removed only after qmail_close() reported success"); }
  else { CHECK(str_is((char *) in_sender, "#@[]") || ref_discard_ok(), "C14: without a queued notice bounce/N is removed only for a double bounce"); }
  if (in_unlink_fail) { errno = EIO; return -1; }
  unlink_ok = 1;
  return 0;
}

int ideal_getc(substdio *s)
{
  unsigned char c;
  if (s->fd == 10) {
    if (in_read_fail == 1 && bpos >= 1) return -2;             /* sticky: reported once nothing else is pending */
    if (bpos >= BL) return -1;
    c = in_bfile[bpos++];
  } else {
    CHECK(s->fd == 11, "reads come from bounce/N or mess/N");
    if (in_read_fail == 2 && mpos >= 1) return -2;
    if (mpos >= ML) return -1;
    c = in_mfile[mpos++];
  }
  CHECK(npend < BL + ML, "pending buffer (harness sizing)");
  ASSUME(npend < BL + ML);
  pend[npend++] = c;
  return c;
}
/* a copy routine may also write the file's bytes straight into the message stream of the
 * qmail-queue connection (substdio_copy onto qq->ss) instead of going through qmail_put():
 * same obligation, one byte at a time */
int ideal_putc(substdio *s, unsigned char c)
{
  CHECK(the_qq && s == &the_qq->ss, "injectbounce writes only to the qmail-queue connection");
  CHECK(qq_opened && !qq_closed, "message bytes go to the open connection");
  CHECK(npend == 1 && pend[0] == c, "C14: the bytes read from the file are handed to qmail-queue unchanged and in order");
  if (npend) { ncopied += npend; npend = 0; }
  return 0;
}
int ideal_flush(substdio *s) { return 0; }

/* ---- reference classification of the sender */
#define F_ORDINARY 0
#define F_EMPTY 1
#define F_DOUBLE 2
#define F_VERP 3
#define F_UNSPEC 4
static int verp_cut;              /* length of pre@host */
static int ref_form(void)
{
  unsigned int i; int has_at = 0;
  if (SL == 0) return F_EMPTY;
  if (str_is((char *) in_sender, "#@[]")) return F_DOUBLE;
  if (SL >= 4 && in_sender[SL - 4] == '-' && in_sender[SL - 3] == '@' && in_sender[SL - 2] == '[' && in_sender[SL - 1] == ']') {
    verp_cut = SL - 4;
    for (i = 0; i + 4 < SL; ++i) if (in_sender[i] == '@') has_at = 1;
    if (!has_at) return F_UNSPEC;                       /* not of the form pre@host-@[] */
    if (verp_cut == 4 && in_sender[0] == '#' && in_sender[1] == '@' && in_sender[2] == '[' && in_sender[3] == ']') return F_UNSPEC;
    return F_VERP;
  }
  return F_ORDINARY;
}

int ref_discard_ok(void) { return ref_form() == F_UNSPEC; }

void vmain(void)
{
  unsigned int i;
  int rc, form;
  /* zero padding (constants) behind the terminator: quote2() scans a pointer that is either
   * the sender or doublebounceto; with equal constant bytes behind both terminators the scan
   * ends at the longer one instead of running to STRMAX on an out-of-bounds branch */
  static char dblbuf[64];
  sym_inputs();
  for (i = 0; i < SL; ++i) ASSUME(in_sender[i] != 0);
  for (i = 0; i < DL; ++i) ASSUME(in_dbl[i] != 0);
  in_sender[SL] = 0; in_dbl[DL] = 0;                 /* constant terminators */
  ASSUME(in_getinfo_fail <= 1 && in_stat <= 2 && in_openqq_fail <= 1 && in_close_fail <= 2 && in_unlink_fail <= 1);
  ASSUME(in_openfile_fail <= 2 && in_read_fail <= 2);
  /* chain queries (plan: bounce_chain): STEP 1 = any sender of SL bytes: the CHECK in
   * qmail_from shows the notice's sender is "" or #@[];  STEP 2 = sender "" (SL=0): the
   * notice has sender #@[], never "";  STEP 3 = sender #@[]: nothing is queued at all */
#if STEP == 3
  ASSUME(str_is((char *) in_sender, "#@[]"));
#endif
  for (i = 0; i <= DL; ++i) dblbuf[i] = (char) in_dbl[i];
  doublebounceto.s = dblbuf; doublebounceto.len = DL + 1; doublebounceto.a = DL + 1;
  bouncefrom.s = "md"; bouncefrom.len = 2; bouncefrom.a = 3;     /* short: quote_need()'s loops are shared with the sender */
  bouncehost.s = "bh"; bouncehost.len = 2; bouncehost.a = 3;
  fnmake_init();

  rc = injectbounce(BOUNCE_ID);

  form = ref_form();
  CHECK(rc == 0 || rc == 1, "injectbounce returns 0 (try later) or 1 (done)");
  CHECK(npend == 0, "nothing read is left behind");
  if (in_getinfo_fail) {
    CHECK(rc == 0 && !qq_opened && !n_unlink, "no sender known: try later, nothing done");
    WITNESS("no_info");
    return;
  }
  if (in_stat) {
    CHECK(!qq_opened && !n_unlink, "no bounce file: nothing queued, nothing removed");
    CHECK(rc == (in_stat == 1), "no bounce file: done; stat trouble: try later");
    WITNESS("no_bounce_file");
    return;
  }
  if (form == F_DOUBLE) {
    CHECK(!qq_opened && !n_from, "C14: a failing double bounce is discarded, nothing is queued");
    CHECK(n_unlink == 1 && rc == unlink_ok, "C14: ... and bounce/N is removed");
    WITNESS("double_bounce_discarded");
    return;
  }
  if (form == F_UNSPEC && !qq_open_called) {
    /* pre@host = "#@[]": discarded like a double bounce - accepted */
    CHECK(n_unlink == 1 && rc == unlink_ok, "discarded: bounce/N is removed");
    WITNESS("verp_of_double_bounce_discarded");
    return;
  }
  CHECK(qq_open_called, "C14: a notice is queued for every sender but #@[]");
  if (in_openqq_fail) {
    CHECK(rc == 0 && !n_unlink && !n_from, "C14: qmail-queue cannot be started: try later, bounce/N stays");
    WITNESS("qq_not_started");
    return;
  }
  CHECK(qq_opened && qq_closed && n_from == 1 && n_to == 1, "C14: exactly one notice with one sender and one recipient is queued");
  if (form == F_EMPTY) {
    CHECK(str_is(env_from, "#@[]"), "C14: a failing bounce yields a double bounce with sender #@[]");
    CHECK(str_is(env_to, dblbuf), "C14: ... to doublebounceto@doublebouncehost");
    WITNESS("double_bounce_sent");
  } else if (form == F_ORDINARY) {
    CHECK(str_is(env_from, ""), "C14: a bounce has the empty envelope sender");
    CHECK(str_is(env_to, (char *) in_sender), "C14: ... and goes to the original envelope sender");
    if (SL >= 1 && in_sender[SL - 1] == ']') WITNESS("ordinary_sender_ending_in_bracket");
    WITNESS("single_bounce_sent");
  } else if (form == F_VERP) {
    CHECK(str_is(env_from, ""), "C14: a bounce has the empty envelope sender");
    for (i = 0; i < SL; ++i) {
      if ((int) i >= verp_cut) break;
      CHECK(env_to[i] == (char) in_sender[i], "C14: a VERP sender pre@host-@[] gets its bounce at pre@host");
    }
    CHECK(env_to[verp_cut] == 0, "C14: a VERP sender pre@host-@[] gets its bounce at pre@host");
    WITNESS("verp_bounce_sent");
  } else {
    WITNESS("unspecified_sender_form");
  }
  if (in_close_fail || in_openfile_fail || in_read_fail) {
    if (in_close_fail) { CHECK(rc == 0 && !n_unlink, "C14: qmail-queue reports failure: try later, bounce/N stays"); WITNESS("qq_failed"); if (in_close_fail == 2) WITNESS("qq_failed_permanently"); }
    if (qq_failed) { CHECK(rc == 0 && !n_unlink, "C14: a file could not be read: the notice is abandoned, bounce/N stays"); WITNESS("read_failed"); }
  } else {
    CHECK(n_unlink == 1 && rc == unlink_ok, "C14: after the notice was queued bounce/N is removed");
    CHECK(ncopied == BL + ML, "C14: all of bounce/N and mess/N went into the notice");
    if (!unlink_ok) WITNESS("unlink_failed");
    WITNESS("queued_and_removed");
  }
  if (in_openfile_fail) { CHECK(qq_failed, "an unreadable file makes the notice fail"); }
  if (in_read_fail) { CHECK(qq_failed, "a read error makes the notice fail"); }
}
