/* ref_receiver.h - reference SMTP DATA receiver, written from the text of property C05 and
 * RFC 5321 4.1.1.4 / 4.5.2 (never from qmail-smtpd.c).  Included by the C05 harnesses.
 *
 *   - the payload starts at the beginning of a line (the byte before it is the LF of the
 *     "DATA CRLF" command line);
 *   - a line ends only at CR LF;
 *   - the line consisting of a single dot (". CR LF" at the beginning of a line) ends the
 *     message; the bytes after it belong to the next command;
 *   - every other line is stored as its bytes followed by LF, with one leading dot
 *     removed if the line starts with a dot; a CR that is not followed by LF is data;
 *   - an LF that is not preceded by CR is never a line ending: the session is refused
 *     (451), nothing is queued.
 *
 * Judgement recorded (DESIGN.md 4/C05): for a line that starts with '.', CR and a byte
 * other than LF the server keeps the dot where RFC 5321 would delete it.  No conforming
 * sender can emit such a line (it would have been stuffed to ".."), and the property
 * speaks of "dot-stuffed lines"; for exactly this input class the reference marks the
 * leading dot as optional (ref_opt[k] = 1) and the comparison accepts both results.
 *
 * The including file defines REF_N (capacity of the stream) before including this.
 */
#ifndef REF_RECEIVER_H
#define REF_RECEIVER_H

#define REF_END 0     /* terminator line found: message complete */
#define REF_STRAY 1   /* bare LF met before any terminator */
#define REF_EOF 2     /* the stream ends before either */

static int ref_kind;
static unsigned int ref_consumed;          /* REF_END: bytes up to and including ". CR LF" */
static unsigned int ref_straypos;          /* REF_STRAY: index of the bare LF */
static unsigned char ref_out[REF_N + 1];
static unsigned char ref_opt[REF_N + 1];   /* 1: this '.' may be present or absent */
static unsigned int ref_outlen;

static void ref_emit(unsigned char c, int optional)
{
  if (ref_outlen < REF_N + 1) { ref_out[ref_outlen] = c; ref_opt[ref_outlen] = (unsigned char) optional; }
  ++ref_outlen;
}

static void ref_receive(const unsigned char *s, unsigned int len)
{
  unsigned int i = 0, k;
  int bol = 1;
  ref_outlen = 0; ref_consumed = 0; ref_straypos = 0;
  ref_kind = REF_EOF;
  for (k = 0; k < REF_N + 1; ++k) {
    unsigned char c;
    if (i >= len) return;                       /* REF_EOF */
    c = s[i];
    if (bol && c == '.') {
      if (i + 2 < len && s[i + 1] == '\r' && s[i + 2] == '\n') {
        ref_kind = REF_END; ref_consumed = i + 3; return;
      }
      /* dot-stuffed line: one leading dot removed (optional for ". CR non-LF", see above) */
      if (i + 2 < len && s[i + 1] == '\r' && s[i + 2] != '\n') ref_emit('.', 1);
      ++i; bol = 0;
      continue;
    }
    bol = 0;
    if (c == '\r' && i + 1 < len && s[i + 1] == '\n') { ref_emit('\n', 0); i += 2; bol = 1; continue; }
    if (c == '\n') { ref_kind = REF_STRAY; ref_straypos = i; return; }
    ref_emit(c, 0);
    ++i;
  }
}

/* does got[0..gotlen) equal the reference output (optional dots either way)? */
static int ref_matches(const unsigned char *got, unsigned int gotlen)
{
  unsigned int j = 0, k;
  for (k = 0; k < REF_N + 1; ++k) {
    if (k >= ref_outlen) break;
    if (ref_opt[k]) { if (j < gotlen && got[j] == '.') ++j; continue; }
    if (j >= gotlen) return 0;
    if (got[j] != ref_out[k]) return 0;
    ++j;
  }
  return j == gotlen;
}

#endif
