/* C05 (C06 o C05, both real) - the package's own client encodes, the server decodes.
 * Encoded from /repo: qmail-remote.c blast (sender, text before main) and qmail-smtpd.c
 * blast, put, straynewline (receiver, text before main), in one translation unit.  The
 * seven file-scope names the two programs share are renamed for the qmail-remote copy by
 * #define around its #include (blast helohost out saferead safewrite ssin timeout).
 *
 * Property: "any message encoded by a conforming SMTP sender - including this package's
 * own client - decodes to exactly the original".
 *   - message without CR bytes, ending in LF (or empty): the decoded bytes are identical;
 *   - message with CR bytes: SMTP has no way to carry a bare CR as a line-internal byte
 *     from a UNIX file unchanged and the suite pins qmail-remote's "bare CR -> CR LF";
 *     same reading as C06(c): message and decoded result must agree after deleting every
 *     CR and LF (no other byte lost, added or reordered);
 *   - in every case the receiver ends the message exactly at the sender's final dot line
 *     (no earlier end = no smuggling, no refusal, nothing left over).
 * A message whose last line is partial is refused by the sender (C06(d)); that path ends
 * the run here. */
#include "verif.h"

/* headers of both programs first, so that the renaming below touches only qmail-remote.c */
#include <sys/types.h>
#include <sys/socket.h>
#include <netinet/in.h>
#include <arpa/inet.h>
#include <unistd.h>
#include "sig.h"
#include "stralloc.h"
#include "substdio.h"
#include "subfd.h"
#include "scan.h"
#include "case.h"
#include "error.h"
#include "auto_qmail.h"
#include "control.h"
#include "dns.h"
#include "quote.h"
#include "ip.h"
#include "ipalloc.h"
#include "ipme.h"
#include "gen_alloc.h"
#include "gen_allocdefs.h"
#include "str.h"
#include "now.h"
#include "exit.h"
#include "constmap.h"
#include "noreturn.h"
#include "tcpto.h"
#include "readwrite.h"
#include "timeoutconn.h"
#include "timeoutread.h"
#include "timeoutwrite.h"

#define blast remote_blast
#define helohost remote_helohost
#define out remote_out
#define saferead remote_saferead
#define safewrite remote_safewrite
#define ssin remote_ssin
#define timeout remote_timeout
#include "gen_qmail-remote.c"
#undef blast
#undef helohost
#undef out
#undef saferead
#undef safewrite
#undef ssin
#undef timeout

#include "gen_qmail-smtpd.c"

#ifndef M
#define M 6
#endif
#define W (3 * M + 8)

unsigned char msg[M];
unsigned int msglen;

static unsigned int msgpos;
static unsigned char wire[W];
static unsigned int wirelen, wirepos;
static unsigned char outb[W];
static unsigned int outlen;
static int phase;              /* 0: qmail-remote is sending, 1: qmail-smtpd is receiving */
static unsigned int nreply;

char subfd_outbufsmall[256];
static substdio it_outsmall = SUBSTDIO_FDBUF(write, 1, subfd_outbufsmall, 256);
substdio *subfdoutsmall = &it_outsmall;

void sym_inputs(void)
{
#ifdef REPLAY
#include "replay_inputs.inc"
#else
  SYM_FEED();
  SYM_ARR(msg); SYM(msglen);
#endif
}

void qmail_put(struct qmail *qq, char *s, unsigned int len)
{
  unsigned int i;
  CHECK(qq == &qqt, "blast writes to the queue connection qqt only");
  for (i = 0; i < W; ++i) {
    if (i >= len) break;
    CHECK(outlen < W, "decoded output fits (harness sizing)");
    ASSUME(outlen < W);
    outb[outlen++] = (unsigned char) s[i];
  }
}
void qmail_fail(struct qmail *qq) { CHECK(0, "no databytes limit configured"); }

void vf__exit(int status);

int ideal_getc(substdio *s)
{
  if (s == &remote_ssin) {
    CHECK(phase == 0, "sender reads the message while sending only");
    if (msgpos >= msglen) return -1;
    return msg[msgpos++];
  }
  CHECK(s == &ssin && phase == 1, "receiver reads the network stream only");
  if (wirepos >= wirelen) vf__exit(1);        /* saferead(): EOF ends the process */
  return wire[wirepos++];
}

int ideal_putc(substdio *s, unsigned char c)
{
  if (s == &smtpto) {
    CHECK(wirelen < W, "wire fits 3M+8 (harness sizing)");
    ASSUME(wirelen < W);
    wire[wirelen++] = c;
    return 0;
  }
  ++nreply;                                    /* delivery report (sender) or SMTP reply (receiver) */
  return 0;
}
int ideal_flush(substdio *s) { return 0; }

void vf__exit(int status)
{
  if (phase == 0) {
    /* sender gave up before the final dot: only for a partial last line (C06(d)) */
    CHECK(msglen > 0 && msg[msglen - 1] != '\n', "sender aborts only for a message without final newline");
    WITNESS("sender_refused_partial_line");
  } else {
    CHECK(0, "C05(own client): the receiver never refuses or starves on what qmail-remote sent");
  }
  PATH_END();
#ifdef VERIF_CBMC
  __CPROVER_assume(0);
#endif
}

static int is_eol(unsigned char c) { return c == '\r' || c == '\n'; }

void vmain(void)
{
  int hops;
  unsigned int i, j, k;
  int hascr = 0;
  sym_inputs();
  ASSUME(msglen <= M);
  remote_blast();
  phase = 1;
  blast(&hops);
  CHECK(wirepos == wirelen, "C05(own client): the message ends exactly at the sender's final dot line");
  for (k = 0; k < M; ++k) if (k < msglen && msg[k] == '\r') hascr = 1;
  if (!hascr) {
    CHECK(outlen == msglen, "C05(own client): decoded length equals the original length");
    for (i = 0; i < M; ++i) {
      if (i >= msglen || i >= outlen) break;
      CHECK(outb[i] == msg[i], "C05(own client): CR-free message decodes to exactly the original");
    }
    if (msglen == M && msg[0] == '.' && msg[1] == '\n') WITNESS("dot_only_line");
    WITNESS("identical");
  } else {
    i = 0; j = 0;
    for (k = 0; k < W + M + 1; ++k) {
      if (i < msglen && is_eol(msg[i])) { ++i; continue; }
      if (j < outlen && is_eol(outb[j])) { ++j; continue; }
      if (i >= msglen || j >= outlen) break;
      CHECK(msg[i] == outb[j], "C05(own client): bytes other than CR/LF arrive unchanged and in order");
      ++i; ++j;
    }
    CHECK(i == msglen && j == outlen, "C05(own client): no byte other than CR/LF is lost or added");
    if (msglen == M && msg[M - 3] == '\r' && msg[M - 2] == '.' && msg[M - 1] == '\n') WITNESS("cr_dot_lf");
    WITNESS("with_cr");
  }
}
