/* C05 - round trip: decode(ref_encode(m)) == m for every message m of up to M bytes.
 * Encoded from /repo: qmail-smtpd.c (text before main) - blast, put, straynewline.
 * ref_encode is a conforming RFC 5321 sender written here from RFC 5321 2.3.8 / 4.5.2:
 * every line of the message (UNIX convention: terminated by LF) is sent followed by
 * CR LF, a line whose first character is a period gets one additional period in front,
 * and the mail data is ended by the line ". CR LF".  The message is empty or ends with
 * LF (a conforming sender cannot transmit a partial last line).  All 256 byte values,
 * CR included: a CR inside a line is data for the sender and must come back as data. */
#include "verif.h"
#include "gen_qmail-smtpd.c"

#ifndef M
#define M 6
#endif
#define W (2 * M + 3)

unsigned char msg[M];
unsigned int msglen;
unsigned char tail[2];       /* bytes of the next command that follow the terminator on the wire */

static unsigned char wire[W + 2];
static unsigned int wirelen, wirepos;
static unsigned char outb[W + 2];       /* the decoder never emits more than it reads */
static unsigned int outlen;
static unsigned int replen;

void sym_inputs(void)
{
#ifdef REPLAY
#include "replay_inputs.inc"
#else
  SYM_FEED();
  SYM_ARR(msg); SYM(msglen); SYM_ARR(tail);
#endif
}

static void w(unsigned char c) { if (wirelen < W + 2) wire[wirelen] = c; ++wirelen; }

static void ref_encode(void)
{
  unsigned int i; int bol = 1;
  for (i = 0; i < M; ++i) {
    unsigned char c;
    if (i >= msglen) break;
    c = msg[i];
    if (bol && c == '.') w('.');
    bol = 0;
    if (c == '\n') { w('\r'); w('\n'); bol = 1; }
    else w(c);
  }
  w('.'); w('\r'); w('\n');
}

void qmail_put(struct qmail *qq, char *s, unsigned int len)
{
  unsigned int i;
  CHECK(qq == &qqt, "blast writes to the queue connection qqt only");
  for (i = 0; i < W + 2; ++i) {
    if (i >= len) break;
    CHECK(outlen < W + 2, "decoded output never longer than the wire (harness sizing)");
    ASSUME(outlen < W + 2);
    outb[outlen++] = (unsigned char) s[i];
  }
}
void qmail_fail(struct qmail *qq) { CHECK(0, "no databytes limit configured"); }

void vf__exit(int status);

int ideal_getc(substdio *s)
{
  CHECK(s == &ssin, "blast reads the network stream only");
  if (wirepos >= wirelen + 2) vf__exit(1);     /* saferead(): EOF ends the process */
  return wire[wirepos++];
}
int ideal_putc(substdio *s, unsigned char c) { ++replen; return 0; }
int ideal_flush(substdio *s) { return 0; }

void vf__exit(int status)
{
  CHECK(0, "C05(round trip): a conforming sender's encoding is never refused and never left unterminated");
  PATH_END();
#ifdef VERIF_CBMC
  __CPROVER_assume(0);
#endif
}

void vmain(void)
{
  int hops;
  unsigned int i;
  sym_inputs();
  ASSUME(msglen <= M);
  ASSUME(msglen == 0 || msg[msglen - 1] == '\n');
  ref_encode();
  CHECK(wirelen <= W, "wire fits 2M+3 (harness sizing)");
  wire[wirelen] = tail[0]; wire[wirelen + 1] = tail[1];
  blast(&hops);
  CHECK(wirepos == wirelen, "C05(round trip): decoding stops exactly after the sender's terminator");
  CHECK(outlen == msglen, "C05(round trip): decoded length equals the original length");
  for (i = 0; i < M; ++i) {
    if (i >= msglen || i >= outlen) break;
    CHECK(outb[i] == msg[i], "C05(round trip): decode(encode(m)) == m, byte for byte");
  }
  CHECK(replen == 0, "no reply written by blast");
  if (msglen == M && msg[0] == '.' && msg[1] == '\n') WITNESS("dot_only_line");
  if (msglen == M && msg[0] == '.' && msg[1] == '\r' && msg[2] == '\n') WITNESS("dot_cr_line");
  if (msglen == M && msg[M - 2] == '\r') WITNESS("cr_before_final_newline");
  if (msglen == 0) WITNESS("empty_message");
  WITNESS("round_trip");
}
