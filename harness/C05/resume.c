/* C05 - resumption after DATA: commands() (commands.c) reads "DATA CRLF", dispatches the
 * real smtp_data() (qmail-smtpd.c: 354, received, blast, envelope, qmail_close, reply) and
 * then must dispatch the next command with exactly the bytes that follow the terminator.
 * Encoded from /repo: commands.c commands; qmail-smtpd.c smtp_data, blast, put,
 * straynewline, acceptmessage, out, flush; str_chr.c, case_diffs.c, fmt_ulong.c and the
 * stralloc units.  Cut: qmail.c (qmail_open/put/from/fail/close/qp: observing stubs,
 * K&R call sites, DESIGN 2.1), received.c (no-op stub: the Received: line is C07's).
 * One ideal stream carries  "DATA\r\n" ++ in[0..inlen)  (in[] symbolic, all 256 values).
 *
 * Oracle (ref_receiver.h on in[]):
 *   - smtp_data returns only for a stream with a terminator line and no earlier bare LF,
 *     having consumed exactly up to the terminator, having queued exactly the reference
 *     decoding, and with 354 followed by the verdict of qmail_close as replies;
 *   - the command handler that runs next sees the stream positioned right after the
 *     first LF that follows the terminator, and its verb/argument are the bytes between;
 *   - bare LF before the terminator: 354, then 451, exit, qmail_close never called
 *     ("nothing is queued"). */
#include "verif.h"
#include "gen_commands.c"
#include "gen_qmail-smtpd.c"

#ifndef N
#define N 10
#endif
#define REF_N N
#include "ref_receiver.h"
#define PRE 6
static const unsigned char pre[PRE] = { 'D', 'A', 'T', 'a', '\r', '\n' };

unsigned char in[N];
unsigned int inlen;
unsigned char qqverdict;               /* qmail_close: 0 accepted, 1 permanent, 2 temporary failure */

static unsigned int pos;               /* position in pre ++ in */
static unsigned char body[N + 1]; static unsigned int bodylen;
static unsigned char env[8]; static unsigned int envlen;
static int nopen, nfrom, nclose, nfail, nreceived;
static unsigned int replen, repflushed;
static unsigned char code[3][3];        /* reply code of the 1st, 2nd, 3rd reply line */
static unsigned int nrl, rcol; static int rbol = 1;
static int eof_hit, data_returned;
static unsigned int ndata;

void sym_inputs(void)
{
#ifdef REPLAY
#include "replay_inputs.inc"
#else
  SYM_FEED();
  SYM_ARR(in); SYM(inlen); SYM(qqverdict);
#endif
}

/* ---- qmail.c / received.c cut */
int qmail_open(struct qmail *qq) { CHECK(qq == &qqt, "qqt"); ++nopen; return 0; }
unsigned long qmail_qp(struct qmail *qq) { return 7; }
void qmail_fail(struct qmail *qq) { ++nfail; }
void qmail_from(struct qmail *qq, char *s) { CHECK(nclose == 0, "envelope before close"); ++nfrom; }
void qmail_put(struct qmail *qq, char *s, unsigned int len)
{
  unsigned int i;
  CHECK(qq == &qqt && nopen == 1 && nclose == 0, "bytes go to the open queue connection");
  if (!nfrom) {
    for (i = 0; i < N + 1; ++i) {
      if (i >= len) break;
      CHECK(bodylen < N + 1, "decoded output never longer than the stream (harness sizing)");
      ASSUME(bodylen < N + 1);
      body[bodylen++] = (unsigned char) s[i];
    }
  } else {
    for (i = 0; i < sizeof env; ++i) { if (i >= len) break; env[envlen < sizeof env ? envlen : 0] = (unsigned char) s[i]; ++envlen; }
  }
}
char *qmail_close(struct qmail *qq)
{
  ++nclose;
  if (qqverdict == 1) return "Dperm";
  if (qqverdict == 2) return "Ztemp";
  return "";
}
void received(struct qmail *qq, char *protocol, char *local_, char *rip, char *rhost, char *rinfo, char *helo)
{ ++nreceived; }
time_t vf_time(time_t *t) { return 1000000000; }

/* ---- ideal streams */
void vf__exit(int status);

int ideal_getc(substdio *s)
{
  CHECK(s == &ssin, "only the network stream is read");
  if (pos >= PRE + inlen) { eof_hit = 1; vf__exit(1); }   /* saferead(): EOF ends the process */
  ++pos;
  return pos <= PRE ? pre[pos - 1] : in[pos - 1 - PRE];
}
int ideal_putc(substdio *s, unsigned char c)
{
  CHECK(s == &ssout, "replies go to the network stream only");
  if (rbol) { ++nrl; rcol = 0; rbol = 0; }
  if (rcol < 3 && nrl <= 3) code[nrl - 1][rcol] = c;
  ++rcol;
  if (c == '\n') rbol = 1;
  ++replen;
  return 0;
}
int ideal_flush(substdio *s) { if (s == &ssout) repflushed = replen; return 0; }

static int code_is(unsigned int line, const char *c3)
{ return nrl > line && code[line][0] == (unsigned char) c3[0] && code[line][1] == (unsigned char) c3[1] && code[line][2] == (unsigned char) c3[2]; }

void vf__exit(int status)
{
  /* no loops here: this body is instantiated at every read and every straynewline() site */
  if (eof_hit) {
    if (!data_returned) CHECK(ref_kind == REF_EOF, "C05: connection lost inside DATA only if neither terminator nor bare LF came first");
    CHECK(nclose == (data_returned ? 1 : 0), "C05: an unterminated message is never committed");
    if (data_returned) WITNESS("eof_after_data");
  } else {
    CHECK(!data_returned && ref_kind == REF_STRAY, "C05: refusal only for a bare LF before the terminator");
    CHECK(nrl == 2 && code_is(0, "354") && code_is(1, "451") && rbol && repflushed == replen,
          "C05: bare LF is answered 451 (after the 354)");
    CHECK(nclose == 0, "C05: nothing is queued when a bare LF is refused");
    WITNESS("bare_lf_refused_nothing_queued");
  }
  PATH_END();
#ifdef VERIF_CBMC
  __CPROVER_assume(0);
#endif
}

/* ---- the tiny command table */
static void h_next(char *arg)
{
  /* the command that follows DATA: in[ref_consumed .. lf] */
  unsigned int rc = ref_consumed, lf = rc, linelen, k, p, t;
  int nul_in_verb = 0;
  CHECK(data_returned, "DATA was the first command");
  for (k = 0; k < N; ++k) { if (lf < inlen && in[lf] != '\n') ++lf; }
  CHECK(lf < inlen && pos == PRE + lf + 1,
        "C05: the next command is read from the byte after the terminator up to its own LF");
  if (!(lf < inlen)) return;
  linelen = lf - rc;
  if (linelen > 0 && in[lf - 1] == '\r') --linelen;
  /* verb = bytes up to the first space (C string: a NUL byte also ends it) */
  p = 0;
  for (k = 0; k < N + 1; ++k) {
    if (cmd.s[k] == 0) {
      CHECK(k == linelen || in[rc + k] == ' ' || in[rc + k] == 0, "C05: verb is not cut short");
      if (k < linelen && in[rc + k] == 0) nul_in_verb = 1;
      p = k;
      break;
    }
    CHECK(k < linelen && (unsigned char) cmd.s[k] == in[rc + k], "C05: verb of the next command = bytes after the terminator");
    if (!(k < linelen)) return;
  }
  if (!nul_in_verb) {
    for (k = 0; k < N; ++k) { if (p < linelen && in[rc + p] == ' ') ++p; }
    CHECK(arg >= cmd.s && arg <= cmd.s + linelen, "argument points into the command buffer");
    for (t = 0; t < N; ++t) {
      if (p + t >= linelen) break;
      CHECK((unsigned char) arg[t] == in[rc + p + t], "C05: argument of the next command = remaining bytes of its line");
    }
    if (p <= linelen) CHECK(arg[linelen - p] == 0, "C05: argument ends with the line");
  }
  if (linelen == 4 && cmd.s[0] == 'q' && cmd.s[3] == 't' && !*arg) WITNESS("next_command_4_letters");
  if (*arg) WITNESS("next_command_with_argument");
  if (qqverdict == 0) WITNESS("next_after_accept");
  WITNESS("next_command_dispatched");
  PATH_END();
}

static void h_data(char *arg)
{
  if (ndata++) { h_next(arg); return; }
  CHECK(pos == PRE && !*arg, "DATA line consumed");
  smtp_data(arg);
  data_returned = 1;
  CHECK(ref_kind == REF_END, "C05: the message ends only at a line consisting of a single dot terminated by CR LF");
  CHECK(ref_kind != REF_END || pos == PRE + ref_consumed, "C05: DATA consumes exactly up to and including the terminator");
  CHECK(nopen == 1 && nfrom == 1 && nclose == 1 && nfail == 0, "one queue submission per DATA");
  if (ref_kind == REF_END) CHECK(ref_matches(body, bodylen), "C05: queued body = reference decoding");
  /* reply codes only (RFC 5321: 354 intermediate, 2xx accepted, 5xx permanent, 4xx transient); the texts are not C05's */
  CHECK(nrl == 2 && code_is(0, "354") && rbol, "354 before the payload, one reply after it");
  CHECK(code[1][0] == (qqverdict == 0 ? '2' : qqverdict == 1 ? '5' : '4'), "reply class after DATA = verdict of the queue (2xx / 5xx / 4xx)");
}

static struct commands tab[] = {
  { "data", h_data, flush }
, { 0, h_next, 0 }
};

static char rcpt_[4] = { 'T', 'r', 0, 0 };
static char from_[2] = { 's', 0 };

void vmain(void)
{
  sym_inputs();
  ASSUME(inlen <= N);
  ASSUME(qqverdict <= 2);
  ref_receive(in, inlen);
  /* state after "MAIL FROM:<s>" and "RCPT TO:<r>" */
  seenmail = 1;
  mailfrom.s = from_; mailfrom.len = 2; mailfrom.a = 2;
  rcptto.s = rcpt_; rcptto.len = 3; rcptto.a = 4;
  commands(&ssin, tab);
  CHECK(0, "commands() returns only on EOF, which saferead turns into exit");
}
