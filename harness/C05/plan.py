from vlib import Obl, Prog

SMTPD = Prog("qmail-smtpd.c", nomain=True)
REMOTE = Prog("qmail-remote.c", nomain=True)
STR = ["stralloc_opys.c", "stralloc_opyb.c", "byte_copy.c"]

def obligations(tier):
    quick = tier == "quick"
    return [
        Obl("smtpd_blast", "blast.c",
            progs=[SMTPD],
            lib=["ideal_substdio.c"],
            sysrename=["_exit"],
            grid=[{"N": n} for n in ([14] if quick else [16, 18])],
            unwind=lambda p: {"blast": p["N"] + 2, "substdio_put": 64},
            unwind_default=lambda p: p["N"] + 3,
            timeout=900,
            expect_witnesses=lambda p: ["accepted", "eof_before_terminator", "bare_lf_refused", "bare_lf_refused_at_last_byte",
                                        "stuffed_line_full_length", "bare_cr_kept", "empty_message",
                                        "bytes_left_for_next_command"]
                                       + (["hop_counted"] if p["N"] >= 13 else []) + (["received_field"] if p["N"] >= 14 else [])),
        Obl("roundtrip_ref_sender", "roundtrip.c",
            progs=[SMTPD],
            lib=["ideal_substdio.c"],
            sysrename=["_exit"],
            grid=[{"M": m} for m in ([6] if quick else [8])],
            unwind=lambda p: {"blast": 2 * p["M"] + 3 + 2, "substdio_put": 64},
            unwind_default=lambda p: 2 * p["M"] + 6,
            timeout=900,
            expect_witnesses=["round_trip", "dot_only_line", "dot_cr_line", "cr_before_final_newline", "empty_message"]),
        Obl("remote_to_smtpd", "remote2smtpd.c", backend="cadical",
            progs=[REMOTE, SMTPD],
            lib=["ideal_substdio.c"],
            sysrename=["_exit"],
            grid=[{"M": m} for m in ([5] if quick else [7])],
            unwind=lambda p: {"remote_blast": p["M"] + 2, "blast": 3 * p["M"] + 8 + 2, "substdio_put": 100},
            unwind_default=lambda p: 4 * p["M"] + 10,
            timeout=900,
            expect_witnesses=["identical", "dot_only_line", "with_cr", "cr_dot_lf", "sender_refused_partial_line"]),
        Obl("resume_next_command", "resume.c",
            # the copy ends before the smtpcommands table: cbmc resolves `c[i].fun(arg)` by type, so every
            # address-taken smtp_* handler would be encoded as a possible target of the tiny table
            progs=[Prog("qmail-smtpd.c", sub=[(r"(?s)^struct commands smtpcommands\[\] = \{.*", "", 1)]), Prog("commands.c")],
            repo=STR + ["str_chr.c", "case_diffs.c", "fmt_ulong.c"],
            lib=["ideal_substdio.c", "arena_stralloc.c"],
            defines={"ARENA_CAP": 40, "ARENA_SLOTS": 2},
            sysrename=["_exit", "time"],
            grid=[{"N": n} for n in ([10] if quick else [12])],
            unwind=lambda p: {"blast": p["N"] + 2, "substdio_put": 70, "commands~    for (;;)": max(p["N"], 6) + 2, "commands~  for (;;)": 3,
                              "fmt_ulong": 12},
            unwind_default=lambda p: p["N"] + 8,
            timeout=900,
            expect_witnesses=["next_command_dispatched", "next_command_4_letters", "next_command_with_argument", "next_after_accept",
                              "bare_lf_refused_nothing_queued", "eof_after_data"]),
    ]
