# C05 - inbound SMTP DATA decoding (qmail-smtpd.c blast, commands.c resumption)
#
# Note on witnesses: the driver reports "vacuous" (exit 2), not VIOLATION, when a mutant makes a required witness
# unreachable, even if CHECKs fail as well; the required witnesses are therefore kept generic (no size-tight probes).
#
# kills: (hand-made mutants of /repo in scratch worktrees; each reported as VIOLATION with a replay that
#         reproduces natively, rc 1)
#   M1 qmail-smtpd.c blast state 2: `if (ch == '\n') straynewline();` -> `return;`  (".LF" ends DATA = smuggling)
#        -> smtpd_blast, resume_next_command  ("the message ends only at a line consisting of a single dot ...")
#   M2 state 0: bare LF treated as a line end (`{ state = 1; break; }`)            -> smtpd_blast
#   M3 state 1: leading dot not removed (`state = 2; break;`)                       -> smtpd_blast, roundtrip_ref_sender, remote_to_smtpd
#   M4 state 3: `put("\r")` dropped                                                 -> smtpd_blast
#   M5 state 4: bare CR dropped (`put("\r")` removed)                               -> smtpd_blast, roundtrip_ref_sender
#   M6 hop counter: Received not counted                                            -> smtpd_blast (C05/hops lower bound)
#   M7 state 3 + LF: one more byte consumed before returning                        -> smtpd_blast, roundtrip_ref_sender, resume_next_command
#   M8 commands.c: last byte of every command line stripped, not only CR            -> resume_next_command
#   M9 qmail-remote.c blast: first dot of a line not stuffed                        -> remote_to_smtpd
#   M10 straynewline(): flush() removed (451 never reaches the client)              -> smtpd_blast
from vlib import Obl, Prog, borrow

SMTPD = Prog("qmail-smtpd.c", nomain=True)
REMOTE = Prog("qmail-remote.c", nomain=True)
STR = ["stralloc_opys.c", "stralloc_opyb.c", "byte_copy.c"]

IDEAL = "substdio_get/put/puts/flush: ideal byte streams (lib/ideal_substdio.c); contract proved on the real substdio in C20 layer-0 lemmas"
SAFEREAD = "saferead (timeoutread on the connection): end of stream ends the process (die_read -> _exit(1)); timeouts not modelled"
QPUT = ("qmail_put (qmail.c) cut: observing stub with an `unsigned int` length - the call site `qmail_put(&qqt,ch,1)` has no "
        "prototype in scope (DESIGN 2.1, ABI assumption: a constant int argument is passed zero-extended)")
EXIT = "_exit: records status, runs the exit-path assertions, ends the path"

def obligations(tier):
    quick = tier == "quick"
    return [
        Obl("smtpd_blast", "blast.c",
            progs=[SMTPD],
            lib=["ideal_substdio.c"],
            sysrename=["_exit"],
            grid=[{"N": n} for n in ([8, 14] if quick else [8, 16, 18, 20])],   # N=8: a cheap point that still decides when a rewritten decoder makes the large one explode
            unwind=lambda p: {"blast": p["N"] + 2, "substdio_put": 64},
            unwind_default=lambda p: p["N"] + 3,
            timeout=900 if quick else 3000,
            functions=["qmail-smtpd.c:blast", "qmail-smtpd.c:put", "qmail-smtpd.c:straynewline", "qmail-smtpd.c:out", "qmail-smtpd.c:flush"],
            stubs=[IDEAL, SAFEREAD, EXIT],
            cuts=[QPUT, "qmail_fail cut: counts calls (never called: no databytes limit in this harness; databytes is C07)"],
            assumes=["byte stream after DATA of at most N bytes, every byte value 0..255, then end of stream; databytes = 0"],
            outside=["streams longer than N bytes", "read chunking inside the real substdio buffers (layer-0 lemma)", "timeouts",
                     "the 100-hop limit itself (C07); only the counter is compared"],
            claim="for every stream <= N bytes: blast returns iff the stream contains the line '.' CRLF with no bare LF before it, "
                  "having consumed exactly up to that line and queued exactly the reference decoding (CRLF->LF, one leading dot "
                  "removed, bare CR kept; dot of a line '.CR<non-LF>' may be kept - recorded judgement); a bare LF first => 451, "
                  "flushed, exit 1; neither => exit without reply; hop counter between 'Received:/Delivered-To:' fields and "
                  "'received/delivered' line prefixes",
            expect_witnesses=lambda p: ["accepted", "eof_before_terminator", "bare_lf_refused", "bare_lf_refused_at_last_byte",
                                        "stuffed_line_full_length", "bare_cr_kept", "empty_message",
                                        "bytes_left_for_next_command"]
                                       + (["hop_counted"] if p["N"] >= 14 else []) + (["received_field"] if p["N"] >= 15 else [])),
        Obl("roundtrip_ref_sender", "roundtrip.c",
            progs=[SMTPD],
            lib=["ideal_substdio.c"],
            sysrename=["_exit"],
            grid=[{"M": m} for m in ([6] if quick else [8, 10])],
            unwind=lambda p: {"blast": 2 * p["M"] + 3 + 2, "substdio_put": 64},
            unwind_default=lambda p: 2 * p["M"] + 6,
            timeout=900 if quick else 3000,
            functions=["qmail-smtpd.c:blast", "qmail-smtpd.c:put", "qmail-smtpd.c:straynewline"],
            stubs=[IDEAL, SAFEREAD, EXIT, "ref_encode: conforming RFC 5321 sender written in the harness (LF->CRLF, dot-stuffing, final dot line)"],
            cuts=[QPUT],
            assumes=["message of at most M bytes, every byte value 0..255 (CR included), empty or ending in LF; two arbitrary bytes follow the terminator"],
            outside=["messages longer than M bytes", "messages without final newline (a conforming sender cannot transmit them)"],
            claim="for every message m <= M bytes with final newline: blast(ref_encode(m)) returns exactly after the sender's "
                  "terminator and has queued exactly m, byte for byte; never refused",
            expect_witnesses=["round_trip", "dot_only_line", "dot_cr_line", "cr_before_final_newline", "empty_message"]),
        Obl("remote_to_smtpd", "remote2smtpd.c", backend="cadical",
            progs=[REMOTE, SMTPD],
            lib=["ideal_substdio.c"],
            sysrename=["_exit"],
            grid=[{"M": m} for m in ([5] if quick else [6, 7])],
            unwind=lambda p: {"remote_blast": p["M"] + 2, "blast": 3 * p["M"] + 8 + 2, "substdio_put": 100},
            unwind_default=lambda p: 4 * p["M"] + 10,
            timeout=900 if quick else 3000,
            functions=["qmail-remote.c:blast", "qmail-remote.c:out", "qmail-remote.c:zerodie", "qmail-remote.c:perm_partialline",
                       "qmail-smtpd.c:blast", "qmail-smtpd.c:put", "qmail-smtpd.c:straynewline"],
            stubs=[IDEAL, SAFEREAD, EXIT,
                   "two programs in one translation unit: the 7 file-scope names both define (blast helohost out saferead safewrite "
                   "ssin timeout) are renamed for the qmail-remote copy by #define around its #include"],
            cuts=[QPUT],
            assumes=["message of at most M bytes, every byte value 0..255, EOF anywhere; no read errors"],
            outside=["messages longer than M bytes", "messages with a partial last line: refused by the sender (C06(d))"],
            claim="for every message m <= M bytes that qmail-remote's blast() transmits completely: qmail-smtpd's blast() ends the "
                  "message exactly at the sender's final dot line (no earlier end, no refusal, nothing left over); a CR-free m is "
                  "queued byte-identical; with CR bytes m and the result agree after deleting CR and LF (C06(c) reading)",
            expect_witnesses=["identical", "dot_only_line", "with_cr", "cr_dot_lf", "sender_refused_partial_line"]),
        Obl("resume_next_command", "resume.c",
            # the copy ends before the smtpcommands table: cbmc resolves `c[i].fun(arg)` by type, so every
            # address-taken smtp_* handler would be encoded as a possible target of the tiny table
            progs=[Prog("qmail-smtpd.c", sub=[(r"(?s)^struct commands smtpcommands\[\] = \{.*", "", 1)]), Prog("commands.c")],
            repo=STR + ["str_chr.c", "case_diffs.c", "fmt_ulong.c"],
            lib=["ideal_substdio.c", "arena_stralloc.c"],
            defines={"ARENA_CAP": 40, "ARENA_SLOTS": 2},
            sysrename=["_exit", "time"],
            grid=[{"N": n} for n in ([10] if quick else [12, 14])],
            unwind=lambda p: {"blast": p["N"] + 2, "substdio_put": 70, "commands~    for (;;)": max(p["N"], 6) + 2, "commands~  for (;;)": 3,
                              "fmt_ulong": 12},
            unwind_default=lambda p: p["N"] + 8,
            timeout=900 if quick else 3000,
            functions=["commands.c:commands", "qmail-smtpd.c:smtp_data", "qmail-smtpd.c:blast", "qmail-smtpd.c:put",
                       "qmail-smtpd.c:straynewline", "qmail-smtpd.c:acceptmessage", "qmail-smtpd.c:out", "qmail-smtpd.c:flush",
                       "str_chr.c", "case_diffs.c", "fmt_ulong.c", "stralloc_opys.c", "stralloc_opyb.c"],
            stubs=[IDEAL, SAFEREAD, EXIT, "stralloc_ready/readyplus: arena (40 bytes)", "time: constant",
                   "command table of two entries: 'data' -> real smtp_data (first time), anything else -> recording handler"],
            cuts=[QPUT, "qmail_open/qmail_qp/qmail_from/qmail_fail/qmail_close (qmail.c): observing stubs, qmail_close verdict symbolic (C07 proves the queue side)",
                  "received() (received.c): no-op stub (Received: line is C07's)"],
            assumes=["one stream = 'DATa' CRLF followed by at most N symbolic bytes (every value), then end of stream; state after MAIL and RCPT"],
            outside=["streams longer than N bytes", "NUL bytes inside the next command's verb (commands() uses C strings; documents silent)"],
            claim="commands() fed 'DATA' CRLF payload ++ rest: smtp_data consumes exactly up to the terminator, queues the reference "
                  "decoding once, answers 354 then the verdict of qmail_close; the next handler runs with the stream positioned after "
                  "the first LF behind the terminator and with verb/argument equal to the bytes in between; bare LF => 354, 451, "
                  "exit, qmail_close never called",
            expect_witnesses=["next_command_dispatched", "next_command_4_letters", "next_command_with_argument", "next_after_accept",
                              "bare_lf_refused_nothing_queued", "eof_after_data"]),
    # the DATA command itself: 354 is sent only when the body will then be consumed up to its terminator (queue connection open) -
    # otherwise the client's message would be read as commands (C07's smtp_data harness, decided here as well)
    ] + borrow("C07", ["smtp_data"], tier) \
      + borrow("C09", ["timeoutread_unit", "timeoutwrite_unit", "smtpd_safeio"], tier)   # stalls/disconnects: what the read hook "ends the run" stands for
