/* C05 - qmail-smtpd.c blast(): inbound DATA decoding, every byte stream of up to N bytes.
 * Encoded from /repo: qmail-smtpd.c (text before main) - blast, put, straynewline, out,
 * flush.  substdio = ideal byte streams (layer 1).  qmail_put is cut (K&R call site
 * `qmail_put(&qqt,ch,1)` without prototype: the stub takes `unsigned int`, DESIGN 2.1).
 *
 * Oracle: ref_receiver.h (property text + RFC 5321), compared on
 *   - the bytes handed to qmail_put,
 *   - the number of stream bytes consumed when blast() returns,
 *   - "refused with 451" <=> a bare LF occurs before the terminator,
 *   - the message is never ended by anything but the terminator line (EOF: no return),
 *   - the hop counter against qmail-smtpd(8) "Received or Delivered-To header fields"
 *     (two-sided, see ref_hops). */
#include "verif.h"
#include "gen_qmail-smtpd.c"

#ifndef N
#define N 12
#endif
#define REF_N N
#include "ref_receiver.h"

unsigned char in[N];
unsigned int inlen;

static unsigned int inpos;
static unsigned char outb[N + 1];      /* bytes handed to qmail_put */
static unsigned int outlen;
static unsigned char rep[8];           /* first bytes of the reply written to the network */
static unsigned int replen, repflushed;
static int eof_hit;
static int nfail;

void sym_inputs(void)
{
#ifdef REPLAY
#include "replay_inputs.inc"
#else
  SYM_FEED();
  SYM_ARR(in); SYM(inlen);
#endif
}

/* ---- cut callees of qmail.c */
void qmail_put(struct qmail *qq, char *s, unsigned int len)
{
  unsigned int i;
  CHECK(qq == &qqt, "blast writes to the queue connection qqt only");
  for (i = 0; i < N + 1; ++i) {
    if (i >= len) break;
    CHECK(outlen < N + 1, "decoded output never longer than the stream (harness sizing)");
    ASSUME(outlen < N + 1);
    outb[outlen++] = (unsigned char) s[i];
  }
}
void qmail_fail(struct qmail *qq) { ++nfail; }

/* ---- ideal streams */
void vf__exit(int status);

int ideal_getc(substdio *s)
{
  CHECK(s == &ssin, "blast reads the network stream only");
  if (inpos >= inlen) {
    /* saferead(): end of file or error on the connection ends the process silently
     * (die_read); it never hands 0 or -1 to the caller */
    eof_hit = 1;
    vf__exit(1);
  }
  return in[inpos++];
}

int ideal_putc(substdio *s, unsigned char c)
{
  CHECK(s == &ssout, "replies go to the network stream only");
  if (replen < sizeof rep) rep[replen] = c;
  ++replen;
  return 0;
}

int ideal_flush(substdio *s) { if (s == &ssout) repflushed = replen; return 0; }

/* ---- hop counter, qmail-smtpd(8): "rejects any message with 100 or more Received or
 * Delivered-To header fields".  The header is everything before the first empty line.
 * The manual does not say how a field name is recognised, so the comparison is two-sided:
 *   lo = header lines that begin with the field name and its colon ("Received:",
 *        "Delivered-To:", any letter case)             - each of these must be counted;
 *   hi = header lines that begin with the letters "received" / "delivered"
 *        (any case)                                     - nothing else may be counted.
 * Lines are the STORED lines: one leading dot of a transmitted line is removed before the
 * comparison (C07: "100 or more Received/Delivered-To fields" speaks of the message that
 * is queued; the original code compared the raw line, repaired by the "fix: qmail-smtpd:
 * count Received/Delivered-To fields on the decoded header line" commit). */
static int ci_prefix(unsigned int at, unsigned int end, const char *lower, unsigned int n)
{
  unsigned int k;
  if (end - at < n) return 0;
  for (k = 0; k < 13; ++k) {
    unsigned char c;
    if (k >= n) break;
    c = in[at + k];
    if (c >= 'A' && c <= 'Z') c = (unsigned char) (c - 'A' + 'a');
    if (c != (unsigned char) lower[k]) return 0;
  }
  return 1;
}

static void ref_hops(unsigned int end, int *lo, int *hi)
{
  /* in[0..end) is the payload including the terminator line; no bare LF inside */
  unsigned int start = 0, i;
  *lo = 0; *hi = 0;
  for (i = 0; i < N; ++i) {
    if (i + 1 >= end) break;
    if (in[i] == '\r' && in[i + 1] == '\n') {          /* line in[start..i) */
      unsigned int ls = (in[start] == '.') ? start + 1 : start;   /* stored line starts after a stuffed dot */
      if (i == start) return;                          /* empty line: end of header */
      if (ci_prefix(ls, i, "received:", 9) || ci_prefix(ls, i, "delivered-to:", 13)) ++*lo;
      if (ci_prefix(ls, i, "received", 8) || ci_prefix(ls, i, "delivered", 9)) ++*hi;
      start = i + 2;
    }
  }
}

void vf__exit(int status)
{
  if (eof_hit) {
    CHECK(ref_kind == REF_EOF, "C05: connection lost is reported only when neither terminator nor bare LF came first");
    WITNESS("eof_before_terminator");
  } else {
    /* the only other exit: straynewline() */
    CHECK(replen >= 4 && rep[0] == '4' && rep[1] == '5' && rep[2] == '1' && rep[3] == ' ',
          "C05: refusal inside DATA is a 451 reply");
    CHECK(repflushed == replen, "C05: the 451 reply is flushed before exit");
    CHECK(ref_kind == REF_STRAY, "C05: 451 refusal only for a bare LF before the terminator");
    if (inpos == N) WITNESS("bare_lf_refused_at_last_byte");
    WITNESS("bare_lf_refused");
  }
  PATH_END();
#ifdef VERIF_CBMC
  __CPROVER_assume(0);
#endif
}

void vmain(void)
{
  int hops = -1, lo, hi;
  sym_inputs();
  ASSUME(inlen <= N);
  ref_receive(in, inlen);      /* pure function of the inputs; evaluated once, read at every exit */
  blast(&hops);
  CHECK(ref_kind == REF_END, "C05: the message ends only at a line consisting of a single dot terminated by CR LF");
  CHECK(ref_kind != REF_END || inpos == ref_consumed,
        "C05: exactly the bytes up to and including the terminator are consumed; the rest is the next command");
  CHECK(replen == 0, "blast itself sends no reply on the accept path");
  CHECK(nfail == 0, "no databytes limit configured: qmail_fail is not called");
  if (ref_kind == REF_END) {
    CHECK(ref_matches(outb, outlen),
          "C05: queued bytes = transmitted lines, CR LF -> LF, one leading dot removed, bare CR kept");
    ref_hops(ref_consumed, &lo, &hi);
    CHECK(hops >= lo, "C05/hops: every Received:/Delivered-To: header field is counted");
    CHECK(hops <= hi, "C05/hops: only header lines starting with received/delivered are counted");
    if (hops >= 1) WITNESS("hop_counted");
    if (lo >= 1) WITNESS("received_field");
  }
  if (inpos == N && outlen >= 2 && outb[0] == '.') WITNESS("stuffed_line_full_length");
  if (outlen >= 2 && outb[0] == '\r' && outb[1] != '\n') WITNESS("bare_cr_kept");
  if (ref_consumed == 3) WITNESS("empty_message");
  if (inpos < inlen) WITNESS("bytes_left_for_next_command");
  WITNESS("accepted");
}
