/* C19 - qmail-pop3d.c RETR / TOP: pop3_top() -> msgno, open_read, okay, blast(), close.
 * Encoded from /repo: qmail-pop3d.c (text before main) pop3_top, msgno, blast, okay, put,
 * puts, flush, err*; scan_ulong.c, substdio.c (substdio_fdbuf), stralloc_pend.c.
 * getln/substdio = ideal streams (layer 1); stralloc_ready* = arena.
 *
 * Reference (property C19, RFC 1939 sections 3/5/7, qmail-pop3d(8)):
 *   RETR n:  a "+OK" line, then every line of the stored file followed by CR LF (the file
 *            uses LF; a last line without LF is still sent as a line), a line that starts
 *            with '.' gets one more '.' in front, then - qmail-pop3d(8): "appends an
 *            extra blank line to every message" - an empty line, then ". CR LF".
 *   TOP n k: the same, but only the header, the blank line that ends it, and the first k
 *            lines of the body.
 * File content: every byte string of up to F bytes (all 256 values), k = 0..9. */
#include "verif.h"
#include <stdio.h>
#define puts pop3d_puts        /* qmail-pop3d.c defines its own puts(); keep it off libc's */
#include "gen_qmail-pop3d.c"

#ifndef F
#define F 6
#endif
#define OUTMAX (3 * F + 20)

unsigned char file[F];
unsigned int flen;
unsigned char istop;           /* 0: "RETR 1"   1: "TOP 1 k" */
unsigned char topk;            /* k, one digit */
unsigned char openfail;        /* the file vanished: open fails */
#ifdef TWICE
/* TWICE: a first retrieval (RETR 1 / TOP 1 k, any file of up to F bytes, possibly cut short by TOP) is followed by RETR 2 of a
 * second file of F2 bytes: the second reply must be exactly the second file - nothing of the first may be left in the message
 * stream object (a TOP that stops early leaves unread, already buffered bytes behind; substdio_fdbuf() discards them) */
#ifndef F2
#define F2 2
#endif
unsigned char file2[F2];
static int second;
#endif

static unsigned int fpos;
static unsigned char outb[OUTMAX]; static unsigned int outlen, flushed;
static unsigned char expb[OUTMAX]; static unsigned int explen;
static int nopen, nclose, fd_open;
static struct message mtab[2];
static char fn1[] = "new/g";
static char fn0[] = "new/f";
static char argbuf[4];

void sym_inputs(void)
{
#ifdef REPLAY
#include "replay_inputs.inc"
#else
  SYM_FEED();
  SYM_ARR(file); SYM(flen); SYM(istop); SYM(topk); SYM(openfail);
#ifdef TWICE
  SYM_ARR(file2);
#endif
#endif
}

/* ---- environment */
int open_read(char *fn)
{
#ifdef TWICE
  if (second) { CHECK(fn == fn1, "C19: RETR 2 opens the file that is message 2"); ++nopen; fd_open = 1; fpos = 0; return 5; }
#endif
  CHECK(fn == fn0, "C19: RETR/TOP 1 opens the file that is message 1");
  ++nopen;
  if (openfail) return -1;
  fd_open = 1;
  return 5;
}
int vf_close(int fd) { CHECK(fd == 5 && fd_open, "closes the message descriptor"); fd_open = 0; ++nclose; return 0; }

int ideal_getc(substdio *s)
{
  CHECK(s == &ssmsg && fd_open && s->fd == 5, "the message is read from the opened file only");
#ifdef TWICE
  if (second) {
    if (fpos == 0) CHECK(s->p == 0, "C19: a retrieval starts with an empty message stream - no unread bytes of the previously retrieved message are sent");
    if (fpos >= F2) return -1;
    return file2[fpos++];
  }
#endif
  if (fpos >= flen) return -1;
  return file[fpos++];
}
int ideal_putc(substdio *s, unsigned char c)
{
  CHECK(s == &ssout, "everything goes to the network stream");
  CHECK(outlen < OUTMAX, "output fits 3F+20 (harness sizing)");
  ASSUME(outlen < OUTMAX);
  outb[outlen++] = c;
  return 0;
}
int ideal_flush(substdio *s) { if (s == &ssout) flushed = outlen; return 0; }

void vf__exit(int status)
{
  CHECK(0, "RETR/TOP of a readable message never ends the session");
  PATH_END();
#ifdef VERIF_CBMC
  __CPROVER_assume(0);
#endif
}

/* ---- reference encoder */
static void e(unsigned char c) { if (explen < OUTMAX) expb[explen] = c; ++explen; }

static void ref_retr(void)
{
  unsigned int i;
  int bol = 1, inhdr = 1;
  unsigned int body = 0;
  for (i = 0; i < F; ++i) {
    unsigned char c;
    if (i >= flen) break;
    c = file[i];
    if (bol) {
      if (istop && !inhdr && body == topk) break;      /* k body lines have been sent */
      if (!inhdr) ++body;
      if (c == '.') e('.');                            /* byte-stuffing */
    }
    if (c == '\n') {
      e('\r'); e('\n');
      if (bol) inhdr = 0;                              /* empty line: end of the header */
      bol = 1;
    } else { e(c); bol = 0; }
  }
  if (!bol) { e('\r'); e('\n'); }                      /* last line had no LF */
  e('\r'); e('\n');                                    /* the documented extra blank line */
  e('.'); e('\r'); e('\n');
}

void vmain(void)
{
  unsigned int i, start = 0;
  sym_inputs();
  ASSUME(flen <= F);
  ASSUME(istop <= 1 && topk <= 9 && openfail <= 1);
  mtab[0].fn = fn0; mtab[0].flagdeleted = 0; mtab[0].size = flen;
  m = mtab; numm = 1;
#ifdef TWICE
  mtab[1].fn = fn1; mtab[1].flagdeleted = 0; mtab[1].size = F2; numm = 2;
  ASSUME(!openfail);
#endif
  argbuf[0] = '1';
  if (istop) { argbuf[1] = ' '; argbuf[2] = (char) ('0' + topk); argbuf[3] = 0; }
  else argbuf[1] = 0;

  pop3_top(argbuf);

  CHECK(nopen == 1, "exactly one open per RETR/TOP");
  CHECK(flushed == outlen, "reply flushed");
  CHECK(m[0].flagdeleted == 0 && numm >= 1 && numm <= 2, "RETR/TOP does not change the message table");
  if (openfail) {
    CHECK(outlen >= 6 && outb[0] == '-' && outb[1] == 'E' && outb[2] == 'R' && outb[3] == 'R' && outb[4] == ' '
          && outb[outlen - 2] == '\r' && outb[outlen - 1] == '\n', "C19: a message that cannot be opened is answered -ERR");
    CHECK(nclose == 0, "nothing to close");
    WITNESS("file_vanished");
    return;
  }
  CHECK(nclose == 1 && !fd_open, "message descriptor closed again");
  ref_retr();
  CHECK(explen <= OUTMAX, "reference output fits (harness sizing)");
  /* first line: "+OK" and whatever text up to CR LF (RFC 1939 leaves the text free); the multi-line part follows */
  CHECK(outlen >= 5 && outb[0] == '+' && outb[1] == 'O' && outb[2] == 'K', "C19: RETR/TOP of a readable message is answered +OK");
  for (i = 0; i + 1 < 12; ++i) { if (!start && i + 1 < outlen && outb[i] == '\r' && outb[i + 1] == '\n') start = i + 2; }
  CHECK(start != 0, "the +OK line ends with CR LF");
  CHECK(outlen - start == explen, "C19: RETR/TOP sends exactly header/body lines + blank line + dot line (length)");
  for (i = 0; i < OUTMAX; ++i) {
    if (i >= explen || start + i >= outlen) break;
    CHECK(outb[start + i] == expb[i], "C19: LF -> CR LF, leading dots stuffed, extra blank line, lone-dot terminator (bytes)");
  }
  if (!istop && flen == F && file[0] == '.' && file[F - 1] != '\n') WITNESS("retr_dot_line_and_partial_last_line");
  if (istop && topk == 1 && fpos < flen) WITNESS("top_cut_short");
  if (istop && topk == 0 && flen == F && file[1] == '\n' && file[2] == '\n') WITNESS("top_0_header_only");
  if (istop) WITNESS("top"); else WITNESS("retr");
#ifdef TWICE
  {
    unsigned int cut = (fpos < flen), j;
    second = 1; outlen = 0; flushed = 0; explen = 0; nopen = 0; nclose = 0;
    argbuf[0] = '2'; argbuf[1] = 0;
    pop3_top(argbuf);
    CHECK(nopen == 1 && nclose == 1 && !fd_open && flushed == outlen, "second retrieval: one open, closed, flushed");
    /* reference for the second file: reuse the encoder on file2 */
    for (j = 0; j < F2; ++j) file[j] = file2[j];
    flen = F2; istop = 0;
    ref_retr();
    start = 0;
    for (i = 0; i + 1 < 12; ++i) { if (!start && i + 1 < outlen && outb[i] == '\r' && outb[i + 1] == '\n') start = i + 2; }
    CHECK(start != 0 && outb[0] == '+', "second retrieval answered +OK");
    CHECK(outlen - start == explen, "C19: the second retrieval sends exactly the second message (length)");
    for (i = 0; i < OUTMAX; ++i) {
      if (i >= explen || start + i >= outlen) break;
      CHECK(outb[start + i] == expb[i], "C19: the second retrieval sends exactly the second message (bytes)");
    }
    if (cut) WITNESS("second_retrieval_after_a_top_cut_short");
    WITNESS("second_retrieval");
  }
#endif
}
