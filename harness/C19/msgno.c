/* C19 - qmail-pop3d.c msgno(): long digit strings ("huge numbers" in the property's
 * quantifier).  Encoded from /repo: qmail-pop3d.c msgno, err*; scan_ulong.c.
 * Argument: D decimal digits (D concrete per query, every digit symbolic), 2 messages,
 * none marked.  Reference: the argument names message v = its decimal value; it is
 * accepted iff 1 <= v <= 2 and then msgno returns v-1; every other number is refused
 * with -ERR ("out-of-range ... message numbers are refused without effect").  The value
 * is computed here with saturation, never with wrap-around. */
#include "verif.h"
#include <stdio.h>
#define puts pop3d_puts        /* qmail-pop3d.c defines its own puts(); keep it off libc's */
#include "gen_qmail-pop3d.c"

#ifndef D
#define D 20
#endif

unsigned char dig[D];

static char arg[D + 1];
static struct message mtab[2];
static char f0[] = "new/a", f1[] = "new/b";
static unsigned char rep[8]; static unsigned int replen, flushed;

void sym_inputs(void)
{
#ifdef REPLAY
#include "replay_inputs.inc"
#else
  SYM_ARR(dig);
#endif
}

int ideal_getc(substdio *s) { return -1; }
int ideal_putc(substdio *s, unsigned char c) { CHECK(s == &ssout, "reply on descriptor 1"); if (replen < sizeof rep) rep[replen] = c; ++replen; return 0; }
int ideal_flush(substdio *s) { flushed = replen; return 0; }
void vf__exit(int status)
{
  CHECK(0, "msgno never ends the session");
  PATH_END();
#ifdef VERIF_CBMC
  __CPROVER_assume(0);
#endif
}

void vmain(void)
{
  unsigned int i, v = 0;
  int r;
  sym_inputs();
  for (i = 0; i < D; ++i) {
    ASSUME(dig[i] <= 9);
    arg[i] = (char) ('0' + dig[i]);
    v = v * 10 + dig[i];
    if (v > 1000) v = 1000;                 /* saturate: anything above 2 is out of range */
  }
  arg[D] = 0;
#ifdef KNOWN_C19_MSGNO_WRAP
  /* known finding (known-findings.txt): a number >= 2^64 = 18446744073709551616 wraps around in
   * scan_ulong and is then taken for a small one.  Exactly these arguments are assumed away
   * here, so that every other violation of the same assertions is still reported. */
  {
    static const char lim[] = "18446744073709551616";
    int cmp = 0;                            /* digit string compared with 2^64: -1 less, 0 equal, 1 greater */
    for (i = 0; i < D; ++i) {
      if (i + 20 < D) { if (dig[i]) cmp = 1; }
      else if (cmp == 0) { unsigned int l = (D >= 20) ? (unsigned int) (lim[i - (D - 20)] - '0') : (i < 20 - D ? 0 : 0);
                           if (D < 20) { cmp = -1; } else if (dig[i] > l) cmp = 1; else if (dig[i] < l) cmp = -1; }
    }
    ASSUME(cmp < 0);
  }
#endif
  mtab[0].fn = f0; mtab[1].fn = f1;
  m = mtab; numm = 2;
  r = msgno(arg);
  if (v >= 1 && v <= 2) {
    CHECK(r == (int) v - 1 && replen == 0, "C19: a valid message number selects that message");
    WITNESS("valid_with_leading_zeros");
  } else {
    CHECK(r == -1, "C19: zero or out-of-range message number is refused (huge numbers included)");
    CHECK(replen >= 5 && rep[0] == '-' && rep[1] == 'E' && rep[2] == 'R' && rep[3] == 'R' && flushed == replen, "refusal is answered -ERR");
    if (v == 0) WITNESS("zero_refused");
    if (v == 1000) WITNESS("huge_refused");
  }
  CHECK(m[0].flagdeleted == 0 && m[1].flagdeleted == 0, "msgno changes nothing");
}
