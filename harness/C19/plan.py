from vlib import Obl, Prog

POP3D = Prog("qmail-pop3d.c", nomain=True)

def obligations(tier):
    quick = tier == "quick"
    return [
        Obl("retr_top", "retr.c",
            progs=[POP3D],
            repo=["scan_ulong.c", "substdio.c", "stralloc_pend.c"],
            lib=["ideal_substdio.c", "ideal_getln.c", "arena_stralloc.c"],
            defines={"ARENA_CAP": 16, "ARENA_SLOTS": 2},
            sysrename=["_exit", "close"],
            grid=[{"F": f} for f in ([6] if quick else [8])],
            unwind=lambda p: {"blast": p["F"] + 2, "getln": p["F"] + 2, "substdio_put": 40, "scan_ulong": 4},
            unwind_default=lambda p: 3 * p["F"] + 22,
            timeout=900,
            expect_witnesses=["retr", "top", "file_vanished", "retr_dot_line_and_partial_last_line", "top_cut_short", "top_0_header_only"]),
    ] + [
        Obl(name, "session.c",
            progs=[POP3D],
            repo=["scan_ulong.c", "fmt_ulong.c", "fmt_uint.c", "str_chr.c", "str_start.c", "substdio.c", "byte_copy.c",
                  "stralloc_pend.c", "stralloc_opys.c", "stralloc_opyb.c", "stralloc_cats.c", "stralloc_catb.c"],
            lib=["ideal_substdio.c", "ideal_getln.c", "arena_stralloc.c"],
            defines={"ARENA_CAP": 24, "ARENA_SLOTS": 2},
            sysrename=["_exit", "close", "unlink", "rename"],
            grid=[{"K": k, "ONLY": v} for k in ks for v in range(10)], std_checks=std, backend="cadical",
            # sizes 7 and 120: STAT total <= 127, 3 digits (the unwinding assertion proves it)
            unwind={"fmt_ulong": 5, "scan_ulong": 5},
            unwind_default=66,
            timeout=900,
            expect_witnesses=session_witnesses)
        for (name, ks, std) in [("session_step", [1], True), ("session", [2] if quick else [2, 3], False)]
    ]

QUIT, STAT, LIST, UIDL, DELE, RETR, RSET, LAST, TOP, NOOP = range(10)

def session_witnesses(p):
    k, o = p["K"], p["ONLY"]
    w = []
    if o == QUIT:
        w += ["quit", "quit_unlinks_1_renames_2", "quit_unlinks_both"] + (["dele_rset_quit_keeps_all"] if k >= 3 else [])
    else:
        w += ["session_open"]
    if o not in (QUIT, RSET):
        w += ["both_marked_no_quit"]
    if k >= 2 or o in (LIST, UIDL):
        w += ["listing_skips_deleted"]
    if k >= 2 or o in (RETR, TOP):
        w += ["retr_file_vanished"]
    if k >= 2 or o == DELE:
        w += ["dele_twice_refused", "dele_out_of_range_refused", "dele_zero_refused"]
    if k >= 2 or o == RSET:
        w += ["rset_unmarks_both"]
    return w
