from vlib import Obl, Prog

POP3D = Prog("qmail-pop3d.c", nomain=True)

def obligations(tier):
    quick = tier == "quick"
    return [
        Obl("retr_top", "retr.c",
            progs=[POP3D],
            repo=["scan_ulong.c", "substdio.c", "stralloc_pend.c"],
            lib=["ideal_substdio.c", "ideal_getln.c", "arena_stralloc.c"],
            defines={"ARENA_CAP": 16, "ARENA_SLOTS": 2},
            sysrename=["_exit", "close"],
            grid=[{"F": f} for f in ([6] if quick else [8])],
            unwind=lambda p: {"blast": p["F"] + 2, "getln": p["F"] + 2, "substdio_put": 40, "scan_ulong": 4},
            unwind_default=lambda p: 3 * p["F"] + 22,
            timeout=900,
            expect_witnesses=["retr", "top", "file_vanished", "retr_dot_line_and_partial_last_line", "top_cut_short", "top_0_header_only"]),
        Obl("popup_commands", "popup_cmd.c",
            progs=[Prog("qmail-popup.c", main_as="popup_main", cut=["doanddie"])],
            repo=["commands.c", "str_chr.c", "case_diffs.c", "fmt_uint.c", "fmt_ulong.c", "byte_copy.c",
                  "stralloc_pend.c", "stralloc_opys.c", "stralloc_opyb.c"],
            lib=["ideal_substdio.c", "arena_stralloc.c"],
            defines={"ARENA_CAP": 40, "ARENA_SLOTS": 2},
            sysrename=["_exit", "getpid", "time"],
            grid=POPUP_QUICK if quick else POPUP_THOROUGH,
            unwind=lambda p: {"fmt_ulong": 12, "strlen": 42, "substdio_put": 42,
                              "commands~    for (;;)": p["L1"] + p.get("L2", 0) + p.get("L3", 0) + 2,
                              "commands~  for (;;)": (3 if p.get("L3") else 2 if p.get("L2") else 1) + 2},
            unwind_default=lambda p: max(p["L1"] + p.get("L2", 0) + p.get("L3", 0) + 3, 26),
            timeout=900,
            cuts=["doanddie(user,userlen,pass) -> checks its arguments against the reference and ends the run; its own effect "
                  "(user NUL pass NUL timestamp NUL on descriptor 3) is obligation popup_auth"],
            expect_witnesses=popup_witnesses),
        Obl("popup_auth", "popup_auth.c",
            progs=[Prog("qmail-popup.c", nomain=True)],
            repo=["fmt_uint.c", "fmt_ulong.c", "byte_zero.c", "substdio.c"],
            lib=["ideal_substdio.c"],
            sysrename=["_exit", "close", "pipe", "fork", "execvp", "getpid", "time"],
            grid=[{"UL": u, "PL": q} for (u, q) in ([(1, 1), (3, 3), (2, 3)] if quick else [(u, q) for u in range(1, 6) for q in range(1, 6)])],
            unwind={"fmt_ulong": 12, "strlen": 42, "substdio_put": 42, "byte_zero": 34},
            unwind_default=30,
            timeout=900,
            expect_witnesses=["auth_ok", "auth_failed", "child_execs_checker", "fork_failed", "pipe_failed"]),
    ] + [
        Obl(name, "session.c",
            progs=[POP3D],
            repo=["scan_ulong.c", "fmt_ulong.c", "fmt_uint.c", "str_chr.c", "str_start.c", "substdio.c", "byte_copy.c",
                  "stralloc_pend.c", "stralloc_opys.c", "stralloc_opyb.c", "stralloc_cats.c", "stralloc_catb.c"],
            lib=["ideal_substdio.c", "ideal_getln.c", "arena_stralloc.c"],
            defines={"ARENA_CAP": 24, "ARENA_SLOTS": 2},
            sysrename=["_exit", "close", "unlink", "rename"],
            grid=[g for k in ks for g in session_grid(k)], std_checks=std, backend="cadical",
            # sizes 7 and 120: STAT total <= 127, 3 digits (the unwinding assertion proves it)
            unwind={"fmt_ulong": 5, "scan_ulong": 5},
            unwind_default=66,
            timeout=900,
            expect_witnesses=session_witnesses)
        for (name, ks, std) in [("session_step", [1], True), ("session", [2] if quick else [2, 3], False)]
    ]

# verb classes of session.c: 0 STAT LAST NOOP RSET DELE, 1 LIST, 2 UIDL, 3 RETR TOP, 4 QUIT (last step only:
# a session that quits earlier is a shorter session)
def session_grid(k):
    import itertools
    out = []
    for combo in itertools.product(*([range(4)] * (k - 1) + [range(5)])):
        g = {"K": k}
        g.update({"C%d" % i: c for i, c in enumerate(combo)})
        out.append(g)
    return out

def session_witnesses(p):
    k = p["K"]
    last = p["C%d" % (k - 1)]
    w = []
    if last == 4:
        w += ["quit", "quit_unlinks_1_renames_2", "quit_unlinks_both"]
        if k >= 3 and p["C0"] == 0 and p["C%d" % (k - 2)] == 0:
            w += ["dele_rset_quit_keeps_all"]
    else:
        w += ["session_open", "both_marked_no_quit"]
    if last == 0:
        w += ["dele_twice_refused", "dele_out_of_range_refused", "dele_zero_refused", "rset_unmarks_both"]
    if last in (1, 2):
        w += ["listing_skips_deleted"]
    if last == 3:
        w += ["retr_file_vanished"]
    return w

# popup: line lengths including the LF.  "user a\n" = 7, "user abc\n" = 9, "pass abc\n" = 9, "apop a b\n" = 9
POPUP_QUICK = [{"L1": 5}, {"L1": 7}, {"L1": 9}, {"L1": 7, "L2": 7}, {"L1": 9, "L2": 9}, {"L1": 5, "L2": 7, "L3": 7}]
POPUP_THOROUGH = [{"L1": l} for l in range(1, 13)] + [{"L1": a, "L2": b} for a in (5, 7, 9, 10) for b in (5, 7, 9, 10)] + \
                 [{"L1": a, "L2": b, "L3": c} for a in (5, 7) for b in (5, 7) for c in (7, 8)]

def popup_witnesses(p):
    l1, l2, l3 = p["L1"], p.get("L2", 0), p.get("L3", 0)
    w = ["end_of_input"]
    if l1 >= 5:
        w += ["quit", "unknown_verb"]
    if l1 >= 9 and not l2:
        w += ["apop"]
    if l1 >= 7 and l2 >= 7 and not l3:
        w += ["user_pass", "pass_before_user"]
    if l1 == 9 and l2 == 9 and not l3:
        w += ["user3_pass3"]
    return sorted(set(w))
