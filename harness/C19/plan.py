# C19 - POP3 server (qmail-pop3d.c, qmail-popup.c, maildir.c, commands.c)
#
# kills: (hand-made mutants of /repo in scratch worktrees; each reported as VIOLATION with a replay that
#         reproduces natively, rc 1)
#   P1 qmail-pop3d.c msgno: `u >= numm` -> `u > numm` (off by one)           -> session_step (out-of-bounds m[2], reply overflow)
#   P2 pop3_dele: unlink(m[i].fn) at DELE instead of QUIT                      -> session_step ("nothing is removed before QUIT")
#   P3 blast: leading-dot stuffing removed                                     -> retr_top
#   P4 pop3_rset: marks not cleared                                            -> session_step
#   P5 pop3_quit: unlinks the unmarked instead of the marked                   -> session_step
#   P6 blast: final `"\r\n.\r\n"` -> `".\r\n"` (no extra blank line)           -> retr_top
#   P7 pop3_top: `++limit` dropped (TOP sends one body line less)              -> retr_top
#   P8 msgno: already-deleted check removed                                    -> session_step (DELE, LIST, UIDL, RETR classes)
#   P9 pop3_quit: rename target "cur/X:2" instead of "cur/X:2,"               -> session_step
#   Q1 qmail-popup.c pop3_pass: `if (!seenuser)` check removed                 -> popup_commands
#   Q2 doanddie: password written without its NUL                              -> popup_auth
#   Q3 pop3commands: extra verb "stat" honoured before authentication          -> popup_commands
#   Q4 qmail-pop3d.c main: getuid() check moved behind chdir                   -> root_refused
#   Q5 pop3_apop: user length one short                                        -> popup_commands
#   Q6 doanddie: hostname missing from the timestamp                           -> popup_auth
#   Q7 pop3_greet: hostname missing from the greeting's timestamp              -> popup_commands
#   G1 getlist: cur/ not scanned   G2 prioq_insert: order reversed   G3 maildir.c append: dot files not skipped -> getlist
#
# GENUINE FINDING on the current tree (replays/C19/msgno_huge__D20): msgno() takes a message number >= 2^64 for its value
# mod 2^64 (scan_ulong wraps), e.g. "DELE 55340232221128654850" marks message 2.  msgno.c assumes exactly that input
# class away when compiled with -DKNOWN_C19_MSGNO_WRAP (known-findings.txt: `finding: property=C19 obligation=msgno_huge
# exclude=KNOWN_C19_MSGNO_WRAP what=...`); with the class excluded, or with the proposed patch, every D is UNSAT.
import itertools
from vlib import Obl, Prog

POP3D = Prog("qmail-pop3d.c", nomain=True)

IDEAL = "substdio_get/put/puts/flush, getln: ideal byte streams (lib/ideal_substdio.c, lib/ideal_getln.c); contracts proved on the real code in C20 layer-0 lemmas"
ARENA = "stralloc_ready/readyplus: fixed-capacity arena (growth arithmetic: C20 lemma)"
EXIT = "_exit: records status, runs the exit-path assertions, ends the path"
STRA = ["stralloc_pend.c", "stralloc_opys.c", "stralloc_opyb.c", "stralloc_cats.c", "stralloc_catb.c", "byte_copy.c"]

# session.c verb classes: 0 STAT LAST NOOP RSET DELE, 1 LIST, 2 UIDL, 3 RETR TOP, 4 QUIT (last step only: a session
# that quits earlier is a shorter session)
def session_grid(k):
    out = []
    for combo in itertools.product(*([range(4)] * (k - 1) + [range(5)])):
        g = {"K": k}
        g.update({"C%d" % i: c for i, c in enumerate(combo)})
        out.append(g)
    return out

def session_witnesses(p):
    k = p["K"]
    last = p["C%d" % (k - 1)]
    w = []
    if last == 4:
        w += ["quit", "quit_unlinks_1_renames_2", "quit_unlinks_both"]
        if k >= 3 and p["C0"] == 0 and p["C%d" % (k - 2)] == 0:
            w += ["dele_rset_quit_keeps_all"]
    else:
        w += ["session_open", "both_marked_no_quit"]
    if last == 0:
        w += ["dele_twice_refused", "dele_out_of_range_refused", "dele_zero_refused", "rset_unmarks_both"]
    if last in (1, 2):
        w += ["listing_skips_deleted"]
    if last == 3:
        w += ["retr_file_vanished"]
    return w

# popup: line lengths including the LF.  "quit\n" = 5, "user a\n" = 7, "user abc\n" = "pass abc\n" = "apop a b\n" = 9
POPUP_QUICK = [{"L1": 5}, {"L1": 7}, {"L1": 9}, {"L1": 7, "L2": 7}, {"L1": 9, "L2": 9}, {"L1": 5, "L2": 7, "L3": 7}]
POPUP_THOROUGH = [{"L1": l} for l in range(1, 13)] + [{"L1": a, "L2": b} for a in (5, 7, 9, 10) for b in (5, 7, 9, 10)] + \
                 [{"L1": a, "L2": b, "L3": c} for a in (5, 7) for b in (5, 7) for c in (7, 8)]

def popup_witnesses(p):
    l1, l2, l3 = p["L1"], p.get("L2", 0), p.get("L3", 0)
    w = ["end_of_input"]
    if l1 >= 5:
        w += ["quit", "unknown_verb"]
    if l1 >= 9 and not l2:
        w += ["apop"]
    if l1 >= 7 and l2 >= 7 and not l3:
        w += ["user_pass", "pass_before_user"]
    if l1 == 9 and l2 == 9 and not l3:
        w += ["user3_pass3"]
    return sorted(set(w))

def popup_lines(p):
    return p["L1"] + p.get("L2", 0) + p.get("L3", 0)

def obligations(tier):
    quick = tier == "quick"
    obls = [
        Obl("retr_top", "retr.c",
            progs=[POP3D],
            repo=["scan_ulong.c", "substdio.c", "stralloc_pend.c"],
            lib=["ideal_substdio.c", "ideal_getln.c", "arena_stralloc.c"],
            defines={"ARENA_CAP": 16, "ARENA_SLOTS": 2},
            sysrename=["_exit", "close"],
            grid=[{"F": f} for f in ([6] if quick else [7, 8])],
            unwind=lambda p: {"blast": p["F"] + 2, "getln": p["F"] + 2, "substdio_put": 40, "scan_ulong": 4},
            unwind_default=lambda p: 3 * p["F"] + 22,
            timeout=900 if quick else 3000,
            functions=["qmail-pop3d.c:pop3_top", "qmail-pop3d.c:msgno", "qmail-pop3d.c:blast", "qmail-pop3d.c:okay", "qmail-pop3d.c:put",
                       "qmail-pop3d.c:puts", "qmail-pop3d.c:flush", "qmail-pop3d.c:err", "scan_ulong.c", "substdio.c:substdio_fdbuf", "stralloc_pend.c"],
            stubs=[IDEAL, ARENA, EXIT, "open_read (open_read.c) cut: returns descriptor 5 or -1 (symbolic), records the path", "close: records"],
            assumes=["one message; file content of at most F bytes, every byte value 0..255; command RETR 1 or TOP 1 k, k = 0..9; open may fail"],
            outside=["files longer than F bytes", "read errors in the middle of a message (session ends)", "k > 9"],
            claim="RETR/TOP of a file <= F bytes sends exactly: +OK line, every line with LF->CRLF (partial last line completed), "
                  "leading dots stuffed, TOP limited to header + blank line + k body lines, then the documented extra blank line "
                  "and the lone-dot terminator, flushed; table unchanged; unreadable file => -ERR",
            expect_witnesses=["retr", "top", "file_vanished", "retr_dot_line_and_partial_last_line", "top_cut_short", "top_0_header_only"]),
        Obl("retr_twice", "retr.c",
            progs=[POP3D],
            repo=["scan_ulong.c", "substdio.c", "stralloc_pend.c"],
            lib=["ideal_substdio.c", "ideal_getln.c", "arena_stralloc.c"],
            defines={"ARENA_CAP": 16, "ARENA_SLOTS": 2, "TWICE": 1, "F2": 2},
            sysrename=["_exit", "close"],
            grid=[{"F": f} for f in ([4] if quick else [5, 6])],
            unwind=lambda p: {"blast": p["F"] + 2, "getln": p["F"] + 2, "substdio_put": 40, "scan_ulong": 4},
            unwind_default=lambda p: 3 * p["F"] + 22,
            timeout=900 if quick else 3000,
            functions=["qmail-pop3d.c:pop3_top", "qmail-pop3d.c:blast", "substdio.c:substdio_fdbuf"],
            stubs=[IDEAL + "; the ideal stream keeps a ghost flag 'may hold unread read-ahead bytes' that only end of file or substdio_fdbuf() clears",
                   ARENA, EXIT, "open_read cut: descriptor 5", "close: records"],
            assumes=["two messages; first retrieval RETR 1 or TOP 1 k on any file of up to F bytes, then RETR 2 on any file of 2 bytes"],
            outside=["more than two retrievals", "files longer than F bytes"],
            claim="a retrieval that follows another one (in particular a TOP that stopped early) sends exactly its own message: the message stream "
                  "is reset for every retrieval",
            expect_witnesses=["retr", "top", "top_cut_short", "second_retrieval", "second_retrieval_after_a_top_cut_short"]),
        Obl("getlist", "getlist.c",
            progs=[POP3D],
            repo=["maildir.c", "prioq.c"] + STRA,
            lib=["ideal_substdio.c", "arena_stralloc.c"],
            defines={"ARENA_CAP": 32, "ARENA_SLOTS": 2},
            sysrename=["_exit", "time", "opendir", "readdir", "closedir", "stat", "unlink", "calloc", "realloc"],
            grid=[{"NN": a, "NC": b} for (a, b) in ([(1, 1), (2, 0), (0, 2)] if quick else [(1, 1), (2, 0), (0, 2), (2, 1), (1, 2), (3, 0), (0, 3)])],
            unwind_default=12,
            timeout=900 if quick else 3000,
            functions=["qmail-pop3d.c:getlist", "maildir.c:maildir_clean", "maildir.c:maildir_scan", "maildir.c:append",
                       "prioq.c:prioq_insert", "prioq.c:prioq_min", "prioq.c:prioq_delmin", "stralloc_*.c"],
            stubs=[ARENA, EXIT, "opendir/readdir/closedir/stat/unlink/time: directory model tmp/ (1 file), new/ (NN entries), cur/ (NC entries); "
                   "2 symbolic name bytes, symbolic mtime around now, symbolic size, stat may fail per entry",
                   "calloc: static table of 4 messages; realloc: asserts not needed (pq pre-sized to 8, DESIGN 2.3)"],
            assumes=["NN + NC <= 3 files; names of 1-2 bytes, unique inside a directory; opendir succeeds for new/ and cur/"],
            outside=["ordering among equal mtimes", "files vanishing between the two stat calls", "more than 3 files", "unreadable new/ or cur/ (die_scan)"],
            claim="after getlist(): every non-dot, stat-able file of new/ and cur/ older than now is in m[] exactly once with its path and size, "
                  "unmarked, in non-decreasing mtime order; nothing else is listed except (judgement) files with mtime >= now; nothing "
                  "is removed except a tmp/ file not accessed for 36 hours",
            expect_witnesses=lambda p: ["all_listed", "dot_file_skipped", "future_file_skipped", "stale_tmp_removed"]
                                       + (["reordered_by_mtime"] if p["NN"] + p["NC"] >= 2 else [])),
        Obl("msgno_huge", "msgno.c",
            progs=[POP3D],
            repo=["scan_ulong.c"],
            lib=["ideal_substdio.c"],
            sysrename=["_exit"],
            grid=[{"D": d} for d in ([3, 20] if quick else [1, 3, 10, 19, 20, 21, 25])],
            unwind=lambda p: {"scan_ulong": p["D"] + 2, "strlen": 48, "substdio_put": 48},
            unwind_default=lambda p: p["D"] + 2,
            timeout=600,
            functions=["qmail-pop3d.c:msgno", "qmail-pop3d.c:err", "scan_ulong.c"],
            stubs=[IDEAL, EXIT],
            assumes=["argument = D decimal digits (D concrete per query, digits symbolic); 2 messages, none marked"],
            outside=["digit strings longer than 25"],
            claim="msgno accepts a string of D digits iff its decimal value is 1 or 2 (leading zeros allowed) and returns value-1; "
                  "every other number - zero, 3.., numbers beyond 2^64 - is refused with -ERR",
            expect_witnesses=lambda p: ["valid_with_leading_zeros", "zero_refused"] + (["huge_refused"] if p["D"] >= 4 else [])),
        Obl("root_refused", "root.c",
            progs=[Prog("qmail-pop3d.c", main_as="pop3d_main", cut=["getlist"])],
            repo=["commands.c", "str_chr.c", "case_diffs.c", "stralloc_opys.c", "stralloc_opyb.c", "byte_copy.c"],
            lib=["ideal_substdio.c", "arena_stralloc.c"],
            defines={"ARENA_CAP": 8, "ARENA_SLOTS": 2},
            sysrename=["_exit", "getuid", "chdir"],
            unwind={"strlen": 48, "substdio_put": 48},
            unwind_default=8,
            timeout=600,
            functions=["qmail-pop3d.c:main", "qmail-pop3d.c:die_root", "qmail-pop3d.c:die_nomaildir", "qmail-pop3d.c:okay", "commands.c:commands"],
            stubs=[IDEAL, ARENA, EXIT, "getuid: symbolic uid; chdir: may fail; sig_alarmcatch/sig_pipeignore: no-ops; input: empty"],
            cuts=["getlist -> recording stub (start-up order only; the scan itself is obligation getlist)"],
            assumes=["any uid; maildir argument present or not; chdir succeeds or fails"],
            claim="uid 0: log line on descriptor 2, exit 1, and before that no chdir, no maildir scan, not a byte to the client; "
                  "otherwise chdir(argv[1]) -> scan -> +OK greeting -> commands; no usable maildir: -ERR, nothing scanned",
            expect_witnesses=["root_refused", "no_maildir", "normal_startup"]),
        Obl("popup_commands", "popup_cmd.c",
            progs=[Prog("qmail-popup.c", main_as="popup_main", cut=["doanddie"])],
            repo=["commands.c", "str_chr.c", "case_diffs.c", "fmt_uint.c", "fmt_ulong.c", "byte_copy.c",
                  "stralloc_pend.c", "stralloc_opys.c", "stralloc_opyb.c"],
            lib=["ideal_substdio.c", "arena_stralloc.c"],
            defines={"ARENA_CAP": 40, "ARENA_SLOTS": 2},
            sysrename=["_exit", "getpid", "time"],
            grid=POPUP_QUICK if quick else POPUP_THOROUGH,
            # strlen: longest constant string is 33 bytes; strlen on the command buffer stays inside ARENA_CAP
            unwind=lambda p: {"fmt_ulong": 12, "strlen": 42, "substdio_put": 42,
                              "commands~    for (;;)": popup_lines(p) + 2,
                              "commands~  for (;;)": (3 if p.get("L3") else 2 if p.get("L2") else 1) + 2},
            unwind_default=lambda p: max(popup_lines(p) + 3, 26),
            timeout=900 if quick else 3000,
            functions=["qmail-popup.c:main", "qmail-popup.c:pop3_greet", "qmail-popup.c:pop3_user", "qmail-popup.c:pop3_pass",
                       "qmail-popup.c:pop3_apop", "qmail-popup.c:pop3_quit", "qmail-popup.c:okay", "qmail-popup.c:err_authoriz",
                       "commands.c:commands", "str_chr.c", "case_diffs.c", "fmt_uint.c", "fmt_ulong.c", "stralloc_*.c"],
            stubs=[IDEAL, ARENA, EXIT, "getpid = 123, time = 1000000000, sig_*: no-ops"],
            cuts=["doanddie(user,userlen,pass) -> checks its arguments against the reference and ends the run; its own effect "
                  "(user NUL pass NUL timestamp NUL on descriptor 3) is proved by obligation popup_auth in the same run"],
            assumes=["input = 1..3 command lines of concrete lengths (grid), every byte any value but NUL, LF exactly at the line ends"],
            outside=["NUL bytes in commands", "lines longer than the grid", "more than three commands"],
            claim="before authentication: greeting with the APOP timestamp; USER name -> +OK; NOOP -> +OK; QUIT -> +OK, exit; PASS after "
                  "USER / APOP name digest -> checker started with exactly that name and string; every other line (unknown verb, PASS "
                  "without USER, empty arguments) -> one -ERR reply and no effect at all; exactly one flushed reply per command",
            expect_witnesses=popup_witnesses),
        Obl("popup_auth", "popup_auth.c",
            progs=[Prog("qmail-popup.c", nomain=True)],
            repo=["fmt_uint.c", "fmt_ulong.c", "byte_zero.c", "substdio.c"],
            lib=["ideal_substdio.c"],
            sysrename=["_exit", "close", "pipe", "fork", "execvp", "getpid", "time"],
            grid=[{"UL": u, "PL": q} for (u, q) in ([(1, 1), (3, 3), (2, 3)] if quick else [(u, q) for u in range(1, 6) for q in range(1, 6)])],
            unwind={"fmt_ulong": 12, "strlen": 42, "substdio_put": 42, "byte_zero": 34},
            unwind_default=30,
            timeout=900,
            functions=["qmail-popup.c:doanddie", "qmail-popup.c:pop3_greet", "qmail-popup.c:die_pipe", "qmail-popup.c:die_fork",
                       "qmail-popup.c:die_childcrashed", "qmail-popup.c:die_badauth", "fmt_uint.c", "fmt_ulong.c", "byte_zero.c", "substdio.c:substdio_fdbuf"],
            stubs=[IDEAL, EXIT, "close/pipe/fork/execvp/wait_pid: descriptor model (pipe gives 3/4 after close(3)); fork returns parent, child or -1; "
                   "wait status = any exit code or any signal", "getpid = 123, time = 1000000000"],
            assumes=["user of UL and password of PL non-NUL bytes (lengths concrete per query)"],
            outside=["write errors on the pipe (die_write)"],
            claim="doanddie writes exactly user NUL pass NUL '<pid.time@hostname>' NUL to the write end whose read end is the child's "
                  "descriptor 3, flushes and closes it before waiting; the child closes the write end and execs the subprogram; "
                  "-ERR iff the child crashed or exited nonzero; the password is wiped",
            expect_witnesses=["auth_ok", "auth_failed", "child_execs_checker", "fork_failed", "pipe_failed"]),
    ]
    for (name, ks, std, szdef, fmtu) in [("session_step", [1], True, {"SZ0": 7, "SZ1": 120}, 4),
                                         ("session", [2] if quick else [2, 3], False, {"SZ0": 3, "SZ1": 5}, 2)]:
        obls.append(
            Obl(name, "session.c",
                progs=[POP3D],
                repo=["scan_ulong.c", "fmt_ulong.c", "fmt_uint.c", "str_chr.c", "str_start.c", "substdio.c"] + STRA,
                lib=["ideal_substdio.c", "ideal_getln.c", "arena_stralloc.c"],
                # message sizes are concrete: 7 and 120 in the one-step query, 3 and 5 in the sessions (fmt_ulong on the symbolic
                # message index / STAT total costs one 64-bit divider per possible digit; the unwinding assertion proves the bound)
                defines=dict({"ARENA_CAP": 24, "ARENA_SLOTS": 2}, **szdef),
                sysrename=["_exit", "close", "unlink", "rename"],
                grid=[g for k in ks for g in session_grid(k)], std_checks=std, backend="cadical",
                unwind={"fmt_ulong": fmtu, "scan_ulong": 5},
                unwind_default=66,
                timeout=900 if quick else 3000,
                functions=["qmail-pop3d.c:pop3_quit", "qmail-pop3d.c:pop3_stat", "qmail-pop3d.c:pop3_list", "qmail-pop3d.c:pop3_uidl",
                           "qmail-pop3d.c:pop3_dele", "qmail-pop3d.c:pop3_top", "qmail-pop3d.c:pop3_rset", "qmail-pop3d.c:pop3_last",
                           "qmail-pop3d.c:okay", "qmail-pop3d.c:msgno", "qmail-pop3d.c:dolisting", "qmail-pop3d.c:list", "qmail-pop3d.c:printfn",
                           "qmail-pop3d.c:blast", "qmail-pop3d.c:pop3commands", "scan_ulong.c", "fmt_ulong.c", "fmt_uint.c", "str_chr.c",
                           "str_start.c", "stralloc_*.c"],
                stubs=[IDEAL, ARENA, EXIT, "open_read cut: descriptor or -1 (symbolic per step); unlink: may fail (at most one); rename, close: record",
                       "handlers reached through the real pop3commands[] table by verb text; commands() itself: popup_commands, C05 resume_next_command"],
                assumes=["2 messages, each in new/ or cur/ (symbolic), one symbolic name byte each, empty content, concrete sizes",
                         "the K commands continue an arbitrary session: deletion marks and `last` at the start are symbolic, so K = 1 is the "
                         "inductive step for sessions of any length",
                         "arguments of 3 bytes: digits then NUL/space, or starting with a non-digit (digits followed by other junk: documents silent, excluded)",
                         "case split over verb classes per step (one query per combination, all combinations issued)"],
                outside=["STAT's count", "more than 2 messages", "arguments longer than 3 bytes (msgno_huge covers long digit strings)",
                         "two failing unlinks in one QUIT"],
                claim="for every verb sequence of length K from any marking: numbering fixed; DELE n marks only a valid unmarked n; bad numbers "
                      "(none, 0, >2, already deleted) => -ERR and no state change; RSET unmarks all; LIST/UIDL [n] show number, size / unique id "
                      "of exactly the unmarked messages; RETR/TOP open exactly file n; nothing is unlinked or renamed before QUIT; QUIT unlinks "
                      "exactly the marked files and renames exactly the unmarked new/X to cur/X:2,; std checks on for K = 1",
                expect_witnesses=session_witnesses))
    return obls
