/* C19 - qmail-popup.c doanddie(): what the password checker receives.
 * Encoded from /repo: qmail-popup.c (text before main) doanddie, pop3_greet, die_*, err;
 * fmt_uint.c, fmt_ulong.c, byte_zero.c, substdio.c.  substdio = ideal streams.
 * Stubs: close/pipe/fork/execvp/wait_pid/getpid/time/_exit, sig_pipedefault.
 *
 * qmail-popup(8): the subprogram is invoked "with the same descriptors 0 and 1, and with
 * descriptor 3 reading the username, a 0 byte, the password, another 0 byte, an APOP
 * timestamp derived from hostname, and a final 0 byte.  qmail-popup then waits for
 * subprogram to finish.  It prints an error message if subprogram crashes or exits
 * nonzero."   RFC 1939 section 7: the timestamp is the <...@hostname> shown in the greeting.
 * user (UL bytes) and pass (PL bytes): every byte value but NUL; lengths concrete per query. */
#include "verif.h"
#include <stdio.h>
#define puts popup_puts        /* qmail-popup.c defines its own puts(); keep it off libc's */
#include "gen_qmail-popup.c"

#ifndef UL
#define UL 3
#endif
#ifndef PL
#define PL 3
#endif
#define CHALMAX 40             /* room for the timestamp as shown in the greeting */

unsigned char user[UL];
unsigned char pass[PL];
int forkret;                   /* 100: parent, 0: child, -1: fork fails */
int wstat;                     /* status reported by wait_pid */
int pipefail;

static char ubuf[UL + 1], pbuf[PL + 1];
static unsigned char rep[8]; static unsigned int replen, repflushed; static int greeted;
static int closed3, piped, forked, closed_w, closed_r, waited;
static unsigned char chal[CHALMAX]; static unsigned int challen; static int inchal;   /* "<...>" captured from the greeting */
static unsigned char upb[UL + PL + CHALMAX + 8]; static unsigned int uplen, upflushed;
static char *argv_[4] = { "qmail-popup", "h", "checkpw", 0 };

void sym_inputs(void)
{
#ifdef REPLAY
#include "replay_inputs.inc"
#else
  SYM_ARR(user); SYM_ARR(pass); SYM(forkret); SYM(wstat); SYM(pipefail);
#endif
}

int ideal_getc(substdio *s) { CHECK(0, "doanddie reads nothing"); return -1; }

int ideal_putc(substdio *s, unsigned char c)
{
  if (s == &ssup) {
    CHECK(forked && forkret > 0 && !closed_w && s->fd == 4, "C19(popup): credentials are written by the parent to the write end of the pipe");
    CHECK(uplen < sizeof upb, "pipe buffer (harness sizing)");
    ASSUME(uplen < sizeof upb);
    upb[uplen++] = c;
    return 0;
  }
  CHECK(s == &ssout, "replies go to descriptor 1");
  if (!greeted) {
    if (c == '<') inchal = 1;
    if (inchal) { CHECK(challen < CHALMAX, "timestamp fits (harness sizing)"); if (challen < CHALMAX) chal[challen++] = c; }
    if (c == '>') inchal = 0;
    return 0;
  }
  if (replen < sizeof rep) rep[replen] = c;
  ++replen;
  return 0;
}

int ideal_flush(substdio *s)
{
  if (s == &ssup) { upflushed = uplen; return 0; }
  repflushed = replen;
  return 0;
}

int vf_close(int fd)
{
  if (fd == 3 && !piped) { closed3 = 1; return 0; }
  CHECK(piped && forked, "close after pipe and fork");
  if (fd == 4) {
    unsigned int k, j = 0;
    closed_w = 1;
    if (forkret == 0) return 0;                       /* child closes its copy of the write end */
    CHECK(upflushed == uplen, "C19(popup): credentials flushed before the pipe is closed");
    CHECK(uplen == UL + 1 + PL + 1 + challen + 1, "C19(popup): descriptor 3 carries name NUL password NUL timestamp NUL, nothing else");
    if (uplen != UL + 1 + PL + 1 + challen + 1) return 0;
    for (k = 0; k < UL; ++k) { CHECK(upb[j] == user[k], "C19(popup): user name passed verbatim"); ++j; }
    CHECK(upb[j] == 0, "C19(popup): NUL after the name"); ++j;
    for (k = 0; k < PL; ++k) { CHECK(upb[j] == pass[k], "C19(popup): password / digest passed verbatim"); ++j; }
    CHECK(upb[j] == 0, "C19(popup): NUL after the password"); ++j;
    for (k = 0; k < CHALMAX; ++k) { if (k >= challen) break; CHECK(upb[j] == chal[k], "C19(popup): the APOP timestamp is the one shown in the greeting"); ++j; }
    CHECK(upb[j] == 0, "C19(popup): NUL after the timestamp");
    return 0;
  }
  if (fd == 3) { CHECK(forkret > 0, "parent closes its copy of the read end"); closed_r = 1; return 0; }
  CHECK(0, "no other descriptor is closed");
  return 0;
}

int vf_pipe(int pi[2])
{
  CHECK(closed3 && !piped, "descriptor 3 is freed before the pipe is made, so that the read end becomes descriptor 3");
  if (pipefail) return -1;
  piped = 1; pi[0] = 3; pi[1] = 4;
  return 0;
}

pid_t vf_fork(void)
{
  CHECK(piped && !forked, "fork after pipe, once");
  forked = 1;
  return forkret;
}

int vf_execvp(const char *file, char *const av[])
{
  CHECK(forked && forkret == 0, "exec in the child only");
  CHECK(closed_w && !closed_r, "child keeps descriptor 3 (read end) and closes the write end, so it sees EOF after the credentials");
  CHECK(file == argv_[2] && av == argv_ + 2, "C19(popup): the child runs the subprogram given on the command line");
  CHECK(uplen == 0 && replen == 0, "child writes nothing");
  WITNESS("child_execs_checker");
  PATH_END();
  return -1;
}

int wait_pid(int *w, int pid)
{
  CHECK(forked && forkret > 0 && pid == forkret && closed_w && closed_r, "parent waits for the checker after closing both pipe ends");
  waited = 1; *w = wstat;
  return pid;
}

pid_t vf_getpid(void) { return 123; }
time_t vf_time(time_t *t) { return 1000000000; }
void sig_pipedefault(void) {}

void vf__exit(int status)
{
  int err = replen >= 5 && rep[0] == '-' && rep[1] == 'E' && rep[2] == 'R' && rep[3] == 'R' && rep[4] == ' ' && repflushed == replen;
  if (pipefail) { CHECK(err && !forked && uplen == 0, "pipe failure is reported, nothing started"); WITNESS("pipe_failed"); }
  else if (forkret == -1) { CHECK(err && uplen == 0, "fork failure is reported, nothing written"); WITNESS("fork_failed"); }
  else {
    CHECK(forkret > 0 && closed_w && waited, "parent wrote the credentials, closed the pipe and waited");
    if ((wstat & 127) || (wstat >> 8)) { CHECK(err, "qmail-popup(8): error message if the subprogram crashes or exits nonzero"); WITNESS("auth_failed"); }
    else { CHECK(replen == 0, "no message after a successful subprogram"); WITNESS("auth_ok"); }
    { unsigned int k; for (k = 0; k < PL; ++k) CHECK(pbuf[k] == 0, "password wiped from memory after it was sent"); }
  }
  PATH_END();
#ifdef VERIF_CBMC
  __CPROVER_assume(0);
#endif
}

void vmain(void)
{
  unsigned int i;
  sym_inputs();
  for (i = 0; i < UL; ++i) { ASSUME(user[i] != 0); ubuf[i] = (char) user[i]; }
  for (i = 0; i < PL; ++i) { ASSUME(pass[i] != 0); pbuf[i] = (char) pass[i]; }
  ubuf[UL] = 0; pbuf[PL] = 0;
  ASSUME(forkret == 100 || forkret == 0 || forkret == -1);
  ASSUME(pipefail == 0 || pipefail == 1);
  /* a wait status is either "exited with code c" (c << 8) or "killed by signal" (low 7 bits, + core flag) */
  ASSUME(wstat >= 0 && ((wstat & 0x7f) == 0 ? ((wstat & 0x80) == 0 && wstat <= 0xff00) : wstat <= 0xff));
  hostname = argv_[1]; childargs = argv_ + 2;
  pop3_greet();                 /* the real code builds the timestamp and shows it in the greeting */
  greeted = 1;
  CHECK(challen >= 5 && chal[0] == '<' && chal[challen - 1] == '>' && chal[challen - 2] == 'h' && chal[challen - 3] == '@',
        "RFC 1939: greeting carries a timestamp <...@hostname>");
  doanddie(ubuf, UL + 1, pbuf);
  CHECK(0, "doanddie does not return");
}
