/* C19 - qmail-popup.c: the whole program (main, pop3_greet, commands(), pop3_user/pass/
 * apop/quit, okay, err_authoriz) on every stream of up to three command lines.
 * Encoded from /repo: qmail-popup.c (main renamed), commands.c, str_chr.c, case_diffs.c,
 * fmt_uint.c, fmt_ulong.c and the stralloc units.
 * substdio = ideal streams; stralloc_ready* = arena.  Stubs: getpid/time/_exit, sig_*.
 * Cut: doanddie(user,userlen,pass) -> observing stub that checks its three arguments
 * against the reference and ends the run; what doanddie does with them (pipe, fork,
 * exactly  user NUL pass NUL timestamp NUL  on descriptor 3) is obligation popup_auth,
 * proved for all strings of the lengths reachable here.
 *
 * Line lengths are concrete per query (L1, L2, L3 bytes including the LF; DESIGN 2.4), every
 * byte is symbolic (any value but NUL; LF exactly at the line ends).
 *
 * Reference (property C19, qmail-popup(8), RFC 1939 sections 4 and 7):
 *   a line is  verb [SP+ argument] [CR] LF, verbs compared without regard to case;
 *   USER name   (name non-empty): +OK, name remembered;       empty: -ERR
 *   PASS string (after a USER, string non-empty): run the checker with name/string;
 *               otherwise -ERR and nothing happens
 *   APOP name digest (one space between them): run the checker with name/digest;
 *               no space: -ERR and nothing happens
 *   NOOP: +OK.   QUIT: +OK and exit.
 *   any other verb: -ERR and NO effect (checker not run, remembered name unchanged). */
#include "verif.h"
#include <stdio.h>
#define puts popup_puts        /* qmail-popup.c defines its own puts(); keep it off libc's */
void doanddie(char *user, unsigned int userlen, char *pass);   /* the cut callee, defined below */
#include "gen_qmail-popup.c"

#ifndef L1
#define L1 7
#endif
#ifndef L2
#define L2 0
#endif
#ifndef L3
#define L3 0
#endif
#define N (L1 + L2 + L3)

unsigned char in[N];

enum { EXP_NONE, EXP_OK, EXP_ERR, EXP_AUTH, EXP_QUIT };
enum { V_USER, V_PASS, V_APOP, V_QUIT, V_NOOP, V_OTHER };

static unsigned int inpos, nlines;
static int eof_seen, auth_called;
/* reference model */
static int r_seenuser; static unsigned int r_us, r_ul;       /* remembered name = in[r_us..r_us+r_ul) */
static int expect = EXP_NONE;                                /* what the line just delivered must cause */
static unsigned int a_us, a_ul, a_ps, a_pl;                  /* EXP_AUTH: name and string spans */
/* observations */
static unsigned int nreply; static unsigned char reply_sign; static unsigned int reply_pending;
static unsigned char greet[32]; static unsigned int greetlen; static int greeted;
static char *argv_[4] = { "qmail-popup", "h", "checkpw", 0 };

void sym_inputs(void)
{
#ifdef REPLAY
#include "replay_inputs.inc"
#else
  SYM_ARR(in);
#endif
}

/* ---- reference line parser */
static int ci_is(unsigned int s, unsigned int n, const char *lower)
{
  unsigned int k;
  if (n != 4) return 0;
  for (k = 0; k < 4; ++k) {
    unsigned char c = in[s + k];
    if (c >= 'A' && c <= 'Z') c = (unsigned char) (c - 'A' + 'a');
    if (c != (unsigned char) lower[k]) return 0;
  }
  return 1;
}

/* evaluated once per line before the program runs (the lines are inputs); x_*[i] = what line i
 * must cause given the lines before it */
static int x_expect[3]; static unsigned int x_us[3], x_ul[3], x_ps[3], x_pl[3];

static void ref_line(unsigned int idx, unsigned int s, unsigned int lf)
{
  unsigned int len = lf - s, v = 0, a, k, alen, sp;
  int verb;
  if (len > 0 && in[lf - 1] == '\r') --len;
  for (k = 0; k < N; ++k) { if (v < len && in[s + v] != ' ') ++v; }
  a = v;
  for (k = 0; k < N; ++k) { if (a < len && in[s + a] == ' ') ++a; }
  alen = len - a;
  verb = ci_is(s, v, "user") ? V_USER : ci_is(s, v, "pass") ? V_PASS : ci_is(s, v, "apop") ? V_APOP
       : ci_is(s, v, "quit") ? V_QUIT : ci_is(s, v, "noop") ? V_NOOP : V_OTHER;
  expect = EXP_ERR;
  if (verb == V_NOOP) expect = EXP_OK;
  else if (verb == V_QUIT) expect = EXP_QUIT;
  else if (verb == V_USER) { if (alen) { expect = EXP_OK; r_seenuser = 1; r_us = s + a; r_ul = alen; } }
  else if (verb == V_PASS) { if (r_seenuser && alen) { expect = EXP_AUTH; a_us = r_us; a_ul = r_ul; a_ps = s + a; a_pl = alen; } }
  else if (verb == V_APOP) {
    sp = 0;
    for (k = 0; k < N; ++k) { if (sp < alen && in[s + a + sp] != ' ') ++sp; }
    if (sp < alen) { expect = EXP_AUTH; a_us = s + a; a_ul = sp; a_ps = s + a + sp + 1; a_pl = alen - sp - 1; }
  }
  x_expect[idx] = expect; x_us[idx] = a_us; x_ul[idx] = a_ul; x_ps[idx] = a_ps; x_pl[idx] = a_pl;
  if (verb == V_OTHER && len >= 4) WITNESS("unknown_verb");
  if (verb == V_PASS && expect == EXP_ERR && alen) WITNESS("pass_before_user");
}

static void check_prev(void)
{
  /* the line delivered last has been fully processed: exactly one reply with the right sign */
  if (!nlines) return;
  CHECK(expect == EXP_OK || expect == EXP_ERR, "C19(popup): the session continues only after USER, NOOP or a refused command");
  CHECK(nreply == nlines && reply_pending == 0, "C19(popup): one flushed reply per command");
  CHECK(reply_sign == (expect == EXP_OK ? '+' : '-'), "C19(popup): +OK for USER name / NOOP, -ERR for everything else before authentication");
}

/* ---- environment */
int ideal_getc(substdio *s)
{
  unsigned char c;
  CHECK(s == &ssin, "commands are read from descriptor 0 only");
  CHECK(greeted, "greeting is sent before the first command is read");
  if (inpos == 0 || in[inpos - 1] == '\n') check_prev();
  if (inpos >= N) { eof_seen = 1; return -1; }
  c = in[inpos++];
  if (c == '\n') {
    unsigned int cur = nlines < 3 ? nlines : 2;
    ++nlines;
    expect = x_expect[cur]; a_us = x_us[cur]; a_ul = x_ul[cur]; a_ps = x_ps[cur]; a_pl = x_pl[cur];
  }
  return c;
}

int ideal_putc(substdio *s, unsigned char c)
{
  CHECK(s == &ssout, "replies go to descriptor 1");
  if (!greeted) { if (greetlen < sizeof greet) greet[greetlen] = c; ++greetlen; return 0; }
  if (reply_pending == 0) { reply_sign = c; }
  ++reply_pending;
  return 0;
}

int ideal_flush(substdio *s)
{
  if (!greeted) {
    /* RFC 1939 section 7: the greeting carries the APOP timestamp <...@hostname> */
    unsigned int n = greetlen < sizeof greet ? greetlen : 0;
    greeted = 1;
    CHECK(n >= 12 && greet[0] == '+' && greet[1] == 'O' && greet[2] == 'K' && greet[3] == ' ' && greet[4] == '<'
          && greet[n - 5] == '@' && greet[n - 4] == 'h' && greet[n - 3] == '>' && greet[n - 2] == '\r' && greet[n - 1] == '\n',
          "greeting is +OK <timestamp@hostname>");
    return 0;
  }
  if (reply_pending) { ++nreply; reply_pending = 0; }
  return 0;
}

void vf__exit(int status);

/* the cut callee: arguments must be exactly the reference's name and string */
void doanddie(char *user, unsigned int userlen, char *pass)
{
  unsigned int k;
  CHECK(expect == EXP_AUTH, "C19(popup): only a complete USER+PASS or APOP starts the checker; no other verb has any effect");
  CHECK(!auth_called, "once");
  auth_called = 1;
  if (expect == EXP_AUTH) {
    CHECK(userlen == a_ul + 1, "C19(popup): user name length (including its NUL)");
    for (k = 0; k < N; ++k) { if (k >= a_ul || k >= userlen) break; CHECK((unsigned char) user[k] == in[a_us + k], "C19(popup): user name passed verbatim"); }
    if (userlen == a_ul + 1) CHECK(user[a_ul] == 0, "user name is NUL-terminated");
    for (k = 0; k < N; ++k) { if (k >= a_pl) break; CHECK((unsigned char) pass[k] == in[a_ps + k], "C19(popup): password / digest passed verbatim"); if (!pass[k]) break; }
    CHECK(pass[a_pl] == 0, "password ends where the line ends");
    CHECK(nreply == nlines - 1 && reply_pending == 0, "no reply before the checker has run");
    CHECK(hostname == argv_[1] && childargs == argv_ + 2, "hostname and subprogram come from the command line");
    if (a_ul == 3 && a_pl == 3 && nlines == 2) WITNESS("user3_pass3");
    if (nlines == 1) WITNESS("apop");
    if (nlines >= 2) WITNESS("user_pass");
  }
  PATH_END();
#ifdef VERIF_CBMC
  __CPROVER_assume(0);
#endif
}

pid_t vf_getpid(void) { return 123; }
time_t vf_time(time_t *t) { return 1000000000; }
void sig_alarmcatch(void (*f)()) {}
void sig_pipeignore(void) {}
void sig_pipedefault(void) {}

void vf__exit(int status)
{
  CHECK(!auth_called, "stub ends the run itself");
  if (expect == EXP_QUIT) {
    CHECK(nreply == nlines && reply_pending == 0 && reply_sign == '+', "QUIT is answered +OK");
    WITNESS("quit");
  } else {
    CHECK(eof_seen, "C19(popup): the program ends only at QUIT, after the checker, or at end of input");
    CHECK(nlines == (L3 ? 3 : L2 ? 2 : 1), "all lines consumed");
    WITNESS("end_of_input");
  }
  PATH_END();
#ifdef VERIF_CBMC
  __CPROVER_assume(0);
#endif
}

void vmain(void)
{
  unsigned int i;
  sym_inputs();
  for (i = 0; i < N; ++i) {
    int islf = (i == L1 - 1) || (L2 && i == L1 + L2 - 1) || (L3 && i == N - 1);
    ASSUME(islf ? in[i] == '\n' : (in[i] != '\n' && in[i] != 0));
  }
  ref_line(0, 0, L1 - 1);
  if (L2) ref_line(1, L1, L1 + L2 - 1);
  if (L3) ref_line(2, L1 + L2, N - 1);
  expect = EXP_NONE;
  /* take username's arena slot now: a slot taken on only some paths makes the slot index symbolic
   * and every later access through the stralloc a 24-way case split */
  stralloc_ready(&username, 1);
  popup_main(3, argv_);
  CHECK(0, "main does not return");
}
