/* C19 - qmail-pop3d.c main(): start-up order and the refusal to run as root.
 * Encoded from /repo: qmail-pop3d.c main, die_root, die_nomaildir, okay, err (main renamed),
 * commands.c (reached with an empty input only).  Cut: getlist() -> recording stub (the
 * maildir scan is not part of this obligation).  Stubs: getuid/chdir/_exit, sig_*.
 *
 * qmail-pop3d(8): "qmail-pop3d also refuses to run as root.  The event will be logged and
 * qmail-pop3d will exit 1, looking to qmail-popup like any other failed checkpassword
 * login."  Property: uid 0 => exit before anything else: no chdir, no maildir access,
 * nothing sent to the client.  Otherwise: chdir to the maildir named on the command line,
 * scan it, greet; without a usable maildir: -ERR and exit, nothing scanned. */
#include "verif.h"
#include <stdio.h>
#define puts pop3d_puts        /* qmail-pop3d.c defines its own puts(); keep it off libc's */
void getlist(void);            /* the cut callee, defined below */
#include "gen_qmail-pop3d.c"

unsigned int uid;
unsigned char have_arg;        /* argv[1] present */
unsigned char chdir_fails;

static unsigned int nout, nerr, errflushed, outflushed;
static unsigned char out0[8];
static int nchdir, ngetlist, nsig;
static char mdir[] = "Maildir";
static char *argv_[3] = { "qmail-pop3d", 0, 0 };

void sym_inputs(void)
{
#ifdef REPLAY
#include "replay_inputs.inc"
#else
  SYM(uid); SYM(have_arg); SYM(chdir_fails);
#endif
}

uid_t vf_getuid(void) { return uid; }
int vf_chdir(const char *path)
{
  CHECK(uid != 0, "C19: root never reaches chdir");
  CHECK(path == mdir && nchdir == 0, "chdir to the maildir named on the command line, once");
  ++nchdir;
  return chdir_fails ? -1 : 0;
}
void getlist(void)
{
  CHECK(uid != 0, "C19: root never reaches the maildir scan");
  CHECK(nchdir == 1 && !chdir_fails && ngetlist == 0 && nout == 0, "maildir is scanned once, after a successful chdir, before the greeting");
  ++ngetlist;
  numm = 0;
}
void sig_alarmcatch(void (*f)()) { ++nsig; }
void sig_pipeignore(void) { ++nsig; }

int ideal_getc(substdio *s) { CHECK(s == &ssin && uid != 0 && ngetlist == 1, "commands are read only after start-up"); return -1; }
int ideal_putc(substdio *s, unsigned char c)
{
  if (s == &sserr) { ++nerr; return 0; }
  CHECK(s == &ssout, "descriptor 1 or 2 only");
  CHECK(uid != 0, "C19: nothing is sent to the client when invoked as root");
  if (nout < sizeof out0) out0[nout] = c;
  ++nout;
  return 0;
}
int ideal_flush(substdio *s) { if (s == &sserr) errflushed = nerr; else outflushed = nout; return 0; }

void vf__exit(int status)
{
  if (uid == 0) {
    CHECK(status == 1, "C19: invoked as root: exit 1");
    CHECK(nchdir == 0 && ngetlist == 0 && nout == 0, "C19: invoked as root: exit before anything else");
    CHECK(nerr > 0 && errflushed == nerr, "qmail-pop3d(8): the event is logged");
    WITNESS("root_refused");
  } else if (!have_arg || chdir_fails) {
    CHECK(ngetlist == 0 && nchdir == (have_arg ? 1 : 0), "no maildir: nothing scanned");
    CHECK(nout >= 5 && out0[0] == '-' && out0[1] == 'E' && out0[2] == 'R' && out0[3] == 'R' && outflushed == nout, "no maildir: -ERR");
    WITNESS("no_maildir");
  } else {
    CHECK(nchdir == 1 && ngetlist == 1, "normal start-up, then end of input");
    CHECK(nout >= 5 && out0[0] == '+' && out0[1] == 'O' && out0[2] == 'K' && outflushed == nout && nerr == 0, "greeting +OK after the scan");
    WITNESS("normal_startup");
  }
  PATH_END();
#ifdef VERIF_CBMC
  __CPROVER_assume(0);
#endif
}

void vmain(void)
{
  sym_inputs();
  ASSUME(have_arg <= 1 && chdir_fails <= 1);
  if (have_arg) argv_[1] = mdir;
  pop3d_main(have_arg ? 2 : 1, argv_);
  CHECK(0, "main does not return");
}
