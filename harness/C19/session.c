/* C19 - qmail-pop3d.c: a session of K commands over a 2-message table.
 * Encoded from /repo: qmail-pop3d.c (text before main) pop3_quit/stat/list/uidl/dele/top/
 * rset/last, okay, msgno, dolisting, list, printfn, blast, err*; scan_ulong.c, fmt_ulong.c,
 * fmt_uint.c, str_chr.c, str_start.c, stralloc units, substdio.c.  The handlers are
 * reached through the real pop3commands[] table, looked up by verb text (commands() itself
 * - line reading and verb matching - is the popup_* / C05 resume obligations' subject).
 * The message table m[]/numm is built here (getlist/maildir_scan: obligation getlist).
 *
 * The K commands continue an arbitrary session: the deletion marks at the start are
 * symbolic (every subset is reachable by DELEs), so K = 1 is the inductive step of the
 * session invariant "marks = model, table untouched, nothing removed before QUIT" and
 * covers sessions of any length; K = 2, 3 re-check command sequences directly.
 * Symbolic: verb of every step, 3 argument bytes of every step, for each message:
 * new/ or cur/, one character of its name, whether open/unlink fail; sizes concrete.
 *
 * Reference model (property C19, RFC 1939, qmail-pop3d(8)):
 *   numbers 1..2 name the same two files for the whole session;
 *   a message number argument is the leading decimal number of the argument; it is
 *     refused (-ERR, no state change) if there is none, if it is 0, if it is > 2 or if
 *     that message is marked deleted;
 *   DELE n marks; RSET unmarks all; LIST/UIDL [n] show size / unique id (file name after
 *     new/ or cur/ up to ':') of unmarked messages; RETR/TOP open file n;
 *   nothing is unlinked or renamed before QUIT; QUIT unlinks exactly the marked files,
 *     renames each unmarked new/X to cur/X:2, and leaves unmarked cur/ files alone.
 * Arguments where the documents are silent are excluded by ASSUME: digits followed by a
 * byte other than NUL or space ("1x"). STAT and LAST: only "+OK", no effect (the STAT
 * count is outside the property). */
#include "verif.h"
#include <stdio.h>
#define puts pop3d_puts        /* qmail-pop3d.c defines its own puts(); keep it off libc's */
#include "gen_qmail-pop3d.c"

#ifndef K
#define K 3
#endif
#define NM 2
#define AL 3
#define OUTMAX 64         /* <= 64: cbmc keeps such arrays field-sensitive; QUIT with one failing unlink: 45 + 6 */

enum { V_QUIT, V_STAT, V_LIST, V_UIDL, V_DELE, V_RETR, V_RSET, V_LAST, V_TOP, V_NOOP, NVERB };
static const char *const vname[NVERB] = { "quit", "stat", "list", "uidl", "dele", "retr", "rset", "last", "top", "noop" };

unsigned char verb[K];
unsigned char args[K * AL];
unsigned char isnew[NM];
unsigned char namec[NM];
unsigned char openfail[K];
unsigned char unlinkfail[NM];
unsigned char del0[NM];            /* marks at the start: the K commands continue an arbitrary session */
unsigned char last0;

static char fn[NM][12];
static struct message mtab[NM];
static char argbuf[K][AL + 1];

/* reference model state */
static int del[NM];
static int unlinked[NM], renamed[NM];
static int in_quit;
static unsigned int step;
static int cur_open_expected = -1;  /* message index RETR/TOP must open, -1: none */
static int nopen_step;

static unsigned char outb[OUTMAX]; static unsigned int outlen, flushed, last_line;   /* last_line: start of the last reply line */
static unsigned char expb[OUTMAX]; static unsigned int explen;

void sym_inputs(void)
{
#ifdef REPLAY
#include "replay_inputs.inc"
#else
  SYM_ARR(del0); SYM(last0);
  SYM_ARR(verb); SYM_ARR(isnew); SYM_ARR(namec); SYM_ARR(openfail); SYM_ARR(unlinkfail);
  SYM_ARR(args);
#endif
}

/* case split (DESIGN 3): the verbs fall into five classes; -DC0=a -DC1=b ... restricts the
 * verb of step 0, 1, ... to one class (undefined: any verb).  The plan issues one query
 * per combination, so together the queries cover every verb sequence; inside a query the
 * verbs of a class, all arguments and the whole environment stay symbolic.
 *   0: STAT LAST NOOP RSET DELE   1: LIST   2: UIDL   3: RETR TOP   4: QUIT */
#ifndef C0
#define C0 -1
#endif
#ifndef C1
#define C1 -1
#endif
#ifndef C2
#define C2 -1
#endif
#ifndef C3
#define C3 -1
#endif
static const int cls_of_step[4] = { C0, C1, C2, C3 };
#define CLASS_V_STAT 0
#define CLASS_V_LAST 0
#define CLASS_V_NOOP 0
#define CLASS_V_RSET 0
#define CLASS_V_DELE 0
#define CLASS_V_LIST 1
#define CLASS_V_UIDL 2
#define CLASS_V_RETR 3
#define CLASS_V_TOP 3
#define CLASS_V_QUIT 4
#define WANT(x) (cls_of_step[step < 4 ? step : 3] < 0 || cls_of_step[step < 4 ? step : 3] == CLASS_##x)
#define LASTSTEP (step == K - 1)

/* ---- small string helpers (bounded) */
static int streq(const char *a, const char *b)
{
  unsigned int i;
  for (i = 0; i < 16; ++i) { if (a[i] != b[i]) return 0; if (!a[i]) return 1; }
  return 0;
}
static void e(unsigned char c) { if (explen < OUTMAX) expb[explen] = c; ++explen; }
static void es(const char *s) { unsigned int i; for (i = 0; i < 16; ++i) { if (!s[i]) break; e((unsigned char) s[i]); } }

/* sizes are concrete per query (SZ0, SZ1: grid), no 64-bit division on symbolic values */
#ifndef SZ0
#define SZ0 7
#endif
#ifndef SZ1
#define SZ1 120
#endif
static void e_size(int i)          /* decimal, no leading zeros */
{
  unsigned long v = i ? SZ1 : SZ0, p = 1;
  unsigned int k;
  for (k = 0; k < 20; ++k) { if (v / p < 10) break; p *= 10; }
  for (k = 0; k < 20; ++k) { e((unsigned char) ('0' + (v / p) % 10)); if (p == 1) break; p /= 10; }
}
static void e_uid(int i) { e(namec[i]); e('a' + i); }   /* file name after the directory, up to ':' */
static void e_entry(int i, int uidl) { e('1' + i); e(' '); if (uidl) e_uid(i); else e_size(i); e('\r'); e('\n'); }

/* ---- environment */
int open_read(char *path)
{
  CHECK(cur_open_expected >= 0 && nopen_step == 0, "C19: a file is opened only by RETR/TOP of a valid, unmarked message, once");
  if (cur_open_expected >= 0) CHECK(path == mtab[cur_open_expected].fn && streq(path, fn[cur_open_expected]),
                                    "C19: RETR/TOP n opens the file that has been number n since start-up");
  ++nopen_step;
  return openfail[step < K ? step : 0] ? -1 : 5;
}
int vf_close(int fd) { return 0; }

int vf_unlink(const char *path)
{
  int i, hit = -1;
  CHECK(in_quit, "C19: nothing is removed before QUIT");
  for (i = 0; i < NM; ++i) if (streq(path, fn[i])) hit = i;
  CHECK(hit >= 0, "C19: only files of the message list are removed");
  if (hit >= 0) {
    CHECK(del[hit], "C19: only messages marked with DELE are removed");
    CHECK(!unlinked[hit] && !renamed[hit], "each marked message is removed once");
    unlinked[hit] = 1;
    if (unlinkfail[hit]) return -1;
  }
  return 0;
}

int vf_rename(const char *from, const char *to)
{
  int i, hit = -1;
  char want[16];
  CHECK(in_quit, "C19: nothing is renamed before QUIT");
  for (i = 0; i < NM; ++i) if (streq(from, fn[i])) hit = i;
  CHECK(hit >= 0, "C19: only files of the message list are renamed");
  if (hit >= 0) {
    CHECK(!del[hit] && isnew[hit] && !renamed[hit] && !unlinked[hit], "C19: only unmarked messages in new/ are moved, once");
    want[0] = 'c'; want[1] = 'u'; want[2] = 'r'; want[3] = '/'; want[4] = (char) namec[hit]; want[5] = (char) ('a' + hit);
    want[6] = ':'; want[7] = '2'; want[8] = ','; want[9] = 0;
    CHECK(streq(to, want), "C19: new/X is renamed to cur/X:2,");
    renamed[hit] = 1;
  }
  return 0;
}

int ideal_getc(substdio *s)
{
  CHECK(s == &ssmsg, "only the opened message is read by the handlers");
  return -1;                                   /* messages are empty files here (content: obligation retr_top) */
}
int ideal_putc(substdio *s, unsigned char c)
{
  CHECK(s == &ssout, "everything goes to the network stream");
  CHECK(outlen < OUTMAX, "reply fits (harness sizing)");
  ASSUME(outlen < OUTMAX);
  if (outlen == 0 || outb[outlen - 1] == '\n') last_line = outlen;
  outb[outlen++] = c;
  return 0;
}
int ideal_flush(substdio *s) { if (s == &ssout) flushed = outlen; return 0; }

static int reply_ok(void) { return outlen >= 5 && outb[0] == '+' && outb[1] == 'O' && outb[2] == 'K' && flushed == outlen; }
static int reply_err(void)
{ return outlen >= 7 && outb[0] == '-' && outb[1] == 'E' && outb[2] == 'R' && outb[3] == 'R' && outb[4] == ' '
         && outb[outlen - 2] == '\r' && outb[outlen - 1] == '\n' && flushed == outlen; }
/* the reply after its first line equals expb[0..explen) */
static int rest_matches(void)
{
  unsigned int i, start = 0, k;
  for (i = 0; i + 1 < OUTMAX; ++i) { if (i + 1 >= outlen) break; if (outb[i] == '\r' && outb[i + 1] == '\n') { start = i + 2; break; } }
  if (!start) return 0;
  if (outlen - start != explen) return 0;
  for (k = 0; k < OUTMAX; ++k) { if (k >= explen) break; if (outb[start + k] != expb[k]) return 0; }
  return 1;
}
static int whole_matches(void)
{
  unsigned int k;
  if (outlen != explen) return 0;
  for (k = 0; k < OUTMAX; ++k) { if (k >= explen) break; if (outb[k] != expb[k]) return 0; }
  return 1;
}

void vf__exit(int status)
{
  int i;
  CHECK(in_quit, "C19: the session ends only at QUIT");
  for (i = 0; i < NM; ++i) {
    CHECK(unlinked[i] == del[i], "C19: QUIT removes exactly the messages marked with DELE");
    CHECK(renamed[i] == (!del[i] && isnew[i]), "C19: QUIT moves exactly the unmarked new/ messages to cur/");
  }
  /* reply: its last line starts with +OK - unless an unlink failed (RFC 1939 lets QUIT answer -ERR then; not compared) */
  if (!(del[0] && unlinkfail[0]) && !(del[1] && unlinkfail[1]))
    CHECK(outlen >= 5 && last_line + 2 < outlen && outb[last_line] == '+' && outb[last_line + 1] == 'O' && outb[last_line + 2] == 'K'
          && flushed == outlen, "QUIT is answered +OK");
  if (LASTSTEP && del[0] && !del[1] && isnew[1]) WITNESS("quit_unlinks_1_renames_2");
  if (LASTSTEP && del[0] && del[1]) WITNESS("quit_unlinks_both");
  if (K >= 3 && !del0[0] && !del0[1] && !del[0] && !del[1] && step == K - 1 && verb[0] == V_DELE && verb[K - 2] == V_RSET) WITNESS("dele_rset_quit_keeps_all");
  if (LASTSTEP) WITNESS("quit");
  PATH_END();
#ifdef VERIF_CBMC
  __CPROVER_assume(0);
#endif
}

/* ---- reference argument parser: -1 no number, else the value (<= 999) */
static int ref_number(const char *a)
{
  int v = 0; unsigned int i;
  if (a[0] < '0' || a[0] > '9') return -1;
  for (i = 0; i < AL; ++i) { if (a[i] < '0' || a[i] > '9') break; v = v * 10 + (a[i] - '0'); }
  return v;
}
static int arg_in_scope(const char *a)
{
  unsigned int i;
  if (a[0] < '0' || a[0] > '9') return 1;                /* non-numeric (or empty) */
  for (i = 0; i < AL; ++i) if (a[i] < '0' || a[i] > '9') return a[i] == 0 || a[i] == ' ';
  return 1;
}

static void dispatch(const char *name, char *arg)
{
  unsigned int i;
  for (i = 0; i < 16; ++i) {
    if (!pop3commands[i].text) break;
    if (streq(pop3commands[i].text, name)) { pop3commands[i].fun(arg); return; }
  }
  CHECK(0, "verb is in the table");
}

static void one_step(void)
{
  unsigned int v = verb[step];
  char *arg = argbuf[step];
  int n = ref_number(arg);
  int valid = n >= 1 && n <= NM && !del[n - 1];
  int i;
  int before[NM];
  for (i = 0; i < NM; ++i) before[i] = del[i];
  outlen = 0; flushed = 0; explen = 0; nopen_step = 0; cur_open_expected = -1;

  if (WANT(V_QUIT) && v == V_QUIT) { in_quit = 1; dispatch("quit", arg); CHECK(0, "QUIT does not return"); return; }
  if (WANT(V_STAT) && v == V_STAT) { dispatch("stat", arg); CHECK(reply_ok(), "STAT is answered +OK"); }
  else if (WANT(V_LAST) && v == V_LAST) { dispatch("last", arg); CHECK(reply_ok(), "LAST is answered +OK"); }
  else if (WANT(V_NOOP) && v == V_NOOP) { dispatch("noop", arg); CHECK(reply_ok(), "NOOP is answered +OK"); }
  else if (WANT(V_RSET) && v == V_RSET) {
    dispatch("rset", arg);
    CHECK(reply_ok(), "RSET is answered +OK");
    for (i = 0; i < NM; ++i) del[i] = 0;
  }
  else if (WANT(V_DELE) && v == V_DELE) {
    dispatch("dele", arg);
    if (valid) { CHECK(reply_ok(), "C19: DELE of a valid message is answered +OK"); del[n - 1] = 1; }
    else CHECK(reply_err(), "C19: zero, out-of-range, non-numeric or already-deleted number is refused");
  }
  else if ((WANT(V_LIST) && v == V_LIST) || (WANT(V_UIDL) && v == V_UIDL)) {
    int uidl;
    if (!WANT(V_LIST)) uidl = 1; else if (!WANT(V_UIDL)) uidl = 0; else uidl = (v == V_UIDL);
    if (uidl) dispatch("uidl", arg); else dispatch("list", arg);
    if (!*arg) {
      for (i = 0; i < NM; ++i) if (!del[i]) e_entry(i, uidl);
      e('.'); e('\r'); e('\n');
      CHECK(reply_ok() && rest_matches(), "C19: LIST/UIDL shows number and size / unique id of exactly the unmarked messages");
      if (LASTSTEP && del[0] && !del[1]) WITNESS("listing_skips_deleted");
    } else if (valid) {
      es("+OK "); e_entry(n - 1, uidl);
      CHECK(whole_matches() && flushed == outlen, "C19: LIST/UIDL n shows size / unique id of message n");
    } else CHECK(reply_err(), "C19: LIST/UIDL with a bad number is refused");
  }
  else if ((WANT(V_RETR) && v == V_RETR) || (WANT(V_TOP) && v == V_TOP)) {
    if (valid) cur_open_expected = n - 1;
    if (!WANT(V_TOP)) dispatch("retr", arg); else if (!WANT(V_RETR)) dispatch("top", arg);
    else if (v == V_RETR) dispatch("retr", arg); else dispatch("top", arg);
    if (valid && !openfail[step]) {
      CHECK(nopen_step == 1, "RETR/TOP opens the message");
      es("\r\n.\r\n");
      CHECK(reply_ok() && rest_matches(), "C19: RETR/TOP of an empty message: +OK, blank line, dot line");
    } else {
      CHECK(reply_err(), "C19: RETR/TOP with a bad number (or a vanished file) is refused");
      CHECK(nopen_step == (valid ? 1 : 0), "a refused number opens nothing");
      if (LASTSTEP && valid) WITNESS("retr_file_vanished");
    }
  }
  else { PATH_END(); }     /* verb outside this query's case */
  /* state after the command: marks as in the model, table untouched */
  for (i = 0; i < NM; ++i) {
    CHECK((m[i].flagdeleted != 0) == del[i], "C19: deletion marks = DELE'd and not RSET (refused commands change nothing)");
    CHECK(m[i].fn == fn[i], "C19: numbering is fixed for the session");
  }
  CHECK(m == mtab && numm == NM, "message table untouched");
  if (LASTSTEP && v == V_DELE && !valid && n >= 1 && n <= NM) WITNESS("dele_twice_refused");
  if (LASTSTEP && v == V_DELE && n > NM) WITNESS("dele_out_of_range_refused");
  if (LASTSTEP && v == V_DELE && n == 0) WITNESS("dele_zero_refused");
  if (LASTSTEP && v == V_RSET && before[0] && before[1]) WITNESS("rset_unmarks_both");
}

void vmain(void)
{
  unsigned int i, k;
  sym_inputs();
  for (i = 0; i < NM; ++i) {
    unsigned int p = 0;
    ASSUME(isnew[i] <= 1 && unlinkfail[i] <= 1);
    ASSUME(namec[i] != 0 && namec[i] != ':' && namec[i] != '/');
    fn[i][p++] = isnew[i] ? 'n' : 'c'; fn[i][p++] = isnew[i] ? 'e' : 'u'; fn[i][p++] = isnew[i] ? 'w' : 'r'; fn[i][p++] = '/';
    fn[i][p++] = (char) namec[i]; fn[i][p++] = (char) ('a' + i);
    if (!isnew[i]) { fn[i][p++] = ':'; fn[i][p++] = '2'; fn[i][p++] = ','; fn[i][p++] = 'S'; }
    fn[i][p] = 0;
    ASSUME(del0[i] <= 1);
    mtab[i].fn = fn[i]; mtab[i].flagdeleted = del0[i]; del[i] = del0[i];
    mtab[i].size = i ? SZ1 : SZ0;
  }
  ASSUME(!(unlinkfail[0] && unlinkfail[1]));      /* at most one failing unlink (reply buffer sizing) */
  m = mtab; numm = NM;
  /* take line's arena slot now: a slot taken on only some paths makes the slot index symbolic
   * and every later access through the stralloc a 24-way case split */
  stralloc_ready(&line, 1);
  ASSUME(last0 <= NM); last = last0;
  for (k = 0; k < K; ++k) {
    ASSUME(verb[k] < NVERB && openfail[k] <= 1);
    for (i = 0; i < AL; ++i) argbuf[k][i] = (char) args[k * AL + i];
    argbuf[k][AL] = 0;
    ASSUME(arg_in_scope(argbuf[k]));
  }
  for (step = 0; step < K; ++step) one_step();
  /* session still open after K commands: nothing was removed or renamed (checked in the stubs) */
  if (del[0] && del[1]) WITNESS("both_marked_no_quit");
  WITNESS("session_open");
}
