/* C19 - qmail-pop3d.c getlist() + maildir.c maildir_scan/append/maildir_clean + prioq.c:
 * the message table built at start-up shows the maildir faithfully.
 * Encoded from /repo: qmail-pop3d.c getlist; maildir.c maildir_clean, maildir_scan, append;
 * prioq.c prioq_insert/min/delmin; stralloc units (stralloc_ready* = arena).
 * Environment model: tmp/ with one file (symbolic access time), new/ with NN entries, cur/
 * with NC entries (NN, NC concrete per query); for every entry: 2 symbolic name bytes (the
 * name may start with '.', may be one byte long), symbolic mtime around "now", symbolic
 * size, stat may fail.  pq is pre-sized (growth arithmetic: C20 lemma, DESIGN 2.3).
 *
 * Reference (property C19, maildir(5), qmail-pop3d(8)): every file in new/ and cur/ whose
 * name does not start with '.' (maildir(5): such names are not messages), that can be
 * stat'ed and that was delivered before the session started is listed; each listed entry
 * is such a file, appears once, under its path, with its size, unmarked; entries are
 * numbered by increasing mtime (order among equal mtimes is outside the property).
 * Judgement: a file whose mtime is not before the start of the session (delivered in the
 * very second of start-up, or clock skew) is left out by the code ("don't want to mix up
 * the order"); the documents are silent, so it may be listed or not.
 * Nothing is removed except files in tmp/ not accessed for 36 hours (maildir(5)). */
#include "verif.h"
#include <stdio.h>
#include <errno.h>
#include <dirent.h>
#include <time.h>
#include <stdlib.h>
#include <sys/types.h>
#include <sys/stat.h>
#define puts pop3d_puts        /* qmail-pop3d.c defines its own puts(); keep it off libc's */
#include "gen_qmail-pop3d.c"

#ifndef NN
#define NN 1
#endif
#ifndef NC
#define NC 1
#endif
#define E (NN + NC)
#define NOW 1000000
#define IS_NEW(e) ((e) < NN)

unsigned char name[2 * E];          /* entry e: name[2e], name[2e+1] (0 = one-byte name) */
unsigned char mt[E];                /* mtime = NOW - 3 + mt[e], mt <= 5 */
unsigned char sz[E];                /* size */
unsigned char statfail[E];
unsigned int tmp_age;               /* seconds since tmp/t was last accessed */

static struct dirent de_[E + 1];
static int dirobj[3];               /* 0 tmp, 1 new, 2 cur */
static int dpos[3], dopen[3];
static struct message mspace[4];
static struct prioq_elt pqspace[8];
static int ncalloc, nunlink;
static char path_[E][8];            /* reference path of entry e */

void sym_inputs(void)
{
#ifdef REPLAY
#include "replay_inputs.inc"
#else
  SYM_ARR(name); SYM_ARR(mt); SYM_ARR(sz); SYM_ARR(statfail); SYM(tmp_age);
#endif
}

static int streq(const char *a, const char *b)
{
  unsigned int i;
  for (i = 0; i < 8; ++i) { if (a[i] != b[i]) return 0; if (!a[i]) return 1; }
  return 0;
}

/* ---- environment */
time_t vf_time(time_t *t) { return NOW; }

DIR *vf_opendir(const char *d)
{
  int k = streq(d, "tmp") ? 0 : streq(d, "new") ? 1 : streq(d, "cur") ? 2 : -1;
  CHECK(k >= 0, "only tmp, new and cur are scanned");
  if (k < 0) return 0;
  CHECK(!dopen[k], "directory opened once at a time");
  dopen[k] = 1; dpos[k] = 0;
  return (DIR *) &dirobj[k];
}

struct dirent *vf_readdir(DIR *d)
{
  int k = (int) ((int *) d - dirobj);
  int first, count, e;
  CHECK(k >= 0 && k < 3 && dopen[k], "readdir on an open directory");
  if (k == 0) { if (dpos[0]++) return 0; de_[E].d_name[0] = 't'; de_[E].d_name[1] = 0; return &de_[E]; }
  first = (k == 1) ? 0 : NN; count = (k == 1) ? NN : NC;
  if (dpos[k] >= count) return 0;
  e = first + dpos[k]++;
  de_[e].d_name[0] = (char) name[2 * e]; de_[e].d_name[1] = (char) name[2 * e + 1]; de_[e].d_name[2] = 0;
  return &de_[e];
}

int vf_closedir(DIR *d)
{
  int k = (int) ((int *) d - dirobj);
  CHECK(k >= 0 && k < 3 && dopen[k], "closedir on an open directory");
  dopen[k] = 0;
  return 0;
}

int vf_stat(const char *p, struct stat *st)
{
  int e;
  if (streq(p, "tmp/t")) { st->st_atime = NOW - (time_t) tmp_age; st->st_mtime = st->st_atime; st->st_size = 1; return 0; }
  for (e = 0; e < E; ++e)
    if (streq(p, path_[e])) {
      if (statfail[e]) { errno = ENOENT; return -1; }
      st->st_mtime = NOW - 3 + mt[e]; st->st_atime = st->st_mtime; st->st_size = sz[e];
      return 0;
    }
  CHECK(0, "stat only on files that were listed");
  return -1;
}

int vf_unlink(const char *p)
{
  CHECK(streq(p, "tmp/t"), "C19: start-up removes nothing from new/ or cur/");
  CHECK(tmp_age > 129600, "maildir(5): only tmp files not accessed for 36 hours are removed");
  ++nunlink;
  return 0;
}

void *vf_calloc(size_t n, size_t s)
{
  unsigned int i;
  CHECK(n <= 4 && s == sizeof(struct message) && ncalloc == 0, "one table of at most 4 messages (harness sizing)");
  ++ncalloc;
  for (i = 0; i < 4; ++i) { mspace[i].fn = 0; mspace[i].size = 0; mspace[i].flagdeleted = 0; }
  return mspace;
}

void *vf_realloc(void *p, size_t n) { CHECK(0, "prioq growth is not needed inside the bound (pre-sized, DESIGN 2.3)"); return 0; }

int ideal_getc(substdio *s) { return -1; }
int ideal_putc(substdio *s, unsigned char c) { CHECK(0, "a successful scan prints nothing"); return 0; }
int ideal_flush(substdio *s) { return 0; }
void vf__exit(int status)
{
  CHECK(0, "a readable maildir never ends the session");
  PATH_END();
#ifdef VERIF_CBMC
  __CPROVER_assume(0);
#endif
}

static int may_list(int e) { return name[2 * e] != '.' && !statfail[e]; }
static int must_list(int e) { return may_list(e) && mt[e] < 3; }                             /* mtime < now */

void vmain(void)
{
  unsigned int e, i, expected = 0;
  int used[E + 1];
  sym_inputs();
  for (e = 0; e < E; ++e) {
    const char *d = IS_NEW(e) ? "new/" : "cur/";
    ASSUME(name[2 * e] != 0 && name[2 * e] != '/' && name[2 * e + 1] != '/');
    ASSUME(mt[e] <= 5 && statfail[e] <= 1);
    path_[e][0] = d[0]; path_[e][1] = d[1]; path_[e][2] = d[2]; path_[e][3] = '/';
    path_[e][4] = (char) name[2 * e]; path_[e][5] = (char) name[2 * e + 1]; path_[e][6] = 0;
    used[e] = 0;
  }
  /* names are unique inside a directory */
  for (e = 0; e < E; ++e) for (i = 0; i < E; ++i)
    if (i < e && IS_NEW(i) == IS_NEW(e)) ASSUME(!(name[2 * e] == name[2 * i] && name[2 * e + 1] == name[2 * i + 1]));
  ASSUME(tmp_age <= 400000);
  /* pre-sized heap; arena slots taken in a fixed order */
  pq.p = pqspace; pq.a = 8; pq.len = 0;
  stralloc_ready(&filenames, 1); stralloc_ready(&line, 1);

  getlist();

  CHECK(ncalloc == 1 && m == mspace, "table allocated");
  CHECK(numm <= E, "not more messages than files");
  CHECK(!dopen[0] && !dopen[1] && !dopen[2], "directories closed again");
  /* whether a stale tmp/ file is cleaned up is not C19's; vf_unlink checks that nothing else is ever removed */
  for (i = 0; i < 4; ++i) {
    int hit = -1;
    if (i >= numm || i >= E) break;
    CHECK(m[i].fn != 0, "entry has a file name");
    if (!m[i].fn) break;
    for (e = 0; e < E; ++e) if (streq(m[i].fn, path_[e])) hit = (int) e;
    CHECK(hit >= 0 && may_list(hit) && !used[hit], "C19: every number names one message file (no dot file, no vanished file), no file twice");
    if (hit < 0) break;
    used[hit] = 1;
    CHECK(m[i].size == sz[hit], "C19: listed size corresponds to the file");
    CHECK(m[i].flagdeleted == 0, "no message starts marked");
    if (i > 0) {
      int prev = -1;
      for (e = 0; e < E; ++e) if (m[i - 1].fn && streq(m[i - 1].fn, path_[e])) prev = (int) e;
      if (prev >= 0) CHECK(mt[prev] <= mt[hit], "C19: messages are numbered by increasing delivery time");
    }
  }
  for (e = 0; e < E; ++e) if (must_list(e)) { ++expected; CHECK(used[e], "C19: every message present at start-up is listed"); }
  if (numm == E && E >= 2 && mt[0] > mt[E - 1]) WITNESS("reordered_by_mtime");
  if (numm == E) WITNESS("all_listed");
  if (E >= 1 && numm == E - 1 && name[0] == '.') WITNESS("dot_file_skipped");
  if (E >= 1 && numm == E - 1 && name[0] != '.' && !statfail[0] && expected == numm) WITNESS("future_file_skipped");
  if (nunlink) WITNESS("stale_tmp_removed");
}
