/* C16 - no lost wake-up, no busy loop: the REAL qmail-send.c main() loop, todo_init,
 * todo_selprep, todo_do (up to the point where readdir hands it an entry) and the real
 * trigger.c, against an environment automaton for one or two injectors whose step
 * sequence (link todo; open trigger O_WRONLY|O_NDELAY; write 1 byte; close) is what the
 * C01 harness proves about qmail-queue (C01 viol 5, and the call shapes in its stubs).
 *
 * Every stub the daemon calls first lets each injector advance by a symbolic number of
 * steps: that enumerates, symbolically, every interleaving at system-call granularity.
 *
 * MODE 0 (lost wake-up): the clock stands still, so after the start-up scan the periodic
 *   rescan never fires.  At every select() that would block: once the injectors that have
 *   already published (linked) an entry finish their remaining steps, either the trigger
 *   descriptor the daemon selects on is readable or readdir has already handed every
 *   published entry to todo_do.
 * MODE 1 (timeout): symbolic non-decreasing clock and symbolic wake-up times from the
 *   other subsystems (pass/cleanup cut to contracts): tv_sec is 0 only while work is
 *   pending, positive otherwise, and never later than earliest-due - now + SLEEP_FUZZ.
 *
 * Other subsystems of main() (comm_*, del_*, pass_*, cleanup_*, pq*, getcontrols) are cut:
 * they do not touch the trigger or todo/.
 */
#include "verif.h"
#include <errno.h>
#include <sys/types.h>
#include <sys/stat.h>
#include <sys/select.h>
#include <dirent.h>
#include <fcntl.h>
#include <string.h>
#include "gen_qmail-send.c"

#ifndef MODE
#define MODE 0
#endif
#ifndef K
#define K 4              /* select() calls explored */
#endif
#ifndef NINJ
#define NINJ 1           /* injectors */
#endif
#define TAPE 64
#define T0 1000000

unsigned char tape[TAPE];
long clk[K + 4];          /* MODE 1: clock increments */
long wpass[K + 1];        /* MODE 1: earliest due time reported by pass_selprep, relative */
long wclean[K + 1];
long slp[K + 1];          /* MODE 1: seconds that really pass while the daemon sits in the k-th select() (clamped to 0..timeout) */
unsigned char spawnbyte[2];   /* MODE 2: concurrency limit announced by each spawner */
unsigned int cfg[2];          /* MODE 2: configured concurrency (control files) */
int lock_fails;               /* MODE 2: another qmail-send holds lock/sendmutex */
int read_result[2];           /* MODE 2: 1 byte read, 0 EOF, -1 error */
int in_exitasap;              /* MODE 1: TERM received, a delivery still outstanding (shutdown drain) */
/* MODE 3 (signals are never lost; C10 "after a HUP newly listed domains apply", C15 "an ALRM makes everything due at once"):
 * a HUP / ALRM may arrive while the daemon sleeps in select() (which then fails with EINTR) and while reread() resp. pqrun()
 * is running (the REAL handlers sighup()/sigalrm() run).  Every such signal must be followed by a reread() / pqrun() that
 * STARTS after it arrived, at the latest after one more select() (a signal that arrives just before select() waits for that
 * select() to return - a delay the original design accepts; it must not be forgotten). */
unsigned char sig_in_select[K + 1], sig_in_reread[K + 1], sig_in_pqrun[K + 1];

void sym_inputs(void)
{
#ifdef REPLAY
#include "replay_inputs.inc"
#else
  SYM_ARR(tape); SYM_ARR(clk); SYM_ARR(wpass); SYM_ARR(wclean); SYM_ARR(slp); SYM_ARR(spawnbyte); SYM_ARR(cfg); SYM(lock_fails); SYM_ARR(read_result); SYM(in_exitasap);
  SYM_ARR(sig_in_select); SYM_ARR(sig_in_reread); SYM_ARR(sig_in_pqrun);
#endif
}

static int hup_seen;
static unsigned int tp;
static unsigned char draw(void) { return tp < TAPE ? tape[tp++] : 0; }

/* ---------------- FIFO lock/trigger and todo/ directory */
static int rd_open;            /* daemon's read descriptors currently open on the FIFO */
static int cur_rfd = -1;       /* the daemon's newest read descriptor */
static int next_fd = 10;
static int wr_open;            /* injectors' write descriptors open */
static int data;               /* unread byte(s) in the FIFO */
static void fifo_last_close(void) { if (!rd_open && !wr_open) data = 0; }

/* injector automaton: 0 idle, 1 linked, 2 trigger opened, 3 written, 4 done */
static int inj[NINJ];
static int linked[NINJ];       /* todo/<i> exists */
static int seen[NINJ];         /* readdir has returned it to todo_do */
static int in_snapshot[NINJ];  /* visible to the directory stream currently open */
static int returned[NINJ];     /* already returned by the current stream */
static int dir_open;

static int scans_after_quiet;  /* scans started since every injector was idle or finished */

static void inj_step(int i)
{
  switch (inj[i]) {
    case 0: linked[i] = 1; inj[i] = 1; scans_after_quiet = 0;
            /* an entry created while a directory stream is open may or may not be seen by it */
            if (dir_open && (draw() & 1)) in_snapshot[i] = 1;
            break;
    case 1: if (rd_open) { ++wr_open; inj[i] = 2; } else inj[i] = 4;   /* ENXIO without a reader */
            break;
    case 2: if (rd_open) data = 1; inj[i] = 3; break;                  /* EPIPE (ignored) without one */
    case 3: --wr_open; fifo_last_close(); inj[i] = 4; break;
    default: break;
  }
}

static void env_step(void)          /* called at the entry of every daemon system call */
{
  int i, k;
  for (i = 0; i < NINJ; ++i) {
    unsigned char n = draw() & 7;
    for (k = 0; k < 4; ++k) if (k < n) inj_step(i);
  }
}

static void finish_published(void)  /* injectors that have linked run to completion */
{
  int i, k;
  for (i = 0; i < NINJ; ++i)
    if (inj[i] >= 1)
      for (k = 0; k < 3; ++k) if (inj[i] < 4) inj_step(i);
}

/* ---------------- clock */
static unsigned int nclk;
static long now_val = T0;
time_t vf_time(time_t *t)
{
#if MODE == 1
  if (nclk < K + 4) now_val += clk[nclk];
  ++nclk;
#endif
  return now_val;
}

static unsigned int nselect;
static int blocked_once, woke_after_block;
static int hup_unserved, hup_selects, alrm_unserved, alrm_selects;

/* ---------------- daemon system calls */
static struct dirent dent_;
static DIR *const the_dir = (DIR *) &dent_;   /* opaque non-null handle */

int vf_open(const char *path, int flags, ...)
{
  env_step();
  if (path == fn.s) { errno = ENOENT; return -1; }     /* todo/<n>: processing is cut here (C02/C03/C10 cover it) */
  if (path[0] == 'l' && path[5] == 't') {                /* lock/trigger */
    CHECK((flags & O_NDELAY) != 0 && (flags & O_ACCMODE) == O_RDONLY, "daemon opens the trigger read-only, non-blocking");
    ++rd_open; cur_rfd = next_fd++;
    return cur_rfd;
  }
  if (path[0] == 'l') return 3;                         /* lock/sendmutex */
  CHECK(0, "unexpected open() in this harness");
  return -1;
}

int vf_close(int fd)
{
  env_step();
  /* C02: lock/sendmutex (descriptor 3 in this model) is what keeps a second daemon out; it
   * must stay open - and thereby locked - as long as this daemon runs, also while it is
   * only draining its last deliveries after TERM */
  CHECK(fd != 3, "C02: the daemon never gives up lock/sendmutex while it is running");
  if (fd >= 10) { --rd_open; if (fd == cur_rfd) cur_rfd = -1; fifo_last_close(); }
  return 0;
}

DIR *vf_opendir(const char *name)
{
  int i;
  env_step();
  CHECK(name[0] == 't', "only todo/ is scanned in this harness");
  dir_open = 1;
#if MODE == 0
  {
    /* no busy loop: once no injector is in flight, a pending trigger byte may cause one
     * more scan (plus the one that may be in progress), then the daemon has to sleep */
    int quiet = 1;
    for (i = 0; i < NINJ; ++i) if (inj[i] != 0 && inj[i] != 4) quiet = 0;
    if (quiet) {
      ++scans_after_quiet;
      CHECK(scans_after_quiet <= 2, "C16: BUSY LOOP - the daemon keeps rescanning todo/ although nothing new was signalled");
    }
  }
#endif
  for (i = 0; i < NINJ; ++i) { in_snapshot[i] = linked[i]; returned[i] = 0; }
  return the_dir;
}

struct dirent *vf_readdir(DIR *d)
{
  int i;
  env_step();
  for (i = 0; i < NINJ; ++i)
    if (in_snapshot[i] && !returned[i]) {
      returned[i] = 1; seen[i] = 1;
      if (woke_after_block && inj[i] == 4) WITNESS("entry_seen_after_wakeup");
      if (!blocked_once) WITNESS("entry_seen_by_startup_scan");
      return &dent_;
    }
  return 0;
}

int vf_closedir(DIR *d) { env_step(); dir_open = 0; return 0; }
int vf_chdir(const char *p) { return 0; }
mode_t vf_umask(mode_t m) { return 0; }
static int mutating_calls;      /* MODE 2: anything that could touch the queue */
#if MODE == 2
int lock_exnb(int fd) { CHECK(fd == 3, "locks lock/sendmutex"); if (lock_fails) { errno = EWOULDBLOCK; return -1; } return 0; }
ssize_t vf_read(int fd, void *buf, size_t n)
{
  int c = (fd == chanfdin[0]) ? 0 : 1;
  CHECK(fd == chanfdin[0] || fd == chanfdin[1], "start-up reads the spawners' announcements");
  CHECK(!lock_fails, "C02: a second daemon reads nothing from the spawners");
  if (read_result[c] < 1) { errno = EIO; return read_result[c]; }
  *(char *) buf = (char) spawnbyte[c];
  return 1;
}
#else
int lock_exnb(int fd) { return 0; }
ssize_t vf_read(int fd, void *buf, size_t n) { *(char *) buf = 2; return 1; }   /* spawner announces concurrency 2 */
#endif
int vf_stat(const char *p, struct stat *st) { errno = ENOENT; return -1; }


int vf_select(int nfds, fd_set *rfds, fd_set *wfds, fd_set *efds, struct timeval *tv)
{
  int i, readable, sel_trigger;
  env_step();
  ++nselect;
#if MODE == 2
  {
    int c; unsigned int sum = 0;
    CHECK(!lock_fails, "C02: a second daemon never reaches its main loop");
    for (c = 0; c < 2; ++c) {
      unsigned int want = cfg[c] < spawnbyte[c] ? cfg[c] : spawnbyte[c];
      CHECK(concurrency[c] == want, "C04: concurrency = min(configured, limit announced by the spawner)");
      sum += want;
    }
    CHECK((unsigned int) numjobs == sum, "job table sized for the clamped concurrency");
    WITNESS("started_with_clamped_concurrency");
    PATH_END();
  }
#endif
#if MODE == 3
  {
    unsigned char sg = sig_in_select[nselect <= K ? nselect : 0];
    if (hup_unserved) { CHECK(hup_selects == 0, "C10: a HUP is never forgotten - reread() starts after it, at the latest after one more select()"); ++hup_selects; }
    if (alrm_unserved) { CHECK(alrm_selects == 0, "C15: an ALRM is never forgotten - pqrun() starts after it, at the latest after one more select()"); ++alrm_selects; }
    if (nselect > K) { WITNESS("signals_bound_reached"); PATH_END(); }
    if (sg & 1) { sighup(); if (!hup_unserved) { hup_unserved = 1; hup_selects = 0; } }
    if (sg & 2) { sigalrm(); if (!alrm_unserved) { alrm_unserved = 1; alrm_selects = 0; } }
    FD_ZERO(rfds);
    if (sg & 3) { errno = EINTR; return -1; }
    return 0;
  }
#endif
  if (nselect > K) { PATH_END(); }
  sel_trigger = (cur_rfd >= 0 && cur_rfd < nfds && FD_ISSET(cur_rfd, rfds));
#if MODE == 0
  CHECK(tv != 0 && tv->tv_sec >= 0, "select always has a timeout");
  if (nselect <= K && sig_in_select[nselect] & 1) {
    /* a HUP arrives while the daemon is in select(): the real handler runs, select() fails with EINTR, the sets are not
     * to be looked at.  Injectors go on meanwhile (env_step above and in every later call). */
    sighup();
    hup_seen = 1;
    errno = EINTR;
    return -1;
  }
  readable = sel_trigger && data;
  if (!readable && tv->tv_sec > 0) {
    /* the daemon goes to sleep.  Injectors that already published finish their steps
     * while it sleeps; nobody else will ever wake it (clock stands still). */
    blocked_once = 1;
    env_step();
    finish_published();
    readable = sel_trigger && data;
    for (i = 0; i < NINJ; ++i)
      CHECK(!(linked[i] && !seen[i]) || readable,
            "C16: LOST WAKE-UP - a published todo entry is neither seen by the scan nor signalled on the descriptor the daemon sleeps on");
    if (!readable) { WITNESS("sleeps_with_nothing_to_do"); if (hup_seen) WITNESS("sleeps_after_hup"); PATH_END(); }
    woke_after_block = 1;
  }
  FD_ZERO(rfds);
  if (readable) FD_SET(cur_rfd, rfds);
  return readable ? 1 : 0;
#else
  {
    /* reference: earliest due event among the subsystems, as they reported it */
    /* "now" is the true clock (the last value time() returned plus what passed in earlier select() calls), not the
     * daemon's cached `recent`: a daemon that computes its timeout from a stale `recent` (e.g. after select() was
     * interrupted and time has passed) sleeps past its earliest due event */
    long recent_ = now_val;
    long due = recent_ + SLEEP_FOREVER;
    long wp = recent_ + wpass[nselect - 1], wc = recent_ + wclean[nselect - 1];
    int pending = (tododir != 0) && !flagexitasap;
    /* after TERM nothing new is started: the pass and todo machinery no longer count as
     * work, and the trigger must not be watched (a pending trigger byte would make every
     * select return at once while the daemon only waits for its last reports) */
    if (!flagexitasap && wp < due) due = wp;
    if (wc < due) due = wc;
    if (!flagexitasap && nexttodorun < due) due = nexttodorun;
    if (flagexitasap) CHECK(!sel_trigger, "C16: BUSY LOOP - the trigger is still watched while draining after TERM");
    CHECK(tv != 0 && tv->tv_usec == 0, "select always has a timeout");
    if (pending || due <= recent_) {
      CHECK(tv->tv_sec == 0, "C16: work pending or due: poll without sleeping");
      WITNESS("polls_when_due");
    } else {
      CHECK(tv->tv_sec > 0, "C16: nothing due: block with a positive timeout (no busy loop)");
      CHECK(tv->tv_sec <= due - recent_ + SLEEP_FUZZ, "C16: never sleeps past the earliest due event (+SLEEP_FUZZ)");
      CHECK(tv->tv_sec <= SLEEP_FOREVER + SLEEP_FUZZ, "C16: never sleeps longer than SLEEP_FOREVER");
      WITNESS("sleeps_until_due");
      if (flagexitasap) WITNESS("sleeps_while_draining");
    }
    {
      /* time passes while the daemon sleeps: 0..timeout seconds; a signal (HUP) may cut the sleep short (EINTR) */
      long s = slp[nselect - 1];
      if (s < 0) s = 0;
      if (s > (long) tv->tv_sec) s = (long) tv->tv_sec;
      now_val += s;
      if (sig_in_select[nselect] & 1) { sighup(); if (s > 0) WITNESS("interrupted_after_sleeping"); errno = EINTR; return -1; }
    }
    FD_ZERO(rfds);
    if (sel_trigger && (draw() & 1)) FD_SET(cur_rfd, rfds);
    return 0;
  }
#endif
}

/* ---------------- cut subsystems of qmail-send.c */
int getcontrols(void) { return 1; }
void comm_init(void) {} void pqstart(void) {} void job_init(void) {} void del_init(void) {}
void pass_init(void) {} void cleanup_init(void) {}
void comm_selprep(int *nfds, fd_set *wfds) {}
void del_selprep(int *nfds, fd_set *rfds) {}
void pass_selprep(datetime_sec *wakeup)
{
#if MODE == 1
  datetime_sec w;
  if (flagexitasap) return;            /* contract of the real pass_selprep */
  w = now_val + wpass[nselect < K ? nselect : K];
  if (*wakeup > w) *wakeup = w;
#endif
}
void cleanup_selprep(datetime_sec *wakeup)
{
#if MODE == 1
  datetime_sec w = now_val + wclean[nselect < K ? nselect : K];
  if (*wakeup > w) *wakeup = w;
#endif
}
void comm_do(fd_set *w) {} void del_do(fd_set *r) {} void pass_do(void) {} void cleanup_do(void) {}
#if MODE == 3
static unsigned int n_reread, n_pqrun;
void reread(void)
{
  hup_unserved = 0; hup_selects = 0;                    /* this reading starts now: it sees every edit made before the HUP */
  if (n_reread < K + 1 && sig_in_reread[n_reread]) {    /* ... and a further HUP arrives while it is still running */
    sighup(); hup_unserved = 1; hup_selects = 0;
    WITNESS("hup_during_reread");
  }
  ++n_reread;
}
void pqrun(void)
{
  alrm_unserved = 0; alrm_selects = 0;
  if (n_pqrun < K + 1 && sig_in_pqrun[n_pqrun]) { sigalrm(); alrm_unserved = 1; alrm_selects = 0; WITNESS("alrm_during_pqrun"); }
  ++n_pqrun;
}
void pqfinish(void) {}
#else
void pqrun(void) {} void pqfinish(void) {}
#if MODE == 0
/* MODE 0 runs the REAL reread() (what the daemon does on HUP) with only regetcontrols() cut: re-reading the control files
 * must not disturb the trigger - whatever else a HUP makes the daemon do, a pull that is pending stays pending or is followed
 * by a scan */
void regetcontrols(void) {}
unsigned int vf_sleep(unsigned int s) { return 0; }
#else
void reread(void) {}
#endif
#endif
int del_canexit(void) { return 0; }   /* a delivery is outstanding: TERM does not end the loop (shutdown drain) */
/* qsutil.c */
void log1(char *a) {} void qslog2(char *a, char *b) {} void log3(char *a, char *b, char *c) {}
void logsa(stralloc *s) {} void logsafe(char *s) {} void nomem(void) {} void pausedir(char *d) {}
void sig_pipeignore(void) {} void sig_termcatch(void (*f)()) {} void sig_alarmcatch(void (*f)()) {}
void sig_hangupcatch(void (*f)()) {} void sig_childdefault(void) {}

void vf__exit(int s)
{
#if MODE == 2
  CHECK(s == 111, "start-up failures exit 111");
  CHECK(lock_fails || read_result[0] < 1 || read_result[1] < 1, "exits at start-up only if the mutex is held or a spawner is missing");
  CHECK(rd_open == 0 && !dir_open, "C02: a daemon that cannot start has not touched the trigger or todo/");
  if (lock_fails) WITNESS("second_daemon_refused");
  else WITNESS("spawner_missing");
#else
  CHECK(0, "qmail-send does not exit in this harness");
#endif
  PATH_END();
#ifdef VERIF_CBMC
  __CPROVER_assume(0);
#endif
}

void vmain(void)
{
  int i;
  sym_inputs();
  dent_.d_name[0] = '1'; dent_.d_name[1] = 0;           /* every entry is called "1": the name does not matter */
#if MODE == 1
  for (i = 0; i < K + 4; ++i) ASSUME(clk[i] >= 0 && clk[i] <= 100000);
  for (i = 0; i < K + 1; ++i) ASSUME(wpass[i] >= -100000 && wpass[i] <= 200000 && wclean[i] >= -100000 && wclean[i] <= 200000);
#endif
#if MODE == 1
  ASSUME(in_exitasap == 0 || in_exitasap == 1);
  flagexitasap = in_exitasap;
#endif
#if MODE == 2
  ASSUME(lock_fails == 0 || lock_fails == 1);
  ASSUME(read_result[0] >= -1 && read_result[0] <= 1 && read_result[1] >= -1 && read_result[1] <= 1);
  ASSUME(cfg[0] <= 1000 && cfg[1] <= 1000);
  concurrency[0] = cfg[0]; concurrency[1] = cfg[1];      /* what getcontrols() (cut) read from control/concurrency* */
#endif
  send_main();
}
