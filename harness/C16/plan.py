# kills: trigger_set() moved after opendir() in todo_do; trigger_set() dropped from todo_do; `tv.tv_sec = 0` when idle (busy loop);
#        `wakeup - recent + SLEEP_FUZZ` -> `+ SLEEP_TODO` (sleeps past due); todo_selprep ignoring nexttodorun
from vlib import Obl, Prog

CUT = ["getcontrols", "comm_init", "pqstart", "job_init", "del_init", "pass_init", "cleanup_init", "comm_selprep",
       "del_selprep", "pass_selprep", "cleanup_selprep", "comm_do", "del_do", "pass_do", "cleanup_do", "pqrun",
       "reread", "pqfinish", "del_canexit"]
UNITS = ["trigger.c", "open_read.c", "open_write.c", "fmtqfn.c", "fmt_ulong.c", "fmt_str.c", "scan_ulong.c",
         "auto_split.c", "auto_qmail.c", "substdio.c", "stralloc_catb.c", "stralloc_opyb.c", "stralloc_pend.c",
         "stralloc_cats.c", "stralloc_opys.c", "stralloc_copy.c", "stralloc_cat.c", "byte_copy.c"]
SYS = ["open", "close", "opendir", "readdir", "closedir", "chdir", "umask", "read", "select", "time", "_exit"]
FUNCS = ["qmail-send.c:main", "qmail-send.c:todo_init", "qmail-send.c:todo_selprep", "qmail-send.c:todo_do",
         "trigger.c:trigger_set", "trigger.c:trigger_selprep", "trigger.c:trigger_pulled", "open_read.c:open_read"]

def startup_obligation():
    """qmail-send main() prologue: mutex refusal (C02) and concurrency clamp (C04); used by harness/C02 and harness/C04"""
    return Obl("send_startup", "../C16/wake.c",
        progs=[Prog("qmail-send.c", main_as="send_main", cut=CUT)], repo=UNITS, lib=["arena_stralloc.c"],
        defines={"ARENA_CAP": 64, "ARENA_SLOTS": 8, "MODE": 2, "K": 1, "NINJ": 1}, sysrename=SYS, functions=["qmail-send.c:main (prologue)"],
        unwind={"send_main~while (!flagexitasap": 3}, unwind_default=20, timeout=600,
        cuts=["getcontrols -> configured concurrency set by the harness (symbolic <= 1000)", "initialisers of other subsystems -> no-ops"],
        assumes=["lock_exnb result, each spawner's announcement byte / EOF / error, configured concurrency: symbolic"],
        claim="C02: with lock/sendmutex held by another daemon qmail-send exits 111 before reading from the spawners, opening the trigger or scanning todo/; "
              "C04: concurrency[c] = min(configured, byte announced by the spawner) before the main loop starts",
        expect_witnesses=["second_daemon_refused", "spawner_missing", "started_with_clamped_concurrency"])


def signals_obligation(tier="quick"):
    """HUP / ALRM are never forgotten by the main loop (C10 reread, C15 pqrun); used by harness/C10 and harness/C15 as well"""
    return Obl("signal_flags", "../C16/wake.c",
        progs=[Prog("qmail-send.c", main_as="send_main", cut=CUT)], repo=UNITS, lib=["arena_stralloc.c"],
        defines={"ARENA_CAP": 64, "ARENA_SLOTS": 8, "MODE": 3, "NINJ": 1}, sysrename=SYS,
        grid=[{"K": 3}] if tier == "quick" else [{"K": 3}, {"K": 4}],
        functions=["qmail-send.c:main (signal flags)", "qmail-send.c:sighup", "qmail-send.c:sigalrm"],
        unwind=lambda p: {"send_main~while (!flagexitasap": p["K"] + 3}, unwind_default=20, timeout=900,
        cuts=["reread, pqrun -> observers that may receive a further HUP / ALRM while running (their bodies: C10 regetcontrols, C03/C15 pqrun)",
              "all other subsystems -> no-ops"],
        stubs=["select: a HUP and/or ALRM may arrive while sleeping (the real handlers run, select fails with EINTR)"],
        assumes=["signals arrive inside select(), reread() or pqrun() only; K select() calls"],
        outside=["a signal that arrives between the flag test and select() is served only after that select() returns (accepted by the design)"],
        claim="every HUP (ALRM) is followed by a reread() (pqrun()) that starts after it arrived, at the latest after one more select(): "
              "the flag is cleared before the work starts, never after it",
        expect_witnesses=["signals_bound_reached", "hup_during_reread", "alrm_during_pqrun"])


def obligations(tier):
    common = dict(progs=[Prog("qmail-send.c", main_as="send_main", cut=CUT)], repo=UNITS, lib=["arena_stralloc.c"],
                  defines={"ARENA_CAP": 64, "ARENA_SLOTS": 8}, sysrename=SYS, functions=FUNCS,
                  cuts=["%s -> no-op / contract (does not touch lock/trigger or todo/)" % c for c in CUT],
                  stubs=["FIFO lock/trigger: reader count, writer count, data flag dropped when the last descriptor closes; "
                         "open(O_WRONLY|O_NDELAY) fails ENXIO without a reader",
                         "todo/ directory stream: entries linked before opendir are returned; entries linked while it is open may or may not be",
                         "injector automaton advanced by a symbolic number of steps inside every daemon system call",
                         "processing of a todo entry is cut at open_read(todo/N) (covered by C02/C03/C10)"])
    ks = [(5, 1), (6, 2)] if tier == "quick" else [(5, 1), (6, 2), (8, 2), (9, 2), (7, 3)]
    return [
        Obl("lost_wakeup", "wake.c", grid=[{"K": k, "NINJ": n} for (k, n) in ks],
            defines=dict(common["defines"], MODE=0), std_checks=False,
            progs=[Prog("qmail-send.c", main_as="send_main", cut=[c for c in CUT if c != "reread"] + ["regetcontrols"])],
            sysrename=SYS + ["sleep"],
            unwind=lambda p: {"send_main~while (!flagexitasap": p["K"] + 2}, unwind_default=20, timeout=900,
            assumes=["clock stands still (periodic rescan disabled); K select() calls; NINJ injectors, one entry each; "
                     "open_read(lock/trigger) never fails; a HUP may interrupt any select() (real sighup() and reread(), regetcontrols cut)"],
            outside=["more than K daemon iterations / NINJ injectors", "HASNAMEDPIPEBUG1 variant (not compiled here)",
                     "kernels whose FIFO semantics differ from the model"],
            claim="for every interleaving at system-call granularity of NINJ injectors with K iterations of the daemon loop: "
                  "whenever the daemon blocks, every published todo entry has been seen or the trigger descriptor is readable",
            expect_witnesses=["sleeps_with_nothing_to_do", "entry_seen_after_wakeup", "entry_seen_by_startup_scan", "sleeps_after_hup"],
            **{k: v for k, v in common.items() if k not in ("defines", "progs", "sysrename")}),
        Obl("select_timeout", "wake.c", grid=[{"K": 3}] if tier == "quick" else [{"K": 3}, {"K": 5}],
            defines=dict(common["defines"], MODE=1, NINJ=1),
            unwind=lambda p: {"send_main~while (!flagexitasap": p["K"] + 2}, unwind_default=20, timeout=900,
            assumes=["symbolic non-decreasing clock (steps <= 100000 s), symbolic due times from pass/cleanup within +-200000 s of now; "
                     "flagexitasap symbolic with a delivery outstanding (shutdown drain); 0..timeout seconds pass in every select(), which a HUP may "
                     "interrupt (EINTR); 'now' in the reference is the true clock, not the daemon's cached value"],
            claim="at every select(): timeout 0 iff a scan is in progress or something is due; otherwise positive and "
                  "<= earliest-due - now + SLEEP_FUZZ",
            expect_witnesses=["polls_when_due", "sleeps_until_due", "sleeps_while_draining", "interrupted_after_sleeping"],
            **{k: v for k, v in common.items() if k != "defines"}),
        signals_obligation(tier),
    ]
