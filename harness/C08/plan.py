# C08 - SMTP transactions are well-sequenced and relaying is gated by policy.
#
# Obligations (DESIGN.md 4, C08):
#   smtp_seq         every sequence of K commands through the real handlers of qmail-smtpd.c, ghost transaction state
#   addrparse_ref    addrparse() on every argument <= N bytes + the localiphost template: documented forms, memory safety
#   rcpthosts_ref    rcpthosts() == reference matcher (exact / dot-suffix wildcard, case-insensitive, morercpthosts.cdb)
#   commands_ref     commands(): verb matching, CR stripping, bare LF, argument splitting, pipelined input left alone
#   constmap_lemma   constmap_init + constmap == case-insensitive linear search (the contract where constmap is cut)
#
# kills: (hand-made mutants of /repo in scratch worktrees; each is reported as VIOLATION with a native replay rc 1)
#   qmail-smtpd.c  smtp_mail does not clear rcptto                                  smtp_seq
#   qmail-smtpd.c  smtp_rcpt does not require seenmail                              smtp_seq
#   qmail-smtpd.c  smtp_rset does not clear seenmail                                smtp_seq
#   qmail-smtpd.c  smtp_data does not clear seenmail                                smtp_seq
#   qmail-smtpd.c  `flagbarf = bmfcheck()` -> 0 ; bmfcheck returns 0 at once        smtp_seq
#   qmail-smtpd.c  RELAYCLIENT suffix not appended                                  smtp_seq
#   qmail-smtpd.c  addrparse keeps '"' (quote toggling removed)                     addrparse_ref N=6
#   qmail-smtpd.c  addrparse substitutes localiphost without asking ipme_is         addrparse_ref TPL=1
#   rcpthosts.c    dot-suffix rule dropped (`if (!j)`)                              rcpthosts_ref
#   rcpthosts.c    case_lowerb dropped                                              rcpthosts_ref
#   commands.c     trailing CR not stripped                                         commands_ref N=4
#   commands.c     verbs compared case-sensitively                                  commands_ref N=4
#   constmap.c     hash() without case folding                                      constmap_lemma
from vlib import Obl, Prog

STRALLOC = ["stralloc_opys.c", "stralloc_opyb.c", "stralloc_cats.c", "stralloc_catb.c", "stralloc_cat.c", "stralloc_pend.c", "byte_copy.c"]

def obligations(tier):
    q = tier == "quick"
    obls = []
    obls.append(Obl("smtp_seq", "smtp_seq.c",
        progs=[Prog("qmail-smtpd.c", nomain=True, cut=["blast"])],
        repo=STRALLOC + ["str_chr.c", "byte_rchr.c", "case_diffs.c", "fmt_ulong.c", "ip.c", "scan_ulong.c"],
        lib=["ideal_substdio.c", "arena_stralloc.c"],
        defines={"ARENA_CAP": 48, "ARENA_SLOTS": 4},
        sysrename=["_exit", "time"], backend="cadical",
        grid=[{"K": 3, "A": 5}] if q else [{"K": 3, "A": 5}, {"K": 4, "A": 5}, {"K": 3, "A": 6}],
        # library loops are bounded by the longest string that can exist: rcptto after K-1 accepted RCPTs of A + 2 (suffix) bytes each
        unwind_default=lambda p: (p["K"] - 1) * (p["A"] + 4) + 4,
        unwind=lambda p: {"substdio_put": 80, "vmain": p["K"] * (p["A"] + 5) + 2, "qmail_put": p["K"] * (p["A"] + 5) + 2},
        timeout=1500 if q else 3000,
        functions=["qmail-smtpd.c:smtp_helo", "qmail-smtpd.c:smtp_ehlo", "qmail-smtpd.c:smtp_rset", "qmail-smtpd.c:smtp_mail", "qmail-smtpd.c:smtp_rcpt",
                   "qmail-smtpd.c:smtp_data", "qmail-smtpd.c:smtp_quit", "qmail-smtpd.c:addrparse", "qmail-smtpd.c:bmfcheck", "qmail-smtpd.c:addrallowed",
                   "qmail-smtpd.c:dohelo", "qmail-smtpd.c:err_*", "stralloc_*.c", "str_chr.c", "byte_rchr.c", "case_diffs.c"],
        cuts=["rcpthosts -> reference matcher over a symbolic table (proved equal to rcpthosts.c by rcpthosts_ref)",
              "constmap -> case-insensitive linear search over badmailfrom (constmap_lemma)",
              "qmail_open/put/from/close, received, blast -> observing stubs (C07)", "ipme_is -> no (localiphost: addrparse_ref)"],
        stubs=["substdio on ssout: ideal stream", "stralloc_ready/readyplus: arena", "time(): constant"],
        assumes=["K commands out of HELO EHLO RSET MAIL RCPT DATA NOOP/VRFY/HELP/unknown QUIT, each with an arbitrary argument of <= A bytes; "
                 "RELAYCLIENT unset or any string <= 2 bytes; rcpthosts absent or <= 2 entries of <= 4 bytes; badmailfrom absent or one entry <= 5 bytes; "
                 "localiphost off; qmail_open may fail; any queue verdict"],
        outside=["longer sessions and arguments", "verb recognition (commands_ref)", "localiphost substitution (addrparse_ref)"],
        claim="for every sequence of K commands: the queue is opened only inside a transaction with >= 1 accepted RCPT and receives exactly the sender of "
              "the most recent accepted MAIL and the RCPTs answered 250 since; HELO/EHLO/RSET/MAIL/completed DATA reset; RCPT 250 iff parsed, sender not "
              "on badmailfrom, and relay client (suffix appended) or domain listed",
        expect_witnesses=["quit", "message_submitted", "rcpt_accepted_relayclient", "rcpt_not_in_rcpthosts", "rcpt_refused_badmailfrom",
                          "rcpt_listed_in_rcpthosts"]))
    obls.append(Obl("addrparse_ref", "addrparse.c",
        progs=[Prog("qmail-smtpd.c", nomain=True, cut=["blast"])],
        repo=STRALLOC + ["str_chr.c", "byte_rchr.c", "ip.c", "scan_ulong.c"],
        lib=["ideal_substdio.c", "arena_stralloc.c"],
        defines={"ARENA_CAP": 24, "ARENA_SLOTS": 1},
        sysrename=["_exit", "time"],
        grid=([{"N": n, "TPL": 0} for n in ([6, 7] if q else [6, 7, 8])]) + [{"N": 14, "TPL": 1}],
        unwind_default=lambda p: p["N"] + 6,
        timeout=1500 if q else 3000,
        functions=["qmail-smtpd.c:addrparse", "str_chr.c", "byte_rchr.c", "ip.c:ip_scanbracket", "ip.c:ip_scan", "scan_ulong.c", "stralloc_*.c"],
        cuts=["ipme_is -> symbolic verdict, argument recorded"],
        stubs=["stralloc_ready/readyplus: arena"],
        assumes=["argument: any NUL-terminated string of <= N bytes (TPL=1: \"<x@[d.d.d.d\" + 3 bytes, d and the 3 bytes symbolic); localiphost on/off"],
        outside=["arguments longer than N bytes, in particular the 900-byte limit itself (single comparison after the copy loop)"],
        claim="addrparse is memory safe and yields exactly the documented form (bracket / colon forms, source route stripped, quotes and backslashes "
              "removed), NUL-terminated, nothing invented; a local [d.d.d.d] domain is replaced by localiphost",
        expect_witnesses=lambda p: ["parsed"] + (["localiphost_substituted", "literal_not_ours", "literal_malformed"] if p["TPL"] else
                                                 ["bracketed_full_length", "source_route_stripped", "bracketless_colon_form", "quoted_terminator_kept"])))
    # "never when ... the address exceeds the length limit": 900 bytes are outside every bound, so the limit logic is checked on a
    # regenerated copy whose only edit is the constant (900 -> 13), with a localiphost name longer than the literal it replaces
    obls.append(Obl("addrparse_limit", "addrparse.c",
        progs=[Prog("qmail-smtpd.c", nomain=True, cut=["blast"], sub=[(r"if \(addr\.len > 900\) return 0;", "if (addr.len > 13) return 0;", 1)])],
        repo=STRALLOC + ["str_chr.c", "byte_rchr.c", "ip.c", "scan_ulong.c"],
        lib=["ideal_substdio.c", "arena_stralloc.c"], defines={"ARENA_CAP": 32, "ARENA_SLOTS": 1, "LIMIT": 13},
        sysrename=["_exit", "time"], grid=[{"N": 14, "TPL": 1}], unwind_default=lambda p: p["N"] + 16, timeout=1500,
        functions=["qmail-smtpd.c:addrparse (length limit scaled 900 -> 13)"],
        cuts=["ipme_is -> symbolic verdict", "constant 900 -> 13 in the regenerated copy (parametric check of the limit logic)"],
        assumes=["template <x@[d.d.d.d + 3 symbolic bytes; localiphost on/off with a 12-byte name; limit 13"],
        outside=["the real constant 900 is not executed"],
        claim="an address is refused as too long iff the address as rewritten (after the localiphost substitution) exceeds the limit",
        expect_witnesses=["parsed", "too_long_after_substitution"]))
    obls.append(Obl("rcpthosts_ref", "rcpthosts.c",
        progs=[Prog("rcpthosts.c")],
        repo=["byte_rchr.c", "case_lowerb.c", "stralloc_opyb.c", "byte_copy.c"],
        lib=["arena_stralloc.c"], defines={"ARENA_CAP": 16, "ARENA_SLOTS": 1},
        grid=[{"N": n} for n in ([3, 4, 5, 6] if q else [1, 2, 3, 4, 5, 6, 7, 8])], backend="cadical",
        unwind_default=lambda p: max(p["N"] + 6, 10),
        timeout=1500 if q else 3000,
        functions=["rcpthosts.c:rcpthosts", "byte_rchr.c", "case_lowerb.c", "stralloc_opyb.c"],
        cuts=["constmap -> case-insensitive linear search over table 1 (constmap_lemma)", "cdb_seek -> exact search over table 2, may fail (C11)"],
        stubs=["stralloc_ready/readyplus: arena"],
        assumes=["address: N arbitrary non-NUL bytes; rcpthosts and morercpthosts: <= 2 entries of <= 3 bytes each, any bytes (cdb keys without upper case, "
                 "as qmail-newmrh writes them); rcpthosts file / cdb present or absent; one cdb read error at any lookup"],
        outside=["longer domains and tables", "the cdb file format (C11)"],
        claim="rcpthosts() allows exactly: no rcpthosts file, no @, or domain equal to an entry or ending in a dot-entry of either list, "
              "case-insensitively; cdb trouble is -1, never 'no'",
        expect_witnesses=lambda p: ["no_rcpthosts_file", "no_at_sign", "refused", "done"] + (["wildcard_match", "mixed_case_match", "morercpthosts_match", "cdb_trouble"] if p["N"] >= 3 else [])))
    def cmd_wit(p):
        n = p["N"]
        w = ["end_of_input"]
        if n >= 1: w += ["read_error", "unterminated_last_line"]
        if n >= 2: w += ["pipelined_second_command"]
        if n >= 3: w += ["crlf_and_bare_lf", "mixed_case_verb"]
        if n >= 4: w += ["unknown_verb_with_argument"]
        return w
    obls.append(Obl("commands_ref", "commands.c",
        progs=[Prog("commands.c")],
        repo=["str_chr.c", "case_diffs.c", "stralloc_opys.c", "stralloc_opyb.c", "byte_copy.c"],
        lib=["ideal_substdio.c", "arena_stralloc.c"], defines={"ARENA_CAP": 16, "ARENA_SLOTS": 1},
        grid=[{"N": n} for n in ([0, 2, 4, 6, 7] if q else range(0, 10))], backend="cadical",
        unwind_default=lambda p: p["N"] + 4,
        timeout=1500 if q else 3000,
        functions=["commands.c:commands", "str_chr.c", "case_diffs.c", "stralloc_opys.c", "stralloc_opyb.c"],
        stubs=["substdio_get: ideal stream", "stralloc_ready/readyplus: arena"],
        assumes=["input: N arbitrary non-NUL bytes, then end of input; one read error at any position; table: mail, rcpt(flush), q(flush), default(flush)"],
        outside=["longer inputs", "NUL bytes inside command lines (meaning undocumented)"],
        claim="commands() executes every complete line exactly once and in order, matches the verb case-insensitively, strips one CR, accepts bare LF, "
              "passes the rest after the spaces as argument, runs the flush hook, and has consumed nothing beyond the line when the handler runs",
        expect_witnesses=cmd_wit))
    obls.append(Obl("constmap_lemma", "constmap.c",
        progs=[Prog("constmap.c")], repo=["case_diffb.c"], backend="cadical",
        grid=[{"NE": 2, "EL": 2, "QL": 2}] if q else
             [{"NE": ne, "EL": el, "QL": ql} for (ne, el, ql) in [(1, 1, 1), (2, 2, 2), (2, 2, 3), (1, 3, 3), (1, 4, 4)]],   # (2,3,3) and (3,2,2) also close (450-500 s) but need 11 GB each
        unwind_default=lambda p: p["NE"] * (p["EL"] + 1) + 2,
        unwind=lambda p: {"constmap": p["NE"] + 1, "hash": max(p["EL"], p["QL"]) + 1, "case_diffb": p["QL"] + 1,
                          "constmap_init~h <= cm->mask": 66, "constmap_init~while (h &&": 3},
        timeout=1500 if q else 3000,
        functions=["constmap.c:constmap_init", "constmap.c:constmap", "constmap.c:hash", "constmap.c:constmap_free", "case_diffb.c"],
        assumes=["table: NE entries of EL non-NUL bytes, NUL-separated; key: QL arbitrary bytes; malloc does not fail"],
        outside=["larger tables (more than 64 entries change the bucket count)", "colon mode (not used by qmail-smtpd)"],
        claim="constmap_init + constmap find a key iff some entry equals it case-insensitively (the contract used where constmap is cut)",
        expect_witnesses=lambda p: ["done"] + (["found", "not_found_same_length", "found_other_case"] if p["EL"] == p["QL"] else [])))
    obls += _control_file_obligations(tier)      # the tables above are what the control FILES say (defined below)
    return obls


# ---- control files -> tables (tag h2).  The obligations above give rcpthosts()/addrallowed() symbolic TABLES; these decide that
# the tables the programs use are exactly what the control FILES say.  control_read*_ref are borrowed by C10 (getcontrols /
# regetcontrols read locals, virtualdomains, percenthack through control_readfile, envnoathost through control_rldef).
#   control_readfile_ref   control.c control_init + control_readfile == reference reader of qmail-control(5) (ctlread.c KIND=0)
#   control_readline_ref   control.c control_rldef / control_readline: first line, defaults me / literal      (ctlread.c KIND=1)
#   control_readint_ref    control.c control_readint: decimal first line, caller's default kept              (ctlread.c KIND=2)
#   ipme_is_ref            ipme.c ipme_is over a pre-filled table of local addresses                         (ipme.c)
#   newmrh_keys            qmail-newmrh.c main(): keys handed to the cdb writer, finish/fsync/close/rename   (newmrh.c)
#   rcpthosts_from_file    rcpthosts_init + rcpthosts on control.c + constmap.c real, rcpthosts FILE symbolic (rhfile.c)
#
# kills: (hand-made mutants in scratch worktrees, tools/mutant.sh; each printed VIOLATION with a native replay rc 1)
#   control_readfile_ref:  control.c  '\t' no longer stripped (notab); '#' lines kept (nocomment); last line without newline lost
#                          (`if (!match)` return before the line is used: lastline); default me without flagme (`if (meok)`: meflag);
#                          every open error taken for ENOENT (noent); default entry not NUL-terminated (me0); read error answered 1 with
#                          the shorter list (rderr); strip loop `while (sa->len > 1)` (strip1: a blank line becomes an entry);
#                          `stralloc_copys(sa,"")` removed (noreset: caught as growth beyond the arena, the old contents stay in front)
#   control_readline_ref:  control_rldef literal default before me (defme); open error answered 0 (rlnoent); notab; no stripping at all (rlnostrip)
#   control_readint_ref:   `*i = 0` before the number is known (intclobber: default lost on a non-number); error -1 turned into 0 (intnoent);
#                          missing stralloc_0 before scan_ulong (int0: stale digits of the shared line buffer are read)
#   ipme_is_ref:           ipme.c  compare 3 of 4 bytes (ip3); last entry skipped `i + 1 < ipme.len` (iplast); loop to ipme.a (ipstale);
#                          loop from 1 (ipfirst); compares the pref field (ippref)
#   newmrh_keys:           qmail-newmrh.c  case_lowerb removed (nolower); '\t' not stripped (notab); '#' lines added (nocomment); rename before
#                          fsync/close (renamefirst); fsync result ignored (fsyncign); close result ignored (closeign); read error ends the
#                          loop instead of die_read (readign: truncated list installed); `if (!match) break` before the line is used
#                          (lastline); die_write exits 100 (exit100)
#   rcpthosts_from_file:   rcpthosts.c  constmap_init(...,1) (colon: plain entries ignored); cdb open error ignored (cdberr); dot-suffix rule
#                          dropped (nodot, AT=0); constmap_init over rh.len - 1 (rhlen: last entry lost); `flagrh == -1` instead of `!= 1`
#                          (nofile: NULL table used).  control.c notab / nocomment / lastline / rderr.  constmap.c hash() without case
#                          folding (hashcase).
#   NOT caught, and why:   control.c  `stralloc_copys(sa,"")` moved after the open (resetlate: differs only in what sa holds when the answer
#                          is 0, which no document fixes); control_readint demanding that the whole line is digits (intall) and '\t' no
#                          longer stripped before scan_ulong (notab on readint): both differ only on lines that are not plain decimal
#                          numbers resp. not at all (scan_ulong stops at the blank) - documents silent, accepted by design.
def _control_file_obligations(tier):
    q = tier == "quick"
    obls = []
    CTL_REPO = ["stralloc_opys.c", "stralloc_opyb.c", "stralloc_cat.c", "stralloc_catb.c", "stralloc_copy.c", "stralloc_pend.c",
                "byte_copy.c", "scan_ulong.c", "substdio.c"]
    kinds = [
        (0, "control_readfile_ref", [0, 3, 5, 6] if q else [0, 1, 2, 3, 4, 5, 6, 7, 8],
         "control_readfile on every file of N bytes (any bytes, one read error anywhere): 1 and exactly the entries of the file in order "
         "(one per line, trailing spaces/tabs removed, empty lines and # comments dropped, last line without newline counts), NUL-separated; "
         "missing file: 0, or with flagme and a control/me that was read 1 and that name; other open/read errors: -1",
         lambda p: ["open_error", "missing_file_default_me", "missing_file", "read_error", "list", "no_entries"]
                   + (["nul_in_file_undetermined", "last_line_without_newline_counts"] if p["N"] >= 1 else [])
                   + (["two_entries", "comment_then_entry", "trailing_blanks_removed"] if p["N"] >= 3 else [])),
        (1, "control_readline_ref", [0, 3, 6, 8] if q else range(0, 13),
         "control_rldef/control_readline on every file of N bytes: 1 and the first line without trailing spaces/tabs (later lines ignored); "
         "missing file: me if asked for and supplied, else the literal default, else 0; open/read errors: -1",
         lambda p: ["open_error", "missing_file_default_me", "missing_file_literal_default", "missing_file", "read_error", "line"]
                   + (["nul_in_line_undetermined", "trailing_blanks_removed", "no_newline_at_end"] if p["N"] >= 1 else [])
                   + (["later_lines_ignored"] if p["N"] >= 2 else [])),
        (2, "control_readint_ref", [0, 3, 6, 9] if q else range(0, 11),
         "control_readint on every file of N bytes: a first line that is a decimal number of <= 9 digits (trailing blanks allowed) gives 1 and "
         "that number; missing file: 0 and the caller's default untouched; whenever 0 is returned the default is untouched; open/read errors: -1",
         lambda p: ["open_error", "missing_file", "read_error", "not_a_number_default_kept"]
                   + (["number"] if p["N"] >= 1 else [])
                   + (["number_with_trailing_blanks", "junk_after_digits_accepted"] if p["N"] >= 2 else [])),
    ]
    for kind, nm, ns, claim, wit in kinds:
        obls.append(Obl(nm, "ctlread.c", progs=[Prog("control.c")], repo=CTL_REPO,
            lib=["ideal_substdio.c", "ideal_getln.c", "arena_stralloc.c"], sysrename=["close"],
            defines={"KIND": kind, "ARENA_SLOTS": 3, "M": 2},
            grid=[{"N": n, "ARENA_CAP": 2 * n + 4} for n in ns],     # slack: a reader that keeps too much fails the comparison, not the sizing check
            unwind_default=lambda p: p["N"] + 4, unwind=lambda p: {"vmain~stale_sa[i]": p["ARENA_CAP"] + 1}, timeout=900 if q else 2400,
            backend="cadical" if kind == 2 else "minisat",     # measured at the largest quick point: readint 37 s cadical / 303 s minisat, readfile 194 s cadical / 54 s minisat
            functions=["control.c:control_init", "control.c:control_readfile", "control.c:control_readline", "control.c:control_rldef",
                       "control.c:control_readint", "control.c:striptrailingwhitespace", "scan_ulong.c", "stralloc_*.c"],
            stubs=["getln/substdio: ideal stream (C20 l0 lemmas)", "open_read: exists / ENOENT / EIO per file, path checked", "close",
                   "stralloc_ready/readyplus: arena"],
            assumes=["control file of exactly N bytes (grid), any byte values; control/me of 2 bytes, any values, present/absent/unreadable; "
                     "at most one read() error, before any byte or at end of file; flagme 0/1; literal default absent or 0..2 bytes; allocation does not fail",
                     "documents silent, both behaviours accepted: lines containing NUL; numeric files whose first line is not a plain decimal number"],
            outside=["longer files", "allocation failure (-1)", "a read error while control/me is read"],
            claim=claim, expect_witnesses=wit))
    obls.append(Obl("ipme_is_ref", "ipme.c", progs=[Prog("ipme.c")], repo=["byte_copy.c"],
        sysrename=["socket", "ioctl", "close"],
        grid=[{"NE": n} for n in (0, 1, 2, 3)], unwind_default=6, timeout=300,
        functions=["ipme.c:ipme_is", "ipme.c:ipme_init (only the early return for a table that is ready)"],
        stubs=["socket/ioctl/close, ipalloc_readyplus/append, stralloc_ready: must not be reached"],
        assumes=["table of local addresses pre-filled by the harness: NE entries (grid 0..3, capacity 3), every byte symbolic, stale entries beyond len symbolic; "
                 "looked-up address: 4 symbolic bytes"],
        outside=["ipme_init(): enumeration of the interfaces through socket()/ioctl(SIOCGIFCONF, SIOCGIFFLAGS) - kernel interface code, not encoded; "
                 "that 0.0.0.0 is always in the table (done by ipme_init)", "tables of more than 3 addresses"],
        claim="ipme_is() answers 1 iff the address equals (all four bytes) one of the NE entries of the table of local addresses, else 0; "
              "table and argument are left unchanged",
        expect_witnesses=lambda p: ["not_local"] + (["local", "local_last_entry", "differs_in_last_byte_only"] if p["NE"] >= 1 else [])
                                   + (["stale_entry_beyond_len_ignored"] if p["NE"] < 3 else [])))
    obls.append(Obl("newmrh_keys", "newmrh.c", progs=[Prog("qmail-newmrh.c", main_as="newmrh_main")],
        repo=["case_lowerb.c", "stralloc_pend.c", "stralloc_catb.c", "byte_copy.c", "substdio.c"],
        lib=["ideal_substdio.c", "ideal_getln.c", "arena_stralloc.c"], defines={"ARENA_SLOTS": 1},
        sysrename=["umask", "chdir", "fsync", "close", "rename", "_exit"],
        grid=[{"N": n, "ARENA_CAP": n + 3} for n in ([0, 3, 5, 6] if q else [0, 1, 2, 3, 4, 5, 6, 7, 8])],
        unwind_default=lambda p: p["N"] + 4, timeout=900 if q else 2400,
        functions=["qmail-newmrh.c:main", "qmail-newmrh.c:die_read", "qmail-newmrh.c:die_write", "case_lowerb.c:case_lowerb"],
        cuts=["strerr_die -> _exit(status) (complaint text not checked)", "cdbmss_start/add/finish -> recorder (keys, data length, call order); the writer itself is C11 cdb_writer / cdb_round_trip"],
        stubs=["getln/substdio: ideal streams", "open_read/open_trunc/umask/chdir/fsync/close/rename/_exit: each may fail (EIO), order and paths checked",
               "stralloc_ready*: arena"],
        assumes=["control/morercpthosts of exactly N bytes (grid), any byte values; a read error before any byte or at end of file; any combination of "
                 "failing chdir/open/writer/fsync/close/rename calls", "files containing NUL: keys not compared (documents silent)"],
        outside=["longer files", "allocation failure", "the cdb file format (C11)"],
        claim="qmail-newmrh hands the cdb writer exactly one key per entry of control/morercpthosts (same reader as control_readfile_ref: trailing "
              "spaces/tabs removed, empty lines and # comments dropped, last line without newline counts), in file order, lower-cased, with empty data; "
              "then finish, fsync, close, rename .tmp -> .cdb in that order; any failure exits 111 and the rename does not happen",
        expect_witnesses=lambda p: ["complaint_111", "read_error_111", "close_failed_111", "rename_failed_111", "installed", "empty_database_installed"]
                                   + (["add_failed_111", "nul_in_file_undetermined", "upper_case_lowered", "last_line_without_newline_counts"] if p["N"] >= 1 else [])
                                   + (["two_keys", "comment_then_key", "trailing_blanks_removed"] if p["N"] >= 3 else [])))
    def rh_wit(p):
        n, r, at, cdb = p["N"], p["R"], p["AT"], p["CDB"]
        d = r - at - 1                                     # length of the domain
        w = ["init_trouble", "read_error", "no_rcpthosts_file"] + ([] if cdb else ["cdb_open_error"])
        if at == r: return w + ["no_at_sign"]
        w += ["refused", "empty_list_refuses", "done"]
        if cdb and d >= 1: w += ["morercpthosts_match", "cdb_trouble"]
        if d >= 1 and n >= d: w += ["mixed_case_match"]
        if d >= 1 and n >= d + 1: w += ["entry_with_trailing_blank_matches"]
        if d >= 1 and n >= d + 2: w += ["listed_in_two_line_file", "match_after_comment_line"]
        if d >= 2 and n >= 2: w += ["wildcard_match"]
        return w
    rh_quick = [(3, 4, 0, 1), (3, 4, 1, 1), (3, 4, 1, 0), (3, 4, 4, 1), (4, 4, 1, 1)]
    rh_thorough = rh_quick + [(4, 5, at, 1) for at in (0, 1, 2, 3)] + [(5, 5, 1, 1), (5, 5, 2, 1), (5, 4, 1, 0)]
    obls.append(Obl("rcpthosts_from_file", "rhfile.c", progs=[Prog("rcpthosts.c"), Prog("control.c")],
        repo=["constmap.c", "case_diffb.c", "case_lowerb.c", "byte_rchr.c", "byte_copy.c", "stralloc_opys.c", "stralloc_opyb.c", "stralloc_cat.c",
              "stralloc_catb.c", "stralloc_copy.c", "stralloc_pend.c", "scan_ulong.c", "substdio.c"],
        lib=["ideal_substdio.c", "ideal_getln.c", "arena_stralloc.c"], defines={"ARENA_SLOTS": 3},
        sysrename=["malloc", "free", "close"], backend="minisat",
        grid=[{"N": n, "R": r, "AT": at, "CDB": c, "ARENA_CAP": max(n, r) + 3} for (n, r, at, c) in (rh_quick if q else rh_thorough)],
        # tight per-loop bounds, each proved sufficient by its unwinding assertion: at most (N+1)/2 entries, keys no longer than the domain
        unwind=lambda p: {"constmap_init~for (h = 0": 66, "constmap_init~while (h &&": 1, "constmap": (p["N"] + 1) // 2 + 1,
                          "case_diffb": p["R"], "hash": max(p["N"], p["R"]) + 1, "rcpthosts": p["R"] + 1, "case_lowerb": p["R"] + 1,
                          "byte_rchr": p["R"] // 4 + 2, "byte_copy": max(p["N"], p["R"]) // 4 + 2},
        unwind_default=lambda p: max(p["N"], p["R"]) + 3, timeout=900 if q else 3000,
        functions=["rcpthosts.c:rcpthosts_init", "rcpthosts.c:rcpthosts", "control.c:control_readfile", "control.c:striptrailingwhitespace",
                   "constmap.c:constmap_init", "constmap.c:constmap", "constmap.c:hash", "case_diffb.c", "case_lowerb.c", "byte_rchr.c", "stralloc_*.c"],
        cuts=["cdb_seek -> exact search over a symbolic table of lower-cased keys, may fail (keys: newmrh_keys; format: C11)"],
        stubs=["getln/substdio: ideal stream", "open_read: rcpthosts and morercpthosts.cdb each present / ENOENT / EIO", "close",
               "malloc/free: five typed fixed arrays in call order", "stralloc_ready/readyplus: arena"],
        assumes=["control/rcpthosts of exactly N bytes (grid), any byte values except NUL; one read error anywhere; recipient of exactly R bytes, "
                 "any values except NUL, its last '@' at position AT (grid; AT = R: no '@'); CDB=1: morercpthosts.cdb present with one key of <= 3 bytes "
                 "without upper case (what qmail-newmrh writes: newmrh_keys), one cdb read error at any lookup; CDB=0: absent (ENOENT) or unreadable (EIO)"],
        outside=["longer files and recipients: the full composition costs 30-50 s at N=3/R=4 and 3-9 min at N=4..5/R=5 (symbolic hash buckets), so the "
                 "quick tier composes at N<=4, R=4 only; the pieces are checked separately at larger sizes (control_readfile_ref N<=6/8, rcpthosts_ref "
                 "address <= 6/8, constmap_lemma)", "files containing NUL (documents silent)", "allocation failure"],
        claim="for every rcpthosts file of N bytes and recipient of R bytes: rcpthosts_init()+rcpthosts() allow the recipient iff there is no file, no @, "
              "or its domain equals - or ends with a dot-entry among - the entries the documented reader takes from the file (or the cdb keys), "
              "case-insensitively; read/open trouble is -1, never an empty list",
        expect_witnesses=rh_wit))
    return obls
