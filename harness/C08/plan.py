# C08 - SMTP transactions are well-sequenced and relaying is gated by policy.
#
# Obligations (DESIGN.md 4, C08):
#   smtp_seq         every sequence of K commands through the real handlers of qmail-smtpd.c, ghost transaction state
#   addrparse_ref    addrparse() on every argument <= N bytes + the localiphost template: documented forms, memory safety
#   rcpthosts_ref    rcpthosts() == reference matcher (exact / dot-suffix wildcard, case-insensitive, morercpthosts.cdb)
#   commands_ref     commands(): verb matching, CR stripping, bare LF, argument splitting, pipelined input left alone
#   constmap_lemma   constmap_init + constmap == case-insensitive linear search (the contract where constmap is cut)
#
# kills: (hand-made mutants of /repo in scratch worktrees; each is reported as VIOLATION with a native replay rc 1)
#   qmail-smtpd.c  smtp_mail does not clear rcptto                                  smtp_seq
#   qmail-smtpd.c  smtp_rcpt does not require seenmail                              smtp_seq
#   qmail-smtpd.c  smtp_rset does not clear seenmail                                smtp_seq
#   qmail-smtpd.c  smtp_data does not clear seenmail                                smtp_seq
#   qmail-smtpd.c  `flagbarf = bmfcheck()` -> 0 ; bmfcheck returns 0 at once        smtp_seq
#   qmail-smtpd.c  RELAYCLIENT suffix not appended                                  smtp_seq
#   qmail-smtpd.c  addrparse keeps '"' (quote toggling removed)                     addrparse_ref N=6
#   qmail-smtpd.c  addrparse substitutes localiphost without asking ipme_is         addrparse_ref TPL=1
#   rcpthosts.c    dot-suffix rule dropped (`if (!j)`)                              rcpthosts_ref
#   rcpthosts.c    case_lowerb dropped                                              rcpthosts_ref
#   commands.c     trailing CR not stripped                                         commands_ref N=4
#   commands.c     verbs compared case-sensitively                                  commands_ref N=4
#   constmap.c     hash() without case folding                                      constmap_lemma
from vlib import Obl, Prog

STRALLOC = ["stralloc_opys.c", "stralloc_opyb.c", "stralloc_cats.c", "stralloc_catb.c", "stralloc_cat.c", "stralloc_pend.c", "byte_copy.c"]

def obligations(tier):
    q = tier == "quick"
    obls = []
    obls.append(Obl("smtp_seq", "smtp_seq.c",
        progs=[Prog("qmail-smtpd.c", nomain=True, cut=["blast"])],
        repo=STRALLOC + ["str_chr.c", "byte_rchr.c", "case_diffs.c", "fmt_ulong.c", "ip.c", "scan_ulong.c"],
        lib=["ideal_substdio.c", "arena_stralloc.c"],
        defines={"ARENA_CAP": 48, "ARENA_SLOTS": 4},
        sysrename=["_exit", "time"], backend="cadical",
        grid=[{"K": 3, "A": 5}] if q else [{"K": 3, "A": 5}, {"K": 4, "A": 5}, {"K": 3, "A": 6}],
        # library loops are bounded by the longest string that can exist: rcptto after K-1 accepted RCPTs of A + 2 (suffix) bytes each
        unwind_default=lambda p: (p["K"] - 1) * (p["A"] + 4) + 4,
        unwind=lambda p: {"substdio_put": 80, "vmain": p["K"] * (p["A"] + 5) + 2, "qmail_put": p["K"] * (p["A"] + 5) + 2},
        timeout=1500 if q else 3000,
        functions=["qmail-smtpd.c:smtp_helo", "qmail-smtpd.c:smtp_ehlo", "qmail-smtpd.c:smtp_rset", "qmail-smtpd.c:smtp_mail", "qmail-smtpd.c:smtp_rcpt",
                   "qmail-smtpd.c:smtp_data", "qmail-smtpd.c:smtp_quit", "qmail-smtpd.c:addrparse", "qmail-smtpd.c:bmfcheck", "qmail-smtpd.c:addrallowed",
                   "qmail-smtpd.c:dohelo", "qmail-smtpd.c:err_*", "stralloc_*.c", "str_chr.c", "byte_rchr.c", "case_diffs.c"],
        cuts=["rcpthosts -> reference matcher over a symbolic table (proved equal to rcpthosts.c by rcpthosts_ref)",
              "constmap -> case-insensitive linear search over badmailfrom (constmap_lemma)",
              "qmail_open/put/from/close, received, blast -> observing stubs (C07)", "ipme_is -> no (localiphost: addrparse_ref)"],
        stubs=["substdio on ssout: ideal stream", "stralloc_ready/readyplus: arena", "time(): constant"],
        assumes=["K commands out of HELO EHLO RSET MAIL RCPT DATA NOOP/VRFY/HELP/unknown QUIT, each with an arbitrary argument of <= A bytes; "
                 "RELAYCLIENT unset or any string <= 2 bytes; rcpthosts absent or <= 2 entries of <= 4 bytes; badmailfrom absent or one entry <= 5 bytes; "
                 "localiphost off; qmail_open may fail; any queue verdict"],
        outside=["longer sessions and arguments", "verb recognition (commands_ref)", "localiphost substitution (addrparse_ref)"],
        claim="for every sequence of K commands: the queue is opened only inside a transaction with >= 1 accepted RCPT and receives exactly the sender of "
              "the most recent accepted MAIL and the RCPTs answered 250 since; HELO/EHLO/RSET/MAIL/completed DATA reset; RCPT 250 iff parsed, sender not "
              "on badmailfrom, and relay client (suffix appended) or domain listed",
        expect_witnesses=["quit", "message_submitted", "rcpt_accepted_relayclient", "rcpt_not_in_rcpthosts", "rcpt_refused_badmailfrom",
                          "rcpt_listed_in_rcpthosts"]))
    obls.append(Obl("addrparse_ref", "addrparse.c",
        progs=[Prog("qmail-smtpd.c", nomain=True, cut=["blast"])],
        repo=STRALLOC + ["str_chr.c", "byte_rchr.c", "ip.c", "scan_ulong.c"],
        lib=["ideal_substdio.c", "arena_stralloc.c"],
        defines={"ARENA_CAP": 24, "ARENA_SLOTS": 1},
        sysrename=["_exit", "time"],
        grid=([{"N": n, "TPL": 0} for n in ([6, 7] if q else [6, 7, 8])]) + [{"N": 14, "TPL": 1}],
        unwind_default=lambda p: p["N"] + 6,
        timeout=1500 if q else 3000,
        functions=["qmail-smtpd.c:addrparse", "str_chr.c", "byte_rchr.c", "ip.c:ip_scanbracket", "ip.c:ip_scan", "scan_ulong.c", "stralloc_*.c"],
        cuts=["ipme_is -> symbolic verdict, argument recorded"],
        stubs=["stralloc_ready/readyplus: arena"],
        assumes=["argument: any NUL-terminated string of <= N bytes (TPL=1: \"<x@[d.d.d.d\" + 3 bytes, d and the 3 bytes symbolic); localiphost on/off"],
        outside=["arguments longer than N bytes, in particular the 900-byte limit itself (single comparison after the copy loop)"],
        claim="addrparse is memory safe and yields exactly the documented form (bracket / colon forms, source route stripped, quotes and backslashes "
              "removed), NUL-terminated, nothing invented; a local [d.d.d.d] domain is replaced by localiphost",
        expect_witnesses=lambda p: ["parsed"] + (["localiphost_substituted", "literal_not_ours", "literal_malformed"] if p["TPL"] else
                                                 ["bracketed_full_length", "source_route_stripped", "bracketless_colon_form", "quoted_terminator_kept"])))
    # "never when ... the address exceeds the length limit": 900 bytes are outside every bound, so the limit logic is checked on a
    # regenerated copy whose only edit is the constant (900 -> 13), with a localiphost name longer than the literal it replaces
    obls.append(Obl("addrparse_limit", "addrparse.c",
        progs=[Prog("qmail-smtpd.c", nomain=True, cut=["blast"], sub=[(r"if \(addr\.len > 900\) return 0;", "if (addr.len > 13) return 0;", 1)])],
        repo=STRALLOC + ["str_chr.c", "byte_rchr.c", "ip.c", "scan_ulong.c"],
        lib=["ideal_substdio.c", "arena_stralloc.c"], defines={"ARENA_CAP": 32, "ARENA_SLOTS": 1, "LIMIT": 13},
        sysrename=["_exit", "time"], grid=[{"N": 14, "TPL": 1}], unwind_default=lambda p: p["N"] + 16, timeout=1500,
        functions=["qmail-smtpd.c:addrparse (length limit scaled 900 -> 13)"],
        cuts=["ipme_is -> symbolic verdict", "constant 900 -> 13 in the regenerated copy (parametric check of the limit logic)"],
        assumes=["template <x@[d.d.d.d + 3 symbolic bytes; localiphost on/off with a 12-byte name; limit 13"],
        outside=["the real constant 900 is not executed"],
        claim="an address is refused as too long iff the address as rewritten (after the localiphost substitution) exceeds the limit",
        expect_witnesses=["parsed", "too_long_after_substitution"]))
    obls.append(Obl("rcpthosts_ref", "rcpthosts.c",
        progs=[Prog("rcpthosts.c")],
        repo=["byte_rchr.c", "case_lowerb.c", "stralloc_opyb.c", "byte_copy.c"],
        lib=["arena_stralloc.c"], defines={"ARENA_CAP": 16, "ARENA_SLOTS": 1},
        grid=[{"N": n} for n in ([3, 4, 5, 6] if q else [1, 2, 3, 4, 5, 6, 7, 8])], backend="cadical",
        unwind_default=lambda p: max(p["N"] + 6, 10),
        timeout=1500 if q else 3000,
        functions=["rcpthosts.c:rcpthosts", "byte_rchr.c", "case_lowerb.c", "stralloc_opyb.c"],
        cuts=["constmap -> case-insensitive linear search over table 1 (constmap_lemma)", "cdb_seek -> exact search over table 2, may fail (C11)"],
        stubs=["stralloc_ready/readyplus: arena"],
        assumes=["address: N arbitrary non-NUL bytes; rcpthosts and morercpthosts: <= 2 entries of <= 3 bytes each, any bytes (cdb keys without upper case, "
                 "as qmail-newmrh writes them); rcpthosts file / cdb present or absent; one cdb read error at any lookup"],
        outside=["longer domains and tables", "the cdb file format (C11)"],
        claim="rcpthosts() allows exactly: no rcpthosts file, no @, or domain equal to an entry or ending in a dot-entry of either list, "
              "case-insensitively; cdb trouble is -1, never 'no'",
        expect_witnesses=lambda p: ["no_rcpthosts_file", "no_at_sign", "refused", "done"] + (["wildcard_match", "mixed_case_match", "morercpthosts_match", "cdb_trouble"] if p["N"] >= 3 else [])))
    def cmd_wit(p):
        n = p["N"]
        w = ["end_of_input"]
        if n >= 1: w += ["read_error", "unterminated_last_line"]
        if n >= 2: w += ["pipelined_second_command"]
        if n >= 3: w += ["crlf_and_bare_lf", "mixed_case_verb"]
        if n >= 4: w += ["unknown_verb_with_argument"]
        return w
    obls.append(Obl("commands_ref", "commands.c",
        progs=[Prog("commands.c")],
        repo=["str_chr.c", "case_diffs.c", "stralloc_opys.c", "stralloc_opyb.c", "byte_copy.c"],
        lib=["ideal_substdio.c", "arena_stralloc.c"], defines={"ARENA_CAP": 16, "ARENA_SLOTS": 1},
        grid=[{"N": n} for n in ([0, 2, 4, 6, 7] if q else range(0, 10))], backend="cadical",
        unwind_default=lambda p: p["N"] + 4,
        timeout=1500 if q else 3000,
        functions=["commands.c:commands", "str_chr.c", "case_diffs.c", "stralloc_opys.c", "stralloc_opyb.c"],
        stubs=["substdio_get: ideal stream", "stralloc_ready/readyplus: arena"],
        assumes=["input: N arbitrary non-NUL bytes, then end of input; one read error at any position; table: mail, rcpt(flush), q(flush), default(flush)"],
        outside=["longer inputs", "NUL bytes inside command lines (meaning undocumented)"],
        claim="commands() executes every complete line exactly once and in order, matches the verb case-insensitively, strips one CR, accepts bare LF, "
              "passes the rest after the spaces as argument, runs the flush hook, and has consumed nothing beyond the line when the handler runs",
        expect_witnesses=cmd_wit))
    obls.append(Obl("constmap_lemma", "constmap.c",
        progs=[Prog("constmap.c")], repo=["case_diffb.c"], backend="cadical",
        grid=[{"NE": 2, "EL": 2, "QL": 2}] if q else
             [{"NE": ne, "EL": el, "QL": ql} for (ne, el, ql) in [(1, 1, 1), (2, 2, 2), (2, 2, 3), (1, 3, 3), (1, 4, 4)]],   # (2,3,3) and (3,2,2) also close (450-500 s) but need 11 GB each
        unwind_default=lambda p: p["NE"] * (p["EL"] + 1) + 2,
        unwind=lambda p: {"constmap": p["NE"] + 1, "hash": max(p["EL"], p["QL"]) + 1, "case_diffb": p["QL"] + 1,
                          "constmap_init~h <= cm->mask": 66, "constmap_init~while (h &&": 3},
        timeout=1500 if q else 3000,
        functions=["constmap.c:constmap_init", "constmap.c:constmap", "constmap.c:hash", "constmap.c:constmap_free", "case_diffb.c"],
        assumes=["table: NE entries of EL non-NUL bytes, NUL-separated; key: QL arbitrary bytes; malloc does not fail"],
        outside=["larger tables (more than 64 entries change the bucket count)", "colon mode (not used by qmail-smtpd)"],
        claim="constmap_init + constmap find a key iff some entry equals it case-insensitively (the contract used where constmap is cut)",
        expect_witnesses=lambda p: ["done"] + (["found", "not_found_same_length", "found_other_case"] if p["EL"] == p["QL"] else [])))
    return obls
