/* C08 - qmail-newmrh.c main(): what goes into control/morercpthosts.cdb for a
 * control/morercpthosts file of N bytes (all byte values, any read error).
 *
 * Real code: qmail-newmrh.c main, case_lowerb.c, stralloc_pend.c (strerr_die cut to its
 * _exit: the text of the complaint is not checked); getln/substdio = ideal streams (layer 0); cdbmss_start/add/finish are
 * cut and replaced by a recorder (the writer itself: C11 cdb_writer / cdb_round_trip).
 *
 * Oracle.  qmail-smtpd(8): "If rcpthosts and morercpthosts both exist, morercpthosts is
 * effectively appended to rcpthosts", so the file has the syntax of rcpthosts
 * (qmail-control(5): comments allowed in rcpthosts, trailing spaces and tabs allowed in
 * any control file; one entry per line, empty lines no entry, a last line without newline
 * counts - same reference reader as ctlread.c).  Property C08 / rcpthosts(): domains are
 * matched case-insensitively "including the compiled extra list", and rcpthosts() looks
 * the lower-cased domain up with an exact cdb_seek: so every entry must be stored
 * lower-cased (harness/C08/rcpthosts.c assumes exactly that of the cdb keys).  Data: empty
 * (rcpthosts() ignores it; the task statement asks for empty data).
 * qmail-newmrh(8): "If there is a problem with control/morercpthosts, qmail-newmrh
 * complains and leaves control/morercpthosts.cdb alone."  "... updated atomically":
 * everything is written to control/morercpthosts.tmp, finished, fsynced, closed, and only
 * then renamed; any failure (chdir, open, read, every writer call, fsync, close, rename)
 * ends in exit 111 with the old cdb in place.
 * Silent in the documents: files containing NUL (keys not compared), umask.
 */
#include "verif.h"
#include <errno.h>
#include <sys/stat.h>
char auto_qmail[] = "/var/qmail";      /* before the extern declaration of unknown size in auto_qmail.h */
#include "gen_qmail-newmrh.c"

#ifndef N
#define N 5
#endif
#define MAXE ((N + 1) / 2 + 1)

unsigned char in[N ? N : 1];
unsigned int err_at;                      /* read error before byte err_at (> N: never) */
unsigned char f_chdir, f_openr, f_opent, f_start, f_finish, f_fsync, f_close, f_rename;
unsigned int f_add_at;                    /* the f_add_at-th cdbmss_add fails (>= MAXE: never) */

void sym_inputs(void)
{
#ifdef REPLAY
#include "replay_inputs.inc"
#else
  SYM_ARR(in); SYM(err_at); SYM(f_chdir); SYM(f_openr); SYM(f_opent); SYM(f_start); SYM(f_finish); SYM(f_fsync); SYM(f_close); SYM(f_rename); SYM(f_add_at);
#endif
}

/* strerr_die(): the complaint text on stderr is not part of the property; cut to its exit (strerr_die.c: strerr_warn(...); _exit(e)) */
struct strerr strerr_sys;
void vf__exit(int status);
void strerr_die(int e, char *x1, char *x2, char *x3, char *x4, char *x5, char *x6, struct strerr *se)
{
  CHECK(x1 != 0, "a complaint has a text");
  vf__exit(e);
}

static unsigned int inpos, failed;
static unsigned int started, finished, synced, closed_tmp, renamed, opened_in, opened_tmp;
static unsigned char klog[N + 1]; static unsigned int klen[MAXE], nkeys, kpos, data_nonempty;

int ideal_getc(substdio *s)
{
  if (s != &ssin) return -1;
  if (inpos == err_at) { failed = 1; return -2; }
  if (inpos >= N) return -1;
  return in[inpos++];
}
int ideal_putc(substdio *s, unsigned char c) { return 0; }     /* the complaint on stderr */
int ideal_flush(substdio *s) { return 0; }

static int fail(unsigned char f) { if (f & 1) { failed = 1; errno = EIO; return 1; } return 0; }

mode_t vf_umask(mode_t m) { return 0; }
int vf_chdir(const char *d) { CHECK(d == auto_qmail, "works in the qmail home"); return fail(f_chdir) ? -1 : 0; }
int open_read(const char *fn)
{
  CHECK(strcmp(fn, "control/morercpthosts") == 0, "reads control/morercpthosts");
  if (fail(f_openr)) return -1;
  opened_in = 1; return 3;
}
int open_trunc(const char *fn)
{
  CHECK(strcmp(fn, "control/morercpthosts.tmp") == 0, "C08(newmrh): output goes to control/morercpthosts.tmp, never to the cdb itself");
  if (fail(f_opent)) return -1;
  opened_tmp = 1; return 4;
}
int cdbmss_start(struct cdbmss *c, int fd)
{
  CHECK(fd == 4 && opened_tmp && !started, "the database is written to the temporary file");
  if (fail(f_start)) return -1;
  started = 1; return 0;
}
int cdbmss_add(struct cdbmss *c, unsigned char *key, unsigned int keylen, unsigned char *data, unsigned int datalen)
{
  unsigned int i;
  CHECK(started && !finished, "records are added between start and finish");
  if (nkeys == f_add_at) { failed = 1; errno = EIO; return -1; }
  CHECK(nkeys < MAXE && kpos + keylen <= N + 1, "no more keys / key bytes than the file can hold");
  ASSUME(nkeys < MAXE && kpos + keylen <= N + 1);
  for (i = 0; i < N + 1; ++i) { if (i >= keylen) break; klog[kpos + i] = key[i]; }
  kpos += keylen;
  klen[nkeys++] = keylen;
  if (datalen) data_nonempty = 1;
  return 0;
}
int cdbmss_finish(struct cdbmss *c)
{
  CHECK(started && !finished, "finish once, after start");
  if (fail(f_finish)) return -1;
  finished = 1; return 0;
}
int vf_fsync(int fd)
{
  CHECK(fd == 4 && finished, "C08(newmrh): the temporary file is synced after the writer has finished");
  if (fail(f_fsync)) return -1;
  synced = 1; return 0;
}
int vf_close(int fd)
{
  if (fd != 4) return 0;
  if (fail(f_close)) return -1;
  closed_tmp = 1; return 0;
}
int vf_rename(const char *a, const char *b)
{
  CHECK(strcmp(a, "control/morercpthosts.tmp") == 0 && strcmp(b, "control/morercpthosts.cdb") == 0, "C08(newmrh): the temporary file replaces control/morercpthosts.cdb");
  CHECK(finished && synced && closed_tmp, "C08(newmrh): only a finished, synced, closed database replaces control/morercpthosts.cdb");
  CHECK(!failed, "C08(newmrh): after a problem the cdb is left alone");
  if (fail(f_rename)) return -1;
  renamed = 1; return 0;
}

void vf__exit(int status)
{
  CHECK(status == 111, "C08(newmrh): qmail-newmrh complains with exit code 111");
  CHECK(failed, "it complains only when something went wrong");
  CHECK(!renamed, "C08(newmrh): on any complaint control/morercpthosts.cdb is left alone");
  if (err_at <= N && inpos == err_at && opened_tmp) WITNESS("read_error_111");
  if (started && !finished && nkeys == f_add_at) WITNESS("add_failed_111");
  if (synced && !closed_tmp) WITNESS("close_failed_111");
  if (closed_tmp) WITNESS("rename_failed_111");
  WITNESS("complaint_111");
  PATH_END();
#ifdef VERIF_CBMC
  __CPROVER_assume(0);
#endif
}

/* ---- reference reader: entries of the file (see ctlread.c), lower-cased */
static unsigned char ref[N + 1]; static unsigned int rlen[MAXE], nref, rpos;
static void ref_entries(void)
{
  unsigned int pos = 0, k, j, e, eol;
  for (k = 0; k < N + 1; ++k) {
    if (pos >= N) break;
    e = pos;
    for (j = 0; j < N + 1; ++j) { if (e >= N || in[e] == '\n') break; ++e; }
    eol = e;
    for (j = 0; j < N + 1; ++j) { if (e <= pos || (in[e - 1] != ' ' && in[e - 1] != '\t')) break; --e; }
    if (e > pos && in[pos] != '#') {
      for (j = 0; j < N; ++j) {
        unsigned char c;
        if (pos + j >= e) break;
        c = in[pos + j]; if (c >= 'A' && c <= 'Z') c = (unsigned char) (c + 32);
        ref[rpos++] = c;
      }
      rlen[nref++] = e - pos;
    }
    pos = eol + 1;
  }
}

void vmain(void)
{
  unsigned int i, nul = 0;
  int rc;
  sym_inputs();
  stralloc_ready(&line, 0);
  rc = newmrh_main();
  CHECK(rc == 0, "main returns 0 or exits 111");
  CHECK(!failed, "C08(newmrh): success is reported only if nothing went wrong");
  CHECK(opened_in && started && finished && synced && closed_tmp && renamed, "C08(newmrh): success means the new cdb is in place: finished, synced, closed, renamed");
  CHECK(!data_nonempty, "the entries carry no data");
  for (i = 0; i < N; ++i) if (!in[i]) nul = 1;
  if (nul) { WITNESS("nul_in_file_undetermined"); return; }
  ref_entries();
  CHECK(nkeys == nref, "C08(newmrh): one key per entry of the file (comments, empty lines dropped), each exactly once");
  for (i = 0; i < MAXE; ++i) { if (i >= nref || i >= nkeys) break; CHECK(klen[i] == rlen[i], "C08(newmrh): key = the entry without trailing spaces and tabs"); }
  CHECK(kpos == rpos, "key bytes = entry bytes");
  for (i = 0; i < N + 1; ++i) { if (i >= rpos || i >= kpos) break; CHECK(klog[i] == ref[i], "C08(newmrh): keys are the entries in file order, lower-cased"); }
  if (nkeys == 0) WITNESS("empty_database_installed");
#if N >= 1
  for (i = 0; i < N; ++i) if (in[i] >= 'A' && in[i] <= 'Z' && nkeys == 1 && in[0] != '#') WITNESS("upper_case_lowered");
  if (nkeys == 1 && klen[0] == N) WITNESS("last_line_without_newline_counts");
#endif
#if N >= 3
  if (nkeys >= 2) WITNESS("two_keys");
  if (nkeys == 1 && in[0] == '#') WITNESS("comment_then_key");
  if (nkeys == 1 && klen[0] == 1 && in[1] != '\n' && in[2] != '\n') WITNESS("trailing_blanks_removed");
#endif
  WITNESS("installed");
}
