/* C08 - rcpthosts.c rcpthosts(): the recipient-host policy against its documentation.
 * Encoded from /repo: rcpthosts.c rcpthosts, byte_rchr.c, case_lowerb.c, stralloc_opyb.c,
 * byte_copy.c.
 * Cut: constmap() -> case-insensitive linear search over table 1 (control/rcpthosts;
 *      contract of constmap_init+constmap: constmap_lemma);  cdb_seek() -> exact search
 *      over table 2 (control/morercpthosts.cdb, keys lower-cased by qmail-newmrh), may fail
 *      (its own round trip is C11).
 * Reference (qmail-smtpd(8) rcpthosts / morercpthosts, property C08): without a rcpthosts
 * file everything is allowed; an address without '@' is allowed; otherwise the domain D
 * (after the last '@') is allowed iff some entry E of rcpthosts or morercpthosts equals D,
 * or E starts with '.' and D ends with E - case-insensitively.  A read error of the cdb
 * is reported as -1 unless rcpthosts already allowed the domain. */
#include "verif.h"
#include "gen_rcpthosts.c"

#ifndef N
#define N 5
#endif
#define T_N 2
#define T_L 3

char buf[N + 1];
char tab1[T_N * (T_L + 1)], tab2[T_N * (T_L + 1)];
#define E1(i) (tab1 + (i) * (T_L + 1))
#define E2(i) (tab2 + (i) * (T_L + 1))
unsigned char have_rh, have_cdb;
unsigned int cdb_fail_at;

void sym_inputs(void)
{
#ifdef REPLAY
#include "replay_inputs.inc"
#else
  SYM_ARR(buf); SYM_ARR(tab1); SYM_ARR(tab2); SYM(have_rh); SYM(have_cdb); SYM(cdb_fail_at);
#endif
}

static unsigned char lc(unsigned char c) { return (c >= 'A' && c <= 'Z') ? (unsigned char) (c + 32) : c; }
static unsigned int elen(const char *e) { unsigned int i, n = 0; for (i = 0; i < T_L; ++i) { if (!e[i]) break; ++n; } return n; }

static unsigned int n_cdb; static int cdb_failed;

char *constmap(struct constmap *cm, char *s, int len)
{
  unsigned int k, i;
  CHECK(cm == &maprh, "rcpthosts consults the rcpthosts map");
  for (k = 0; k < T_N; ++k) {
    unsigned int el = elen(E1(k)); int same = 1;
    if (el == 0 || (int) el != len) continue;
    for (i = 0; i < T_L; ++i) { if (i >= el) break; if (lc((unsigned char) E1(k)[i]) != lc((unsigned char) s[i])) same = 0; }
    if (same) return "";
  }
  return (char *) 0;
}

int cdb_seek(int fd, char *key, unsigned int len, uint32 *dlen)
{
  unsigned int k, i;
  CHECK(have_cdb && fd == 5, "the cdb is consulted only if it was opened");
  if (n_cdb++ == cdb_fail_at) { cdb_failed = 1; return -1; }
  for (k = 0; k < T_N; ++k) {
    unsigned int el = elen(E2(k)); int same = 1;
    if (el == 0 || el != len) continue;
    for (i = 0; i < T_L; ++i) { if (i >= el) break; if (E2(k)[i] != key[i]) same = 0; }
    if (same) { *dlen = 0; return 1; }
  }
  return 0;
}

/* ---- reference */
static int ref_entry(const char *e, const char *d, unsigned int dl)
{
  unsigned int el = elen(e), i, off;
  if (el == 0 || el > dl) return 0;
  if (el != dl && e[0] != '.') return 0;
  off = dl - el;
  for (i = 0; i < T_L; ++i) { if (i >= el) break; if (lc((unsigned char) e[i]) != lc((unsigned char) d[off + i])) return 0; }
  return 1;
}

void vmain(void)
{
  unsigned int i, k, at = N;
  int r, m1 = 0, m2 = 0;
  char orig[N + 1];
  sym_inputs();
  for (i = 0; i < N; ++i) { ASSUME(buf[i] != 0); orig[i] = buf[i]; }
  buf[N] = 0;
  for (k = 0; k < T_N; ++k) { E1(k)[T_L] = 0; E2(k)[T_L] = 0; }
  for (i = 0; i < sizeof tab2; ++i) ASSUME(!(tab2[i] >= 'A' && tab2[i] <= 'Z'));   /* qmail-newmrh lower-cases the keys */
  ASSUME(have_rh <= 1 && have_cdb <= 1);
  flagrh = have_rh; fdmrh = have_cdb ? 5 : -1;
  stralloc_ready(&host, 1);

  r = rcpthosts(buf, N);

  for (i = 0; i < N; ++i) CHECK(buf[i] == orig[i], "the caller's address is not modified");
  for (i = 0; i < N; ++i) if (orig[i] == '@') at = i;
  if (at < N) {
    for (k = 0; k < T_N; ++k) { if (ref_entry(E1(k), orig + at + 1, N - at - 1)) m1 = 1; if (have_cdb && ref_entry(E2(k), orig + at + 1, N - at - 1)) m2 = 1; }
  }
  if (!have_rh) { CHECK(r == 1, "C08: without a rcpthosts file every recipient is allowed"); WITNESS("no_rcpthosts_file"); return; }
  if (at == N) { CHECK(r == 1, "C08: addresses without @ are always allowed"); WITNESS("no_at_sign"); return; }
  CHECK(r == 1 || r == 0 || r == -1, "verdict is yes, no or trouble");
  if (r == 1) CHECK(m1 || m2, "C08: a recipient is allowed only if its domain matches rcpthosts/morercpthosts exactly or by dot-suffix wildcard");
  if (r == 0) CHECK(!m1 && !m2 && !cdb_failed, "C08: a listed domain is not refused, and trouble is not reported as 'no'");
  if (r == -1) CHECK(cdb_failed && !m1, "trouble only after a cdb read error, and not if rcpthosts already allows the domain");
  if (!cdb_failed) CHECK(r == (m1 || m2), "C08: verdict = reference matcher");
  if (r == 1 && m1 && !m2) { for (k = 0; k < T_N; ++k) if (E1(k)[0] == '.' && elen(E1(k)) < N - at - 1 && ref_entry(E1(k), orig + at + 1, N - at - 1)) WITNESS("wildcard_match"); }
  if (r == 1 && m1) { for (i = 0; i < N; ++i) if (orig[i] >= 'A' && orig[i] <= 'Z' && i > at) WITNESS("mixed_case_match"); }
  if (r == 1 && !m1 && m2) WITNESS("morercpthosts_match");
  if (r == 0) WITNESS("refused");
  if (r == -1) WITNESS("cdb_trouble");
  WITNESS("done");
}
