/* C08 - ipme.c ipme_is(): "local IP-literal domains are replaced" (qmail-smtpd(8),
 * localiphost: box@[d.d.d.d] is rewritten when "d.d.d.d is a local IP address") rests on
 * this lookup; addrparse_ref (addrparse.c) cuts it to a symbolic verdict.
 *
 * Encoded from /repo: ipme.c ipme_is (+ the early return of ipme_init once the table is
 * ready).  The table of local addresses is pre-filled by the harness: NE entries (grid),
 * all address bytes and the unused pref fields symbolic, capacity 3, stale entries beyond
 * len symbolic too.  ipme_init()'s interface enumeration (socket, SIOCGIFCONF ioctls) is
 * NOT driven - it is kernel-interface code outside the technique; its entry points are
 * stubbed with "not reached".
 * Reference: the address is local iff it equals one of the NE table entries (all 4 bytes).
 */
#include "verif.h"
#include <stdarg.h>
#include "gen_ipme.c"

#ifndef NE
#define NE 2
#endif
#define TCAP 3

unsigned char tab[TCAP][4];
int prefs[TCAP];
unsigned char q[4];

void sym_inputs(void)
{
#ifdef REPLAY
#include "replay_inputs.inc"
#else
  unsigned int _ia, _ib;
  for (_ia = 0; _ia < TCAP; ++_ia) { for (_ib = 0; _ib < 4; ++_ib) SYM(tab[_ia][_ib]); SYM(prefs[_ia]); }
  SYM_ARR(q);
#endif
}

/* nothing below may be reached once the table is ready */
int vf_socket(int d, int t, int p) { CHECK(0, "ipme_is does not rebuild a table that is ready"); return -1; }
int vf_ioctl(int fd, unsigned long req, ...) { CHECK(0, "ipme_is does not rebuild a table that is ready"); return -1; }
int vf_close(int fd) { CHECK(0, "ipme_is does not rebuild a table that is ready"); return -1; }
int ipalloc_readyplus(ipalloc *x, unsigned int n) { CHECK(0, "ipme_is does not rebuild a table that is ready"); return 0; }
int ipalloc_append(ipalloc *x, struct ip_mx *i) { CHECK(0, "ipme_is does not rebuild a table that is ready"); return 0; }
int stralloc_ready(stralloc *x, unsigned int n) { CHECK(0, "ipme_is does not rebuild a table that is ready"); return 0; }

void vmain(void)
{
  static struct ip_mx ix[TCAP];
  struct ip_address ip;
  unsigned int i, k;
  int r, want = 0, first = -1;

  sym_inputs();
  for (i = 0; i < TCAP; ++i) { for (k = 0; k < 4; ++k) ix[i].ip.d[k] = tab[i][k]; ix[i].pref = prefs[i]; }
  for (k = 0; k < 4; ++k) ip.d[k] = q[k];
  ipme.ix = ix; ipme.len = NE; ipme.a = TCAP; ipmeok = 1;

  r = ipme_is(&ip);

  for (i = 0; i < NE; ++i)
    if (tab[i][0] == q[0] && tab[i][1] == q[1] && tab[i][2] == q[2] && tab[i][3] == q[3]) { want = 1; if (first < 0) first = (int) i; }
  CHECK(r == want, "C08(localiphost): an address is local iff it equals an entry of the table of local addresses");
  for (k = 0; k < 4; ++k) CHECK(ip.d[k] == q[k], "the caller's address is not modified");
  CHECK(ipme.len == NE && ipme.ix == ix, "the table is not modified");
  for (i = 0; i < TCAP; ++i) for (k = 0; k < 4; ++k) CHECK(ix[i].ip.d[k] == tab[i][k], "the table entries are not modified");
  if (want) { if (first == NE - 1) WITNESS("local_last_entry"); WITNESS("local"); }
  else {
#if NE >= 1
    if (tab[0][0] == q[0] && tab[0][1] == q[1] && tab[0][2] == q[2]) WITNESS("differs_in_last_byte_only");
#endif
#if NE < TCAP
    if (tab[NE][0] == q[0] && tab[NE][1] == q[1] && tab[NE][2] == q[2] && tab[NE][3] == q[3]) WITNESS("stale_entry_beyond_len_ignored");
#endif
    WITNESS("not_local");
  }
}
