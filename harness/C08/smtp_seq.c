/* C08 - qmail-smtpd.c: every sequence of K SMTP commands with symbolic arguments.
 * Encoded from /repo: qmail-smtpd.c smtp_helo, smtp_ehlo, smtp_rset, smtp_mail, smtp_rcpt,
 * smtp_data, smtp_quit, smtp_help, err_*, dohelo, addrparse, bmfcheck, addrallowed, out,
 * flush, smtp_greet, acceptmessage, put; case_diffs.c, str_chr.c, byte_rchr.c, fmt_ulong.c
 * and the stralloc units.
 * Cut:  rcpthosts()  -> reference matcher over a symbolic table (rcpthosts.c itself is
 *                       proved equal to that matcher in obligation rcpthosts_ref);
 *       constmap()   -> case-insensitive linear search over the badmailfrom table (contract
 *                       of constmap_init+constmap: obligation constmap_lemma);
 *       qmail_*, received, blast -> observing stubs (their side of the story is C07).
 * The commands are applied by calling the handlers of the smtpcommands[] table directly;
 * commands() itself (verb matching, argument splitting) is obligation commands_ref.
 *
 * Ghost transaction state kept by the harness from the replies alone:
 *   g_seen   a MAIL was answered 250 and no HELO/EHLO/RSET/completed DATA came since
 *   g_from   the address accepted by that MAIL
 *   g_rcpt   "T" addr NUL for every RCPT answered 250 since that MAIL
 * Reference (RFC 821 sequencing, qmail-smtpd(8), property C08):
 *   - RCPT without transaction => 503; DATA without transaction or without accepted
 *     recipient => 503 and no queue connection;
 *   - RCPT is answered 250 iff the address parses, the sender is not on badmailfrom
 *     (whole address or "@host", case-insensitive), and RELAYCLIENT is set (then its value
 *     is appended) or the domain is listed in rcpthosts (no rcpthosts file / no '@':
 *     allowed); refused ones are 553 (policy) or 555 (syntax / too long);
 *   - at DATA the queue gets exactly g_from and g_rcpt; a completed DATA ends the
 *     transaction;
 *   - NOOP, VRFY, HELP and unknown verbs change nothing. */
#include "verif.h"
void blast();
#include "gen_qmail-smtpd.c"

#ifndef K
#define K 3
#endif
#ifndef A
#define A 5                     /* argument bytes */
#endif
#define RH_N 2
#define RH_L 4
#define BMF_L 5
#define RELAY_L 2
#define ADDRMAX (A + RELAY_L + 1)
#define RCAP (K * (ADDRMAX + 2))

/* ---- inputs */
unsigned char cmd[K];
char arg[K * (A + 1)];
#define ARG(k) (arg + (k) * (A + 1))
unsigned char have_relay; char relay[RELAY_L + 1];
unsigned char have_rh;                       /* control/rcpthosts exists */
char rh_tab[RH_N * (RH_L + 1)];              /* entries, NUL-terminated, "" = unused */
#define RH(i) (rh_tab + (i) * (RH_L + 1))
unsigned char have_bmf; char bmf_tab[BMF_L + 1];
unsigned char open_fails[K]; unsigned char qstatus[K];

void sym_inputs(void)
{
#ifdef REPLAY
#include "replay_inputs.inc"
#else
  SYM_FEED();
  SYM_ARR(cmd); SYM_ARR(arg); SYM(have_relay); SYM_ARR(relay); SYM(have_rh); SYM_ARR(rh_tab);
  SYM(have_bmf); SYM_ARR(bmf_tab); SYM_ARR(open_fails); SYM_ARR(qstatus);
#endif
}

/* ---- ghost state and observations */
static int g_seen, g_barf;
static char g_from[ADDRMAX + 1];
static unsigned char g_rcpt[RCAP]; static unsigned int g_rlen, g_nr;
static unsigned int cur;                      /* index of the command being executed */
static char code[3]; static unsigned int col; static int first_line_done;
static unsigned int n_open, n_open_ok, n_from, n_close, n_env;
static int rh_calls, rh_verdict; static char rh_arg[ADDRMAX + 1];
static int in_data;
static int completed_data, accepted_rcpt_seen, refused_553_seen, relay_accept_seen, barf_refusal_seen;

static unsigned char lc(unsigned char c) { return (c >= 'A' && c <= 'Z') ? (unsigned char) (c + 32) : c; }

/* ---- reference: is the domain of buf[0..len) listed?  rcpthosts entry E matches domain D
 * iff D == E, or E starts with '.' and D ends with E; case-insensitive; no '@' => yes */
static int ref_entry_matches(const char *e, const char *d, unsigned int dl)
{
  unsigned int el = 0, i, off;
  for (i = 0; i < RH_L; ++i) { if (!e[i]) break; ++el; }
  if (el == 0 || el > dl) return 0;
  if (el != dl && e[0] != '.') return 0;
  off = dl - el;
  for (i = 0; i < RH_L; ++i) { if (i >= el) break; if (lc((unsigned char) e[i]) != lc((unsigned char) d[off + i])) return 0; }
  return 1;
}
static int ref_allowed(const char *buf, unsigned int len)
{
  unsigned int i, at = len, k;
  if (!have_rh) return 1;
  for (i = 0; i < ADDRMAX; ++i) { if (i >= len) break; if (buf[i] == '@') at = i; }
  if (at == len) return 1;
  for (k = 0; k < RH_N; ++k) if (ref_entry_matches(RH(k), buf + at + 1, len - at - 1)) return 1;
  return 0;
}
/* badmailfrom: entry equals the whole address, or entry is "@host" and equals the address
 * from its last '@' on; case-insensitive */
static int ref_eq_ci(const char *e, const char *s, unsigned int sl)
{
  unsigned int i;
  for (i = 0; i <= BMF_L; ++i) {
    if (i == sl) return e[i] == 0;
    if (!e[i] || lc((unsigned char) e[i]) != lc((unsigned char) s[i])) return 0;
  }
  return 0;
}
static int ref_bmf(const char *a)
{
  unsigned int len = 0, i, at;
  if (!have_bmf) return 0;
  for (i = 0; i < ADDRMAX; ++i) { if (!a[i]) break; ++len; }
  if (ref_eq_ci(bmf_tab, a, len)) return 1;
  at = len;
  for (i = 0; i < ADDRMAX; ++i) { if (i >= len) break; if (a[i] == '@') at = i; }
  if (at < len && ref_eq_ci(bmf_tab, a + at, len - at)) return 1;
  return 0;
}

/* ---- cut callees */
int rcpthosts(char *buf, int len)
{
  unsigned int i;
  ++rh_calls;
  CHECK(len >= 0 && len <= ADDRMAX && buf[len] == 0, "addrallowed passes the parsed, NUL-terminated address");
  for (i = 0; i <= ADDRMAX; ++i) { rh_arg[i] = buf[i]; if (!buf[i]) break; }
  rh_verdict = ref_allowed(buf, (unsigned int) len);
  return rh_verdict;
}
char *constmap(struct constmap *cm, char *s, int len)
{
  CHECK(cm == &mapbmf && have_bmf, "the only map consulted here is badmailfrom");
  if (len >= 0 && ref_eq_ci(bmf_tab, s, (unsigned int) len)) return "";
  return (char *) 0;
}
int ipme_is(struct ip_address *ip) { return 0; }

int qmail_open(struct qmail *qq)
{
  CHECK(g_seen && g_nr >= 1, "C08: a message is submitted only after MAIL and at least one accepted RCPT of the same transaction");
  CHECK(in_data, "the queue is opened by DATA only");
  ++n_open;
  if (open_fails[cur]) return -1;
  ++n_open_ok; n_from = n_env = 0;
  return 0;
}
unsigned long qmail_qp(struct qmail *qq) { return 42; }
void qmail_fail(struct qmail *qq) {}
void qmail_from(struct qmail *qq, char *s)
{
  unsigned int i; int same = 1;
  for (i = 0; i <= ADDRMAX; ++i) { if (s[i] != g_from[i]) { same = 0; break; } if (!s[i]) break; }
  CHECK(same, "C08: envelope sender is the address of the most recent accepted MAIL");
  ++n_from;
}
void qmail_put(struct qmail *qq, char *s, unsigned int len)
{
  unsigned int i; int same;
  if (!n_from) return;                       /* message bytes: C07 */
  same = (len == g_rlen);
  for (i = 0; i < RCAP; ++i) { if (i >= len || i >= g_rlen) break; if ((unsigned char) s[i] != g_rcpt[i]) same = 0; }
  CHECK(same, "C08: envelope recipients are exactly the RCPTs answered 250 since that MAIL, in order");
  ++n_env;
}
void qmail_to(struct qmail *qq, char *s) { CHECK(0, "qmail-smtpd passes recipients as a block"); }
char *qmail_close(struct qmail *qq)
{
  ++n_close;
  CHECK(n_from == 1 && n_env == 1, "sender and recipient block are handed over once each");
  if (qstatus[cur] == 1) return "Dqq permanent problem (#5.3.0)";
  if (qstatus[cur] == 2) return "Zqq temporary problem (#4.3.0)";
  return "";
}
void received(struct qmail *qq, char *p, char *l, char *rip, char *rh, char *ri, char *helo) {}
void blast(int *hops) { *hops = 0; }

/* ---- streams */
int ideal_putc(substdio *s, unsigned char c)
{
  CHECK(s == &ssout, "replies go to the SMTP connection");
  if (!first_line_done && col < 3) code[col] = (char) c;
  ++col;
  if (c == '\n') { first_line_done = 1; col = 0; }
  return 0;
}
int ideal_flush(substdio *s) { return 0; }
int ideal_getc(substdio *s) { CHECK(0, "no input is read: blast is cut"); return -1; }
ssize_t timeoutread(int t, int fd, char *buf, size_t len) { CHECK(0, "not reached"); return 0; }
ssize_t timeoutwrite(int t, int fd, const void *buf, size_t len) { CHECK(0, "not reached"); return 0; }
time_t vf_time(time_t *t) { return 7; }

static int quitting;
void vf__exit(int s)
{
  CHECK(quitting && s == 0, "only QUIT ends the session here");
  WITNESS("quit");
  PATH_END();
#ifdef VERIF_CBMC
  __CPROVER_assume(0);
#endif
}

static int is(const char *c) { return code[0] == c[0] && code[1] == c[1] && code[2] == c[2]; }

static void snapshot_addr(char *dst)
{
  unsigned int i;
  CHECK(addr.len >= 1 && addr.len <= ADDRMAX + 1 && addr.s[addr.len - 1] == 0, "accepted address is NUL-terminated and fits");
  for (i = 0; i <= ADDRMAX; ++i) { dst[i] = addr.s[i]; if (!addr.s[i]) break; }
}

void vmain(void)
{
  unsigned int k, i;
  sym_inputs();
  for (k = 0; k < K; ++k) { ARG(k)[A] = 0; ASSUME(cmd[k] <= 7 && open_fails[k] <= 1 && qstatus[k] <= 2); }
  relay[RELAY_L] = 0; bmf_tab[BMF_L] = 0;
  for (i = 0; i < RH_N; ++i) RH(i)[RH_L] = 0;
  ASSUME(have_relay <= 1 && have_rh <= 1 && have_bmf <= 1);
  ASSUME(!have_bmf || bmf_tab[0] != 0);          /* control_readfile drops empty lines */

  /* what setup() would have established */
  relayclient = have_relay ? relay : (char *) 0;
  bmfok = have_bmf; liphostok = 0;
  remotehost = "unknown"; remoteip = "unknown"; local = "unknown"; remoteinfo = 0;
  databytes = 0;
  greeting.s = "h"; greeting.len = 1; greeting.a = 2;
  /* give every stralloc its arena slot now, in a fixed order: otherwise the slot (a pointer)
   * depends on which command came first and every later byte access is a pointer case split */
  stralloc_ready(&addr, 1); stralloc_ready(&helohost, 1); stralloc_ready(&mailfrom, 1); stralloc_ready(&rcptto, 1);

  for (k = 0; k < K; ++k) {
    char *a = ARG(k);
    unsigned int opens_before = n_open;
    cur = k; col = 0; first_line_done = 0; code[0] = code[1] = code[2] = '?'; rh_calls = 0;
    switch (cmd[k]) {
      case 0: smtp_helo(a); CHECK(is("250"), "HELO is answered 250"); g_seen = 0; break;
      case 1: smtp_ehlo(a); CHECK(is("250"), "EHLO is answered 250"); g_seen = 0; break;
      case 2: smtp_rset(a); CHECK(is("250"), "RSET is answered 250"); g_seen = 0; break;
      case 3:
        smtp_mail(a);
        if (is("250")) {
          g_seen = 1; g_rlen = 0; g_nr = 0;
          snapshot_addr(g_from);
          g_barf = ref_bmf(g_from);
        } else CHECK(is("555"), "MAIL is answered 250 or 555");
        break;
      case 4:
        smtp_rcpt(a);
        if (!g_seen) { CHECK(is("503"), "C08: RCPT outside a transaction is answered 503"); break; }
        if (is("250")) {
          char t[ADDRMAX + 1]; unsigned int n = 0;
          CHECK(!g_barf, "C08: no recipient is accepted while the sender is on badmailfrom");
          snapshot_addr(t);
          for (i = 0; i <= ADDRMAX; ++i) { if (!t[i]) break; ++n; }
          if (have_relay) {
            unsigned int rl = 0;
            for (i = 0; i < RELAY_L; ++i) { if (!relay[i]) break; ++rl; }
            CHECK(rh_calls == 0, "relay client: rcpthosts is not consulted");
            CHECK(n >= rl, "C08: RELAYCLIENT value is appended to the accepted recipient");
            for (i = 0; i < RELAY_L; ++i) { if (i >= rl) break; CHECK(n >= rl && t[n - rl + i] == relay[i], "C08: RELAYCLIENT value is appended to the accepted recipient"); }
            relay_accept_seen = 1;
          } else {
            int same = 1;
            CHECK(rh_calls == 1 && rh_verdict == 1, "C08: without RELAYCLIENT a recipient is accepted only if its domain is listed in rcpthosts");
            for (i = 0; i <= ADDRMAX; ++i) { if (t[i] != rh_arg[i]) { same = 0; break; } if (!t[i]) break; }
            CHECK(same, "C08: the address that was checked is the address that is queued");
          }
          CHECK(g_rlen + n + 2 <= RCAP, "harness sizing"); ASSUME(g_rlen + n + 2 <= RCAP);
          g_rcpt[g_rlen++] = 'T';
          for (i = 0; i < ADDRMAX; ++i) { if (i >= n) break; g_rcpt[g_rlen++] = (unsigned char) t[i]; }
          g_rcpt[g_rlen++] = 0;
          ++g_nr; accepted_rcpt_seen = 1;
        } else if (is("553")) {
          CHECK(g_barf || (!have_relay && rh_calls == 1 && rh_verdict == 0),
                "C08: 553 only for a badmailfrom sender or a domain that is not listed");
          if (g_barf) barf_refusal_seen = 1; else refused_553_seen = 1;
        } else CHECK(is("555"), "RCPT is answered 250, 553, 555 (or 503)");
        break;
      case 5:
        in_data = 1; smtp_data(a); in_data = 0;
        if (!g_seen || g_nr == 0) {
          CHECK(is("503") && n_open == opens_before, "C08: DATA without MAIL or without accepted RCPT: 503, nothing submitted");
        } else {
          CHECK(n_open == opens_before + 1, "DATA opens one queue connection");
          CHECK(open_fails[k] ? is("451") : is("354"), "DATA: 354, or 451 without queue connection");
          g_seen = 0;                              /* C08: a completed DATA ends the transaction */
          if (!open_fails[k]) completed_data = 1;
        }
        break;
      case 6:
        switch (a[0] & 3) { case 0: err_noop(a); CHECK(is("250"), "NOOP 250"); break;
                            case 1: err_vrfy(a); CHECK(is("252"), "VRFY 252"); break;
                            case 2: smtp_help(a); CHECK(is("214"), "HELP 214"); break;
                            default: err_unimpl(a); CHECK(is("502"), "unknown verb 502"); }
        break;
      default:
        quitting = 1; smtp_quit(a);
        CHECK(0, "QUIT does not return");
    }
    CHECK(n_open == opens_before || cmd[k] == 5, "only DATA talks to the queue");
    /* the daemon's own idea of the transaction agrees with the replies it gave */
    CHECK((seenmail != 0) == (g_seen != 0), "C08: HELO/EHLO/RSET/completed DATA end the transaction, an accepted MAIL starts one");
    if (g_seen) {
      int same = (rcptto.len == g_rlen);
      for (i = 0; i < RCAP; ++i) { if (i >= g_rlen || i >= rcptto.len) break; if ((unsigned char) rcptto.s[i] != g_rcpt[i]) same = 0; }
      CHECK(same, "C08: recipient list = RCPTs answered 250 since the most recent MAIL");
    }
  }
  if (completed_data) WITNESS("message_submitted");
  if (relay_accept_seen) WITNESS("rcpt_accepted_relayclient");
  if (refused_553_seen) WITNESS("rcpt_not_in_rcpthosts");
  if (barf_refusal_seen) WITNESS("rcpt_refused_badmailfrom");
  if (accepted_rcpt_seen && !have_relay && have_rh) WITNESS("rcpt_listed_in_rcpthosts");
}
