/* C08 - qmail-smtpd.c addrparse(): every argument string of up to N bytes.
 * Encoded from /repo: qmail-smtpd.c addrparse, str_chr.c, byte_rchr.c, ip.c, scan_ulong.c,
 * stralloc units (arena).  ipme_is() -> symbolic verdict, argument checked.
 * Reference = the documented forms (RFC 821 paths as qmail accepts them):
 *   "<" [ "@" route ":" ] mailbox ">" ...      address ends at the first unquoted '>'
 *   [ junk ":" ] *SP [ "@" route ":" ] mailbox [ " " ... ]   no '<': ends at unquoted ' '
 *   inside the mailbox a backslash quotes the next byte and is removed, '"' toggles quoting
 *   and is removed; the result is NUL-terminated; more than 900 bytes (with the NUL) fails;
 *   with localiphost, a domain of the form [d.d.d.d] that is one of our addresses is
 *   replaced by the localiphost name.
 * Independent of that re-statement, checked directly: the result is a C string whose
 * length field counts the NUL, it has no interior NUL, and (without substitution) its bytes
 * are a subsequence of the argument - addrparse invents nothing.
 * TPL=1: template "<x@[" d "." d "." d "." d ? ? with symbolic d and two symbolic tail bytes:
 * the localiphost substitution (not reachable inside 8 free bytes). */
#include "verif.h"
void blast();
#include "gen_qmail-smtpd.c"

#ifndef TPL
#define TPL 0
#endif
#if TPL == 1
#undef N
#define N 14
#endif
#ifndef N
#define N 8
#endif
#ifdef LIMIT            /* parametric length-limit obligation: see plan.py (addrparse_limit) */
#define LIP "lhlhlhlhlhlh"
#define LIPLEN 12
#else
#define LIP "lh"
#define LIPLEN 2
#endif

char arg[N + 1];
unsigned char lipok, ipme_yes;

void sym_inputs(void)
{
#ifdef REPLAY
#include "replay_inputs.inc"
#else
  SYM_ARR(arg); SYM(lipok); SYM(ipme_yes);
#endif
}

static int ipme_calls; static unsigned char ipme_arg[4];
int ipme_is(struct ip_address *ip)
{
  ++ipme_calls;
  ipme_arg[0] = ip->d[0]; ipme_arg[1] = ip->d[1]; ipme_arg[2] = ip->d[2]; ipme_arg[3] = ip->d[3];
  return ipme_yes;
}

int ideal_putc(substdio *s, unsigned char c) { CHECK(0, "addrparse writes nothing"); return 0; }
int ideal_flush(substdio *s) { return 0; }
int ideal_getc(substdio *s) { CHECK(0, "addrparse reads nothing"); return -1; }
void vf__exit(int s)
{
  CHECK(0, "addrparse does not exit (no allocation failure with the arena)");
  PATH_END();
#ifdef VERIF_CBMC
  __CPROVER_assume(0);
#endif
}

static char want[N + 4]; static unsigned int wn;

static void ref_parse(void)
{
  unsigned int p = 0, i, lt = N + 1;
  char term; int esc = 0, quoted = 0;
  for (i = 0; i < N; ++i) { if (!arg[i]) break; if (arg[i] == '<') { lt = i; break; } }
  if (lt <= N) { p = lt + 1; term = '>'; }
  else {
    term = ' ';
    for (i = 0; i < N; ++i) { if (!arg[p] || arg[p] == ':') break; ++p; }
    if (arg[p] == ':') ++p;
    for (i = 0; i < N; ++i) { if (arg[p] != ' ') break; ++p; }
  }
  if (arg[p] == '@')
    for (i = 0; i < N; ++i) { if (!arg[p]) break; if (arg[p++] == ':') break; }
  wn = 0;
  for (i = 0; i < N; ++i) {
    char c = arg[p];
    if (!c) break;
    ++p;
    if (esc) { want[wn++] = c; esc = 0; }
    else if (!quoted && c == term) break;
    else if (c == '\\') esc = 1;
    else if (c == '"') quoted = !quoted;
    else want[wn++] = c;
  }
  want[wn] = 0;
}

void vmain(void)
{
  unsigned int i, j; int r, subst = 0;
  sym_inputs();
  arg[N] = 0;
  ASSUME(lipok <= 1 && ipme_yes <= 1);
#if TPL == 1
  arg[0] = '<'; arg[1] = 'x'; arg[2] = '@'; arg[3] = '[';
  arg[5] = '.'; arg[7] = '.'; arg[9] = '.';      /* arg[4,6,8,10] and arg[11..13] stay symbolic */
#endif
  liphostok = lipok; liphost.s = LIP; liphost.len = LIPLEN; liphost.a = LIPLEN + 1;
  stralloc_ready(&addr, 1);

  r = addrparse(arg);

  ref_parse();
#ifndef LIMIT
  CHECK(r == 1, "C08: an argument of a few bytes is never 'too long'");
#endif
  CHECK(addr.len >= 1 && addr.s[addr.len - 1] == 0, "C08: parsed address is NUL-terminated and len counts the NUL");
  for (i = 0; i + 1 < N + 4; ++i) { if (i + 1 >= addr.len) break; CHECK(addr.s[i] != 0, "C08: no NUL inside the parsed address"); }

#if TPL == 1
  /* domain (after the last '@') of the form "[" num "." num "." num "." num "]", num = digits */
  {
    unsigned int at = wn, p, oct[4], k, ok = 1, big = 0;
    for (i = 0; i < N; ++i) { if (i >= wn) break; if (want[i] == '@') at = i; }
    p = at + 1;
    if (at == wn || want[p] != '[') ok = 0;
    ++p;
    for (k = 0; k < 4; ++k) {
      unsigned int nd = 0, v = 0;
      for (i = 0; i < N; ++i) { if (!ok || want[p] < '0' || want[p] > '9') break; v = v * 10 + (unsigned int) (want[p] - '0'); if (v > 255) big = 1; ++p; ++nd; }
      if (!nd) ok = 0;
      oct[k] = v;
      if (ok && k < 3) { if (want[p] == '.') ++p; else ok = 0; }
    }
    if (ok && (want[p] != ']' || p + 1 != wn)) ok = 0;
    if (lipok && ok) {
      CHECK(ipme_calls == 1, "C08: a bracketed dotted-decimal domain is looked up among our own addresses");
      if (!big) CHECK(ipme_arg[0] == oct[0] && ipme_arg[1] == oct[1] && ipme_arg[2] == oct[2] && ipme_arg[3] == oct[3], "C08: ... with its four octets");
      if (ipme_yes) {
        subst = 1;
        CHECK(addr.len == at + 1 + LIPLEN + 1, "C08: a local IP-literal domain is replaced by localiphost (length)");
        for (i = 0; i < N; ++i) { if (i > at || i + 1 >= addr.len) break; CHECK(addr.s[i] == want[i], "C08: mailbox and '@' are kept"); }
        CHECK(addr.len == at + 2 + LIPLEN && addr.s[at + 1] == 'l' && addr.s[at + 2] == 'h', "C08: a local IP-literal domain is replaced by localiphost before the rcpthosts check");
#ifdef LIMIT
        /* the length limit (900 in the real code, LIMIT in this regenerated copy) applies to the
         * address that will be checked and queued, i.e. AFTER the substitution */
        CHECK((r == 0) == (addr.len > LIMIT), "C08: an address is refused iff the address as rewritten exceeds the length limit");
        if (r == 0) WITNESS("too_long_after_substitution");
#endif
        WITNESS("localiphost_substituted");
      } else WITNESS("literal_not_ours");
    } else {
      if (lipok && at < wn && want[at + 1] == '[') WITNESS("literal_malformed");
    }
    if (!lipok) CHECK(ipme_calls == 0, "without localiphost no address is looked up");
  }
#else
  CHECK(ipme_calls == 0, "no IP literal fits into N bytes");
#endif
#ifdef LIMIT
  if (!subst) CHECK((r == 0) == (addr.len > LIMIT), "C08: an address is refused iff it exceeds the length limit");
#endif
  if (!subst) {
    CHECK(addr.len == wn + 1, "C08: parsed address has the documented form (length)");
    for (i = 0; i < N; ++i) { if (i >= wn || i + 1 >= addr.len) break; CHECK(addr.s[i] == want[i], "C08: parsed address has the documented form (bytes)"); }
    /* invents nothing: bytes of addr are a subsequence of arg */
    j = 0;
    for (i = 0; i < N; ++i) { if (!arg[i]) break; if (j + 1 < addr.len && addr.s[j] == arg[i]) ++j; }
    CHECK(j + 1 == addr.len, "C08: every byte of the parsed address comes from the argument, in order");
  }
#if TPL == 0
  if (wn == N - 2 && arg[0] == '<' && arg[N - 1] == '>') WITNESS("bracketed_full_length");
  if (wn >= 1 && arg[0] == '<' && arg[1] == '@') WITNESS("source_route_stripped");
  if (wn >= 2 && arg[0] != '<' && arg[1] == ':' && arg[2] == ' ') WITNESS("bracketless_colon_form");
  if (wn == 1 && want[0] == '>' ) WITNESS("quoted_terminator_kept");
#endif
  WITNESS("parsed");
}
