/* C08 - constmap.c: constmap_init + constmap == case-insensitive linear search.
 * This is the contract by which smtp_seq (badmailfrom) and rcpthosts_ref (rcpthosts) cut
 * constmap().  Encoded from /repo: constmap.c constmap_init, constmap, hash; case_diffb.c.
 * Sizes concrete per query: NE entries of EL bytes each (control_readfile's layout: entries
 * separated by NUL), query of QL bytes; all contents symbolic (entries without NUL). */
#include "verif.h"
#include "gen_constmap.c"

#ifndef NE
#define NE 2
#endif
#ifndef EL
#define EL 2
#endif
#ifndef QL
#define QL 2
#endif
#define TL (NE * (EL + 1))

char tab[TL];
char qry[QL + 1];

void sym_inputs(void)
{
#ifdef REPLAY
#include "replay_inputs.inc"
#else
  SYM_ARR(tab); SYM_ARR(qry);
#endif
}

static unsigned char lc(unsigned char c) { return (c >= 'A' && c <= 'Z') ? (unsigned char) (c + 32) : c; }

void vmain(void)
{
  static struct constmap cm;
  unsigned int k, i; int want = 0, wantk = -1; char *r;
  sym_inputs();
  for (k = 0; k < NE; ++k) { for (i = 0; i < EL; ++i) ASSUME(tab[k * (EL + 1) + i] != 0); tab[k * (EL + 1) + EL] = 0; }
  CHECK(constmap_init(&cm, tab, TL, 0) == 1, "constmap_init succeeds");
  r = constmap(&cm, qry, QL);
  for (k = 0; k < NE; ++k) {
    int same = (EL == QL);
    for (i = 0; i < EL; ++i) { if (i >= QL) break; if (lc((unsigned char) tab[k * (EL + 1) + i]) != lc((unsigned char) qry[i])) same = 0; }
    if (same) { want = 1; wantk = (int) k; }
  }
  CHECK((r != 0) == want, "constmap finds a key iff some entry equals it case-insensitively");
  if (r) WITNESS("found");     /* (the returned pointer is only tested against 0 by these callers; without colon mode it points behind the entry) */
  else if (EL == QL) WITNESS("not_found_same_length");
  if (r && qry[0] != tab[wantk >= 0 ? wantk * (EL + 1) : 0]) WITNESS("found_other_case");
  WITNESS("done");
  constmap_free(&cm);
}
