/* C08 - commands.c commands(): the SMTP command reader, every input of N bytes then EOF.
 * Encoded from /repo: commands.c commands, str_chr.c, case_diffs.c, stralloc_opys.c,
 * stralloc_opyb.c, byte_copy.c (stralloc_readyplus: arena); input through the ideal stream.
 * Reference (RFC 821 command lines as qmail-smtpd(8) accepts them, property C08): a command
 * line ends at LF; one CR before it is dropped (so CR LF and bare LF both end a line); the
 * verb is the text up to the first space and is matched case-insensitively against the
 * table, unknown verbs go to the table's last entry; the argument is the rest after the
 * spaces; the entry's flush hook runs after the handler; every complete line is executed
 * exactly once, in order, and when a handler runs nothing beyond its own line has been
 * consumed (pipelined commands stay in the stream); an unterminated last line is not
 * executed; end of input returns 0, a read error -1.
 * Assumed: no NUL byte in the input (what a NUL inside a command line means is not documented). */
#include "verif.h"
#include "gen_commands.c"

#ifndef N
#define N 7
#endif

unsigned char in[N + 1];
unsigned int errpos;                    /* read error instead of byte errpos (none if > N) */

void sym_inputs(void)
{
#ifdef REPLAY
#include "replay_inputs.inc"
#else
  SYM_FEED();
  SYM_ARR(in); SYM(errpos);
#endif
}

static substdio ss;
static unsigned int inpos, line_start, n_calls, n_flush;
static int pending_flush, err_injected;
static int saw_crlf, saw_barelf, saw_mixedcase, saw_unknown, saw_arg, saw_second;

int ideal_getc(substdio *s)
{
  CHECK(s == &ss, "commands reads the stream it was given");
  CHECK(!pending_flush, "C08: the flush hook runs before the next line is read");
  if (inpos == errpos && !err_injected) { err_injected = 1; return -2; }
  if (inpos >= N) return -1;
  return in[inpos++];
}
int ideal_putc(substdio *s, unsigned char c) { CHECK(0, "commands writes nothing"); return 0; }
int ideal_flush(substdio *s) { return 0; }

static unsigned char lc(unsigned char c) { return (c >= 'A' && c <= 'Z') ? (unsigned char) (c + 32) : c; }

static const char *const texts[3] = { "mail", "rcpt", "q" };

/* the handler for table entry `which` was called with arg: compare with the reference
 * reading of the line in[line_start .. inpos) */
static void handler(unsigned int which, char *arg, int has_flush)
{
  unsigned int end, vend, astart, i, k, expect = 3;
  CHECK(inpos > line_start && in[inpos - 1] == '\n', "C08: a handler runs when its line is complete");
  for (i = line_start; i + 1 < inpos; ++i) CHECK(in[i] != '\n', "C08: nothing beyond the command's own line has been consumed");
  end = inpos - 1;
  if (end > line_start && in[end - 1] == '\r') { --end; saw_crlf = 1; } else saw_barelf = 1;
  vend = end;
  for (i = line_start; i < N; ++i) { if (i >= end) break; if (in[i] == ' ') { vend = i; break; } }
  astart = vend;
  for (i = 0; i < N; ++i) { if (astart < end && in[astart] == ' ') ++astart; else break; }
  for (k = 0; k < 3; ++k) {
    unsigned int tl = 0; int same = 1;
    for (i = 0; i < 4; ++i) { if (!texts[k][i]) break; ++tl; }
    if (tl != vend - line_start) continue;
    for (i = 0; i < 4; ++i) { if (i >= tl) break; if (lc(in[line_start + i]) != (unsigned char) texts[k][i]) same = 0; else if (in[line_start + i] != (unsigned char) texts[k][i]) saw_mixedcase = 1; }
    if (same) { expect = k; break; }
  }
  CHECK(which == expect, "C08: verb is matched case-insensitively, unknown verbs go to the default entry");
  for (i = 0; i < N; ++i) {
    if (astart + i >= end) break;
    CHECK((unsigned char) arg[i] == in[astart + i], "C08: argument = rest of the line after the spaces, CR dropped");
  }
  CHECK(arg[end - astart] == 0, "C08: argument is terminated where the line ends");
  if (expect == 3) saw_unknown = 1;
  if (end > astart) saw_arg = 1;
  if (n_calls >= 1) saw_second = 1;
  ++n_calls;
  line_start = inpos;
  pending_flush = has_flush;
}
static void f_mail(char *arg) { handler(0, arg, 0); }
static void f_rcpt(char *arg) { handler(1, arg, 1); }
static void f_q(char *arg) { handler(2, arg, 1); }
static void f_unknown(char *arg) { handler(3, arg, 1); }
static void f_flush(void) { CHECK(pending_flush, "flush hook only for entries that have one, once"); pending_flush = 0; ++n_flush; }

static struct commands tab[] = {
  { "mail", f_mail, 0 }, { "rcpt", f_rcpt, f_flush }, { "q", f_q, f_flush }, { 0, f_unknown, f_flush }
};

void vmain(void)
{
  unsigned int i, nlf = 0, lim;
  int r;
  sym_inputs();
  for (i = 0; i < N; ++i) ASSUME(in[i] != 0);
  stralloc_ready(&cmd, 1);

  r = commands(&ss, tab);

  lim = (errpos < N) ? errpos : N;
  for (i = 0; i < N; ++i) { if (i >= lim) break; if (in[i] == '\n') ++nlf; }
  CHECK(r == (errpos <= N && errpos <= inpos && err_injected ? -1 : 0), "C08: end of input returns 0, a read error -1");
  CHECK(n_calls == nlf, "C08: every complete line is executed exactly once; an unterminated line is not executed");
  CHECK(!pending_flush, "flush hook ran");
  if (saw_crlf && saw_barelf) WITNESS("crlf_and_bare_lf");
  if (saw_mixedcase) WITNESS("mixed_case_verb");
  if (saw_unknown && saw_arg) WITNESS("unknown_verb_with_argument");
  if (saw_second) WITNESS("pipelined_second_command");
  if (r == -1) WITNESS("read_error");
  if (r == 0 && N > 0 && in[N - 1] != '\n') WITNESS("unterminated_last_line");
  WITNESS("end_of_input");
}
