/* C08 - from the control/rcpthosts FILE to the verdict on a recipient: the composition
 * rcpthosts_init() [control_readfile -> constmap_init, open of morercpthosts.cdb] +
 * rcpthosts() on the real units, so that what rcpthosts_ref / smtp_seq assume about a
 * symbolic TABLE is tied to the bytes of the file.
 *
 * Encoded from /repo: rcpthosts.c (rcpthosts_init, rcpthosts), control.c (control_readfile,
 * striptrailingwhitespace), constmap.c (constmap_init, constmap, hash), case_diffb.c,
 * case_lowerb.c, byte_rchr.c, stralloc_*.c, byte_copy.c.
 * Stubs: getln/substdio = ideal stream; open_read (rcpthosts: present / ENOENT / EIO;
 * morercpthosts.cdb: present / ENOENT / EIO); cdb_seek = exact search over a symbolic table
 * of lower-cased keys, may fail (as in rcpthosts.c; what qmail-newmrh writes: newmrh_keys,
 * the cdb format: C11); malloc = five typed arrays in call order (as C10 constmap_lemma);
 * stralloc_ready/readyplus = arena.
 *
 * Reference (qmail-smtpd(8) rcpthosts/morercpthosts, qmail-control(5), property C08):
 *   no rcpthosts file: every recipient is allowed; trouble reading it or opening the cdb:
 *   rcpthosts_init() == -1 (qmail-smtpd then refuses to run);
 *   otherwise the entries are the lines of the file without trailing spaces/tabs, empty
 *   lines and lines starting with '#' dropped, a last line without newline counts; a
 *   recipient without '@' is allowed; one with domain D (after the last '@') is allowed iff
 *   some entry of the file or key of the cdb equals D, or starts with '.' and D ends with
 *   it, ignoring case; a cdb read error is -1 unless the file already allows D.
 * Files containing NUL are outside (documents silent; memory safety for them: C20 ctl.c).
 *
 * Sizes per query (grid): N bytes of file, R bytes of recipient, AT = position of the
 * recipient's last '@' (AT = R: none; the grid points AT = 0..R together cover every
 * recipient of R bytes), CDB = 1 morercpthosts.cdb present / 0 absent or unreadable.  All
 * other bytes, the open results, the read-error position and the cdb key are symbolic.
 * Cost: the real constmap over a symbolic file (symbolic entry count, symbolic hash
 * buckets) is what limits this composition to N <= 4..5, R <= 5; the pieces are checked
 * at larger sizes by control_readfile_ref, rcpthosts_ref and constmap_lemma. */
#include "verif.h"
#include <errno.h>
#include <stddef.h>
#include "gen_control.c"
#include "gen_rcpthosts.c"

#ifndef N
#define N 4
#endif
#ifndef R
#define R 4
#endif
#ifndef AT
#define AT 1                      /* position of the last '@' in the recipient (grid); AT == R: no '@' at all */
#endif
#ifndef CDB
#define CDB 1                     /* 1: morercpthosts.cdb exists; 0: it does not, or cannot be opened (grid) */
#endif
#define MAXE ((N + 1) / 2 + 1)
#define T_N 1
#define T_L 3

unsigned char in[N ? N : 1];      /* control/rcpthosts */
char buf[R + 1];                  /* the recipient address */
char tab2[T_N * (T_L + 1)];       /* keys of morercpthosts.cdb */
#define E2(i) (tab2 + (i) * (T_L + 1))
unsigned int open_mode, cdb_mode, err_at, cdb_fail_at;

void sym_inputs(void)
{
#ifdef REPLAY
#include "replay_inputs.inc"
#else
  SYM_ARR(in); SYM_ARR(buf); SYM_ARR(tab2); SYM(open_mode); SYM(cdb_mode); SYM(err_at); SYM(cdb_fail_at);
#endif
}

static unsigned int inpos, err_hit, n_cdb, cdb_failed;

int ideal_getc(substdio *s)
{
  if (inpos == err_at) { err_hit = 1; return -2; }
  if (inpos >= N) return -1;
  return in[inpos++];
}
int ideal_putc(substdio *s, unsigned char c) { return 0; }
int ideal_flush(substdio *s) { return 0; }

int open_read(const char *fn)
{
  unsigned int mode; int is_rh = strcmp(fn, "control/rcpthosts") == 0;
  if (is_rh) mode = open_mode;
  else {
    CHECK(strcmp(fn, "control/morercpthosts.cdb") == 0, "only rcpthosts and morercpthosts.cdb are opened");
#if CDB
    mode = 0;
#else
    mode = cdb_mode == 2 ? 2 : 1;
#endif
  }
  if (mode == 1) { errno = ENOENT; return -1; }
  if (mode == 2) { errno = EIO; return -1; }
  return is_rh ? 3 : 5;
}
int vf_close(int fd) { return 0; }

/* constmap_init asks for five arrays, in this order */
static int a_first[64];
static char *a_input[MAXE];
static int a_inputlen[MAXE];
static constmap_hash a_hash[MAXE];
static int a_next[MAXE];
static int nalloc;
void *vf_malloc(size_t n)
{
  void *p = 0; size_t cap = 0;
  switch (nalloc++) {
    case 0: p = a_first; cap = sizeof a_first; break;
    case 1: p = a_input; cap = sizeof a_input; break;
    case 2: p = a_inputlen; cap = sizeof a_inputlen; break;
    case 3: p = a_hash; cap = sizeof a_hash; break;
    case 4: p = a_next; cap = sizeof a_next; break;
    default: CHECK(0, "constmap_init allocates exactly five arrays (harness sizing)");
  }
  CHECK(n <= cap, "constmap_init: table sizes fit the entry count (harness sizing)");
  ASSUME(n <= cap);
  return p;
}
void vf_free(void *p) { (void) p; }

static unsigned int elen2(const char *e) { unsigned int i, n = 0; for (i = 0; i < T_L; ++i) { if (!e[i]) break; ++n; } return n; }

int cdb_seek(int fd, char *key, unsigned int len, uint32 *dlen)
{
  unsigned int k, i;
  CHECK(cdb_mode == 0 && fd == 5, "the cdb is consulted only if it was opened");
  if (n_cdb++ == cdb_fail_at) { cdb_failed = 1; return -1; }
  for (k = 0; k < T_N; ++k) {
    unsigned int el = elen2(E2(k)); int same = 1;
    if (el == 0 || el != len) continue;
    for (i = 0; i < T_L; ++i) { if (i >= el) break; if (E2(k)[i] != key[i]) same = 0; }
    if (same) { *dlen = 0; return 1; }
  }
  return 0;
}

/* ---- reference */
static unsigned char lc(unsigned char c) { return (c >= 'A' && c <= 'Z') ? (unsigned char) (c + 32) : c; }
/* does the entry e[0..el) allow the domain d[0..dl)? */
static int ref_entry(const unsigned char *e, unsigned int el, const unsigned char *d, unsigned int dl)
{
  unsigned int i, off;
  if (el == 0 || el > dl) return 0;
  if (el != dl && e[0] != '.') return 0;
  off = dl - el;
  for (i = 0; i < (N > T_L ? N : T_L); ++i) { if (i >= el) break; if (lc(e[i]) != lc(d[off + i])) return 0; }
  return 1;
}
static unsigned int nref;
static int ref_file_allows(const unsigned char *d, unsigned int dl)
{
  unsigned int pos = 0, k, j, e, eol; int m = 0;
  for (k = 0; k < N + 1; ++k) {
    if (pos >= N) break;
    e = pos;
    for (j = 0; j < N + 1; ++j) { if (e >= N || in[e] == '\n') break; ++e; }
    eol = e;
    for (j = 0; j < N + 1; ++j) { if (e <= pos || (in[e - 1] != ' ' && in[e - 1] != '\t')) break; --e; }
    if (e > pos && in[pos] != '#') { ++nref; if (ref_entry(in + pos, e - pos, d, dl)) m = 1; }
    pos = eol + 1;
  }
  return m;
}

void vmain(void)
{
  unsigned int i, k, at = R;
  int ri, r, m1, m2 = 0;
  char orig[R + 1];

  sym_inputs();
  ASSUME(open_mode <= 2 && cdb_mode <= 2);
  ASSUME(CDB ? cdb_mode == 0 : cdb_mode != 0);
  for (i = 0; i < N; ++i) ASSUME(in[i] != 0);
  for (i = 0; i < R; ++i) { ASSUME(buf[i] != 0); orig[i] = buf[i]; }
  /* the position of the last '@' is concrete per query (grid AT = 0..R covers every recipient of R bytes) */
  for (i = 0; i < R; ++i) { if (i == AT) ASSUME(buf[i] == '@'); if (i > AT || AT == R) ASSUME(buf[i] != '@'); }
  buf[R] = 0;
  for (k = 0; k < T_N; ++k) E2(k)[T_L] = 0;
  for (i = 0; i < sizeof tab2; ++i) ASSUME(!(tab2[i] >= 'A' && tab2[i] <= 'Z'));   /* qmail-newmrh lower-cases the keys (newmrh_keys) */
  stralloc_ready(&rh, 0); stralloc_ready(&line, 0); stralloc_ready(&host, 0);       /* arena slots in a fixed order */

  ri = rcpthosts_init();

  if (open_mode == 2 || (open_mode == 0 && (err_hit || cdb_mode == 2))) {
    CHECK(ri == -1, "C08: trouble with rcpthosts / morercpthosts.cdb is reported (qmail-smtpd refuses to run), never taken for an empty list");
    if (open_mode == 0 && err_hit) WITNESS("read_error");
    if (open_mode == 0 && !err_hit) WITNESS("cdb_open_error");
    WITNESS("init_trouble");
    return;
  }
  CHECK(ri == 0, "rcpthosts_init succeeds when the files are readable or absent");

  r = rcpthosts(buf, R);

  for (i = 0; i < R; ++i) CHECK(buf[i] == orig[i], "the caller's address is not modified");
  if (open_mode == 1) { CHECK(r == 1, "C08: without a rcpthosts file every recipient is allowed"); WITNESS("no_rcpthosts_file"); return; }
  for (i = 0; i < R; ++i) if (orig[i] == '@') at = i;
  if (at == R) { CHECK(r == 1, "C08: addresses without @ are always allowed"); WITNESS("no_at_sign"); return; }
  m1 = ref_file_allows((unsigned char *) orig + at + 1, R - at - 1);
  if (cdb_mode == 0) for (k = 0; k < T_N; ++k) if (ref_entry((unsigned char *) E2(k), elen2(E2(k)), (unsigned char *) orig + at + 1, R - at - 1)) m2 = 1;
  CHECK(r == 1 || r == 0 || r == -1, "verdict is yes, no or trouble");
  if (r == 1) CHECK(m1 || m2, "C08: a recipient is allowed only if its domain matches an entry of the rcpthosts file / morercpthosts exactly or by dot-suffix wildcard");
  if (r == 0) CHECK(!m1 && !m2 && !cdb_failed, "C08: a domain listed in the rcpthosts file is not refused, and trouble is not reported as 'no'");
  if (r == -1) CHECK(cdb_failed && !m1, "trouble only after a cdb read error, and not if the rcpthosts file already allows the domain");
  if (!cdb_failed) CHECK(r == (m1 || m2), "C08: verdict = reference policy over the entries of the file");
  if (r == 1 && m1 && nref >= 2) WITNESS("listed_in_two_line_file");
  if (r == 1 && m1) { for (i = 0; i < R; ++i) if (orig[i] >= 'A' && orig[i] <= 'Z' && i > at) WITNESS("mixed_case_match"); }
  if (r == 1 && m1 && !m2 && at + 2 < R) { for (i = 0; i < N; ++i) if (in[i] == '.' && (i == 0 || in[i - 1] == '\n') && orig[at + 1] != '.') WITNESS("wildcard_match"); }
  if (r == 1 && m1 && !m2) { for (i = 1; i < N; ++i) if ((in[i] == ' ' || in[i] == '\t') && in[i - 1] != '\n' && in[i - 1] != ' ' && in[i - 1] != '\t' && nref == 1) WITNESS("entry_with_trailing_blank_matches"); }
  if (r == 1 && m1 && in[0] == '#') WITNESS("match_after_comment_line");
  if (r == 1 && !m1 && m2) WITNESS("morercpthosts_match");
  if (r == 0 && nref == 0) WITNESS("empty_list_refuses");
  if (r == 0) WITNESS("refused");
  if (r == -1) WITNESS("cdb_trouble");
  WITNESS("done");
}
