/* C08 / C10 - control.c: what the programs take out of a control FILE.
 *
 * The policy harnesses (rcpthosts.c, smtp_seq.c, C10 rewrite.c) give rcpthosts()/rewrite()
 * symbolic TABLES; harness/C20/ctl.c proves the readers memory safe.  This harness decides
 * that the table is exactly what the file says.
 *
 * Encoded from /repo: control.c (control_init, control_readfile, control_readline,
 * control_rldef, control_readint, striptrailingwhitespace), scan_ulong.c, stralloc_*.c,
 * byte_copy.c, str_len.c.   getln/substdio: ideal stream (contract: C20 l0 lemmas);
 * open_read/close: stubs; stralloc_ready/readyplus: arena.
 *
 * Reference reader, from the documents (qmail-control(5): "Comments are allowed in
 * badmailfrom, locals, percenthack, qmqpservers, rcpthosts, smtproutes, virtualdomains.
 * Trailing spaces and tabs are allowed in any control file."; qmail-send(8), qmail-qmqpc(8):
 * "... one per line"; qmail-control(5) table of defaults: "me" / a literal / none;
 * qmail-inject(8), qmail-send(8): "Default: me, if that is supplied; otherwise the
 * literal name ..."), and from the text of the task (empty lines ignored, a final line
 * without newline counts, single-line files: first line only):
 *   a file is a sequence of lines, each ended by LF except possibly the last; trailing
 *   spaces and tabs of a line do not count; a line that is then empty, or starts with '#',
 *   is no entry; every other line is one entry, in file order.
 * KIND 0  control_readfile: 1 and the NUL-separated entry list if the file exists; if it
 *         does not exist: with flagme and a control/me that was read, 1 and that name as
 *         the only entry, otherwise 0; -1 on any other error (open or read).
 * KIND 1  control_rldef (= control_readline + defaults): 1 and the first line without its
 *         trailing blanks; missing file: me if asked for and supplied, else the literal
 *         default, else 0; -1 on error.
 * KIND 2  control_readint: a first line that is a decimal number (after removing trailing
 *         blanks) yields 1 and that number; missing file: 0 and the caller's default
 *         untouched; -1 on error.
 * Silent in the documents, both behaviours accepted (the witnesses show the classes are
 * non-empty): NUL bytes in a line (the list is NUL-separated, so such a line cannot be
 * one entry); an existing numeric file whose first line is not a plain decimal number
 * fitting an int (empty, sign, junk after the digits) - 0 with the default kept, or 1
 * with some value; contents of the stralloc when the answer is not 1.
 * Not required here (not in the documents): that the descriptor is closed.
 * Pre-state: the caller's stralloc and control.c's shared line buffer hold arbitrary stale
 * contents and lengths (they were used for other control files before).
 */
#include "verif.h"
#include <errno.h>
#include "gen_control.c"

#ifndef N
#define N 5
#endif
#ifndef M
#define M 2                 /* bytes of control/me */
#endif
#ifndef KIND
#define KIND 0
#endif
#define LMAX ((N > M ? N : M) + 1)

unsigned char in[N ? N : 1];      /* the control file */
unsigned char mein[M ? M : 1];    /* control/me */
unsigned int open_mode;           /* 0 file exists, 1 ENOENT, 2 another error */
unsigned int me_mode;             /* the same for control/me */
unsigned int err_at;              /* a read() error strikes before byte err_at is delivered (> N: never) */
unsigned int flagme_in, use_def;
char defstr[3];                   /* literal default, 0..2 bytes */
int val0;                         /* caller's default for control_readint */
#ifndef ARENA_CAP
#define ARENA_CAP (2 * N + 4)
#endif
unsigned char stale_sa[ARENA_CAP], stale_line[ARENA_CAP];   /* the buffers were used before: control.c's line buffer is shared by all readers */
unsigned int stale_salen, stale_linelen;

void sym_inputs(void)
{
#ifdef REPLAY
#include "replay_inputs.inc"
#else
  SYM_ARR(in); SYM_ARR(mein); SYM(open_mode); SYM(me_mode); SYM(err_at); SYM(flagme_in); SYM(use_def); SYM_ARR(defstr); SYM(val0);
  SYM_ARR(stale_sa); SYM_ARR(stale_line); SYM(stale_salen); SYM(stale_linelen);
#endif
}

static char target[] = "control/thefile";
static unsigned int phase, inpos, mepos, err_hit, n_open, n_open_me;

int ideal_getc(substdio *s)
{
  if (phase == 0) { if (mepos >= M) return -1; return mein[mepos++]; }
  if (inpos == err_at) { err_hit = 1; return -2; }
  if (inpos >= N) return -1;
  return in[inpos++];
}
int ideal_putc(substdio *s, unsigned char c) { return 0; }
int ideal_flush(substdio *s) { return 0; }

int open_read(const char *fn)
{
  unsigned int mode;
  if (phase == 0) { CHECK(fn[8] == 'm' && fn[9] == 'e' && fn[10] == 0, "control_init reads control/me"); ++n_open_me; mode = me_mode; }
  else { CHECK(fn == target, "the file named by the caller is the one opened"); ++n_open; mode = open_mode; }
  if (mode == 1) { errno = ENOENT; return -1; }
  if (mode == 2) { errno = EIO; return -1; }
  return 3;
}
int vf_close(int fd) { return 0; }

/* ---- reference reader (see the header comment) */
/* line starting at `from`: *eol = index of its LF (or flen); returns the end of the line without trailing blanks */
static unsigned int ref_line(const unsigned char *f, unsigned int flen, unsigned int from, unsigned int *eol)
{
  unsigned int e = from, k;
  for (k = 0; k < LMAX; ++k) { if (e >= flen || f[e] == '\n') break; ++e; }
  *eol = e;
  for (k = 0; k < LMAX; ++k) { if (e <= from || (f[e - 1] != ' ' && f[e - 1] != '\t')) break; --e; }
  return e;
}
static unsigned char ref[N + 2]; static unsigned int reflen;
static void ref_entries(void)
{
  unsigned int pos = 0, k, j, eol, e;
  for (k = 0; k < N + 1; ++k) {
    if (pos >= N) break;
    e = ref_line(in, N, pos, &eol);
    if (e > pos && in[pos] != '#') {
      for (j = 0; j < N; ++j) { if (pos + j >= e) break; ref[reflen++] = in[pos + j]; }
      ref[reflen++] = 0;
    }
    pos = eol + 1;
  }
}
static int has_nul(const unsigned char *f, unsigned int from, unsigned int to)
{ unsigned int k; int r = 0; for (k = 0; k < LMAX; ++k) { if (from + k >= to) break; if (!f[from + k]) r = 1; } return r; }

void vmain(void)
{
  static stralloc sa;
  unsigned int i, eol, me_e, me_eol;
  int r, rme, me_supplied;

  sym_inputs();
  ASSUME(open_mode <= 2 && me_mode <= 2 && flagme_in <= 1 && use_def <= 1);
  defstr[2] = 0;
  stralloc_ready(&sa, 0); stralloc_ready(&line, 0); stralloc_ready(&me, 0);    /* arena slots in a fixed order */
  ASSUME(stale_salen <= ARENA_CAP && stale_linelen <= ARENA_CAP);
  for (i = 0; i < ARENA_CAP; ++i) { sa.s[i] = (char) stale_sa[i]; line.s[i] = (char) stale_line[i]; }
  sa.len = stale_salen; line.len = stale_linelen;

  /* every program starts with control_init(): control/me is read once */
  phase = 0;
  rme = control_init();
  CHECK(rme == (me_mode == 0 ? 1 : me_mode == 1 ? 0 : -1), "control_init: 1 me supplied, 0 no control/me, -1 trouble");
  CHECK(n_open_me == 1, "control/me is opened once");
  me_supplied = (me_mode == 0);
  me_e = ref_line(mein, M, 0, &me_eol);          /* the host name in control/me: its first line without trailing blanks */
  phase = 1;

#if KIND == 0
  r = control_readfile(&sa, target, (int) flagme_in);
  CHECK(r == 1 || r == 0 || r == -1, "control_readfile returns 1, 0 or -1");
  if (open_mode == 2) { CHECK(r == -1, "an open error other than 'no such file' is trouble (-1)"); WITNESS("open_error"); return; }
  if (open_mode == 1) {
    if (flagme_in && me_supplied) {
      CHECK(r == 1, "C10/C08(control): a missing file whose documented default is me yields me");
      if (!has_nul(mein, 0, me_e)) {
        CHECK(sa.len == me_e + 1, "default list = the one name in control/me");
        for (i = 0; i < M; ++i) { if (i >= me_e) break; CHECK(sa.s[i] == (char) mein[i], "default entry = control/me, trailing blanks removed"); }
        CHECK(sa.s[me_e] == 0, "default entry is NUL-terminated");
      }
      WITNESS("missing_file_default_me");
    } else {
      CHECK(r == 0, "C08(control): a missing file without default is reported as 0 (qmail-smtpd(8): without rcpthosts ... )");
      WITNESS("missing_file");
    }
    return;
  }
  CHECK(n_open == 1, "the file is opened once");
  if (err_hit) { CHECK(r == -1, "a read error is trouble (-1), never a shorter list"); WITNESS("read_error"); return; }
  CHECK(r == 1, "an existing, readable file yields 1");
  CHECK(sa.len == 0 || sa.s[sa.len - 1] == 0, "every entry is NUL-terminated");
  if (has_nul(in, 0, N)) { WITNESS("nul_in_file_undetermined"); return; }
  ref_entries();
  CHECK(sa.len == reflen, "C08/C10(control): the list holds exactly the file's entries (comments, empty lines, trailing blanks dropped)");
  for (i = 0; i < N + 1; ++i) { if (i >= reflen) break; CHECK(sa.s[i] == (char) ref[i], "C08/C10(control): entries byte for byte, in file order"); }
  if (reflen == 0) WITNESS("no_entries");
#if N >= 1
  if (reflen == N + 1) WITNESS("last_line_without_newline_counts");
#endif
#if N >= 3
  { unsigned int ne = 0; for (i = 0; i < N + 1; ++i) { if (i >= reflen) break; if (!ref[i]) ++ne; }
    if (ne >= 2) WITNESS("two_entries");
    if (ne == 1 && in[0] == '#') WITNESS("comment_then_entry");
    if (ne == 1 && reflen == 2 && in[0] != '\n' && in[1] != '\n') WITNESS("trailing_blanks_removed"); }
#endif
  WITNESS("list");
#elif KIND == 1
  r = control_rldef(&sa, target, (int) flagme_in, use_def ? defstr : (char *) 0);
  CHECK(r == 1 || r == 0 || r == -1, "control_rldef returns 1, 0 or -1");
  if (open_mode == 2) { CHECK(r == -1, "an open error other than 'no such file' is trouble (-1)"); WITNESS("open_error"); return; }
  if (open_mode == 1) {
    if (flagme_in && me_supplied) {
      CHECK(r == 1, "default: me, if that is supplied");
      if (!has_nul(mein, 0, me_e)) {
        CHECK(sa.len == me_e, "default = the name in control/me");
        for (i = 0; i < M; ++i) { if (i >= me_e) break; CHECK(sa.s[i] == (char) mein[i], "default = control/me, trailing blanks removed"); }
      }
      WITNESS("missing_file_default_me");
    } else if (use_def) {
      unsigned int dl = defstr[0] ? (defstr[1] ? 2 : 1) : 0;
      CHECK(r == 1, "otherwise the literal default");
      CHECK(sa.len == dl, "literal default, whole");
      for (i = 0; i < 2; ++i) { if (i >= dl) break; CHECK(sa.s[i] == defstr[i], "literal default byte for byte"); }
      WITNESS("missing_file_literal_default");
    } else { CHECK(r == 0, "no file and no default: 0"); WITNESS("missing_file"); }
    return;
  }
  if (err_hit) { CHECK(r == -1, "a read error is trouble (-1)"); WITNESS("read_error"); return; }
  CHECK(r == 1, "an existing, readable file yields 1");
  {
    unsigned int e = ref_line(in, N, 0, &eol);
    if (has_nul(in, 0, e)) { WITNESS("nul_in_line_undetermined"); return; }
    CHECK(sa.len == e, "C08/C10(control): the value is the first line without trailing spaces and tabs");
    for (i = 0; i < N; ++i) { if (i >= e) break; CHECK(sa.s[i] == (char) in[i], "first line byte for byte"); }
    if (eol + 1 < N) WITNESS("later_lines_ignored");
    if (e < eol) WITNESS("trailing_blanks_removed");
    if (eol == N && e == N && N) WITNESS("no_newline_at_end");
  }
  WITNESS("line");
#else
  {
    int val = val0;
    unsigned int e, alldigits = 1, v = 0;
    r = control_readint(&val, target);
    CHECK(r == 1 || r == 0 || r == -1, "control_readint returns 1, 0 or -1");
    if (open_mode == 2) { CHECK(r == -1, "open error: -1"); WITNESS("open_error"); return; }
    if (open_mode == 1) { CHECK(r == 0 && val == val0, "C08(control): missing file: 0, and the documented default set by the caller stays"); WITNESS("missing_file"); return; }
    if (err_hit) { CHECK(r == -1, "read error: -1"); WITNESS("read_error"); return; }
    CHECK(r == 1 || r == 0, "an existing, readable file is not trouble");
    e = ref_line(in, N, 0, &eol);
    for (i = 0; i < N; ++i) { if (i >= e) break; if (in[i] < '0' || in[i] > '9') alldigits = 0; else v = v * 10 + (in[i] - '0'); }
    if (e >= 1 && e <= 9 && alldigits) {
      CHECK(r == 1 && val == (int) v, "C08(control): a decimal number on the first line (trailing blanks allowed) is the value");
      if (e < eol) WITNESS("number_with_trailing_blanks");
      WITNESS("number");
    } else {
      /* documents silent: the default is kept (0) or some value is taken (1) */
      if (r == 0) { CHECK(val == val0, "0 means: the caller's default stays"); WITNESS("not_a_number_default_kept"); }
      else WITNESS("junk_after_digits_accepted");
    }
  }
#endif
}
