# kills (hand-made mutants of /repo that this check reports, see DESIGN.md):
#   delete fsync(messfd) / fsync(intdfd); delete substdio_flush before either fsync; move link(intd,todo) above fsync(intdfd);
#   cleanup(): unlink mess before intd; triggerpull() before link; `len >= ADDR` -> `len > ADDR`; die(91) -> falls through
import os, re
from vlib import Obl, Prog, REPO, borrow

UNITS = ["substdio.c", "triggerpull.c", "open_excl.c", "open_write.c", "open_read.c", "open_append.c", "open_trunc.c", "ndelay.c", "fmtqfn.c", "fmt_ulong.c", "fmt_str.c",
         "fmt_uint.c", "fmt_uint0.c", "date822fmt.c", "datetime.c", "auto_split.c", "auto_qmail.c",
         "auto_usera.c", "auto_userd.c", "auto_users.c"]
SYS = ["chdir", "umask", "getpid", "getuid", "time", "alarm", "open", "fstat", "link", "unlink", "ftruncate",
       "fsync", "write", "read", "close", "fcntl", "_exit"]

def ossified():
    m = re.search(r"^#define OSSIFIED (\d+)", open(os.path.join(REPO, "qmail-send.c")).read(), re.M)
    if not m:
        raise Exception("qmail-send.c: OSSIFIED not found")
    return int(m.group(1))

FUNCS = ["qmail-queue.c:main", "qmail-queue.c:cleanup", "qmail-queue.c:die_write", "qmail-queue.c:die_read",
         "qmail-queue.c:sigalrm", "qmail-queue.c:pidopen", "qmail-queue.c:pidfmt", "qmail-queue.c:fnnum",
         "qmail-queue.c:received_setup", "qmail-queue.c:receivedfmt", "triggerpull.c:triggerpull",
         "open_excl.c:open_excl", "open_write.c:open_write", "fmtqfn.c:fmtqfn", "date822fmt.c:date822fmt"]
STUBS = ["substdio_put/bput/flush/get/copy: buffered ideal stream (pending counter, early write-out possible at every put); "
         "contract proved on the real substdio by the C20 layer-0 lemmas",
         "file system: directory entries synchronous; inode = {len, synced_len}; fsync sets synced_len=len",
         "every system call may fail (fully symbolic tape, any number of failures); write fails after a symbolic prefix",
         "getpid/getuid/time/inode: concrete (the property does not depend on them); inituid: concrete ids",
         "sig_*: no-ops, sig_alarmcatch records the handler"]

def obligations(tier):
    oss = ossified()
    common = dict(progs=[Prog("qmail-queue.c", main_as="queue_main")], repo=UNITS, sysrename=SYS,
                  functions=FUNCS, stubs=STUBS)
    eb = [(5, 2), (7, 1)] if tier == "quick" else [(5, 2), (7, 1), (8, 1), (9, 1), (7, 2)]   # measured: x1.5 per envelope byte, E=7 ~140 s
    obls = [
        Obl("queue_order", "queue.c", defines={"MODE": 0, "OSSIFIED_SEND": oss}, std_checks=False,
            grid=[{"E": e, "B": b} for (e, b) in eb],
            unwind=lambda p: {"queue_main": p["E"] + 3, "pidopen": 11, "substdio_copy": p["B"] + 3,
                              "ref_envelope": p["E"] + 3, "is_path": 17},
            unwind_default=24, timeout=1200 if tier == "quick" else 3400, flags=["--slice-formula"],
            assumes=["envelope <= E bytes (any bytes, EOF anywhere, read error anywhere), body <= B bytes (length only), "
                     "any number of injected failures; crash instant = entry of every system call"],
            outside=["envelopes longer than E bytes in the fault/crash harness", "real user-buffer boundaries (layer-0 lemma)",
                     "signals other than ALRM", "file systems that reorder directory operations"],
            claim="C01 (a) commit-point facts at link(intd,todo); (b) durable-state invariant at every crash instant; "
                  "(c) exit 0 iff todo exists, documented exit codes for malformed envelopes and for each failing call; "
                  "(d) alarm(DEATH<OSSIFIED) before any file exists",
            expect_witnesses=["queued", "exit91_bad_letter", "exit54_eof", "exit53_write_error", "exit65", "exit66",
                              "queued_with_recipient"], **common),
        Obl("queue_alarm", "queue.c", defines={"MODE": 4, "OSSIFIED_SEND": oss}, std_checks=False,
            grid=[{"E": 5, "B": 1}],
            unwind=lambda p: {"queue_main": p["E"] + 3, "pidopen": 11, "substdio_copy": p["B"] + 3,
                              "ref_envelope": p["E"] + 3, "is_path": 17},
            unwind_default=24, timeout=900, flags=["--slice-formula"],
            assumes=["no injected failures; SIGALRM delivered just before any one system call (symbolic position); envelope <= 5 bytes"],
            claim="whenever the 24 h alarm fires, the run exits 52 and the durable-state invariant holds: a message that already has its todo entry is left "
                  "untouched, one that has not is left as a collectible leftover",
            expect_witnesses=["queued", "alarm_after_commit", "alarm_before_commit"], **common),
        Obl("queue_content", "queue.c", defines={"MODE": 1, "OSSIFIED_SEND": oss},
            grid=[{"E": 5, "B": 3}] if tier == "quick" else [{"E": 5, "B": 3}, {"E": 7, "B": 4}],
            unwind=lambda p: {"queue_main": p["E"] + 3, "pidopen": 11, "substdio_copy": p["B"] + 3,
                              "ref_envelope": p["E"] + 3, "is_path": 17},
            unwind_default=140, timeout=900,
            assumes=["no injected failures; envelope <= E bytes, body <= B bytes, all byte values"],
            claim="on success mess/N == Received line ++ body bytes and todo/N == u<uid>NUL p<pid>NUL ++ sender and recipients exactly as supplied, in order",
            expect_witnesses=["queued", "content_stored"], **common),
        Obl("queue_addrlen", "queue.c", defines={"MODE": 2, "OSSIFIED_SEND": oss, "E": 4, "B": 1}, std_checks=False,
            grid=[{"L": l, "WHO": w} for l in (1001, 1002, 1003, 1004) for w in (0, 1)],
            unwind=lambda p: {"queue_main": 1008, "pidopen": 11, "is_path": 17},
            unwind_default=24, timeout=900,
            assumes=["one address of exactly L bytes 'a' (concrete), as sender or as first recipient; no faults"],
            claim="an address of 1001/1002 bytes is accepted, of 1003/1004 bytes refused with exit 11 and nothing scheduled",
            expect_witnesses=lambda p: ["queued"] if p["L"] <= 1002 else ["exit11_too_long"], **common),
        Obl("queue_sigalrm", "queue.c", defines={"MODE": 3, "OSSIFIED_SEND": oss},
            unwind_default=24, timeout=300,
            claim="the SIGALRM handler performs no system call and exits 52 (it must not clean up)",
            expect_witnesses=["alarm_exit"], **common),
    ]
    # layer 0 (DESIGN 2.2): the ideal buffered stream used above is only as good as its contract, so the lemmas that prove that
    # contract on the REAL substdo.c / substdi.c / substdio_copy.c (anchors of this property) are decided as part of this check too
    obls += borrow("C20", ["l0_substdio_out", "l0_substdio_in", "l0_substdio_copy"], tier)
    return obls
