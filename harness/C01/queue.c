/* C01 - qmail-queue.c main(): all-or-nothing, durable queue acceptance.
 *
 * Encoded from /repo: qmail-queue.c (whole main, cleanup, die_*, pidopen, fnnum,
 * received_setup, receivedfmt, pidfmt), triggerpull.c, open_excl.c, open_write.c,
 * ndelay.c, fmtqfn.c, fmt_*.c, date822fmt.c, datetime.c.
 *
 * MODE 0 (ordering / atomicity / faults): files are {exists, len, synced_len}; the
 *   user-level buffer of ssout is a pending-byte counter that may be written out early
 *   at any put (one symbolic choice per call) and must be written at flush; every
 *   system call may fail, driven by a fully symbolic tape (any number of failures).
 *   crash_check() at the entry of EVERY stub evaluates the durable-state invariant on
 *   synced data only, so "process or machine stops before this call, unsynced data
 *   lost" is covered for every call of every path.
 * MODE 1 (content): no faults, files keep bytes: mess = Received line ++ body,
 *   todo = u<uid>\0p<pid>\0 ++ envelope as supplied (without the final empty record).
 * MODE 2 (address length boundary): one address of exactly L non-NUL bytes, L concrete
 *   per query (1001..1004), as sender (WHO 0) or as recipient (WHO 1).
 * MODE 3 (alarm handler): sigalrm() touches nothing and exits 52.
 * MODE 4 (alarm at any instant): as MODE 0 without injected failures, but SIGALRM arrives
 *   just before a symbolic system call; whatever the handler does, the durable-state
 *   invariant must survive (in particular nothing may be cleaned up after the commit).
 */
#include "verif.h"
#include <errno.h>
#include <sys/types.h>
#include <sys/stat.h>
#include <fcntl.h>
#include "gen_qmail-queue.c"
#include "auto_split.h"

#ifndef MODE
#define MODE 0
#endif
#ifndef B
#define B 2            /* max body bytes */
#endif
#ifndef E
#define E 5            /* max envelope bytes */
#endif
#ifndef L
#define L 1002
#endif
#ifndef WHO
#define WHO 0
#endif
#define TAPE 56
#ifndef OSSIFIED_SEND
#error "plan.py passes qmail-send.c's OSSIFIED"
#endif

#define MY_PID 4242
#define MY_UID 1000
#define MY_INO 12345
#define PREFIXLEN 12          /* strlen("u1000") + 1 + strlen("p4242") + 1 */

/* ---------------- symbolic inputs */
unsigned char env[E];         /* bytes available on descriptor 1 */
unsigned int envlen;          /* EOF position of descriptor 1 */
unsigned int env_errpos;      /* read error instead of byte env_errpos (>= E+1: none) */
unsigned char body[B];        /* bytes available on descriptor 0 (values matter in MODE 1) */
unsigned int bodylen;
unsigned int body_errpos;
unsigned char tape[TAPE];     /* one byte per nondeterministic environment decision */
unsigned char feedtape[8];    /* chunk sizes of substdio_feed() on the envelope descriptor (only looked at by code that feeds) */
unsigned char fill;           /* MODE 2: the byte the long address is made of */
unsigned int alarm_at;        /* MODE 0: SIGALRM arrives just before system call number alarm_at (none if out of range) */

void sym_inputs(void)
{
#ifdef REPLAY
#include "replay_inputs.inc"
#else
  SYM_ARR(env); SYM(envlen); SYM(env_errpos); SYM_ARR(body); SYM(bodylen); SYM(body_errpos);
  SYM_ARR(tape); SYM(fill); SYM(alarm_at); SYM_ARR(feedtape);
#endif
}

/* ---------------- model state */
static unsigned int tp;
static unsigned char draw(void)
{
#if MODE == 0
  if (tp < TAPE) return tape[tp++];
#endif
  return 0;
}

static int pid_x, mess_x, intd_x, todo_x;       /* directory entries (synchronous) */
static unsigned int Mlen, Msync, Ilen, Isync;   /* inode data: written / durable length */
static int trig_open, trig_ever;
static unsigned int pending;                     /* bytes accepted by ssout, not yet written */
static int viol;                                 /* first violated model clause (sticky) */
static int fault_code;                           /* exit status the first fatal injected fault must produce */
static int committed;
static int alarm_armed, files_created;
static unsigned int envpos, bodypos;
static int body_eof;
static unsigned int nstub;                       /* system calls made so far */
static unsigned int pid_open_failures, chdirs;
static void (*alarm_handler)(void);
#if MODE == 1
static unsigned char Mbytes[128 + B], Ibytes[PREFIXLEN + E + 4], pend[128 + B];
#endif

#define V(code, cond) { if (!(cond) && !viol) viol = (code); }

/* reference grammar of the envelope (qmail-queue(8)):  F sender NUL (T rcpt NUL)* NUL,
 * every address shorter than 1003 bytes.  Returns the documented exit code. */
static int ref_envelope(unsigned int *consumed)
{
#if MODE == 2
  *consumed = (WHO == 0) ? (1 + L + 1 + 1) : (2 + 1 + L + 1 + 1);
  return L >= 1003 ? 11 : 0;
#else
  unsigned int p = 0, i;
  int st = 0;           /* 0 expect F, 1 in address, 2 expect T or NUL */
  for (i = 0; i < E + 1; ++i) {
    unsigned char c;
    if (p >= envlen || p >= E) return 54;               /* EOF (or read error, handled by fault_code) */
    c = env[p++];
    if (st == 0) { if (c != 'F') return 91; st = 1; }
    else if (st == 1) { if (c == 0) st = 2; }
    else { if (c == 0) { *consumed = p; return 0; } if (c != 'T') return 91; st = 1; }
  }
  return 54;
#endif
}

/* durable-state invariant; evaluated before every system call = at every crash instant */
static int alarm_fired;
static void crash_check(void)
{
  ++nstub;
#if MODE == 4
  /* the 24 h alarm may go off at any instant: run the handler the program installed */
  /* (called by name: a call through the pointer makes cbmc split over every void(void) function) */
  if (nstub == alarm_at && alarm_handler == (void (*)(void)) sigalrm && !alarm_fired) { alarm_fired = 1; sigalrm(); }
#endif
  if (todo_x) {
    V(1, committed);                                    /* todo only through the checked commit point */
    V(2, mess_x && intd_x);                             /* S3: mess + intd + todo */
    V(3, Msync == Mlen && Isync == Ilen);               /* nothing of a scheduled message is volatile */
  }
  V(4, !intd_x || mess_x);                              /* intd implies mess (S2) */
  V(5, !trig_ever || todo_x);                           /* trigger pulled only after todo exists */
}

static void no_touch_after_commit(void) { V(6, !todo_x); }

/* ---------------- buffered ideal stream for ssout / ideal source for ssin */
static int write_model(int fd, unsigned int n)
{
  unsigned char t;
  unsigned int k = n;
  crash_check();
  no_touch_after_commit();
  V(7, (fd == 3 && mess_x) || (fd == 4 && intd_x));
  t = draw();
  if (t) { k = (unsigned int) (t - 1) % n; if (!fault_code) fault_code = 53; errno = (t & 1) ? ENOSPC : EIO; }
  if (fd == 3) Mlen += k; else Ilen += k;
#if MODE == 1
  { unsigned int i; for (i = 0; i < sizeof pend; ++i) { if (i >= k) break;
      if (fd == 3) Mbytes[Mlen - k + i] = pend[i]; else Ibytes[Ilen - k + i] = pend[i]; } }
#endif
  return k == n ? 0 : -1;
}

static int flush_pending(substdio *s)
{
  unsigned int n = pending;
  if (!n) return 0;
  pending = 0;
  return write_model(s->fd, n);
}

static int put_model(substdio *s, const char *buf, unsigned int len)
{
  V(8, s == &ssout);
#if MODE == 1
  { unsigned int i; for (i = 0; i < 128; ++i) { if (i >= len) break; pend[pending + i] = (unsigned char) buf[i]; } }
#endif
  pending += len;
#if MODE == 0
  if (draw() & 1) return flush_pending(s);              /* the real buffer may fill up at any put */
#endif
  return 0;
}

int substdio_put(substdio *s, const char *buf, size_t len) { return put_model(s, buf, (unsigned int) len); }
int substdio_bput(substdio *s, const char *buf, size_t len) { return put_model(s, buf, (unsigned int) len); }
int substdio_flush(substdio *s) { V(8, s == &ssout); return flush_pending(s); }

/* next byte of the envelope descriptor: 1 and *c, 0 at end of input, -1 on a read error */
static int env_next(unsigned char *cp)
{
#if MODE == 2
  {
    unsigned int p = envpos;
    unsigned int a0 = (WHO == 0) ? 1 : 3;               /* first byte of the long address */
    unsigned char c;
    if (p == 0) c = 'F';
    else if (WHO == 1 && p == 1) c = 0;
    else if (WHO == 1 && p == 2) c = 'T';
    else if (p >= a0 && p < a0 + L) c = 'a';   /* concrete: a symbolic byte makes every `if (!ch) break` a fork */
    else c = 0;
    if (p >= a0 + L + 2) return 0;
    ++envpos; *cp = c; return 1;
  }
#else
  if (envpos == env_errpos) { if (!fault_code) fault_code = 54; errno = EIO; return -1; }
  if (envpos >= envlen || envpos >= E) return 0;
  *cp = env[envpos++];
  return 1;
#endif
}

static int env_fed;            /* ssin.p counts bytes that substdio_feed() left at ssin.x + ssin.n */

ssize_t substdio_get(substdio *s, char *buf, size_t len)
{
  unsigned char c;
  int r;
  /* envelope descriptor, one byte at a time */
  V(9, s == &ssin && s->fd == 1 && len == 1);
  if (env_fed && s->p > 0) { *buf = s->x[s->n]; s->n++; s->p--; return 1; }   /* what feed buffered comes first */
#if MODE != 2
  crash_check();                                       /* a read is a system call too */
#endif
  r = env_next(&c);
  if (r == 1) *buf = (char) c;
  return r;
}

/* substdio_feed()/PEEK/SEEK on the envelope descriptor (contract of substdi.c: 1..size unread bytes in place, how many is
 * the read() boundary and nothing the caller controls): chunks of 1..4 bytes chosen by feedtape[] (MODE 2, the 1000-byte
 * addresses: always 4), placed at a fixed offset of the program's own buffer.  Only a tree whose envelope reader scans
 * its buffer in place gets here. */
ssize_t substdio_feed(substdio *s)
{
  static unsigned int nfeed;
  static int cap;
  unsigned int q, i = 0;
  int r = 1, base;
  unsigned char c;
  V(9, s == &ssin && s->fd == 1);
  if (env_fed && s->p > 0) return s->p;
  if (!env_fed) { cap = s->n; env_fed = 1; }
  V(9, cap >= 8);
  base = cap - 4;
#if MODE != 2
  crash_check();
  q = 1u + feedtape[nfeed % 8] % 4u; ++nfeed;
#else
  q = 4;
#endif
  if (i < q && r == 1) { r = env_next(&c); if (r == 1) { s->x[base + i] = (char) c; ++i; } }
  if (i < q && r == 1) { r = env_next(&c); if (r == 1) { s->x[base + i] = (char) c; ++i; } }
  if (i < q && r == 1) { r = env_next(&c); if (r == 1) { s->x[base + i] = (char) c; ++i; } }
  if (i < q && r == 1) { r = env_next(&c); if (r == 1) { s->x[base + i] = (char) c; ++i; } }
  s->n = base; s->p = (int) i;
  if (i) return (ssize_t) i;                     /* a read error behind delivered bytes is reported by the next call */
  return r;
}
char *substdio_peek(substdio *s) { return s->x + s->n; }
void substdio_seek(substdio *s, int len) { s->n += len; s->p -= len; }

int substdio_copy(substdio *out, substdio *in)
{
  unsigned int i;
  V(9, in == &ssin && in->fd == 0 && out == &ssout);
  for (i = 0; i < B + 1; ++i) {
    crash_check();
    if (bodypos == body_errpos) { if (!fault_code) fault_code = 54; errno = EIO; return -2; }
    if (bodypos >= bodylen || bodypos >= B) { body_eof = 1; return 0; }
    { char c = (char) body[bodypos++]; if (put_model(out, &c, 1) == -1) return -3; }
  }
  return 0;
}

/* ---------------- system call stubs */
static int is_path(const char *p, const char *lit)
{
  unsigned int i;
  for (i = 0; i < 16; ++i) { if (p[i] != lit[i]) return 0; if (!lit[i]) return 1; }
  return 0;
}

int vf_chdir(const char *p)
{
  crash_check(); ++chdirs;
  if (draw()) { if (!fault_code) fault_code = (chdirs == 1) ? 61 : 62; errno = ENOENT; return -1; }
  return 0;
}
mode_t vf_umask(mode_t m) { return 022; }
pid_t vf_getpid(void) { return MY_PID; }
uid_t vf_getuid(void) { return MY_UID; }
time_t vf_time(time_t *t) { return 812090814; }
uid_t inituid(char *u) { return u == auto_usera ? 501 : u == auto_userd ? 502 : 503; }
void sig_blocknone(void) {}
void sig_pipeignore(void) {}
void sig_miscignore(void) {}
void sig_bugcatch(void (*f)()) {}
void sig_alarmcatch(void (*f)()) { alarm_handler = (void (*)(void)) f; }

unsigned int vf_alarm(unsigned int s)
{
  V(10, s > 0 && s < OSSIFIED_SEND);                    /* dies before the daemon may collect its files */
  V(11, !files_created);
  alarm_armed = 1;
  return 0;
}

int vf_open(const char *path, int flags, ...)
{
  crash_check();
  if (path == pidfn) {
    V(12, (flags & O_EXCL) && (flags & O_CREAT));
    V(13, alarm_armed);
    if (draw()) { ++pid_open_failures; if (pid_open_failures == 9 && !fault_code) fault_code = 63; errno = EEXIST; return -1; }
    files_created = 1; pid_x = 1; Mlen = Msync = 0;
    return 3;
  }
  if (path == intdfn) {
    V(12, (flags & O_EXCL) && (flags & O_CREAT));
    V(14, mess_x);
    if (draw()) { if (!fault_code) fault_code = 65; errno = EIO; return -1; }
    intd_x = 1; Ilen = Isync = 0;
    return 4;
  }
  if (!is_path(path, "lock/trigger")) {
    /* anything else (e.g. a directory opened to be fsynced): allowed, may fail; what the
     * program does with the result is judged by the invariants, not by this stub */
    if (draw()) { errno = EIO; return -1; }
    return 6;
  }
  trig_ever = 1;
  V(5, todo_x);
  if (draw()) { errno = ENXIO; return -1; }             /* no daemon listening: not an error */
  trig_open = 1;
  return 5;
}

int vf_fstat(int fd, struct stat *st)
{
  crash_check();
  V(16, fd == 3);
  if (draw()) { if (!fault_code) fault_code = 63; errno = EIO; return -1; }
  st->st_ino = MY_INO;
  return 0;
}

int vf_link(const char *a, const char *b)
{
  crash_check();
  if (a == pidfn && b == messfn) {
    V(17, pid_x);
#if MODE == 1
    {
      /* C02: the message's name is its inode number: mess/<ino mod split>/<ino> */
      char want[40]; unsigned int n = 0, i; unsigned long v;
      char t[24]; unsigned int k;
      want[n++] = 'm'; want[n++] = 'e'; want[n++] = 's'; want[n++] = 's'; want[n++] = '/';
      v = MY_INO % (unsigned long) auto_split; k = 0; do { t[k++] = (char) ('0' + v % 10); v /= 10; } while (v); while (k) want[n++] = t[--k];
      want[n++] = '/';
      v = MY_INO; k = 0; do { t[k++] = (char) ('0' + v % 10); v /= 10; } while (v); while (k) want[n++] = t[--k];
      want[n] = 0;
      for (i = 0; i < 40; ++i) { V(33, b[i] == want[i]); if (!want[i]) break; }
    }
#endif
    if (draw()) { if (!fault_code) fault_code = 64; errno = EEXIST; return -1; }
    mess_x = 1;
    return 0;
  }
  V(18, a == intdfn && b == todofn);
  {
    /* THE COMMIT POINT (C01 a): everything that makes the message complete and durable
     * must already be true when the daemon can first see todo/N */
    unsigned int consumed = 0;
    int ref = ref_envelope(&consumed);
    V(20, pending == 0);                                /* nothing left in the user buffer */
    V(21, mess_x && intd_x);
    V(22, body_eof && bodypos == (bodylen < B ? bodylen : B));      /* body read to EOF */
    V(23, Mlen == receivedlen + bodypos && Msync == Mlen);          /* mess complete and synced */
    V(24, ref == 0 && envpos == consumed);              /* envelope well-formed, consumed exactly */
    V(25, Ilen == PREFIXLEN + consumed - 1 && Isync == Ilen);       /* intd complete and synced */
    V(26, fault_code == 0);                             /* no earlier fatal error was ignored */
    if (draw()) { if (!fault_code) fault_code = 66; errno = EIO; return -1; }
    todo_x = 1; committed = 1;
    return 0;
  }
}

int vf_unlink(const char *p)
{
  crash_check();
  no_touch_after_commit();
  if (p == pidfn) {
    V(27, mess_x);                                      /* pid name dropped only after the mess link exists */
    if (draw()) { if (!fault_code) fault_code = 63; errno = EIO; return -1; }
    pid_x = 0; return 0;
  }
  if (p == intdfn) { if (draw()) { errno = EIO; return -1; } intd_x = 0; return 0; }
  V(28, p == messfn);
  if (draw()) { errno = EIO; return -1; }
  mess_x = 0;
  return 0;
}

int vf_ftruncate(int fd, off_t len)
{
  crash_check();
  no_touch_after_commit();
  V(29, (fd == 3 || fd == 4) && len == 0);
  if (draw()) { errno = EIO; return -1; }
  if (fd == 3) Mlen = Msync = 0; else Ilen = Isync = 0;
  return 0;
}

int vf_fsync(int fd)
{
  crash_check();
  if (fd == 6) { if (draw()) { errno = EIO; return -1; } return 0; }   /* some other descriptor (a directory) */
  V(30, fd == 3 || fd == 4);
  if (draw()) { if (!fault_code) fault_code = 53; errno = EIO; return -1; }
  if (fd == 3) Msync = Mlen; else Isync = Ilen;
  return 0;
}

ssize_t vf_write(int fd, const void *buf, size_t n)
{
  crash_check();
  V(31, fd == 5 && trig_open && n == 1);                /* the only direct write: the trigger byte */
  if (draw()) { errno = EAGAIN; return -1; }
  return 1;
}

ssize_t vf_read(int fd, void *buf, size_t n) { V(32, 0); return -1; }
int vf_close(int fd) { crash_check(); if (fd == 5) trig_open = 0; return 0; }   /* fd 6: nothing to model */
int vf_fcntl(int fd, int cmd, ...) { return 0; }

/* ---------------- end of run */
static void end_of_run(int status)
{
  unsigned int consumed = 0;
  int ref = ref_envelope(&consumed);
  crash_check();
  CHECK(viol != 1, "C01(b): todo/N appears only through the commit point");
  CHECK(viol != 2 && viol != 21, "C01(b): todo/N implies mess/N and intd/N exist");
  CHECK(viol != 3, "C01(b): a crash never loses data of a message that has a todo entry");
  CHECK(viol != 4 && viol != 14, "C01(b): intd/N never exists without mess/N");
  CHECK(viol != 5, "C16/C01(b): trigger is pulled only after todo/N exists");
  CHECK(viol != 6, "C01(b): nothing of the message is written, truncated or unlinked once todo/N exists");
  CHECK(viol != 20, "C01(a): user-level buffer is flushed before the commit point");
  CHECK(viol != 22, "C01(a): body was read to EOF before the commit point");
  CHECK(viol != 23, "C01(a): mess/N is complete (Received line + body) and fsynced before the commit point");
  CHECK(viol != 24, "C01(a): envelope was well-formed and consumed exactly before the commit point");
  CHECK(viol != 25, "C01(a): intd/N is complete and fsynced before the commit point");
  CHECK(viol != 26, "C01(a): no failed system call is ignored before the commit point");
  CHECK(viol != 10 && viol != 11 && viol != 13, "C01(d): alarm(DEATH < OSSIFIED) armed before any file is created");
  CHECK(viol != 12, "C01: pid/ and intd/ files are created with O_EXCL");
  CHECK(viol != 33, "C02: the message file is named after the inode number of the file itself (mess/<ino mod split>/<ino>)");
  CHECK(viol == 0 || (viol >= 1 && viol <= 6) || viol == 10 || viol == 11 || viol == 12 || viol == 13 || viol == 14 || viol == 33 ||
        (viol >= 20 && viol <= 26), "model: unexpected call shape (harness sizing / stub contract)");
  CHECK(status != 0 || todo_x, "C01(c): exit status 0 only if todo/N exists");
  CHECK(!todo_x || status == 0 || alarm_fired, "C01(c): a scheduled message is reported as success (unless the alarm killed the run after the commit)");
  if (alarm_fired) {
    CHECK(status == 52, "C01: a run killed by SIGALRM exits 52");
  } else if (fault_code) {
    CHECK(status == fault_code, "C01(c): an injected failure yields its documented exit code");
  } else {
    CHECK(status == ref, "C01(c): exit code follows the envelope grammar (0, 91, 11, 54)");
  }
  CHECK(alarm_handler == (void (*)(void)) sigalrm || !alarm_armed, "C01(d): SIGALRM handler is sigalrm");
#if MODE == 1
  if (status == 0) {
    unsigned int i;
    CHECK(Mlen == receivedlen + bodylen, "C01: mess length = Received line + body");
    for (i = 0; i < 128; ++i) { if (i >= receivedlen) break; CHECK(Mbytes[i] == (unsigned char) received[i], "C01: mess starts with the Received line"); }
    for (i = 0; i < B; ++i) { if (i >= bodylen) break; CHECK(Mbytes[receivedlen + i] == body[i], "C01: body bytes stored exactly"); }
    CHECK(Ibytes[0] == 'u' && Ibytes[1] == '1' && Ibytes[2] == '0' && Ibytes[3] == '0' && Ibytes[4] == '0' && Ibytes[5] == 0 &&
          Ibytes[6] == 'p' && Ibytes[7] == '4' && Ibytes[8] == '2' && Ibytes[9] == '4' && Ibytes[10] == '2' && Ibytes[11] == 0,
          "C01: envelope file starts with u<uid> NUL p<pid> NUL");
    for (i = 0; i < E; ++i) { if (i + 1 >= consumed) break; CHECK(Ibytes[PREFIXLEN + i] == env[i], "C01: sender and recipients stored exactly, in order"); }
    WITNESS("content_stored");
  }
#endif
  if (status == 0) WITNESS("queued");
#if MODE == 4
  if (alarm_fired && todo_x) WITNESS("alarm_after_commit");
  if (alarm_fired && !todo_x && mess_x) WITNESS("alarm_before_commit");
#endif
#if MODE == 0
  if (status == 91) WITNESS("exit91_bad_letter");
  if (status == 54) WITNESS("exit54_eof");
  if (status == 53) WITNESS("exit53_write_error");
  if (status == 65) WITNESS("exit65");
  if (status == 66) WITNESS("exit66");
  if (status == 0 && consumed >= 5) WITNESS("queued_with_recipient");
#endif
#if MODE == 2
  if (status == 11) WITNESS("exit11_too_long");
#endif
}

void vf__exit(int status)
{
#if MODE == 3
  CHECK(status == 52, "C01: SIGALRM exits 52");
  CHECK(nstub == 0, "C01: the SIGALRM handler does not clean up (no system call before _exit)");
  WITNESS("alarm_exit");
#else
  end_of_run(status);
#endif
  PATH_END();
#ifdef VERIF_CBMC
  __CPROVER_assume(0);
#endif
}

void vmain(void)
{
  sym_inputs();
#if MODE == 3
  sigalrm();
#else
  ASSUME(envlen <= E && bodylen <= B);
#if MODE == 2
  ASSUME(bodylen == 0);
#endif
  {
    int rc = queue_main();
    end_of_run(rc);
  }
#endif
}
