/* C17(2c) - quote.c quote2()/quote()/quote_need(): for every local part of N bytes (any
 * values except NUL and LF) the header form of local@host is a syntactically valid
 * RFC 822 addr-spec whose local part MEANS the original bytes, judged by a reference
 * reader written from RFC 822 section 3.3/6.1 (not from token822.c):
 *   local-part = word *("." word);  word = atom / quoted-string
 *   atom = 1*<any CHAR except specials ()<>@,;:\".[] , SPACE and CTLs>
 *   quoted-string = <"> *(qtext / quoted-pair) <">;  qtext: not <">, "\", CR;
 *   quoted-pair = "\" CHAR, meaning CHAR.
 * Bytes above 127 are outside RFC 822; quote.c promises "no special encoding" for them
 * and the reference reader passes them through inside a quoted-string.
 * This complements header_roundtrip.c (the same property through the real token822
 * parser, which is only tractable for N <= 3) at larger N.
 */
#include "verif.h"
#include "stralloc.h"
#include "quote.h"

#ifndef N
#define N 4
#endif
#define AL (N + 2)               /* local@h */
#define QMAX (2 * N + 2 + 2)

unsigned char lp[N + 1];

void sym_inputs(void)
{
#ifdef REPLAY
#include "replay_inputs.inc"
#else
  SYM_ARR(lp);
#endif
}

static int atomchar(unsigned char c)
{
  if (c <= 32 || c >= 127) return 0;
  switch (c) {
    case '(': case ')': case '<': case '>': case '@': case ',': case ';': case ':':
    case '\\': case '"': case '.': case '[': case ']': return 0;
  }
  return 1;
}

void vmain(void)
{
  static char a[AL + 1];
  static stralloc q;
  unsigned int i, k, end;
  int quoted;

  sym_inputs();
  for (i = 0; i < N; ++i) { ASSUME(lp[i] != 0 && lp[i] != '\n'); a[i] = (char) lp[i]; }
  a[N] = '@'; a[N + 1] = 'h'; a[AL] = 0;

  CHECK(quote2(&q, a) == 1, "quote2 succeeds");
  CHECK(q.len >= 2 && q.len <= QMAX, "encoded address has a sane length");
  ASSUME(q.len >= 2 && q.len <= QMAX);
  CHECK(q.s[q.len - 2] == '@' && q.s[q.len - 1] == 'h', "C17: the host part follows the encoded local part unchanged");
  end = q.len - 2;                                    /* encoded local part = q.s[0..end) */
  quoted = end > 0 && q.s[0] == '"';

  if (!quoted) {
    /* must be atom *("." atom) and stand for itself */
    CHECK(end == N, "C17: unquoted local part has the original length");
    CHECK(end > 0, "C17: an empty local part is quoted");
    for (i = 0; i < N; ++i) {
      if (i >= end) break;
      CHECK((unsigned char) q.s[i] == lp[i], "C17: unquoted local part is the original");
      CHECK(atomchar(lp[i]) || lp[i] == '.', "C17: unquoted local part contains only RFC 822 atom characters and dots");
      if (lp[i] == '.')
        CHECK(i > 0 && i + 1 < N && lp[i + 1] != '.', "C17: dots only between atoms (RFC 822 local-part = word *(\".\" word))");
    }
    WITNESS("unquoted");
  } else {
    /* reference reader for one quoted-string that must span the whole local part */
    int dotted = 0, needed = 0;
    CHECK(end >= 2 && q.s[end - 1] == '"', "C17: quoted local part is closed by a quote");
    k = 0; i = 1;
    for (;;) {                                         /* at most QMAX rounds */
      unsigned char c;
      if (i + 1 >= end) break;                         /* reached the closing quote */
      c = (unsigned char) q.s[i];
      CHECK(c != '"', "C17: no unescaped quote inside the quoted-string");
      CHECK(c != '\r', "C17: no bare CR inside the quoted-string");
      if (c == '\\') {
        ++i;
        CHECK(i + 1 < end, "C17: a backslash inside the quoted-string is followed by the character it quotes");
        if (i + 1 >= end) break;
        c = (unsigned char) q.s[i];
      }
      CHECK(k < N && c == lp[k], "C17: the quoted-string means the original local part, byte by byte");
      ++k; ++i;
    }
    CHECK(k == N, "C17: the quoted-string means the whole original local part");
    for (i = 0; i < N; ++i) {
      if (!atomchar(lp[i]) && lp[i] != '.') needed = 1;
      if (lp[i] == '.' && (i == 0 || i + 1 == N || lp[i + 1] == '.')) dotted = 1;
    }
    if (needed) WITNESS("quoted_special");
    if (!needed && dotted) WITNESS("quoted_dots");
    if (N == 0) WITNESS("quoted_empty");
  }
}
