/* C17(4), grammar form, address level - the envelope form of ONE mailbox is the listed
 * addr-spec after the documented default-host / default-domain / plus-domain rewriting and
 * route stripping, for EVERY derivation of
 *     [route] addr-spec      (grammar822.h: route 0-2 hops, local-part 1-2 words, atoms or
 *                             quoted-strings, domain 0-3 sub-domains, atoms or literals, plus)
 * with up to NC comments at any position inside the angle brackets.
 *
 * The address is handed to the real qmail-inject.c rwtocc() exactly as token822_addrlist()
 * hands it to its callback: last token first; for "<...>" everything between the brackets
 * (comments included), for a bare addr-spec its tokens without comments.  That this IS the
 * interface, for every derivation of the list grammar, is obligation addrlist_grammar
 * (which cuts gotaddr and checks what each call receives); gotaddr itself is
 * gotaddr_contract.  Together: envelope recipients == listed mailboxes after rewriting.
 *
 * Encoded, unchanged: qmail-inject.c rwtocc, rwgeneric, rwroute, rwextradot, rwextraat,
 * rwnoat, rwplus, rwnodot, rwappend; token822.c token822_unquote, token822_reverse,
 * token822_readyplus.
 * Asserted: (1) exactly one header recipient, byte for byte the expected envelope form
 * (written by the productions of grammar822.h from the documents); (2) the address that
 * stays in the token list (it is written back into the header field) is the same
 * rewritten address: local-part "@" rewritten host, comments aside; (3) GSTAB=1: that
 * address between "<" and ">" after "To:" is written by token822_unparse and read back
 * token for token by the RFC 822 reference reader.
 */
#include <stddef.h>
#include "verif.h"
#undef NM
#define NM 1
#ifndef GSTAB
#define GSTAB 0
#endif
/* KF_EDGE_COMMENT (set by ./check from known-findings.txt): the recorded finding - a comment as FIRST or LAST token between
 * "<" and ">" defeats rwroute()/rwplus() - is assumed away, every other derivation is still decided */
#ifdef KF_EDGE_COMMENT
#define EDGECMT 0
#else
#define EDGECMT 1
#endif
#include "grammar822.h"

void sym_inputs(void)
{
#ifdef REPLAY
#include "replay_inputs.inc"
#else
  GRAMMAR_SYM_INPUTS
#endif
}

void vmain(void)
{
  unsigned int p, n = 0, lo, hi, i, j, nc_in = 0;
  int r, edge = 0;
  sym_inputs();
#ifdef S_ANG      /* the skeleton of the address is concrete per grid point (with a symbolic skeleton no query closes: plan.py);
                     word kinds, the plus flag, all contents and the comment positions stay symbolic */
  m_ang[0] = S_ANG; m_nr[0] = S_NR; m_nl[0] = S_NL; m_nd[0] = S_ND;
#endif
  grammar_assumptions();
  ASSUME(m_np[0] == 0);                        /* the phrase is not part of the address */

  /* controls: defaulthost dh, defaultdomain dd, plusdomain pd, as getcontrols() parses them */
  t_dh[0].type = TOKEN822_AT; t_dh[1].type = TOKEN822_ATOM; t_dh[1].s = "dh"; t_dh[1].slen = 2;
  t_dd[0].type = TOKEN822_DOT; t_dd[1].type = TOKEN822_ATOM; t_dd[1].s = "dd"; t_dd[1].slen = 2;
  t_pd[0].type = TOKEN822_DOT; t_pd[1].type = TOKEN822_ATOM; t_pd[1].s = "pd"; t_pd[1].slen = 2;
  defaulthost.t = t_dh; defaulthost.len = 2; defaulthost.a = 2;
  defaultdomain.t = t_dd; defaultdomain.len = 2; defaultdomain.a = 2;
  plusdomain.t = t_pd; plusdomain.len = 2; plusdomain.a = 2;
  hrlist.sa = l_hr; hrlist.a = 3; tocclist.sa = l_tocc; tocclist.a = 3;

  mailbox(0);
  g_finish();
  ASSUME(!overflow);

  /* the callback's argument */
  lo = m_ang[0] ? fpos(a_lt[0]) + 1 : fpos(a_lo[0]);
  hi = m_ang[0] ? fpos(a_gt[0]) - 1 : fpos(a_hi[0]);
  for (p = GCAP; p-- > 0; ) {
    if (p < lo || p > hi || p >= gn) continue;
    if (gt[p].type == TOKEN822_COMMENT) {
      if (!m_ang[0]) continue;
      ++nc_in;
      if (p == lo || p == hi) edge = 1;
    }
    b_ad[n] = gt[p]; ++n;
  }
#if !EDGECMT
  ASSUME(!edge);
#endif
  hfaddr.t = b_ad; hfaddr.len = n; hfaddr.a = MAXTOK;

  r = rwtocc(&hfaddr);

  CHECK(r == 1, "C17: the rewriting callback accepts the address");
  CHECK(hrlist.len == 1 && tocclist.len == 1, "C17: one mailbox gives one header recipient");
  if (hrlist.len == 1)
    CHECK(same(&l_hr[0], 0), "C17: the envelope recipient is the listed mailbox after default-host/domain/plus rewriting and route stripping");

  /* (2) the address left in the token list, comments aside, last token first */
  {
    int ok = 1;
    unsigned int want = rw_n[0], skip = 0;
    j = 0;
    if (want > RWMAX) ok = 0;
    for (i = 0; i < MAXTOK; ++i) {
      struct token822 *t;
      unsigned int k, ty, src;
      if (i >= hfaddr.len) break;
      t = &hfaddr.t[i];
      if (t->type == TOKEN822_COMMENT) continue;
      if (ex_alt[0] && j == 0 && t->type == TOKEN822_ATOM && t->slen == 2 && t->s[0] == 'd' && t->s[1] == 'd')
        skip = 2;                                  /* documents silent: ".dd" after a lone domain-literal is accepted */
      if (j < skip) { if (j == 1 && t->type != TOKEN822_DOT) ok = 0; ++j; continue; }
      if (j - skip >= want) { ok = 0; ++j; continue; }
      k = want - 1 - (j - skip);
      ty = rw_type[k]; src = rw_src[k];
      if (t->type != (int) ty) ok = 0;
      if (ty == TOKEN822_ATOM || ty == TOKEN822_QUOTE || ty == TOKEN822_LITERAL) {
        if (src >= 200) { if (!(t->slen == 2 && t->s[0] == DEFSTR(src - 200)[0] && t->s[1] == DEFSTR(src - 200)[1])) ok = 0; }
        else if (!(t->slen == 1 && (unsigned char) t->s[0] == b_byte[src < BCAP ? src : 0])) ok = 0;
      }
      ++j;
    }
    if (j != want + skip) ok = 0;
    CHECK(ok, "C17: the address written back into the field is local-part@rewritten-host (comments aside)");
  }
#if GSTAB
  {
    static char b_text[TEXTMAX];
    static stralloc text = { b_text, 0, TEXTMAX };
    unsigned int k = 0;
    b_rw[k].type = TOKEN822_ATOM; b_rw[k].s = "To"; b_rw[k].slen = 2; ++k;
    b_rw[k].type = TOKEN822_COLON; ++k;
    b_rw[k].type = TOKEN822_LEFT; ++k;
    for (i = MAXTOK; i-- > 0; ) { if (i >= hfaddr.len) continue; b_rw[k] = hfaddr.t[i]; ++k; }
    b_rw[k].type = TOKEN822_RIGHT; ++k;
    hfrewrite.t = b_rw; hfrewrite.len = k; hfrewrite.a = MAXTOK + 8;
    CHECK(token822_unparse(&text, &hfrewrite, LINELEN) == 1, "unparse succeeds");
    CHECK(text.len >= 1 && text.len <= TEXTMAX && text.s[text.len - 1] == '\n', "C17(3): the rewritten field ends with its newline (and fits the harness buffer)");
    ASSUME(text.len <= TEXTMAX);
    reference_read(&text, &hfrewrite);
    WITNESS("reread");
  }
#endif
  WITNESS("derived");
  if (m_nr[0]) WITNESS("route");
  if (m_plus[0]) WITNESS("plus");
  if (!m_nd[0]) WITNESS("lone_box");
  if (nc_in) WITNESS("comment_inside");
  if (ex_alt[0]) WITNESS("single_literal");
}
