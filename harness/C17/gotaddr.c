/* C17 - token822.c gotaddr() (static): contract of the cut made in header_roundtrip.c
 * and addrlist_*.c.  "An address is complete": the callback is called exactly once with
 * the address token list; if it returns 1 the (possibly rewritten) tokens are appended
 * to the output list in order, the address list is emptied and 1 is returned; if the
 * callback does not return 1, 0 is returned.
 * Pre-state: arbitrary token contents, KA address tokens, KO output tokens, room in the
 * output array (pre-sized; growth is a C20 lemma). */
#include <stddef.h>
#include "verif.h"
#include "gen_token822.c"

#ifndef KA
#define KA 3
#endif
#ifndef KO
#define KO 2
#endif
#define CAP (KA + KO + 2)

struct token822 in_addr[KA + 1], in_out[CAP], rewritten[KA + 1];
unsigned int newlen;          /* the callback may change the number of tokens (rwgeneric does) */
int cbret;

void sym_inputs(void)
{
#ifdef REPLAY
#include "replay_inputs.inc"
#else
  unsigned int _i;
  for (_i = 0; _i < KA + 1; ++_i) { SYM(in_addr[_i].type); SYM(in_addr[_i].slen); SYM(rewritten[_i].type); SYM(rewritten[_i].slen); }
  for (_i = 0; _i < CAP; ++_i) { SYM(in_out[_i].type); SYM(in_out[_i].slen); }
  SYM(newlen); SYM(cbret);
#endif
}

void *vf_malloc(size_t n) { (void) n; CHECK(0, "no allocation (pre-sized)"); PATH_END(); return 0; }
void *vf_realloc(void *p, size_t n) { (void) p; (void) n; CHECK(0, "no reallocation: growth inside the bound"); PATH_END(); return 0; }

static struct token822 b_addr[KA + 1], b_out[CAP];
static token822_alloc ta_addr = { b_addr, KA, KA + 1 }, ta_out = { b_out, KO, CAP };
static int n_cb;

static int cb(token822_alloc *a)
{
  unsigned int i;
  ++n_cb;
  CHECK(a == &ta_addr && a->len == KA, "C17(gotaddr): the callback receives the address token list");
  for (i = 0; i < KA + 1; ++i) a->t[i] = rewritten[i];       /* a callback may rewrite the address in place */
  a->len = newlen;
  return cbret;
}

void vmain(void)
{
  unsigned int i;
  int r;
  sym_inputs();
  ASSUME(newlen <= KA + 1);
  for (i = 0; i < KA + 1; ++i) b_addr[i] = in_addr[i];
  for (i = 0; i < CAP; ++i) b_out[i] = in_out[i];

  r = gotaddr(&ta_out, &ta_addr, cb);

  CHECK(n_cb == 1, "C17(gotaddr): the callback is called exactly once");
  if (cbret != 1) {
    CHECK(r == 0, "C17(gotaddr): a refusing callback makes gotaddr fail");
    WITNESS("callback_refuses");
  } else {
    CHECK(r == 1, "C17(gotaddr): succeeds");
    CHECK(ta_out.len == KO + newlen && ta_addr.len == 0, "C17(gotaddr): tokens moved to the output list, address list emptied");
    for (i = 0; i < KO; ++i)
      CHECK(b_out[i].type == in_out[i].type && b_out[i].slen == in_out[i].slen, "C17(gotaddr): earlier output tokens untouched");
    for (i = 0; i < KA + 1; ++i) {
      if (i >= newlen) break;
      CHECK(b_out[KO + i].type == rewritten[i].type && b_out[KO + i].slen == rewritten[i].slen, "C17(gotaddr): address tokens appended in order");
    }
    WITNESS("appended");
  }
}
