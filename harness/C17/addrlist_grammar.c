/* C17(4), grammar form, list level - for EVERY derivation of a bounded RFC 822
 * address-list grammar (grammar822.h: mailboxes in both forms, phrases, routes, one group,
 * empty elements, missing commas where qmail-header(5) tolerates them, up to NC comments
 * at any position), token822_addrlist() finds exactly the listed mailboxes: every address it
 * completes is the address part ([route] addr-spec) of one listed mailbox, every listed
 * mailbox is completed exactly once, nothing else (phrase word, group name, route hop,
 * comment) becomes an address.  addrlist_forms.c checks the same on a finite catalogue of 23
 * hand-written derivations; a change that only shows on a form outside the catalogue is
 * invisible to it.  Here the derivation is chosen by symbolic variables, so one query
 * quantifies over all of them inside the bound (NM mailboxes, <= NTOK tokens).
 *
 * Composition (DESIGN.md 2.2, call-graph cutting).  The real pipeline is
 *     token822_addrlist -> gotaddr -> callback rwtocc -> rwgeneric ... -> rwappend -> token822_unquote
 * With everything inlined and the shape of the list symbolic no query closes (measured:
 * 1 mailbox, 6 tokens: no verdict in 900 s; token822_addrlist expands gotaddr at 31 places).
 * So, as in header_roundtrip.c, gotaddr() is CUT here and replaced by a stub that obeys its
 * contract (obligation gotaddr_contract: the callback is called once with the address list;
 * the - possibly rewritten - tokens are appended to the output list; the address list is
 * emptied; 1 is returned) and checks what it is handed:
 *   - the non-comment tokens of the address list are, last token first, exactly the tokens
 *     of the address part of ONE listed mailbox (every token carries its position in s);
 *   - no mailbox is handed over twice; at the end every mailbox has been handed over;
 *   - interface to the address level: comments are inside the address only for the "<...>"
 *     form (addr_grammar.c feeds rwtocc exactly such addresses).
 * What rwtocc makes of each such address - envelope form after default-host / default-domain
 * / plus-domain rewriting and route stripping - is obligation addr_grammar, for every
 * derivation of the address part.  Both together: the envelope recipients are exactly the
 * listed mailboxes after the documented rewriting.
 *
 * GSTAB=1 adds C17(3) on the same derivations: the stub appends the REWRITTEN address
 * (the token list the productions of grammar822.h wrote down from the documents, which
 * addr_grammar proves to be what rwgeneric leaves behind), so the output list is the
 * rewritten field.  (a) It is written by the real token822_unparse and read back, token for
 * token, by the RFC 822 reference reader of addrlist_forms.c.  (b) It is given to
 * token822_addrlist a second time: the addresses found in the rewritten field are exactly
 * the rewritten addresses, each once - "the rewritten header parses again to the same
 * addresses".
 *
 * Encoded, unchanged: token822.c token822_addrlist, token822_append, token822_readyplus,
 * token822_reverse (+ token822_unparse, needspace with GSTAB).
 */
#include <stddef.h>
#include "verif.h"
#ifndef GSTAB
#define GSTAB 0
#endif
#define GPRE 2
#include "grammar822.h"

void sym_inputs(void)
{
#ifdef REPLAY
#include "replay_inputs.inc"
#else
  GRAMMAR_SYM_INPUTS
#endif
}

/* ---- observation of the cut gotaddr().  Violations are collected in a sticky code and
 * asserted once at the end (the stub is expanded at every call site). */
#define V_EMPTY    1      /* an address without tokens */
#define V_ORDER    2      /* tokens not in list order */
#define V_NOTMBOX  4      /* the tokens are not the address part of a listed mailbox */
#define V_TWICE    8      /* a mailbox handed over twice */
#define V_BARECMT  16     /* comment inside a bare addr-spec address (interface to addr_grammar) */
#define V_SIZE     32     /* harness sizing */
static unsigned int viol;
static unsigned int seen[MM];
static unsigned int n_addr;
static int pass;                           /* 1: the field, 2: the rewritten field */
static unsigned int f_lo[MM], f_hi[MM];    /* final positions of the address part of mailbox m in the list being read */
static unsigned int f_cnt[MM];             /* number of its non-comment tokens */
static char *pool_now;                     /* s of position p is pool_now + 2p */

#define OUTCAP (GPRE + NTOK + 4 * NM + 3)
static struct token822 b_out[OUTCAP], b_addr[NTOK + 1];
#if GSTAB
static unsigned int o_start[MM];           /* where (counted from the end of the field) the rewritten mailbox m was appended */
#endif

int gotaddr(token822_alloc *taout, token822_alloc *taaddr, int (*callback)())
{
  unsigned int i, cnt = 0, ccnt = 0, lo = 0, hi = 0, last = 0, m, found = MM;
  (void) callback;
  ++n_addr;
  for (i = 0; i < NTOK + 1; ++i) {
    struct token822 *t;
    unsigned int p;
    if (i >= taaddr->len) break;
    t = &taaddr->t[i];
    if (t->type == TOKEN822_COMMENT) { ++ccnt; continue; }
    p = (unsigned int) (t->s - pool_now) / 2;
    if (cnt == 0) hi = p;
    else if (p >= last) viol |= V_ORDER;
    last = p; lo = p; ++cnt;
  }
  if (cnt == 0) viol |= V_EMPTY;
  for (m = 0; m < NM; ++m)
    if (cnt && lo == f_lo[m] && hi == f_hi[m] && cnt == f_cnt[m]) found = m;
  if (found == MM) { viol |= V_NOTMBOX; found = 0; }
  else {
    if (seen[found]) viol |= V_TWICE;
    seen[found] = 1;
    if (pass == 1 && ccnt && !m_ang[found]) viol |= V_BARECMT;
  }
  /* contract: the (rewritten) address is appended to the output list, the address list emptied */
  if (pass == 1) {
    unsigned int n = rw_n[found];
    if (n > RWMAX || taout->len + n > taout->a) { viol |= V_SIZE; n = 0; }
#if GSTAB
    o_start[found] = taout->len;
    for (i = 0; i < RWMAX; ++i) {
      unsigned int k, src;
      struct token822 *o;
      if (i >= n) break;
      k = found * RWMAX + (n - 1 - i);
      src = rw_src[k];
      o = &taout->t[taout->len + i];
      o->type = rw_type[k];
      if (src >= 200) { o->s = DEFSTR(src - 200); o->slen = 2; }
      else { o->s = spool + 2 * fpos(src < BCAP ? src : 0); o->slen = 1; }
    }
#endif
    taout->len += n;
  } else {
    if (taout->len + taaddr->len > taout->a) viol |= V_SIZE;
    else taout->len += taaddr->len;         /* contents of the second output list are not examined */
  }
  taaddr->len = 0;
  return 1;
}

static int unused_callback(token822_alloc *addr) { (void) addr; CHECK(0, "the callback is reached only through gotaddr"); return 1; }

static void verdicts(void)
{
  CHECK(!(viol & V_SIZE), "harness sizing: output list fits");
  CHECK(!(viol & V_EMPTY), "C17: no empty address is made up");
  CHECK(!(viol & V_ORDER), "C17: an address keeps the order of its tokens");
  CHECK(!(viol & V_NOTMBOX), "C17: every address found is the address part of a listed mailbox (no phrase word, group name, route hop or fragment becomes a recipient)");
  CHECK(!(viol & V_TWICE), "C17: no listed mailbox becomes a recipient twice");
  CHECK(!(viol & V_BARECMT), "C17(interface to addr_grammar): comments reach the rewriting callback only inside <...>");
}

void vmain(void)
{
  unsigned int m;
  int r;
  static token822_alloc ta_list, ta_out = { b_out, 0, OUTCAP }, ta_addr = { b_addr, 0, NTOK + 1 };
  sym_inputs();
  grammar_assumptions();

  /* ---- derive the field */
  address_list();
  g_finish();
  ASSUME(!overflow);
  gt[0].type = TOKEN822_ATOM; gt[0].s = "To"; gt[0].slen = 2; gt[1].type = TOKEN822_COLON;
  ta_list.t = gt; ta_list.len = gn; ta_list.a = GCAP;
  for (m = 0; m < NM; ++m) { f_lo[m] = fpos(a_lo[m]); f_hi[m] = fpos(a_hi[m]); f_cnt[m] = a_hi[m] - a_lo[m] + 1; }
  pool_now = spool; pass = 1;

  r = token822_addrlist(&ta_out, &ta_addr, &ta_list, unused_callback);

  CHECK(r == 1, "C17: a syntactically valid address list is accepted");
  verdicts();
  CHECK(n_addr == NM, "C17: exactly the listed mailboxes become header recipients (count)");
  for (m = 0; m < NM; ++m) CHECK(seen[m], "C17: every listed mailbox becomes a header recipient");

#if GSTAB
  if (r == 1 && viol == 0 && n_addr == NM) {
    static char b_text[TEXTMAX];
    static stralloc text = { b_text, 0, TEXTMAX };
    static struct token822 b_l2[OUTCAP], b_o2[OUTCAP + NM + 2], b_a2[OUTCAP];
    static char pool2[2 * OUTCAP];
    static token822_alloc l2 = { b_l2, 0, OUTCAP }, o2 = { b_o2, 0, OUTCAP + NM + 2 }, a2 = { b_a2, 0, OUTCAP };
    unsigned int q, total = ta_out.len;
    int r2;
    /* (a) text level: what token822_unparse writes is read token for token by an RFC 822 reader */
    CHECK(token822_unparse(&text, &ta_out, LINELEN) == 1, "unparse succeeds");
    CHECK(text.len >= 1 && text.len <= TEXTMAX && text.s[text.len - 1] == '\n', "C17(3): the rewritten field ends with its newline (and fits the harness buffer)");
    ASSUME(text.len <= TEXTMAX);
    reference_read(&text, &ta_out);
    /* (b) address level: the rewritten token list, every token tagged with its position */
    for (q = 0; q < OUTCAP; ++q) {
      if (q >= total) break;
      b_l2[q].type = ta_out.t[q].type; b_l2[q].slen = ta_out.t[q].slen; b_l2[q].s = pool2 + 2 * q;
    }
    l2.len = total;
    for (m = 0; m < NM; ++m) {      /* appended at o_start[m] counted from the end; the list has been reversed since */
      f_hi[m] = total - 1 - o_start[m]; f_lo[m] = f_hi[m] + 1 - rw_n[m]; f_cnt[m] = rw_n[m]; seen[m] = 0;
    }
    pool_now = pool2; pass = 2; n_addr = 0;
    r2 = token822_addrlist(&o2, &a2, &l2, unused_callback);
    CHECK(r2 == 1, "C17(3): the rewritten field is again a valid address list");
    verdicts();
    CHECK(n_addr == NM, "C17(3): the rewritten field lists as many mailboxes as the envelope has recipients");
    for (m = 0; m < NM; ++m) CHECK(seen[m], "C17(3): every rewritten mailbox is found again in the rewritten field");
    WITNESS("reread");
  }
#endif
  WITNESS("derived");
  if (w_group) WITNESS("group");
  if (w_empty_group) WITNESS("empty_group");
  if (w_missing_comma) WITNESS("missing_comma");
  if (w_route) WITNESS("route");
  if (cmt_in_phrase) WITNESS("comment_in_phrase");
  if (cmt_in_angle) WITNESS("comment_in_angle");
}
