/* C17(1) - an address quoted for a MAIL/RCPT command by the SMTP client (qmail-remote.c
 * addrmangle -> quote.c quote) and parsed back by the SMTP server (qmail-smtpd.c
 * addrparse) is the identical address, for every local part of N bytes (any values
 * except NUL and LF) at a fixed host; also for the empty envelope sender.
 *
 * Two programs in one query: qmail-remote.c is its own translation unit whose defined
 * symbols are renamed remote_* (list regenerated from `nm --defined-only` on every run,
 * see plan.py); qmail-smtpd.c (text before main) is included here.
 * liphostok is 0 (no control/localiphost), as the property's clause is stated.
 */
#include "verif.h"
#include "stralloc.h"

extern void remote_addrmangle(stralloc *saout, char *s);      /* qmail-remote.c addrmangle */

void temp_nomem(void)                                          /* cut: qmail-remote.c */
{
  CHECK(0, "qmail-remote: no allocation failure inside the bound");
  PATH_END();
}
void die_nomem();
#include "gen_qmail-smtpd.c"
void die_nomem(void)                                           /* cut: qmail-smtpd.c */
{
  CHECK(0, "qmail-smtpd: no allocation failure inside the bound");
  PATH_END();
}

#ifndef N
#define N 3
#endif
#ifndef EMPTY
#define EMPTY 0           /* 1: the empty envelope sender <> */
#endif
#define HOST "h.nu"
#define HL 4
#if EMPTY
#define AL 0
#else
#define AL (N + 1 + HL)   /* address length */
#endif
#define ML (2 * N + 2 + 1 + HL)   /* longest encoded form */

#ifndef RCPT
#define RCPT 0            /* 0: MAIL FROM:<...>, 1: RCPT TO:<...> */
#endif
unsigned char lp[N + 1];  /* local part */

void sym_inputs(void)
{
#ifdef REPLAY
#include "replay_inputs.inc"
#else
  SYM_ARR(lp);
#endif
}

void vmain(void)
{
  static char a[AL + 1];
  static char cmd[6 + ML + 2];
  static stralloc enc;
  static const char host[] = HOST;
  const char *pfx;
  unsigned int i, n = 0;
  int r, quoted = 0, bs = 0, cr = 0, hi = 0;

  sym_inputs();
#if !EMPTY
  for (i = 0; i < N; ++i) {
    ASSUME(lp[i] != 0 && lp[i] != '\n');
    a[i] = (char) lp[i];
    if (lp[i] == '\\') bs = 1;
    if (lp[i] == '\r') cr = 1;
    if (lp[i] >= 128) hi = 1;
  }
  a[N] = '@';
  for (i = 0; i < HL; ++i) a[N + 1 + i] = host[i];
#endif
  a[AL] = 0;

  remote_addrmangle(&enc, a);                       /* client side */

  CHECK(enc.len <= ML, "encoded address fits 2N+2+1+HL (harness sizing)");
  ASSUME(enc.len <= ML);
  for (i = 0; i < ML; ++i) {
    if (i >= enc.len) break;
    CHECK(enc.s[i] != '\n' && enc.s[i] != 0, "C17: encoded address contains neither LF nor NUL (stays one SMTP command line)");
  }
  if (enc.len && enc.s[0] == '"') quoted = 1;

  pfx = RCPT ? "TO:<" : "FROM:<";                   /* what commands() hands to smtp_rcpt / smtp_mail */
  for (i = 0; i < 6; ++i) { if (!pfx[i]) break; cmd[n++] = pfx[i]; }
  for (i = 0; i < ML; ++i) { if (i >= enc.len) break; cmd[n++] = enc.s[i]; }
  cmd[n++] = '>';
  cmd[n] = 0;

  r = addrparse(cmd);                               /* server side */

  CHECK(r == 1, "C17: server accepts the client's encoding");
  CHECK(addr.len == AL + 1, "C17: parsed address has the length of the original (plus its NUL)");
  for (i = 0; i < AL + 1; ++i) {
    if (i >= addr.len) break;
    CHECK(addr.s[i] == a[i], "C17: parsed address is byte-identical to the original");
  }
#if EMPTY
  WITNESS("empty_sender");
#else
  if (quoted) WITNESS("quoted");
  if (!quoted) WITNESS("plain");
  if (bs) WITNESS("backslash");
  if (cr) WITNESS("cr");
  if (hi) WITNESS("eight_bit");
#endif
}
