/* grammar822.h - bounded RFC 822 address-list grammar with SYMBOLIC choices, shared by
 * addrlist_grammar.c (the list level: which tokens are a mailbox) and addr_grammar.c (the
 * address level: what the envelope form of one mailbox is).  The productions below emit
 * the token list AND, next to each emission, what the documents say about it - so the
 * expected mailboxes are known by construction; nothing is taken from token822.c or
 * qmail-inject.c.
 *
 *   address-list := [","] item { sep item } [","]            NM mailboxes (grid), <= NTOK tokens (grid)
 *   sep          := "," | ",," | <nothing>                   nothing only in front of a bare addr-spec:
 *                                                            qmail-header(5) "djb fred -> djb, fred"
 *   item         := mailbox | group                          (at most one group; it may be empty)
 *   group        := phrase ":" [mailbox { sep mailbox }] ";"
 *   mailbox      := addr-spec | [phrase] "<" [route] addr-spec ">"
 *   phrase       := word [word]                              word := atom | quoted-string
 *   route        := "@" sub ":" | "@" sub "." sub ":" | "@" sub "," "@" sub ":"
 *   addr-spec    := local-part [ "@" domain ]                no domain: lone box name (default host applies)
 *   local-part   := word [ "." word ]
 *   domain       := sub [ "." sub [ "." sub ] ]              sub := atom | domain-literal;
 *                                                            the last atom may end in "+" (plus domain)
 *   comments     : up to NC comment tokens at ANY position (before the first token, between
 *                  any two tokens, after the last); two or three may be adjacent.
 *
 * Atoms are one symbolic RFC 822 atom character; quoted-strings, domain-literals and
 * comments hold one symbolic byte (any value but NUL: a parsed quoted-pair can be
 * anything).  Folding and white space do not exist at this level: the queries start at the
 * token list a correct token822_parse delivers (text -> tokens: header_roundtrip.c);
 * nested comments have become plain comment content there.
 *
 * What the documents say (RFC 822 section 6, qmail-header(5), qmail-inject(8)):
 *   - the mailboxes of the list are the addr-specs; phrase, route, comments, group name
 *     and empty list elements are not part of any address;
 *   - lone box -> @defaulthost; host without dots -> .defaultdomain (defaulthost
 *     included); host ending in + -> + removed, .plusdomain (never defaultdomain); source
 *     routes are stripped; an illegal space between addresses acts as a comma.
 *   - the envelope form of a word is its content (quotes removed), of a domain-literal
 *     "[" content "]" (addresses(5): the envelope address is the unquoted string).
 *   Defaults here: defaulthost dh, defaultdomain dd, plusdomain pd.
 *   Silent documents: a single domain-literal as host ("a@[g]") - qmail-header(5) shows
 *   "djb@[128.32.183.163]" as complete, but "[g]" is also "a name without dots": both
 *   a@[g] and a@[g].dd are accepted (ex_alt).
 *
 * Every emitted token gets s = spool + 2*position, so a token that the code under test
 * hands around (copies of struct token822) can be traced back to its place in the list.
 */
#ifndef GRAMMAR822_H
#define GRAMMAR822_H

#ifndef NM
#define NM 2            /* mailboxes in the list */
#endif
#ifndef NTOK
#define NTOK 8          /* tokens of the list (comments included) */
#endif
#ifndef NC
#define NC 2            /* comments (<= NCMT) */
#endif

#define MM 3                       /* room in the template */
#define WPM 9                      /* word slots per mailbox: phrase 2, route 2, local-part 2, domain 3 */
#define NWORD (MM * WPM + 2)       /* + group name 2 */
#define NCMT 3
#define GCAP (NTOK + 2)            /* token positions (2 bytes of spool each; <= 64 bytes keep the pool field-sensitive) */
#if NM > MM || NC > NCMT || NTOK > 24
#error "NM <= 3, NC <= 3, NTOK <= 24"
#endif

/* ---- all nondeterminism of the grammar (assigned in sym_inputs() of the including harness) */
unsigned char wbyte[NWORD];   /* content byte of each word slot */
unsigned char wkind[NWORD];   /* 0: atom; 1: quoted-string (phrase, local-part) / domain-literal (route, domain) */
unsigned char cbyte[NCMT];    /* comment contents */
unsigned char cpos[NCMT];     /* comment c stands in front of the cpos[c]-th non-comment token (== their number: at the end; larger: absent) */
unsigned char m_ang[MM];      /* mailbox m: 0 addr-spec, 1 [phrase] < [route] addr-spec > */
unsigned char m_np[MM];       /* words in its phrase 0..2 */
unsigned char m_nr[MM];       /* route: 0 none, 1 @g:  2 @g.h:  3 @g,@h: */
unsigned char m_nl[MM];       /* words in the local-part 1..2 */
unsigned char m_nd[MM];       /* sub-domains 0..3 (0: lone box name) */
unsigned char m_plus[MM];     /* the last sub-domain is an atom ending in + */
unsigned char l_sep[MM];      /* separator in front of mailbox m when something precedes it: 0 none, 1 ","  2 ",," */
unsigned char l_lead, l_trail;/* empty first / last list element */
unsigned char g_on, g_0, g_1; /* one group, opened in front of mailbox g_0, closed in front of mailbox g_1 (g_0 <= g_1 <= NM) */
unsigned char g_np, g_sep;    /* words of the group name 1..2; separator in front of the group 1 ","  2 ",," */

/* the checking code of addrlist_forms.c (allocation/exit stubs, buffers, default-host setup objects, RFC 822 reference
 * reader) is reused by #include; its vmain/sym_inputs are renamed and never called.  (The inputs above are declared
 * first: in the replay build replay_inputs.inc is also expanded inside that renamed sym_inputs.) */
#define vmain forms_vmain
#define sym_inputs forms_sym_inputs
#undef FORM
#define FORM 1
#undef STAB
#define STAB 1                     /* compile its reference reader in; the including harness decides with GSTAB whether to use it */
#include "addrlist_forms.c"
#undef vmain
#undef sym_inputs

#define GRAMMAR_SYM_INPUTS \
  SYM_ARR(wbyte); SYM_ARR(wkind); SYM_ARR(cbyte); SYM_ARR(cpos); \
  SYM_ARR(m_ang); SYM_ARR(m_np); SYM_ARR(m_nr); SYM_ARR(m_nl); SYM_ARR(m_nd); SYM_ARR(m_plus); SYM_ARR(l_sep); \
  SYM(l_lead); SYM(l_trail); SYM(g_on); SYM(g_0); SYM(g_1); SYM(g_np); SYM(g_sep);

/* ---- token emission.  The productions write the non-comment tokens into small scalar
 * arrays (a struct array written at a symbolic index is rebuilt field by field by cbmc:
 * DESIGN.md 9.4); g_finish() then places the comments and builds the struct token822 list
 * with one read per position. */
#ifndef GPRE
#define GPRE 0                     /* tokens the harness puts in front of the list ("To" ":") */
#endif
#define BCAP (NTOK)                /* non-comment tokens */
static unsigned char b_type[BCAP], b_slen[BCAP], b_byte[BCAP];
static unsigned int bn;            /* non-comment tokens emitted so far ("base" positions) */
static struct token822 gt[GCAP];   /* the derived token list */
static unsigned int gn;            /* its length */
static char spool[2 * GCAP + 6];   /* position p: spool[2p] content, spool[2p+1] '+';  then "dhddpd" */
#define DEF_DH 0
#define DEF_DD 1
#define DEF_PD 2
#define DEFSTR(d) (spool + 2 * GCAP + 2 * (d))
static int overflow;               /* derivation longer than the bound: outside this query */
static unsigned int ph_first[MM];  /* base position of the first phrase word of mailbox m */
static int w_group, w_empty_group, w_missing_comma, w_route, w_phrase;
static int cmt_in_angle, cmt_in_phrase, cmt_any;

static unsigned int tok(int type, unsigned char c, int slen)
{
  unsigned int p = bn;
  if (p < BCAP) { b_type[p] = (unsigned char) type; b_slen[p] = (unsigned char) slen; b_byte[p] = c; }
  else overflow = 1;
  ++bn;
  return p;
}
#define SP(t) tok(t, 0, 0)
#define WORD(k, special) tok(wkind[k] ? (special) : TOKEN822_ATOM, wbyte[k], 1)

/* final position of base token k: the comments in front of it shift it */
static unsigned int fpos(unsigned int k)
{
  unsigned int c, n = 0;
  for (c = 0; c < NC; ++c) if (cpos[c] <= k) ++n;
  return GPRE + k + n;
}

/* ---- what the documents say about mailbox m, written by the productions */
#define EXCAP 20
#define RWMAX 12
static unsigned char ex[MM * EXCAP];      /* envelope form */
static unsigned int ex_n[MM];
static int ex_alt[MM];                    /* ... or the same followed by ".dd" (documents silent) */
static unsigned char rw_type[MM * RWMAX]; /* the rewritten address as a token list */
static unsigned char rw_src[MM * RWMAX];  /* content: position of the original token, or 200 + DEF_x */
static unsigned int rw_n[MM];
static unsigned int a_lo[MM], a_hi[MM];   /* positions of the first / last token of the address part ([route] addr-spec) */
static unsigned int a_lt[MM], a_gt[MM];   /* positions of "<" and ">" (angle form) */
static int a_set;

static void ex_put(unsigned int m, unsigned char c)
{
  if (ex_n[m] < EXCAP) ex[m * EXCAP + ex_n[m]] = c;
  ++ex_n[m];
}

static void rw_put(unsigned int m, int type, unsigned int src)
{
  if (rw_n[m] < RWMAX) { rw_type[m * RWMAX + rw_n[m]] = (unsigned char) type; rw_src[m * RWMAX + rw_n[m]] = (unsigned char) src; }
  ++rw_n[m];
}

static unsigned int apart(unsigned int m, unsigned int p)      /* p is a token of the address part */
{
  if (!a_set) { a_lo[m] = p; a_set = 1; }
  a_hi[m] = p;
  return p;
}

static void mailbox(unsigned int m)
{
  unsigned int b = m * WPM, i, p;
  a_set = 0;
  if (m_ang[m]) {
    ph_first[m] = 255;
    for (i = 0; i < 2; ++i) if (i < m_np[m]) { p = WORD(b + i, TOKEN822_QUOTE); if (!i) ph_first[m] = p; w_phrase = 1; }
    a_lt[m] = SP(TOKEN822_LEFT);
    if (m_nr[m]) {                             /* RFC 822 route: stripped (qmail-header(5)) */
      w_route = 1;
      apart(m, SP(TOKEN822_AT)); apart(m, WORD(b + 2, TOKEN822_LITERAL));
      if (m_nr[m] == 2) { apart(m, SP(TOKEN822_DOT)); apart(m, WORD(b + 3, TOKEN822_LITERAL)); }
      if (m_nr[m] == 3) { apart(m, SP(TOKEN822_COMMA)); apart(m, SP(TOKEN822_AT)); apart(m, WORD(b + 3, TOKEN822_LITERAL)); }
      apart(m, SP(TOKEN822_COLON));
    }
  }
  for (i = 0; i < 2; ++i)                      /* local-part: the content of its words, joined by dots */
    if (i < m_nl[m]) {
      if (i) { p = apart(m, SP(TOKEN822_DOT)); rw_put(m, TOKEN822_DOT, p); ex_put(m, '.'); }
      p = apart(m, WORD(b + 4 + i, TOKEN822_QUOTE));
      rw_put(m, wkind[b + 4 + i] ? TOKEN822_QUOTE : TOKEN822_ATOM, p); ex_put(m, wbyte[b + 4 + i]);
    }
  ex_put(m, '@');
  if (m_nd[m]) {
    p = apart(m, SP(TOKEN822_AT)); rw_put(m, TOKEN822_AT, p);
    for (i = 0; i < 3; ++i)
      if (i < m_nd[m]) {
        unsigned int k = b + 6 + i;
        if (i) { p = apart(m, SP(TOKEN822_DOT)); rw_put(m, TOKEN822_DOT, p); ex_put(m, '.'); }
        if (wkind[k]) {
          p = apart(m, tok(TOKEN822_LITERAL, wbyte[k], 1)); rw_put(m, TOKEN822_LITERAL, p);
          ex_put(m, '['); ex_put(m, wbyte[k]); ex_put(m, ']');
        } else {
          p = apart(m, tok(TOKEN822_ATOM, wbyte[k], (i + 1 == m_nd[m] && m_plus[m]) ? 2 : 1)); rw_put(m, TOKEN822_ATOM, p);
          ex_put(m, wbyte[k]);
        }
      }
    if (m_plus[m]) {                                                               /* host ends in +: plus domain, never default domain */
      rw_put(m, TOKEN822_DOT, 0); rw_put(m, TOKEN822_ATOM, 200 + DEF_PD);
      ex_put(m, '.'); ex_put(m, 'p'); ex_put(m, 'd');
    } else if (m_nd[m] == 1) {                                                     /* host without dots */
      if (wkind[b + 6]) ex_alt[m] = 1;                                             /* a@[g]: documents silent, see above */
      else { rw_put(m, TOKEN822_DOT, 0); rw_put(m, TOKEN822_ATOM, 200 + DEF_DD); ex_put(m, '.'); ex_put(m, 'd'); ex_put(m, 'd'); }
    }
  } else {                                                                         /* lone box: default host, which has no dots */
    rw_put(m, TOKEN822_AT, 0); rw_put(m, TOKEN822_ATOM, 200 + DEF_DH); rw_put(m, TOKEN822_DOT, 0); rw_put(m, TOKEN822_ATOM, 200 + DEF_DD);
    ex_put(m, 'd'); ex_put(m, 'h'); ex_put(m, '.'); ex_put(m, 'd'); ex_put(m, 'd');
  }
  if (m_ang[m]) a_gt[m] = SP(TOKEN822_RIGHT);
}

static void address_list(void)
{
  unsigned int m;
  int prev = 0;                  /* something (mailbox, closed group) precedes in this list context */
  if (l_lead) SP(TOKEN822_COMMA);
  for (m = 0; m < NM + 1; ++m) {
    if (g_on && g_0 == m) {      /* group opens: a comma is needed in front of it (its name would swallow what precedes) */
      if (prev) { SP(TOKEN822_COMMA); if (g_sep == 2) SP(TOKEN822_COMMA); }
      WORD(MM * WPM, TOKEN822_QUOTE);
      if (g_np == 2) WORD(MM * WPM + 1, TOKEN822_QUOTE);
      SP(TOKEN822_COLON);
      prev = 0; w_group = 1;
      if (g_1 == m) w_empty_group = 1;
    }
    if (g_on && g_1 == m) { SP(TOKEN822_SEMI); prev = 1; }
    if (m < NM) {
      if (prev) {
        if (l_sep[m] >= 1) SP(TOKEN822_COMMA);
        if (l_sep[m] == 2) SP(TOKEN822_COMMA);
        if (l_sep[m] == 0) w_missing_comma = 1;
      }
      mailbox(m);
      prev = 1;
    }
  }
  if (l_trail) SP(TOKEN822_COMMA);
}

/* place the comments, build the struct token822 list (after GPRE tokens the harness puts in front) */
static void g_finish(void)
{
  unsigned int p, c, m, total;
  for (p = 0; p < GCAP; ++p) { gt[p].s = spool + 2 * p; spool[2 * p + 1] = '+'; }
  spool[2 * GCAP] = 'd'; spool[2 * GCAP + 1] = 'h'; spool[2 * GCAP + 2] = 'd'; spool[2 * GCAP + 3] = 'd';
  spool[2 * GCAP + 4] = 'p'; spool[2 * GCAP + 5] = 'd';
  total = bn;
  for (c = 0; c < NC; ++c) if (cpos[c] <= bn) { ++total; cmt_any = 1; }
  if (bn > BCAP || total > NTOK) { overflow = 1; return; }
  gn = GPRE + total;
  for (p = 0; p < NTOK; ++p) {
    unsigned int before = 0, k;
    int is_c = 0; unsigned char cb = 0;
    if (p >= total) break;
    for (c = 0; c < NC; ++c) {               /* comment c stands at position cpos[c] + c */
      if (cpos[c] + c < p) ++before;
      if (cpos[c] + c == p) { is_c = 1; cb = cbyte[c]; }
    }
    k = p - before;
    if (is_c) { gt[GPRE + p].type = TOKEN822_COMMENT; gt[GPRE + p].slen = 1; spool[2 * (GPRE + p)] = (char) cb; }
    else { if (k >= BCAP) k = 0; gt[GPRE + p].type = b_type[k]; gt[GPRE + p].slen = b_slen[k]; spool[2 * (GPRE + p)] = (char) b_byte[k]; }
  }
  for (m = 0; m < NM; ++m)
    for (c = 0; c < NC; ++c) {
      if (cpos[c] > bn) continue;
      if (m_ang[m] && a_lt[m] < cpos[c] && cpos[c] <= a_gt[m]) cmt_in_angle = 1;      /* between "<" and ">" */
      if (m_ang[m] && ph_first[m] < cpos[c] && cpos[c] <= a_lt[m]) cmt_in_phrase = 1;  /* a phrase word to its left, "<" to its right */
    }
}

/* ranges of the choice variables = the bounded grammar */
static void grammar_assumptions(void)
{
  unsigned int i, m;
  for (i = 0; i < NWORD; ++i) {
    ASSUME(wkind[i] <= 1);
    if (wkind[i]) { ASSUME(wbyte[i] != 0); }     /* quoted-string / domain-literal content */
    else { ASSUME(atomchar(wbyte[i])); }
  }
  for (i = 0; i < NCMT; ++i) { ASSUME(cbyte[i] != 0); }
  for (i = 0; i + 1 < NCMT; ++i) { ASSUME(cpos[i] <= cpos[i + 1]); }     /* symmetry: comments are numbered left to right */
  for (m = 0; m < MM; ++m) {
    unsigned int b = m * WPM;
    ASSUME(m_ang[m] <= 1 && m_np[m] <= 2 && m_nr[m] <= 3 && m_nl[m] >= 1 && m_nl[m] <= 2 && m_nd[m] <= 3 && m_plus[m] <= 1 && l_sep[m] <= 2);
    if (!m_ang[m]) { ASSUME(m_np[m] == 0 && m_nr[m] == 0); }          /* phrase and route exist in the angle form only */
    else { ASSUME(l_sep[m] != 0); }                                      /* a missing comma is tolerated in front of a bare addr-spec only */
    for (i = 0; i < 3; ++i) if (!wkind[b + 6 + i]) { ASSUME(wbyte[b + 6 + i] != '+'); }   /* "+" at the end of a host only through m_plus */
    if (m_plus[m]) { ASSUME(m_nd[m] >= 1 && !wkind[b + 6 + m_nd[m] - 1]); }
  }
  ASSUME(l_lead <= 1 && l_trail <= 1 && g_on <= 1 && g_0 <= g_1 && g_1 <= NM && g_np >= 1 && g_np <= 2 && g_sep >= 1 && g_sep <= 2);
}

/* got == envelope form of mailbox j */
static int same(stralloc *got, unsigned int j)
{
  unsigned int i, n = ex_n[j];
  int ok = 1, okalt = ex_alt[j];
  if (n > EXCAP) return 0;
  for (i = 0; i < EXCAP + 3; ++i) {
    unsigned char g, w;
    if (i >= got->len) break;
    g = (unsigned char) got->s[i];
    if (i < n) { w = ex[j * EXCAP + i]; if (g != w) { ok = 0; okalt = 0; } }
    else { ok = 0; w = i == n ? '.' : 'd'; if (i >= n + 3 || g != w) okalt = 0; }
  }
  if (got->len != n) ok = 0;
  if (got->len != n + 3) okalt = 0;
  return ok || okalt;
}

#endif
