/* C17(4) - generator form: the header recipients of qmail-inject are exactly the listed
 * mailboxes after default-host / default-domain / plus-domain rewriting.
 * The harness BUILDS the token list of a To: field in one of the syntactic forms of
 * RFC 822 / qmail-header(5) (FORM, concrete per query) from symbolic 1-byte atoms, so the
 * expected mailboxes are known by construction, and runs the real
 *   token822.c token822_addrlist (with the real gotaddr), qmail-inject.c rwtocc ->
 *   rwgeneric (rwroute, rwextradot, rwextraat, rwnoat, rwplus, rwnodot) -> rwappend ->
 *   token822_unquote
 * on it.  Text -> tokens (token822_parse) is the subject of header_roundtrip.c; this query starts at the token list a correct parse delivers.
 * qmail-header(5): lone box gets the default host; host without dots gets the default
 * domain; host ending in + gets the plus domain; source routes are stripped; "djb fred ->
 * djb, fred"; address groups; comments.  Defaults here: defaulthost dh, defaultdomain dd,
 * plusdomain pd (one label each).
 * STAB=1 adds C17(3): the rewritten token list, written out by the real token822_unparse,
 * is read by an RFC 822 reference reader and must give back the same tokens - so every
 * RFC 822 reader finds the same addresses in the rewritten header.  (The second reading
 * cannot go through the real token822_parse: on text with symbolic bytes it does not close
 * beyond about 6 bytes, measured; its agreement with RFC 822 on quoted addresses is
 * header_roundtrip.c.)
 */
#include <stddef.h>
#include "verif.h"
#define puts inject_puts
#include "gen_qmail-inject.c"

#ifndef FORM
#define FORM 1
#endif

unsigned char sy[10];      /* symbolic atom characters a b c d e f r s l P */
unsigned char qc;          /* content of a quoted-string: any byte except NUL */

void sym_inputs(void)
{
#ifdef REPLAY
#include "replay_inputs.inc"
#else
  SYM_ARR(sy); SYM(qc);
#endif
}

void *vf_malloc(size_t n) { (void) n; CHECK(0, "no allocation: arrays are pre-sized (growth inside the bound)"); PATH_END(); return 0; }
void *vf_realloc(void *p, size_t n) { (void) p; (void) n; CHECK(0, "no reallocation: arrays are pre-sized (growth inside the bound)"); PATH_END(); return 0; }
void vf__exit(int status) { (void) status; CHECK(0, "qmail-inject does not give up on a valid field"); PATH_END();
#ifdef VERIF_CBMC
  __CPROVER_assume(0);
#endif
}
int ideal_getc(substdio *s) { (void) s; return -1; }
int ideal_putc(substdio *s, unsigned char c) { (void) s; (void) c; return 0; }
int ideal_flush(substdio *s) { (void) s; return 0; }
static substdio it_err; substdio *subfderr = &it_err;
static substdio it_out; substdio *subfdout = &it_out;

static int atomchar(unsigned char c)      /* RFC 822 atom character */
{
  if (c <= 32 || c >= 127) return 0;
  switch (c) {
    case '(': case ')': case '<': case '>': case '@': case ',': case ';': case ':':
    case '\\': case '"': case '.': case '[': case ']': return 0;
  }
  return 1;
}

#define MAXTOK 24
static struct token822 b_in[MAXTOK], b_rw[MAXTOK + 8], b_ad[MAXTOK];
static token822_alloc ta_in = { b_in, 0, MAXTOK };
static stralloc l_hr[3], l_tocc[3];
static struct token822 t_dh[2], t_dd[2], t_pd[2];
static char cs[10], cplus[2], cq[1];

static void add(int type, char *s, int slen)
{
  b_in[ta_in.len].type = type; b_in[ta_in.len].s = s; b_in[ta_in.len].slen = slen; ++ta_in.len;
}
#define A(k) add(TOKEN822_ATOM, cs + (k), 1)
#define AT add(TOKEN822_AT, 0, 0)
#define DOT add(TOKEN822_DOT, 0, 0)
#define LT add(TOKEN822_LEFT, 0, 0)
#define GT add(TOKEN822_RIGHT, 0, 0)
#define COMMA add(TOKEN822_COMMA, 0, 0)
#define SEMI add(TOKEN822_SEMI, 0, 0)
#define COLON add(TOKEN822_COLON, 0, 0)
#define CMT(k) add(TOKEN822_COMMENT, cs + (k), 1)
#define ABC A(0); AT; A(1); DOT; A(2)         /* a@b.c */
#define DEF A(3); AT; A(4); DOT; A(5)         /* d@e.f */

/* expected mailboxes, written as patterns: lower-case letter k = cs[k-'a'], Q = quoted content, others literal */
static const char *want[2]; static unsigned int nwant;

static int matches(stralloc *got, const char *pat)
{
  unsigned int i;
  for (i = 0; i < 12; ++i) {
    unsigned char w;
    if (!pat[i]) return got->len == i;
    if (i >= got->len) return 0;
    w = (unsigned char) pat[i];
    if (w >= 'a' && w <= 'j') w = (unsigned char) cs[w - 'a'];
    else if (w == 'Q') w = qc;
    else if (w == 'H') w = 'h';
    else if (w == 'D') w = 'd';
    else if (w == 'P') w = 'p';
    if ((unsigned char) got->s[i] != w) return 0;
  }
  return 0;
}

#ifndef STAB
#define STAB 0
#endif

#if STAB
/* ---- C17(3): RFC 822 reference reader (section 3.1-3.3: lexical tokens), one pass, one
 * loop.  It reads the text that token822_unparse() produced for the rewritten field and
 * compares, token by token, with the token list that was written out: types, contents
 * (after removing quotes and quoted-pairs), nothing missing, nothing extra.  Linear white
 * space (space, tab, and the LF+space folds) only separates tokens. */
#define TEXTMAX 56
enum { S_NONE, S_ATOM, S_QUOTE, S_QUOTE_ESC, S_CMT, S_CMT_ESC, S_LIT, S_LIT_ESC };

static void reference_read(stralloc *text, token822_alloc *want_t)
{
  unsigned int i, idx = 0, k = 0;
  int st = S_NONE;
  for (i = 0; i < TEXTMAX + 1; ++i) {
    unsigned char c;
    int end = i >= text->len;
    struct token822 *e;
    c = end ? '\n' : (unsigned char) text->s[i];
    e = &want_t->t[idx < want_t->len ? idx : 0];
    if (st == S_ATOM && !atomchar(c)) {                 /* atom ends before c */
      CHECK(idx < want_t->len && e->type == TOKEN822_ATOM && (unsigned int) e->slen == k, "C17(3): atom read back as written");
      ++idx; k = 0; st = S_NONE;
      e = &want_t->t[idx < want_t->len ? idx : 0];
    }
    if (end) break;
    switch (st) {
      case S_NONE:
        if (c == ' ' || c == '\t' || c == '\n' || c == '\r') {
          if (c == '\n') CHECK(i + 1 >= text->len || text->s[i + 1] == ' ' || text->s[i + 1] == '\t', "C17(3): a line break inside the field is followed by white space (folding)");
          break;
        }
        CHECK(idx < want_t->len, "C17(3): the text holds no token that was not written");
        if (c == '"') { CHECK(e->type == TOKEN822_QUOTE, "C17(3): quoted-string where one was written"); st = S_QUOTE; k = 0; break; }
        if (c == '(') { CHECK(e->type == TOKEN822_COMMENT, "C17(3): comment where one was written"); st = S_CMT; k = 0; break; }
        if (c == '[') { CHECK(e->type == TOKEN822_LITERAL, "C17(3): domain-literal where one was written"); st = S_LIT; k = 0; break; }
        if (atomchar(c)) {
          CHECK(e->type == TOKEN822_ATOM && e->slen >= 1 && (unsigned char) e->s[0] == c, "C17(3): atom where one was written");
          st = S_ATOM; k = 1; break;
        }
        {
          int t = c == '@' ? TOKEN822_AT : c == '.' ? TOKEN822_DOT : c == '<' ? TOKEN822_LEFT : c == '>' ? TOKEN822_RIGHT
                : c == ',' ? TOKEN822_COMMA : c == ';' ? TOKEN822_SEMI : c == ':' ? TOKEN822_COLON : 0;
          CHECK(t != 0, "C17(3): no stray special, control or 8-bit character outside quotes");
          CHECK(e->type == t, "C17(3): special read back as written");
          ++idx;
        }
        break;
      case S_ATOM:
        CHECK(k < (unsigned int) e->slen && (unsigned char) e->s[k] == c, "C17(3): atom read back as written (content)");
        ++k; break;
      case S_QUOTE: case S_CMT: case S_LIT:
        if (c == '\\') { st = st == S_QUOTE ? S_QUOTE_ESC : st == S_CMT ? S_CMT_ESC : S_LIT_ESC; break; }
        if ((st == S_QUOTE && c == '"') || (st == S_CMT && c == ')') || (st == S_LIT && c == ']')) {
          CHECK((unsigned int) e->slen == k, "C17(3): quoted-string/comment/literal read back with its full content");
          ++idx; k = 0; st = S_NONE; break;
        }
        CHECK(c != '\r', "C17(3): no bare CR inside quotes, comments or literals");
        if (st == S_CMT) CHECK(c != '(', "C17(3): a parenthesis inside a comment is quoted (one-level comments were written)");
        if (st == S_LIT) CHECK(c != '[', "C17(3): a bracket inside a domain-literal is quoted");
        CHECK(k < (unsigned int) e->slen && (unsigned char) e->s[k] == c, "C17(3): quoted content read back as written");
        ++k; break;
      default:  /* after a backslash: quoted-pair */
        CHECK(k < (unsigned int) e->slen && (unsigned char) e->s[k] == c, "C17(3): quoted-pair read back as the character written");
        ++k; st = st == S_QUOTE_ESC ? S_QUOTE : st == S_CMT_ESC ? S_CMT : S_LIT; break;
    }
  }
  CHECK(st == S_NONE, "C17(3): the text does not end inside a quoted-string, comment or literal");
  CHECK(idx == want_t->len, "C17(3): every token written is read back");
}
#endif

void vmain(void)
{
  unsigned int i;
  int r;
  sym_inputs();
  for (i = 0; i < 10; ++i) { ASSUME(atomchar(sy[i]) && sy[i] != '+'); cs[i] = (char) sy[i]; }
  /* the last label of every host is a constant letter: rwplus() looks at its last byte,
   * and with a symbolic byte there the "ends in +" rewriting is encoded on every form */
  cs[2] = 'c'; cs[5] = 'f';
  ASSUME(qc != 0);
  cq[0] = (char) qc; cplus[0] = cs[1]; cplus[1] = '+';

  /* controls: defaulthost dh, defaultdomain dd, plusdomain pd, as getcontrols() parses them */
  t_dh[0].type = TOKEN822_AT; t_dh[1].type = TOKEN822_ATOM; t_dh[1].s = "dh"; t_dh[1].slen = 2;
  t_dd[0].type = TOKEN822_DOT; t_dd[1].type = TOKEN822_ATOM; t_dd[1].s = "dd"; t_dd[1].slen = 2;
  t_pd[0].type = TOKEN822_DOT; t_pd[1].type = TOKEN822_ATOM; t_pd[1].s = "pd"; t_pd[1].slen = 2;
  defaulthost.t = t_dh; defaulthost.len = 2; defaulthost.a = 2;
  defaultdomain.t = t_dd; defaultdomain.len = 2; defaultdomain.a = 2;
  plusdomain.t = t_pd; plusdomain.len = 2; plusdomain.a = 2;
  hfrewrite.t = b_rw; hfrewrite.a = MAXTOK + 8; hfaddr.t = b_ad; hfaddr.a = MAXTOK;
  hrlist.sa = l_hr; hrlist.a = 3; tocclist.sa = l_tocc; tocclist.a = 3;

  add(TOKEN822_ATOM, "To", 2); COLON;
#if FORM == 1            /* a@b.c */
  ABC; want[0] = "a@b.c"; nwant = 1;
#elif FORM == 2          /* a                       lone box: default host, then default domain */
  A(0); want[0] = "a@DH.DD"; nwant = 1;
#elif FORM == 3          /* a@c                     host without dots: default domain */
  A(0); AT; A(2); want[0] = "a@c.DD"; nwant = 1;
#elif FORM == 4          /* a@b+                    plus domain */
  A(0); AT; add(TOKEN822_ATOM, cplus, 2); want[0] = "a@b.PD"; nwant = 1;
#elif FORM == 5          /* j i <a@b.c>             phrase and angle brackets */
  A(9); A(8); LT; ABC; GT; want[0] = "a@b.c"; nwant = 1;
#elif FORM == 6          /* (g) a@b.c (h)           comments before and after */
  CMT(6); ABC; CMT(7); want[0] = "a@b.c"; nwant = 1;
#elif FORM == 7          /* "Q"@b.c                 quoted local part, any byte */
  add(TOKEN822_QUOTE, cq, 1); AT; A(1); DOT; A(2); want[0] = "Q@b.c"; nwant = 1;
#elif FORM == 8          /* a@[g]                   domain literal */
  A(0); AT; add(TOKEN822_LITERAL, cs + 6, 1); want[0] = "a@[g]"; nwant = 1;
#elif FORM == 9          /* <@g.h:a@b.c>            source route is stripped */
  LT; AT; A(6); DOT; A(7); COLON; ABC; GT; want[0] = "a@b.c"; nwant = 1;
#elif FORM == 10         /* j: a@b.c, d@e.f;        group */
  A(9); COLON; ABC; COMMA; DEF; SEMI; want[0] = "a@b.c"; want[1] = "d@e.f"; nwant = 2;
#elif FORM == 11         /* a@b.c d@e.f             missing comma */
  ABC; DEF; want[0] = "a@b.c"; want[1] = "d@e.f"; nwant = 2;
#elif FORM == 12         /* a@b.c, d@e.f */
  ABC; COMMA; DEF; want[0] = "a@b.c"; want[1] = "d@e.f"; nwant = 2;
#elif FORM == 13         /* a.b@d.c                 dotted local part */
  A(0); DOT; A(1); AT; A(3); DOT; A(2); want[0] = "a.b@d.c"; nwant = 1;
#elif FORM == 14         /* j <a@b.c>, d            mixed forms */
  A(9); LT; ABC; GT; COMMA; A(3); want[0] = "a@b.c"; want[1] = "d@DH.DD"; nwant = 2;
#elif FORM == 15         /* a (g) @ b.c             comment inside the address */
  A(0); CMT(6); AT; A(1); DOT; A(2); want[0] = "a@b.c"; nwant = 1;
#elif FORM == 16         /* "Q" <a@b.c>             quoted phrase */
  add(TOKEN822_QUOTE, cq, 1); LT; ABC; GT; want[0] = "a@b.c"; nwant = 1;
#elif FORM == 17         /* a@b.c,                  empty list element */
  ABC; COMMA; want[0] = "a@b.c"; nwant = 1;
#elif FORM == 18         /* <a>                     lone box in angle brackets */
  LT; A(0); GT; want[0] = "a@DH.DD"; nwant = 1;
#elif FORM == 19         /* a d                     two lone boxes, missing comma: "djb fred -> djb, fred" */
  A(0); A(3); want[0] = "a@DH.DD"; want[1] = "d@DH.DD"; nwant = 2;
#elif FORM == 20         /* j: ;                    empty group: no mailbox */
  A(9); COLON; SEMI; nwant = 0;
#elif FORM == 21         /* j (g) <a@b.c>           comment between the phrase and the angle address */
  A(9); CMT(6); LT; ABC; GT; want[0] = "a@b.c"; nwant = 1;
#elif FORM == 22         /* j (g) i <a@b.c>         comment inside the phrase */
  A(9); CMT(6); A(8); LT; ABC; GT; want[0] = "a@b.c"; nwant = 1;
#elif FORM == 23         /* "Q" (g) <a@b.c>         quoted phrase, comment, angle address */
  add(TOKEN822_QUOTE, cq, 1); CMT(6); LT; ABC; GT; want[0] = "a@b.c"; nwant = 1;
#else
#error "unknown FORM"
#endif

  r = token822_addrlist(&hfrewrite, &hfaddr, &ta_in, rwtocc);

  CHECK(r == 1, "C17: a syntactically valid address list is accepted");
  CHECK(hrlist.len == nwant && tocclist.len == nwant, "C17: exactly the listed mailboxes become header recipients (count)");
  if (hrlist.len == nwant) {
    if (nwant == 1) CHECK(matches(&hrlist.sa[0], want[0]), "C17: the mailbox is the listed one after default-host/domain/plus rewriting");
    if (nwant == 2)
      CHECK((matches(&hrlist.sa[0], want[0]) && matches(&hrlist.sa[1], want[1]))
            || (matches(&hrlist.sa[0], want[1]) && matches(&hrlist.sa[1], want[0])),
            "C17: the two mailboxes are the listed ones (in either order) after rewriting");
  }
#if STAB
  /* C17(3): the rewritten field is written out by token822_unparse (as doheaderfield
   * does) and read by the RFC 822 reference reader */
  {
    static char b_text[TEXTMAX];
    static stralloc text = { b_text, 0, TEXTMAX };
    CHECK(token822_unparse(&text, &hfrewrite, LINELEN) == 1, "unparse succeeds");
    CHECK(text.len >= 1 && text.len <= TEXTMAX && text.s[text.len - 1] == '\n', "C17(3): the rewritten field ends with its newline");
    ASSUME(text.len <= TEXTMAX);
    reference_read(&text, &hfrewrite);
    WITNESS("reread");
  }
#endif
  WITNESS("form_done");
}
