/* C17(2) - an address quoted for a header field (quote.c quote2) and parsed back as an
 * RFC 822 address list (token822.c token822_parse -> token822_addrlist -> callback ->
 * token822_unquote, the path qmail-inject takes for To:/Cc:/Bcc: and for its recipient
 * arguments) yields the identical address: for every local part of N bytes (any values
 * except NUL and LF) at a fixed host.
 *
 * token822_alloc arrays are pre-sized typed static buffers; malloc/realloc must not be
 * reached ("growth inside the bound" is an obligation).  strallocs: arena.
 */
#include <stddef.h>
#include "verif.h"
#include "stralloc.h"
#include "token822.h"
#include "quote.h"

#ifndef N
#define N 3
#endif
#define HOST "h"
#define HL 1
#define AL (N + 1 + HL)            /* address length */
#define QL (2 * N + 2 + 1 + HL)    /* longest quoted form */
#define NTOK (N + 5)               /* To : <local tokens> @ h */

unsigned char lp[N + 1];

void sym_inputs(void)
{
#ifdef REPLAY
#include "replay_inputs.inc"
#else
  SYM_ARR(lp);
#endif
}

void *vf_malloc(size_t n) { (void) n; CHECK(0, "no allocation: token arrays are pre-sized (growth inside the bound)"); PATH_END(); return 0; }
void *vf_realloc(void *p, size_t n) { (void) p; (void) n; CHECK(0, "no reallocation: token arrays are pre-sized (growth inside the bound)"); PATH_END(); return 0; }

static struct token822 b_in[NTOK], b_out[NTOK + 2], b_addr[NTOK];
static token822_alloc ta_in = { b_in, 0, NTOK }, ta_out = { b_out, 0, NTOK + 2 }, ta_addr = { b_addr, 0, NTOK };
static stralloc parsebuf, got;
static unsigned int n_addr;

/* The callback is expanded at every place where token822_addrlist() may complete an
 * address; it only takes a snapshot of the first address (cheap); the unquoting that
 * qmail-inject's rwappend() does inside its callback is done on the snapshot afterwards. */
static struct token822 snap[NTOK]; static unsigned int snap_len;

static int collect(token822_alloc *addr)
{
  unsigned int k;
  if (n_addr++ == 0) {
    CHECK(addr->len <= NTOK, "address fits the token buffer (harness sizing)");
    snap_len = addr->len;
    for (k = 0; k < NTOK; ++k) snap[k] = addr->t[k];
  }
  return 1;
}

void vmain(void)
{
  static char a[AL + 1];
  static char hbuf[3 + QL + 2];
  static stralloc q, hdr;
  static const char host[] = HOST;
  unsigned int i, n = 0;
  int quoted = 0, bs = 0, cr = 0, hi = 0, sp = 0;

  sym_inputs();
  for (i = 0; i < N; ++i) {
    ASSUME(lp[i] != 0 && lp[i] != '\n');
    a[i] = (char) lp[i];
    if (lp[i] == '\\') bs = 1;
    if (lp[i] == '\r') cr = 1;
    if (lp[i] >= 128) hi = 1;
    if (lp[i] == '(' || lp[i] == ',' || lp[i] == '<') sp = 1;
  }
  a[N] = '@';
  for (i = 0; i < HL; ++i) a[N + 1 + i] = host[i];
  a[AL] = 0;

  CHECK(quote2(&q, a) == 1, "quote2 succeeds");
  CHECK(q.len <= QL, "quoted address fits 2N+2+1+HL (harness sizing)");
  ASSUME(q.len <= QL);
  if (q.len && q.s[0] == '"') quoted = 1;

  hbuf[n++] = 'T'; hbuf[n++] = 'o'; hbuf[n++] = ':';
  for (i = 0; i < QL; ++i) { if (i >= q.len) break; hbuf[n++] = q.s[i]; }
  hbuf[n++] = '\n';
  hdr.s = hbuf; hdr.len = n; hdr.a = sizeof hbuf;

  CHECK(token822_parse(&ta_in, &hdr, &parsebuf) == 1, "C17: the quoted address parses as an RFC 822 header field");
  CHECK(token822_addrlist(&ta_out, &ta_addr, &ta_in, collect) == 1, "C17: ... and as an address list");
  CHECK(n_addr == 1, "C17: exactly one address is found");
  {
    token822_alloc one;
    one.t = snap; one.len = snap_len <= NTOK ? snap_len : 0; one.a = NTOK;
    token822_reverse(&one);                    /* addrlist hands the tokens over right-to-left */
    CHECK(token822_unquote(&got, &one) == 1, "token822_unquote succeeds");
  }
  CHECK(got.len == AL, "C17: the address found has the length of the original");
  for (i = 0; i < AL; ++i) {
    if (i >= got.len) break;
    CHECK(got.s[i] == a[i], "C17: the address found is byte-identical to the original");
  }
  if (quoted) WITNESS("quoted");
  if (!quoted) WITNESS("plain");
  if (bs) WITNESS("backslash");
  if (cr) WITNESS("cr");
  if (hi) WITNESS("eight_bit");
  if (sp) WITNESS("special");
}
