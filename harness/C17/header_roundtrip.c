/* C17(2) - an address quoted for a header field (quote.c quote2) and parsed back as an
 * RFC 822 address list (token822.c token822_parse -> token822_addrlist -> callback ->
 * token822_unquote, the path qmail-inject takes for To:/Cc:/Bcc: and for its recipient
 * arguments) yields the identical address: for every local part of N bytes (any values
 * except NUL and LF) at a fixed host.
 *
 * token822_alloc arrays are pre-sized typed static buffers; malloc/realloc must not be
 * reached ("growth inside the bound" is an obligation).  strallocs: arena.
 */
#include <stddef.h>
#include "verif.h"
#include "stralloc.h"
#include "token822.h"
#include "quote.h"

#ifndef N
#define N 3
#endif
#ifndef QUOTED
#define QUOTED 1
#endif
#define HOST "h"
#define HL 1
#define AL (N + 1 + HL)            /* address length */
#define QL (2 * N + 2 + 1 + HL)    /* longest quoted form */
#if QUOTED
#define NTOK 5                     /* To : "..." @ h */
#else
#define NTOK (N + 4)               /* To : <atoms and dots> @ h */
#endif

unsigned char lp[N + 1];

void sym_inputs(void)
{
#ifdef REPLAY
#include "replay_inputs.inc"
#else
  SYM_ARR(lp);
#endif
}

void *vf_malloc(size_t n) { (void) n; CHECK(0, "no allocation: token arrays are pre-sized (growth inside the bound)"); PATH_END(); return 0; }
void *vf_realloc(void *p, size_t n) { (void) p; (void) n; CHECK(0, "no reallocation: token arrays are pre-sized (growth inside the bound)"); PATH_END(); return 0; }

static struct token822 b_in[NTOK], b_out[NTOK + 1], b_addr[NTOK];
static token822_alloc ta_in = { b_in, 0, NTOK }, ta_out = { b_out, 0, NTOK + 1 }, ta_addr = { b_addr, 0, NTOK };
static char b_parse[QL + 2], b_got[QL + 2], b_q[QL + 2];          /* the harness's own strallocs are pre-sized too */
static stralloc parsebuf = { b_parse, 0, sizeof b_parse }, got = { b_got, 0, sizeof b_got };
static unsigned int n_addr;

/* gotaddr() (static in token822.c: "an address is complete: hand it to the callback,
 * move its tokens to the output list") is CUT: token822_addrlist() expands it at 31
 * places.  Contract (proved on the real function by obligation gotaddr_contract):
 * callback(taaddr) is called once; if it returns 1 the tokens of taaddr are appended to
 * taout in order, taaddr is emptied and 1 is returned.  The stub notes the first
 * address; its tokens stay in taaddr's array, which token822_addrlist() only writes
 * again when it collects a further address (then n_addr > 1 and the check fails). */
static unsigned int first_len;
static token822_alloc *first_ta;

int gotaddr(token822_alloc *taout, token822_alloc *taaddr, int (*callback)())
{
  (void) callback;
  if (n_addr++ == 0) { first_len = taaddr->len; first_ta = taaddr; }
  CHECK(taout->len + taaddr->len <= taout->a, "output token list fits (harness sizing)");
  ASSUME(taout->len + taaddr->len <= taout->a);
  taout->len += taaddr->len;          /* contents of the output list are not examined here */
  taaddr->len = 0;
  return 1;
}

static int collect(token822_alloc *addr) { (void) addr; CHECK(0, "callback is reached only through gotaddr"); return 1; }

void vmain(void)
{
  static char a[AL + 1];
  static char hbuf[3 + QL + 2];
  static stralloc q = { b_q, 0, sizeof b_q }, hdr;
  static const char host[] = HOST;
  unsigned int i, n = 0;
  int quoted = 0, bs = 0, cr = 0, hi = 0, sp = 0;

  sym_inputs();
  for (i = 0; i < N; ++i) {
    ASSUME(lp[i] != 0 && lp[i] != '\n');
    a[i] = (char) lp[i];
    if (lp[i] == '\\') bs = 1;
    if (lp[i] == '\r') cr = 1;
    if (lp[i] >= 128) hi = 1;
    if (lp[i] == '(' || lp[i] == ',' || lp[i] == '<') sp = 1;
  }
  a[N] = '@';
  for (i = 0; i < HL; ++i) a[N + 1 + i] = host[i];
  a[AL] = 0;

  CHECK(quote2(&q, a) == 1, "quote2 succeeds");
  CHECK(q.len <= QL, "quoted address fits 2N+2+1+HL (harness sizing)");
  ASSUME(q.len <= QL);
  if (q.len && q.s[0] == '"') quoted = 1;

  /* Case split, one query each (together they cover every input): QUOTED=1 follows the
   * runs in which quote2 produced a quoted-string, QUOTED=0 the others.  In each case
   * the bytes whose value the run has just established are written into the header as
   * constants, so that symbolic execution can discard parser branches; the per-loop
   * unwinding bounds of the plan differ between the two cases and are each proved
   * sufficient by their unwinding assertions. */
  hbuf[n++] = 'T'; hbuf[n++] = 'o'; hbuf[n++] = ':';
#if QUOTED
  if (!quoted) return;
  hbuf[n++] = '"';
  for (i = 1; i < QL; ++i) { if (i >= q.len) break; hbuf[n++] = q.s[i]; }
#else
  if (quoted) return;
  /* RFC 822: an unquoted local part stands for itself; quote2 "does as little quoting as
   * possible" - an address that needs none is passed through unchanged */
  CHECK(q.len == AL, "C17: an address that needs no quoting is left unchanged by quote2 (length)");
  ASSUME(q.len == AL);
  for (i = 0; i < AL; ++i) CHECK(q.s[i] == a[i], "C17: an address that needs no quoting is left unchanged by quote2");
  for (i = 0; i < N; ++i) hbuf[n++] = q.s[i];
  hbuf[n++] = '@';
  for (i = 0; i < HL; ++i) hbuf[n++] = host[i];
#endif
  hdr.s = hbuf; hdr.len = n; hdr.a = sizeof hbuf;

  CHECK(token822_parse(&ta_in, &hdr, &parsebuf) == 1, "C17: the quoted address parses as an RFC 822 header field");
  CHECK(token822_addrlist(&ta_out, &ta_addr, &ta_in, collect) == 1, "C17: ... and as an address list");
  CHECK(n_addr == 1, "C17: exactly one address is found");
  CHECK(first_ta == &ta_addr && first_len <= NTOK, "the address was collected in the address buffer");
  {                                            /* what qmail-inject's rwappend() does with an address */
    token822_alloc one;
    one.t = b_addr; one.len = first_len <= NTOK ? first_len : 0; one.a = NTOK;
    token822_reverse(&one);                    /* addrlist hands the tokens over right-to-left */
    CHECK(token822_unquote(&got, &one) == 1, "token822_unquote succeeds");
  }
  CHECK(got.len == AL, "C17: the address found has the length of the original");
  for (i = 0; i < AL; ++i) {
    if (i >= got.len) break;
    CHECK(got.s[i] == a[i], "C17: the address found is byte-identical to the original");
  }
  if (quoted) WITNESS("quoted");
  if (!quoted) WITNESS("plain");
  if (bs) WITNESS("backslash");
  if (cr) WITNESS("cr");
  if (hi) WITNESS("eight_bit");
  if (sp) WITNESS("special");
}
