/* C17(5) - qmail-inject.c doheaderfield(): which header fields are deleted, which are
 * kept, and which feed the envelope.
 * qmail-header(5): "qmail-inject deletes any Bcc field", "deletes any Resent-Bcc field",
 *   "removes all Return-Path header fields", "also removes any Content-Length fields";
 *   recipient address lists are looked for in To, Cc, Bcc, Apparently-To (message) and
 *   Resent-To, Resent-Cc, Resent-Bcc (resent message); case is irrelevant in field names.
 * qmail-inject(8): QMAILINJECT f deletes any incoming From, i any incoming Message-ID;
 *   Return-Path is deleted in any case.
 *
 * Encoded from /repo: qmail-inject.c (text before main: doheaderfield, rw* callbacks,
 * rwgeneric, rwappend), hfield.c, token822.c reverse/unquote/readyplus.
 * savedh_append() is cut (observed).  token822_parse/addrlist/unparse are cut: parse and
 * addrlist succeed or fail as a symbolic tape says; a succeeding addrlist reports one
 * address a@h.x to the callback it was given, so the harness sees which envelope list
 * the field feeds.
 */
#include <stddef.h>
#include "verif.h"
#define puts inject_puts          /* qmail-inject.c has its own puts(); keep it apart from <stdio.h> in the native build */
#include "gen_qmail-inject.c"

#ifndef HL
#define HL 5            /* length of the header field, including its final LF */
#endif

unsigned char hf[HL];
unsigned char fl_from, fl_msgid, fl_sender;       /* QMAILINJECT f, i, s */
int r_parse, r_addrlist;                          /* 1 ok, 0 syntax error */

void sym_inputs(void)
{
#ifdef REPLAY
#include "replay_inputs.inc"
#else
  SYM_ARR(hf); SYM(fl_from); SYM(fl_msgid); SYM(fl_sender); SYM(r_parse); SYM(r_addrlist);
#endif
}

/* ---- observed / cut callees */
static unsigned int n_saved, n_parse, n_addrlist, n_unparse;
static int exited = -1;
static stralloc *saved_arg;

void savedh_append(stralloc *h) { ++n_saved; saved_arg = h; }

int token822_parse(token822_alloc *ta, stralloc *sa, stralloc *buf) { (void) ta; (void) sa; (void) buf; ++n_parse; return r_parse; }
int token822_unparse(stralloc *sa, token822_alloc *ta, unsigned int linelen) { (void) sa; (void) ta; (void) linelen; ++n_unparse; return 1; }

static struct token822 fake[8];
int token822_addrlist(token822_alloc *taout, token822_alloc *taaddr, token822_alloc *ta, int (*callback)())
{
  token822_alloc one;
  (void) taout; (void) taaddr; (void) ta;
  ++n_addrlist;
  if (r_addrlist != 1) return r_addrlist;
  /* one address a@h.x, handed over right-to-left as token822_addrlist does */
  fake[0].type = TOKEN822_ATOM; fake[0].s = "x"; fake[0].slen = 1;
  fake[1].type = TOKEN822_DOT;
  fake[2].type = TOKEN822_ATOM; fake[2].s = "h"; fake[2].slen = 1;
  fake[3].type = TOKEN822_AT;
  fake[4].type = TOKEN822_ATOM; fake[4].s = "a"; fake[4].slen = 1;
  one.t = fake; one.len = 5; one.a = 8;
  CHECK(callback(&one) == 1, "callback accepts the address");
  return 1;
}

void *vf_malloc(size_t n);
void *vf_realloc(void *p, size_t n) { (void) p; (void) n; CHECK(0, "no reallocation inside the bound"); PATH_END(); return 0; }
static stralloc slots[3][2]; static unsigned int slots_used;
void *vf_malloc(size_t n)         /* saa_readyplus(&list,1): first use of an envelope list allocates its array */
{
  CHECK(n <= sizeof slots[0] && slots_used < 3, "at most three small list allocations (harness sizing)");
  ASSUME(n <= sizeof slots[0] && slots_used < 3);
  return slots[slots_used++];
}

void vf__exit(int status)
{
  exited = status;
  CHECK(n_saved == 0, "C17(5): a refused header field is not kept");
  WITNESS("refused");
  PATH_END();
#ifdef VERIF_CBMC
  __CPROVER_assume(0);
#endif
}

int ideal_getc(substdio *s) { (void) s; return -1; }
int ideal_putc(substdio *s, unsigned char c) { (void) s; (void) c; return 0; }
int ideal_flush(substdio *s) { (void) s; return 0; }
static substdio it_err; substdio *subfderr = &it_err;
static substdio it_out; substdio *subfdout = &it_out;

/* ---- reference: field name as qmail-header(5) describes it */
static unsigned char lower(unsigned char c) { return (c >= 'A' && c <= 'Z') ? (unsigned char) (c + 32) : c; }

static int name_is(unsigned int nlen, const char *want)
{
  unsigned int i;
  for (i = 0; i < HL; ++i) {
    if (!want[i]) return i == nlen;
    if (i >= nlen) return 0;
    if (lower(hf[i]) != (unsigned char) want[i]) return 0;
  }
  return !want[HL] && nlen == HL;
}

void vmain(void)
{
  static stralloc h;
  static char hbuf[HL + 2];
  unsigned int i, colon = HL, nlen;
  int spaced = 0, deleted, feeds_hr, feeds_hrr, is_from, is_msgid;

  sym_inputs();
  ASSUME(hf[HL - 1] == '\n');
  ASSUME(r_parse == 0 || r_parse == 1); ASSUME(r_addrlist == 0 || r_addrlist == 1);
  for (i = 0; i < HL; ++i) hbuf[i] = (char) hf[i];
  h.s = hbuf; h.len = HL; h.a = sizeof hbuf;
  flagdeletefrom = fl_from & 1; flagdeletemessid = fl_msgid & 1; flagdeletesender = fl_sender & 1;

  for (i = 0; i < HL; ++i) if (colon == HL && hf[i] == ':') colon = i;
  nlen = colon;
  for (i = 0; i < HL; ++i) { if (nlen > 0 && (hf[nlen - 1] == ' ' || hf[nlen - 1] == '\t')) { --nlen; spaced = 1; } }

  doheaderfield(&h);

  deleted = name_is(nlen, "bcc") || name_is(nlen, "resent-bcc") || name_is(nlen, "return-path") || name_is(nlen, "content-length");
  is_from = name_is(nlen, "from"); is_msgid = name_is(nlen, "message-id");
  feeds_hr = name_is(nlen, "to") || name_is(nlen, "cc") || name_is(nlen, "bcc") || name_is(nlen, "apparently-to");
  feeds_hrr = name_is(nlen, "resent-to") || name_is(nlen, "resent-cc") || name_is(nlen, "resent-bcc");

  CHECK(n_saved <= 1, "C17(5): a header field is kept at most once");
  if (colon < HL && !spaced) {
    /* "name:" exactly as the documents write it (white space between name and colon is
     * tolerated by hfield.c but not described: both readings accepted there) */
    if (deleted) {
      CHECK(n_saved == 0, "C17(5): Bcc, Resent-Bcc, Return-Path and Content-Length fields are never kept");
      if (name_is(nlen, "bcc")) WITNESS("bcc_deleted");
      if (name_is(nlen, "resent-bcc")) WITNESS("resent_bcc_deleted");
      if (name_is(nlen, "return-path")) WITNESS("return_path_deleted");
    } else if ((is_from && flagdeletefrom) || (is_msgid && flagdeletemessid)) {
      CHECK(n_saved == 0, "C17(5): QMAILINJECT f/i delete an incoming From/Message-ID");
      WITNESS("from_deleted_by_flag");
    } else {
      CHECK(n_saved == 1, "C17(5): every other field that is accepted is kept");
      WITNESS("kept");
    }
    if (feeds_hr || feeds_hrr) {
      unsigned int want = (n_addrlist == 1 && r_parse == 1 && r_addrlist == 1) ? 1 : 0;
      CHECK(n_parse == 1, "C17: a recipient field is parsed as an address list");
      CHECK(hrlist.len == (feeds_hr ? want : 0) && hrrlist.len == (feeds_hrr ? want : 0),
            "C17: To/Cc/Bcc/Apparently-To feed the header recipient list, Resent-To/Cc/Bcc the resent list, nothing else");
      if (want) {
        stralloc *got = feeds_hr ? &hrlist.sa[0] : &hrrlist.sa[0];
        CHECK(got->len == 5 && got->s[0] == 'a' && got->s[1] == '@' && got->s[2] == 'h' && got->s[3] == '.' && got->s[4] == 'x',
              "C17: the recipient found in the field becomes an envelope recipient unchanged (a@h.x needs no rewriting)");
        if (name_is(nlen, "bcc")) WITNESS("bcc_feeds_envelope");
        if (feeds_hrr) WITNESS("resent_feeds_envelope");
      }
    } else {
      CHECK(hrlist.len == 0 && hrrlist.len == 0, "C17: only recipient fields feed the envelope recipient lists");
    }
  }
}
