import os
import re
import subprocess

from vlib import Obl, Prog, PlanError


class RenamedProg(Prog):
    """A program file compiled as its own translation unit with every symbol it defines
    renamed <prefix><name>, so that two programs (qmail-remote.c and qmail-smtpd.c both define
    ssin, inbuf, timeout, out, ...) can live in one query (DESIGN.md 2.1).  The list is derived on
    every run from `nm --defined-only` on a native object of the regenerated file and written
    as #define lines in front of it; nothing is cached, and a file that no longer compiles or
    defines nothing fails the plan loudly."""

    def __init__(self, file, prefix, need=(), **kw):
        kw.setdefault("link", True)
        Prog.__init__(self, file, **kw)
        self.prefix = prefix
        self.need = list(need)

    def generate(self, repo, dest_dir):
        out = Prog.generate(self, repo, dest_dir)
        obj = out + ".syms.o"
        cc = subprocess.run(["gcc", "-std=gnu89", "-w", "-c", "-I" + repo, out, "-o", obj],
                            stdout=subprocess.PIPE, stderr=subprocess.STDOUT, text=True, errors="replace")
        if cc.returncode != 0:
            raise PlanError("%s: native compile for the symbol list failed: %s" % (self.file, cc.stdout[-300:]))
        nm = subprocess.run(["nm", "--defined-only", obj], stdout=subprocess.PIPE, text=True, check=True)
        names = sorted({l.split()[-1] for l in nm.stdout.splitlines() if len(l.split()) >= 2
                        and re.fullmatch(r"[A-Za-z_]\w*", l.split()[-1])})
        os.unlink(obj)
        missing = [n for n in self.need if n not in names]
        if not names or missing:
            raise PlanError("%s: symbols %s not defined any more" % (self.file, ",".join(missing) or "(none at all)"))
        with open(out, encoding="latin-1") as f:
            text = f.read()
        with open(out, "w", encoding="latin-1") as f:
            f.write("/* %d symbols defined by %s, renamed for this query */\n" % (len(names), self.file))
            f.write("".join("#define %s %s%s\n" % (n, self.prefix, n) for n in names))
            f.write(text)           # starts with its own #line 1
        self.renamed = names
        return out


STR = ["quote.c", "str_rchr.c", "str_chr.c", "stralloc_opys.c", "stralloc_opyb.c", "stralloc_cats.c", "stralloc_catb.c",
       "stralloc_cat.c", "stralloc_copy.c", "stralloc_pend.c", "byte_copy.c", "byte_rchr.c"]


def obligations(tier):
    ns = [0, 1, 2, 3, 4, 5] if tier == "quick" else [0, 1, 2, 3, 4, 5, 6, 7]
    return [
        Obl("smtp_roundtrip", "smtp_roundtrip.c",
            progs=[RenamedProg("qmail-remote.c", "remote_", need=["addrmangle"], nomain=True, cut=["temp_nomem"]),
                   Prog("qmail-smtpd.c", nomain=True, cut=["die_nomem"])],
            repo=STR, lib=["arena_stralloc.c"],
            defines={"ARENA_SLOTS": 5},
            grid=[{"N": n, "ARENA_CAP": 2 * n + 12} for n in ns] + [{"N": 0, "EMPTY": 1, "ARENA_CAP": 12}]
                 + [{"N": n, "RCPT": 1, "ARENA_CAP": 2 * n + 12} for n in (1, ns[-2])],
            # encoded form <= 2N+2+1+4 bytes; str_chr/str_rchr/byte_copy/byte_rchr are unrolled 4x
            unwind=lambda p: {"strlen": p["N"] + 7, "byte_copy": (2 * p["N"] + 8) // 4 + 2,
                              "quote_need": p["N"] + 2, "doit": p["N"] + 2, "addrparse": 2 * p["N"] + 10,
                              "str_chr": (2 * p["N"] + 14) // 4 + 2},
            unwind_default=lambda p: 2 * p["N"] + 16,
            backend="cadical", timeout=900,
            functions=["qmail-remote.c:addrmangle", "quote.c:quote", "quote.c:quote_need", "quote.c:doit",
                       "qmail-smtpd.c:addrparse", "str_rchr.c", "str_chr.c", "stralloc_*.c"],
            cuts=["temp_nomem (qmail-remote.c), die_nomem (qmail-smtpd.c) -> must not be reached (allocation failure is outside the claim)"],
            stubs=["stralloc_ready/readyplus: arena"],
            assumes=["local part exactly N bytes, any values except NUL and LF; host fixed 'h.nu'; control/localiphost absent (liphostok = 0)"],
            outside=["local parts longer than the grid; host parts needing quoting (addrmangle does not quote hosts)"],
            claim="addrparse('FROM:<'|'TO:<' ++ addrmangle(local@host) ++ '>') returns 1 and leaves exactly local@host NUL in addr, "
                  "and the encoded form contains no LF/NUL; same for the empty sender",
            expect_witnesses=lambda p: ["empty_sender"] if p.get("EMPTY") else
                                       (["quoted"] + (["plain", "backslash", "cr", "eight_bit"] if p["N"] >= 1 else []))),
            Obl("header_roundtrip", "header_roundtrip.c",
            repo=STR + ["token822.c"], lib=["arena_stralloc.c"],
            sysrename=["malloc", "realloc"],
            defines={"ARENA_SLOTS": 4},
            grid=[{"N": n, "ARENA_CAP": 2 * n + 12} for n in ([0, 1, 2, 3, 4] if tier == "quick" else [0, 1, 2, 3, 4, 5])],
            # header = "To:" + quoted (<= 2N+4) + LF <= 2N+8 bytes; every loop of the parser is bounded by that
            unwind=lambda p: {"strlen": p["N"] + 4, "token822_parse": 2 * p["N"] + 9, "quote_need": p["N"] + 2, "doit": p["N"] + 2,
                              "byte_copy": (2 * p["N"] + 4) // 4 + 2, "atomcheck": p["N"] + 2,
                              "token822_addrlist": p["N"] + 6, "token822_unquote": p["N"] + 6, "token822_reverse": p["N"] + 6,
                              "gotaddr": p["N"] + 6},
            unwind_default=lambda p: 2 * p["N"] + 9,
            backend="cadical", timeout=900,
            functions=["quote.c:quote2", "quote.c:quote", "quote.c:quote_need", "quote.c:doit", "token822.c:token822_parse",
                       "token822.c:token822_addrlist", "token822.c:token822_unquote", "token822.c:token822_reverse"],
            stubs=["stralloc_ready/readyplus: arena", "malloc/realloc: must not be reached (token arrays pre-sized)"],
            assumes=["local part exactly N bytes, any values except NUL and LF; host fixed 'h'"],
            outside=["local parts longer than the grid", "GEN_ALLOC growth arithmetic (C20 lemma)"],
            claim="'To: ' ++ quote2(local@host) ++ LF parses (token822_parse, token822_addrlist) to exactly one address whose "
                  "token822_unquote form is local@host",
            expect_witnesses=lambda p: ["quoted"] + (["plain", "backslash", "cr", "eight_bit", "special"] if p["N"] >= 1 else [])),
    ]
