# C17 - address quoting and parsing agree; header recipients become the envelope.
#
# obligations:  smtp_roundtrip    (1) qmail-remote.c addrmangle -> "FROM:<..>"/"TO:<..>" -> qmail-smtpd.c addrparse == identity
#               header_roundtrip  (2) quote.c quote2 -> "To:..." -> token822_parse -> token822_addrlist -> token822_unquote == identity
#               quote_rfc822      (2) at larger N: quote2 output is an RFC 822 local part (dot-atom / quoted-string) that MEANS the input
#               gotaddr_contract      contract of the static gotaddr() that header_roundtrip cuts
#               addrlist_forms    (4) generator: 20 syntactic forms as token lists -> token822_addrlist + qmail-inject rwtocc/rwgeneric
#                                     -> exactly the mailboxes known by construction (default host / domain / plus, routes, groups, ...)
#               rewritten_stable  (3) same forms: token822_unparse output read by an RFC 822 reference reader == the rewritten token list
#               inject_field      (5) qmail-inject doheaderfield: Bcc/Resent-Bcc/Return-Path/Content-Length never kept; which fields feed the envelope
# measured limits (this is the weakest string bound of the suite): token822_parse on text with symbolic bytes: 4 bytes 87 s,
#   6 bytes 7 min (1 query), 9+ bytes none; therefore (2) is split by what quote2 returned (QUOTED=1/0), with per-loop bounds, N <= 2 quick,
#   and (3)/(4) start from token lists (concrete shapes, symbolic contents) instead of text.
#
# kills: (hand-made mutants of a scratch worktree, VERIF_REPO=/tmp/wt-c17-1 ./check C17 --only <obl>; each printed VIOLATION, native replay rc 1)
#   smtp_roundtrip:   ok_gt ('>' marked ok in quote.c ok[]), ok_dquote ('"' marked ok), no_bs_escape (quote.c doit() stops escaping backslash),
#                     parse_keep_bs (qmail-smtpd.c addrparse keeps the backslash instead of dropping it)
#   header_roundtrip: ok_comma (',' marked ok: "a,b@h" unquoted -> two addresses), no_bs_escape, unquote_drop (token822_unquote drops the
#                     first byte of a quoted-string)
#   quote_rfc822:     ok_comma, no_bs_escape, no_cr_escape (CR no longer escaped inside the quotes)
#   inject_field:     keep_bcc / keep_rbcc (the early returns for H_BCC / H_R_BCC removed), bcc_not_rcpt (Bcc no longer parsed for recipients),
#                     hfield_case (hfield.c hmatch() no longer accepts upper case)
#   addrlist_forms:   no_route_strip (rwroute() call removed), no_wordok_flush (token822_addrlist: missing comma no longer separates),
#                     plus_keep (rwplus keeps the '+')
#   rewritten_stable: unparse_noquote (quoted-strings written without quotes), needspace_off (no space between adjacent atoms),
#                     unparse_noesc ('"' not escaped inside quoted-strings)
#   exit 2 instead of VIOLATION: ok_lparen ('(' marked ok) on header_roundtrip runs the comment loop past its per-loop bound
#   ("bound-too-small"); it is caught as VIOLATION by quote_rfc822.
import os
import re
import subprocess

from vlib import Obl, Prog, PlanError


class RenamedProg(Prog):
    """A program file compiled as its own translation unit with every symbol it defines
    renamed <prefix><name>, so that two programs (qmail-remote.c and qmail-smtpd.c both define
    ssin, inbuf, timeout, out, ...) can live in one query (DESIGN.md 2.1).  The list is derived on
    every run from `nm --defined-only` on a native object of the regenerated file and written
    as #define lines in front of it; nothing is cached, and a file that no longer compiles or
    defines nothing fails the plan loudly."""

    def __init__(self, file, prefix, need=(), **kw):
        kw.setdefault("link", True)
        Prog.__init__(self, file, **kw)
        self.prefix = prefix
        self.need = list(need)

    def generate(self, repo, dest_dir):
        out = Prog.generate(self, repo, dest_dir)
        obj = out + ".syms.o"
        cc = subprocess.run(["gcc", "-std=gnu89", "-w", "-c", "-I" + repo, out, "-o", obj],
                            stdout=subprocess.PIPE, stderr=subprocess.STDOUT, text=True, errors="replace")
        if cc.returncode != 0:
            raise PlanError("%s: native compile for the symbol list failed: %s" % (self.file, cc.stdout[-300:]))
        nm = subprocess.run(["nm", "--defined-only", obj], stdout=subprocess.PIPE, text=True, check=True)
        names = sorted({l.split()[-1] for l in nm.stdout.splitlines() if len(l.split()) >= 2
                        and re.fullmatch(r"[A-Za-z_]\w*", l.split()[-1])})
        os.unlink(obj)
        missing = [n for n in self.need if n not in names]
        if not names or missing:
            raise PlanError("%s: symbols %s not defined any more" % (self.file, ",".join(missing) or "(none at all)"))
        with open(out, encoding="latin-1") as f:
            text = f.read()
        with open(out, "w", encoding="latin-1") as f:
            f.write("/* %d symbols defined by %s, renamed for this query */\n" % (len(names), self.file))
            f.write("".join("#define %s %s%s\n" % (n, self.prefix, n) for n in names))
            f.write(text)           # starts with its own #line 1
        self.renamed = names
        return out


STR = ["quote.c", "str_rchr.c", "str_chr.c", "stralloc_opys.c", "stralloc_opyb.c", "stralloc_cats.c", "stralloc_catb.c",
       "stralloc_cat.c", "stralloc_copy.c", "stralloc_pend.c", "byte_copy.c", "byte_rchr.c",
       # further members of the byte/str family, so that a rewrite of a parser that uses them still links
       "byte_chr.c", "byte_cr.c", "byte_zero.c", "str_start.c"]


def parser_loops(repo):
    """cbmc numbers the loops of a function in source order, inner loops before the loop that contains them.
    token822_parse has two passes (count, then fill), each: for(i) { while(level) [comment], while(level) [quoted-string],
    while(level) [domain-literal], do..while(atomok) [atom] }.  Fail loudly if that shape is gone."""
    import vlib
    with open(os.path.join(vlib.REPO, "token822.c"), encoding="latin-1") as f:
        text = f.read()
    m = re.search(r"^int token822_parse\(.*?^}", text, re.M | re.S)
    if not m:
        raise PlanError("token822.c: token822_parse not found")
    body = m.group(0)
    shape = re.findall(r"for \(i = 0;i < salen;\+\+i\)|while \(level\)|\bdo\b", body)
    want = ["for (i = 0;i < salen;++i)", "while (level)", "while (level)", "while (level)", "do"] * 2
    if shape != want:
        raise PlanError("token822.c: loop structure of token822_parse changed (%r): revise harness/C17/plan.py header_unwind" % (shape,))
    return {"comment": (0, 5), "quote": (1, 6), "literal": (2, 7), "atom": (3, 8), "outer": (4, 9)}


def header_unwind(p):
    """Per-loop bounds for header_roundtrip (each proved sufficient by its unwinding assertion)."""
    import vlib
    ids = parser_loops(vlib.REPO)
    n = p["N"]
    if p["QUOTED"]:     # To : "..." @ h   -> 5 tokens; one quoted-string of <= N payload characters
        b = {"outer": 7, "quote": n + 3, "atom": 4, "comment": 2, "literal": 2}
        ntok = 5
    else:               # To : <atoms and dots, N bytes> @ h
        b = {"outer": n + 6, "quote": 2, "atom": n + 3, "comment": 2, "literal": 2}
        ntok = n + 4
    u = {}
    for role, (a, c) in ids.items():
        u["token822_parse.%d" % a] = b[role]
        u["token822_parse.%d" % c] = b[role]
    u.update({"strlen": n + 4, "quote_need": n + 2, "doit": n + 2, "byte_copy": (2 * n + 4) // 4 + 2, "atomcheck": max(n, 2) + 2,
              "token822_addrlist": ntok + 1, "token822_reverse": ntok // 2 + 2,
              "token822_unquote": max(ntok, n) + 2})
    return u


def obligations(tier):
    obls = _obligations(tier)
    # longest queries first (all queries of a run share one worker pool)
    first = ["header_roundtrip", "smtp_roundtrip", "rewritten_stable"]
    obls.sort(key=lambda o: first.index(o.name) if o.name in first else len(first))
    for o in obls:
        o.grid.sort(key=lambda p: -(p.get("N", 0) * 2 - p.get("QUOTED", 0)))
    return obls


def _obligations(tier):
    ns = [0, 1, 2, 3, 4, 5, 6] if tier == "quick" else list(range(0, 13))
    return [
        Obl("smtp_roundtrip", "smtp_roundtrip.c",
            progs=[RenamedProg("qmail-remote.c", "remote_", need=["addrmangle"], nomain=True, cut=["temp_nomem"]),
                   Prog("qmail-smtpd.c", nomain=True, cut=["die_nomem"])],
            repo=STR, lib=["harness/C17/arena_small.c"],
            defines={"ARENA_SLOTS": 5},
            grid=[{"N": n, "ARENA_CAP": 2 * n + 12} for n in ns] + [{"N": 0, "EMPTY": 1, "ARENA_CAP": 12}]
                 + [{"N": n, "RCPT": 1, "ARENA_CAP": 2 * n + 12} for n in (1, ns[-2])],
            # encoded form <= 2N+2+1+4 bytes; str_chr/str_rchr/byte_copy/byte_rchr are unrolled 4x
            unwind=lambda p: {"strlen": p["N"] + 7, "byte_copy": (2 * p["N"] + 8) // 4 + 2,
                              "quote_need": p["N"] + 2, "doit": p["N"] + 2, "addrparse": 2 * p["N"] + 10,
                              "str_chr": (2 * p["N"] + 14) // 4 + 2},
            unwind_default=lambda p: 2 * p["N"] + 16,
            backend="cadical", timeout=900 if tier == "quick" else 3000,
            functions=["qmail-remote.c:addrmangle", "quote.c:quote", "quote.c:quote_need", "quote.c:doit",
                       "qmail-smtpd.c:addrparse", "str_rchr.c", "str_chr.c", "stralloc_*.c"],
            cuts=["temp_nomem (qmail-remote.c), die_nomem (qmail-smtpd.c) -> must not be reached (allocation failure is outside the claim)"],
            stubs=["stralloc_ready/readyplus: arena"],
            assumes=["local part exactly N bytes, any values except NUL and LF; host fixed 'h.nu'; control/localiphost absent (liphostok = 0)"],
            outside=["local parts longer than the grid; host parts needing quoting (addrmangle does not quote hosts)"],
            claim="addrparse('FROM:<'|'TO:<' ++ addrmangle(local@host) ++ '>') returns 1 and leaves exactly local@host NUL in addr, "
                  "and the encoded form contains no LF/NUL; same for the empty sender",
            expect_witnesses=lambda p: ["empty_sender"] if p.get("EMPTY") else
                                       (["quoted"] + (["plain", "backslash", "cr", "eight_bit"] if p["N"] >= 1 else []))),
            Obl("header_roundtrip", "header_roundtrip.c",
            progs=[Prog("token822.c", cut=["gotaddr"], link=True)],
            repo=STR, lib=["harness/C17/arena_small.c"],
            sysrename=["malloc", "realloc"],
            defines={"ARENA_SLOTS": 1},
            grid=[{"N": n, "QUOTED": qd, "ARENA_CAP": 2 * n + 12}
                  for n in ([0, 1, 2, 3] if tier == "quick" else [0, 1, 2, 3, 4, 5, 6, 7]) for qd in (1, 0)
                  if (n, qd) != (0, 0) and not (qd == 0 and n >= 4) and not (tier == "quick" and (n, qd) == (3, 0))],
            # (QUOTED=0 at N=3 needs 6.4 GB / 290 s, at N=4 it would exceed the 14 GB limit: thorough stops at N=3 for that case)
            unwind=header_unwind,
            unwind_default=lambda p: 2 * p["N"] + 9,
            flags=["--slice-formula"],     # measured: 5.3M -> 1.6M variables (output token list, padding, unused buffers)
            backend="cadical", timeout=900 if tier == "quick" else 3000,
            functions=["quote.c:quote2", "quote.c:quote", "quote.c:quote_need", "quote.c:doit", "token822.c:token822_parse",
                       "token822.c:token822_addrlist", "token822.c:token822_unquote", "token822.c:token822_reverse"],
            cuts=["gotaddr (static, token822.c) -> notes the address, appends its token count to the output list, empties the address list, "
                  "returns 1; proved on the real function by obligation gotaddr_contract"],
            stubs=["stralloc_ready/readyplus: arena", "malloc/realloc: must not be reached (token arrays pre-sized)"],
            assumes=["local part exactly N bytes, any values except NUL and LF; host fixed 'h'; header field without its final LF "
                     "(white space to the parser)",
                     "case split QUOTED=1/0 on what quote2 returned (quoted-string or not); both cases are queries of the grid"],
            outside=["local parts longer than the grid", "GEN_ALLOC growth arithmetic (C20 lemma)"],
            claim="'To:' ++ quote2(local@host) parses (token822_parse, token822_addrlist) to exactly one address whose "
                  "token822_unquote form is local@host",
            expect_witnesses=lambda p: (["quoted"] + (["backslash", "cr", "eight_bit", "special"] if p["N"] >= 1 else []))
                                       if p["QUOTED"] else ["plain"]),
            Obl("gotaddr_contract", "gotaddr.c",
            progs=[Prog("token822.c")],
            sysrename=["malloc", "realloc"],
            grid=[{"KA": ka, "KO": ko} for ka in (0, 1, 3) for ko in (0, 2)],
            unwind_default=lambda p: p["KA"] + p["KO"] + 4,
            backend="cadical", timeout=600,
            functions=["token822.c:gotaddr", "token822.c:token822_readyplus"],
            stubs=["malloc/realloc: must not be reached (token arrays pre-sized)"],
            assumes=["address list of KA tokens, output list of KO tokens with room for the address; token contents symbolic"],
            claim="gotaddr() calls the callback once with the address list; on 1 it appends the (rewritten) tokens to the output list in "
                  "order, empties the address list and returns 1; otherwise returns 0",
            expect_witnesses=["callback_refuses", "appended"]),
            Obl("quote_rfc822", "quote_rfc822.c",
            repo=STR, lib=["harness/C17/arena_small.c"],
            defines={"ARENA_SLOTS": 2},
            grid=[{"N": n, "ARENA_CAP": 2 * n + 8} for n in (range(0, 8) if tier == "quick" else range(0, 13))],
            unwind=lambda p: {"strlen": p["N"] + 4, "quote_need": p["N"] + 2, "doit": p["N"] + 2, "byte_copy": (2 * p["N"] + 6) // 4 + 2,
                              "str_rchr": (p["N"] + 2) // 4 + 2},
            unwind_default=lambda p: 2 * p["N"] + 6,
            backend="cadical", timeout=900,
            functions=["quote.c:quote2", "quote.c:quote", "quote.c:quote_need", "quote.c:doit"],
            stubs=["stralloc_ready/readyplus: arena"],
            assumes=["local part exactly N bytes, any values except NUL and LF; host 'h'"],
            outside=["local parts longer than the grid"],
            claim="quote2(local@h) is local-part@h where the local part is either the original bytes forming an RFC 822 dot-atom, or one "
                  "RFC 822 quoted-string (no unescaped quote, backslash or CR) whose meaning is exactly the original bytes",
            expect_witnesses=lambda p: (["quoted_empty"] if p["N"] == 0 else ["unquoted", "quoted_special"] + (["quoted_dots"] if p["N"] >= 1 else []))),
            Obl("inject_field", "inject_field.c",
            progs=[Prog("qmail-inject.c", nomain=True, cut=["savedh_append"]),
                   Prog("token822.c", cut=["token822_parse", "token822_addrlist", "token822_unparse"], link=True)],
            repo=["hfield.c", "stralloc_opyb.c", "stralloc_copy.c", "stralloc_cats.c", "stralloc_catb.c", "stralloc_opys.c", "byte_copy.c"],
            lib=["harness/C17/arena_small.c", "ideal_substdio.c"],
            sysrename=["malloc", "realloc", "_exit"],
            defines={"ARENA_SLOTS": 2, "ARENA_CAP": 12},
            grid=[{"HL": n} for n in (range(2, 19) if tier == "quick" else range(2, 38))],
            unwind=lambda p: {"hmatch": p["HL"] + 2, "hfield_known": 30, "hfield_valid": p["HL"] + 2, "strlen": 64, "substdio_put": 64},
            unwind_default=lambda p: p["HL"] + 3,
            backend="cadical", timeout=900,
            functions=["qmail-inject.c:doheaderfield", "qmail-inject.c:rwtocc", "qmail-inject.c:rwhr", "qmail-inject.c:rwhrr", "qmail-inject.c:rwgeneric",
                       "qmail-inject.c:rwappend", "hfield.c:hfield_known", "hfield.c:hfield_valid", "token822.c:token822_unquote", "token822.c:token822_reverse"],
            cuts=["savedh_append -> observed", "token822_parse/token822_addrlist/token822_unparse -> succeed or fail by a symbolic tape; a succeeding "
                  "addrlist hands the address a@h.x to the callback it was given (address-list parsing itself: header_roundtrip, addrlist_forms)"],
            stubs=["_exit: records, ends the path", "substdio: ideal streams (messages discarded)", "malloc: one fixed block for the first envelope list"],
            assumes=["one header field of exactly HL bytes ending in LF, all other bytes symbolic; QMAILINJECT f/i/s flags symbolic"],
            outside=["field names written with white space before the colon (accepted by hfield.c, not described in the documents): not compared"],
            claim="doheaderfield() never keeps a Bcc, Resent-Bcc, Return-Path or Content-Length field (any case), keeps every other accepted "
                  "field exactly once (From/Message-ID unless deleted by flag), and exactly To/Cc/Bcc/Apparently-To feed hrlist, Resent-To/Cc/Bcc hrrlist",
            expect_witnesses=lambda p: ((["kept"] if p["HL"] >= 3 else []) + (["refused"] if p["HL"] >= 2 else [])
                                        + (["bcc_deleted", "bcc_feeds_envelope"] if p["HL"] >= 5 else [])
                                        + (["from_deleted_by_flag"] if p["HL"] >= 6 else [])
                                        + (["resent_bcc_deleted", "resent_feeds_envelope"] if p["HL"] >= 12 else [])
                                        + (["return_path_deleted"] if p["HL"] >= 13 else []))),
            Obl("addrlist_forms", "addrlist_forms.c",
            progs=[Prog("qmail-inject.c", nomain=True)],
            repo=["token822.c", "stralloc_opyb.c", "stralloc_copy.c", "stralloc_cats.c", "stralloc_catb.c", "stralloc_opys.c", "byte_copy.c"],
            lib=["harness/C17/arena_small.c", "ideal_substdio.c"],
            sysrename=["malloc", "realloc", "_exit"],
            defines={"ARENA_SLOTS": 4, "ARENA_CAP": 12},
            grid=[{"FORM": f} for f in range(1, 24)],
            unwind={"strlen": 64, "substdio_put": 64}, unwind_default=34,
            backend="cadical", timeout=600,
            functions=["token822.c:token822_addrlist", "token822.c:gotaddr", "token822.c:token822_unquote", "token822.c:token822_reverse",
                       "qmail-inject.c:rwtocc", "qmail-inject.c:rwgeneric", "qmail-inject.c:rwroute", "qmail-inject.c:rwextradot",
                       "qmail-inject.c:rwextraat", "qmail-inject.c:rwnoat", "qmail-inject.c:rwplus", "qmail-inject.c:rwnodot", "qmail-inject.c:rwappend"],
            stubs=["stralloc_ready/readyplus: arena", "malloc/realloc: must not be reached (arrays pre-sized)", "_exit: must not be reached"],
            assumes=["token list of a To: field built by the harness in one of 20 concrete syntactic forms (plain, lone box, no-dot host, plus host, "
                     "phrase <addr>, comments before/after/inside, quoted local part, domain literal, source route, group, missing comma, "
                     "two mailboxes, dotted local part, quoted phrase, empty element, empty group); atoms are single symbolic RFC 822 atom "
                     "characters (not '+'), the quoted local part is any non-NUL byte; defaults dh / dd / pd"],
            outside=["text -> token list (token822_parse): header_roundtrip", "atoms longer than one byte; more than two mailboxes",
                     "-a/-h/-H/-f option handling in main, QMAILINJECT flags, folding at LINELEN"],
            claim="for each form, token822_addrlist + rwtocc put exactly the mailboxes known by construction (after default host, default "
                  "domain, plus domain, route stripping) on the header recipient list, in some order",
            expect_witnesses=["form_done"]),
            Obl("rewritten_stable", "addrlist_forms.c",
            progs=[Prog("qmail-inject.c", nomain=True)],
            repo=["token822.c", "stralloc_opyb.c", "stralloc_copy.c", "stralloc_cats.c", "stralloc_catb.c", "stralloc_opys.c", "byte_copy.c"],
            lib=["harness/C17/arena_small.c", "ideal_substdio.c"],
            sysrename=["malloc", "realloc", "_exit"],
            defines={"ARENA_SLOTS": 4, "ARENA_CAP": 12, "STAB": 1},
            grid=[{"FORM": f} for f in range(1, 24)],
            unwind={"strlen": 64, "substdio_put": 64, "reference_read": 58}, unwind_default=34,
            backend="cadical", timeout=600,
            functions=["token822.c:token822_unparse", "token822.c:needspace", "token822.c:token822_addrlist", "qmail-inject.c:rwtocc", "qmail-inject.c:rwgeneric"],
            stubs=["stralloc_ready/readyplus: arena", "malloc/realloc: must not be reached (arrays pre-sized)", "_exit: must not be reached"],
            assumes=["same generated forms as addrlist_forms (20 concrete token shapes, symbolic 1-byte atoms, quoted-string content any non-NUL byte)",
                     "the second reading is done by an RFC 822 reference reader in the harness, not by token822_parse (which does not close on "
                     "symbolic text beyond ~6 bytes)"],
            outside=["agreement of token822_parse itself with RFC 822 on arbitrary text (header_roundtrip covers quoted addresses, N <= 2..4)",
                     "lines folded at LINELEN (fields here are shorter than 80 columns)"],
            claim="for each form, the rewritten field as written by token822_unparse is read by an RFC 822 reference reader as exactly the "
                  "rewritten token list (types and contents; folds are LF+space), hence lists the same mailboxes",
            expect_witnesses=["form_done", "reread"]),
    ] + _grammar_obligations(tier)


# ---- addrlist_grammar / addr_grammar (h4): the address list is DERIVED from a bounded grammar with symbolic choices
def _grammar_unwind(p):
    n = p["NTOK"]
    return {"strlen": 64, "substdio_put": 64, "vmain": 32, "same": 25, "mailbox": 4, "address_list": p.get("NM", 1) + 2,
            "g_finish": n + 2, "g_finish.0": n + 4, "fpos": 4, "gotaddr": n + 2, "gotaddr.1": 4, "gotaddr.2": 13,
            "grammar_assumptions": 32, "reference_read": 58, "token822_unquote.1": 4}


def _addr_point(ang, nr, nl, nd, nc, edge=0):
    ntok = (2 if ang else 0) + {0: 0, 1: 3, 2: 5, 3: 6}[nr] + (2 * nl - 1) + (2 * nd if nd else 0) + (nc if ang else 0)
    return {"S_ANG": ang, "S_NR": nr, "S_NL": nl, "S_ND": nd, "NC": nc if ang else 0, "NTOK": ntok}


def _grammar_obligations(tier):
    common = dict(
        progs=[Prog("qmail-inject.c", nomain=True)],
        repo=["token822.c", "stralloc_opyb.c", "stralloc_copy.c", "stralloc_cats.c", "stralloc_catb.c", "stralloc_opys.c", "byte_copy.c"],
        lib=["harness/C17/arena_small.c", "ideal_substdio.c"],
        sysrename=["malloc", "realloc", "_exit"],
        backend="cadical")
    listprogs = dict(common)
    listprogs["progs"] = [Prog("qmail-inject.c", nomain=True), Prog("token822.c", cut=["gotaddr"], link=True)]
    listprogs["repo"] = [f for f in common["repo"] if f != "token822.c"]
    # address skeletons (angle form?, route kind, local-part words, sub-domains): concrete per query; word kinds, plus flag,
    # contents and comment positions symbolic.  measured (idle machine): bare a.b / a.b@c 36 s / 100 s, 0.6 / 2.1 GB;
    # <@g:a@b> with one comment 320 s, 3.7 GB (thorough only); symbolic skeleton: no verdict in 900 s at 6 tokens.
    shapes = [(0, 0, 2, 1), (0, 0, 2, 0), (1, 1, 1, 1)]
    return [
        # kills (VERIF_REPO=/tmp/wt-h4-N ./check C17 --only addr_grammar, VIOLATION with native replay rc 1):
        #   seed3 C17 patch2 (rwnodot keeps scanning past '@' into a dotted local part: a.b@c / bare a.b get no default domain),
        #   plus_keep (rwplus no longer removes the '+'), defaulthost_order (rwnoat inserts the default-host tokens in the wrong order)
        Obl("addr_grammar", "addr_grammar.c",
            defines={"ARENA_SLOTS": 2, "ARENA_CAP": 24},
            grid=[_addr_point(*sh, nc=1) for sh in (shapes[:2] if tier == "quick" else shapes)],
            unwind=_grammar_unwind, unwind_default=lambda p: p["NTOK"] + 6,
            timeout=600 if tier == "quick" else 1800,
            functions=["qmail-inject.c:rwtocc", "qmail-inject.c:rwgeneric", "qmail-inject.c:rwroute", "qmail-inject.c:rwextradot",
                       "qmail-inject.c:rwextraat", "qmail-inject.c:rwnoat", "qmail-inject.c:rwplus", "qmail-inject.c:rwnodot",
                       "qmail-inject.c:rwappend", "token822.c:token822_unquote", "token822.c:token822_reverse"],
            stubs=["stralloc_ready/readyplus: arena", "malloc/realloc: must not be reached (arrays pre-sized)", "_exit: must not be reached"],
            assumes=["one address derived from grammar822.h: [route] local-part [@ domain]; skeleton (angle form, route kind, number of "
                     "local-part words and sub-domains) concrete per grid point; word kinds (atom / quoted-string / domain-literal), the "
                     "plus flag, every content byte and the position of up to NC comments inside <...> symbolic",
                     "the address is handed to rwtocc as token822_addrlist hands it to its callback (last token first; comments only inside "
                     "<...>): that interface is obligation addrlist_grammar",
                     "known finding (known-findings.txt, KF_EDGE_COMMENT): a comment as FIRST or LAST token between < and > is assumed away - with "
                     "one there the unchanged code does not strip the route / does not apply the plus domain (<(c)@g:a@b>, <a@b+ (c)>; "
                     "confirmed on the real qmail-inject binary)",
                     "defaults dh / dd / pd; domain atoms are not '+' except through the plus flag"],
            outside=["skeletons not in the grid (quick: a.b@c, a.b; thorough adds <@g:a@b> with one comment)", "atoms longer than one byte"],
            claim="for every derivation of the address part within the skeleton, rwtocc puts exactly the documented envelope form "
                  "(lone box -> @dh.dd, host without dots -> .dd, host ending in + -> .pd, route stripped, quotes removed) on the "
                  "header recipient list, and leaves the same rewritten address in the token list",
            expect_witnesses=["derived"], **common),
        # kills (VERIF_REPO=/tmp/wt-h4-N ./check C17 --only addrlist_grammar, VIOLATION with native replay rc 1):
        #   seeded/C17-comment-inside-display-name-ends-phrase (without forms 21-23: derivation  word (comment) <a>),
        #   phrase_noquote (token822_addrlist: the phrase loop in front of '<' no longer accepts quoted-strings),
        #   groupname_stops_at_comment (COLON case: copying the group name stops at a comment)
        Obl("addrlist_grammar", "addrlist_grammar.c",
            defines={"ARENA_SLOTS": 1, "ARENA_CAP": 64},
            grid=[{"NM": 1, "NTOK": 5, "NC": 1}] + ([] if tier == "quick" else [{"NM": 1, "NTOK": 6, "NC": 1}]),
            unwind=_grammar_unwind, unwind_default=lambda p: p["NTOK"] + 3,
            # measured: array field sensitivity off 146k -> 36k SSA steps; slicing (output list contents are not examined) 2.8M -> 0.27M variables
            flags=["--slice-formula", "--max-field-sensitivity-array-size", "2"],
            std_checks=False,      # 40k pointer VCCs; memory safety of token822_addrlist: addrlist_forms (std checks on) and C20
            timeout=600 if tier == "quick" else 1800,
            functions=["token822.c:token822_addrlist", "token822.c:token822_append", "token822.c:token822_readyplus", "token822.c:token822_reverse"],
            cuts=["gotaddr (static, token822.c) -> checks that the address it is handed is the address part of exactly one listed mailbox, "
                  "appends, empties the address list, returns 1; contract proved on the real function by gotaddr_contract; what the "
                  "callback makes of such an address: addr_grammar"],
            stubs=["malloc/realloc: must not be reached (token arrays pre-sized)"],
            assumes=["token list of a To: field derived from the bounded grammar of grammar822.h by symbolic choices: NM mailboxes (bare or "
                     "[phrase] <[route] addr-spec>), one optional (possibly empty) group, empty list elements, missing comma in front of a bare "
                     "addr-spec, up to NC comments at any position, at most NTOK tokens; every choice and every content byte symbolic"],
            outside=["lists longer than NTOK tokens or with more than NM mailboxes (quick: 1 mailbox, 5 tokens; thorough 6 tokens): longer "
                     "concrete lists are addrlist_forms", "text -> token list (token822_parse): header_roundtrip",
                     "GSTAB=1 (unparse + second reading of the rewritten field on every derivation) is implemented in the harness but not in "
                     "the grid: not measured inside the budget"],
            claim="for every derivation within the bound, token822_addrlist completes exactly the listed mailboxes: each address handed to "
                  "the callback is the address part of one listed mailbox, each mailbox once, nothing else becomes a recipient",
            expect_witnesses=["derived", "comment_in_phrase"], **listprogs),
    ]
