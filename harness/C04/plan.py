# C04 - finished recipients never retried; at most one attempt in flight.  Per-transition obligations, most of
# them shared with C03 (same harness files, decided again here so that this check stands on its own).
import importlib.util, os
from vlib import Obl, Prog, VERIF

def _plan(pid):
    spec = importlib.util.spec_from_file_location("plan_" + pid, os.path.join(VERIF, "harness", pid, "plan.py"))
    m = importlib.util.module_from_spec(spec); spec.loader.exec_module(m); return m

def _borrow(pid, names, tier):
    out = []
    for o in _plan(pid).obligations(tier):
        if o.name in names:
            if not o.harness.startswith("../"):
                o.harness = "../%s/%s" % (pid, o.harness)
            out.append(o)
    return out

STR = ["stralloc_catb.c", "stralloc_opyb.c", "stralloc_pend.c", "stralloc_cats.c", "stralloc_opys.c",
       "stralloc_copy.c", "stralloc_cat.c", "byte_copy.c"]

def obligations(tier):
    # pqadd (restart must not schedule a channel twice) and todo_do (a message is never preprocessed again once it is being
    # delivered: that would rebuild every recipient as 'to do') belong to "never retried / at most one attempt" as well
    obls = _borrow("C03", ["del_dochan", "pass_dochan", "markdone", "job_close", "pqadd", "todo_do"], tier)
    obls.append(_plan("C16").startup_obligation())
    # the spawner's side (spawn.c is an anchor of this property): a delivery number that is in use is refused, a slot is free again only
    # after its one report
    obls += _borrow("C18", ["spawn_docmd", "spawn_main"], tier)
    obls.append(Obl("del_start", "del_start.c",
        progs=[Prog("qmail-send.c", nomain=True, cut=["comm_write", "comm_canwrite", "del_status"])],
        repo=STR, lib=["arena_stralloc.c"], defines={"ARENA_CAP": 32, "ARENA_SLOTS": 8},
        grid=[{"CH": 0}, {"CH": 1}], unwind_default=12, timeout=600,
        functions=["qmail-send.c:del_start", "qmail-send.c:del_avail", "qmail-send.c:del_canexit"],
        cuts=["comm_write -> observed", "comm_canwrite -> symbolic", "del_status, log* -> no-ops"],
        assumes=["arbitrary valid state: concurrency 0..3, any subset of slots in use, concurrencyused == slots in use"],
        claim="C04: del_start uses a previously unused slot, records (job, offset), adds one job reference and one to concurrencyused, "
              "never exceeds concurrency; without a free slot / writable channel / live spawner nothing changes; "
              "del_avail implies a free slot; del_canexit is false while attempts are in flight on a live channel",
        expect_witnesses=["started", "no_free_slot", "channel_busy"]))
    return obls
