# C04 - finished recipients never retried; at most one attempt in flight.  Per-transition obligations, most of
# them shared with C03 (same harness files, decided again here so that this check stands on its own).
import importlib.util, os
from vlib import Obl, Prog, VERIF

def _plan(pid):
    spec = importlib.util.spec_from_file_location("plan_" + pid, os.path.join(VERIF, "harness", pid, "plan.py"))
    m = importlib.util.module_from_spec(spec); spec.loader.exec_module(m); return m

def _borrow(pid, names, tier):
    out = []
    for o in _plan(pid).obligations(tier):
        if o.name in names:
            if not o.harness.startswith("../"):
                o.harness = "../%s/%s" % (pid, o.harness)
            out.append(o)
    return out

STR = ["stralloc_catb.c", "stralloc_opyb.c", "stralloc_pend.c", "stralloc_cats.c", "stralloc_opys.c",
       "stralloc_copy.c", "stralloc_cat.c", "byte_copy.c"]

def obligations(tier):
    # pqadd (restart must not schedule a channel twice) and todo_do (a message is never preprocessed again once it is being
    # delivered: that would rebuild every recipient as 'to do') belong to "never retried / at most one attempt" as well
    obls = _borrow("C03", ["del_dochan", "pass_dochan", "markdone", "job_close", "pqadd", "todo_do", "readsubdir_scan", "pqstart_all"], tier)
    obls.append(_plan("C16").startup_obligation())
    # the spawner's side (spawn.c is an anchor of this property): a delivery number that is in use is refused, a slot is free again only
    # after its one report
    obls += _borrow("C18", ["spawn_docmd", "spawn_main"], tier)
    obls.append(Obl("del_start", "del_start.c",
        progs=[Prog("qmail-send.c", nomain=True, cut=["comm_write", "comm_canwrite", "del_status"])],
        repo=STR, lib=["arena_stralloc.c"], defines={"ARENA_CAP": 32, "ARENA_SLOTS": 8},
        grid=[{"CH": 0}, {"CH": 1}], unwind_default=12, timeout=600,
        functions=["qmail-send.c:del_start", "qmail-send.c:del_avail", "qmail-send.c:del_canexit"],
        cuts=["comm_write -> observed", "comm_canwrite -> symbolic", "del_status, log* -> no-ops"],
        assumes=["arbitrary valid state: concurrency 0..3, any subset of slots in use, concurrencyused == slots in use"],
        claim="C04: del_start uses a previously unused slot, records (job, offset), adds one job reference and one to concurrencyused, "
              "never exceeds concurrency; without a free slot / writable channel / live spawner nothing changes; "
              "del_avail implies a free slot; del_canexit is false while attempts are in flight on a live channel",
        expect_witnesses=["started", "no_free_slot", "channel_busy"]))
    # the command channel to the spawner: each delivery command arrives exactly once and intact, whatever the pipe does
    # kills: comm_pos not reset by comm_write (stale offset); comm_pos += w dropped; `comm_pos[c] == len` -> `w == len`;
    #        comm_write appending to a non-empty buffer and rewinding comm_pos (seed C04-r3 comm buffer);  `len - comm_pos[c]` -> `len`
    quick = tier == "quick"
    obls.append(Obl("comm_channel", "comm.c",
        progs=[Prog("qmail-send.c", nomain=True, cut=["senderadd", "spawndied"])],
        repo=STR + ["fmtqfn.c", "fmt_ulong.c", "fmt_str.c", "auto_split.c"], lib=["arena_stralloc.c"],
        defines={"ARENA_CAP": 64, "ARENA_SLOTS": 8}, sysrename=["write"],
        grid=[{"CH": c, "K": k} for c in (0, 1) for k in ([3] if quick else [3, 4])],
        unwind=lambda p: {"vmain": 18, "vf_write": 9 * p["K"] + 2, "check_prefix": 9 * p["K"] + 2}, unwind_default=12, timeout=900,
        functions=["qmail-send.c:comm_canwrite", "qmail-send.c:comm_write", "qmail-send.c:comm_selprep", "qmail-send.c:comm_do",
                   "qmail-send.c:fnmake_split", "fmtqfn.c:fmtqfn"],
        cuts=["senderadd -> appends a one-byte stand-in (VERP expansion: C10 senderadd)", "spawndied -> observed", "nomem, log* -> no-ops"],
        stubs=["write(): accepts 1..len bytes (symbolic), or returns 0, or fails with EAGAIN or EPIPE - per step"],
        assumes=["the caller hands a command over only while comm_canwrite() says yes (what del_start does)", "K steps, each symbolically "
                 "'hand over a command (or not)' followed by one comm_selprep/comm_do pass; message number and sender concrete, recipient byte and delivery number symbolic"],
        outside=["more than K steps", "commands longer than 9 bytes", "both channels pending at once"],
        claim="C04: for every sequence of K hand-overs / write outcomes the bytes accepted by the spawner's pipe are a prefix of the "
              "concatenation of the commands handed over (each once, intact, in order); the daemon asks for writability exactly while "
              "a command is pending; EPIPE ends the channel",
        expect_witnesses=["second_command_accepted", "short_write", "all_delivered", "pipe_broken"]))
    return obls
