/* C04 - qmail-send.c comm_canwrite()/comm_write()/comm_selprep()/comm_do(): the command channel to a spawner.
 *
 * "At most one attempt per recipient is outstanding" and "delivered exactly once" rest on the spawner RECEIVING each
 * delivery command exactly once and intact: whatever the pipe does (short writes of any size, EAGAIN, zero-length
 * writes), the byte stream that arrives at the spawner must be the concatenation of the commands handed over, each once,
 * in order, unchanged:   <delnum> <split message name> NUL <sender> NUL <recipient> NUL     (qmail-send/INTERNALS, spawn.c).
 *
 * The harness plays del_start()'s side of the contract and nothing more: a command is handed over only while
 * comm_canwrite(c) says yes.  It makes K steps; each step is (symbolically) "hand over the next command if the channel
 * takes one", then one pass of the main loop's comm_selprep()/comm_do() with a symbolic outcome of write().  A ghost copy of every
 * accepted command is appended to `want`; every byte the write() stub accepts is appended to `got`.  After every step
 * got must be a prefix of want, and when the daemon no longer asks select() for writability everything has arrived.
 * How many commands the channel buffers is not prescribed (one today).
 */
#include "verif.h"
#include <sys/select.h>
void senderadd();                       /* cut: VERP expansion is obligation C10 senderadd */
void spawndied();                       /* cut: observed */
#include "gen_qmail-send.c"
#include "auto_split.h"

#ifndef K
#define K 3
#endif
#ifndef CH
#define CH 0
#endif
#define WMAX (9 * K + 1)

/* ---------------- symbolic inputs */
unsigned char op[K];                    /* 0: try to hand over a command before this pass of the main loop */
unsigned char wres[K];                  /* outcome of the write() of that step: 0..250 bytes accepted (capped), 251 = 0, 252 = EAGAIN, 253.. = EPIPE */
unsigned char rbyte[K];                 /* recipient byte of the k-th command */
unsigned char dnum[K];                  /* delivery number of the k-th command */
unsigned char other_ready;              /* the other channel's descriptor reported writable as well */

void sym_inputs(void)
{
#ifdef REPLAY
#include "replay_inputs.inc"
#else
  SYM_ARR(op); SYM_ARR(wres); SYM_ARR(rbyte); SYM_ARR(dnum); SYM(other_ready);
#endif
}

static unsigned char want[WMAX], got[WMAX];
static unsigned int nwant, ngot, step, died, nwrites;
static char recipbuf[4];

void senderadd(stralloc *sa, char *sender, char *recip)
{
  CHECK(sender[0] == 's' && sender[1] == 0, "the command carries the job's sender");
  while (!stralloc_cats(sa, "S")) nomem();          /* stands for the (possibly VERP-expanded) sender */
}
void spawndied(int c) { CHECK(c == CH, "the channel whose pipe broke"); died = 1; flagspawnalive[c] = 0; flagexitasap = 1; }
void nomem(void) {}
void log1(char *a) {} void qslog2(char *a, char *b) {} void log3(char *a, char *b, char *c) {}
void logsa(stralloc *s) {} void logsafe(char *s) {} void pausedir(char *d) {}

ssize_t vf_write(int fd, const void *buf, size_t len)
{
  unsigned int i, w;
  unsigned char r = wres[step];
  CHECK(fd == chanfdout[CH], "only the channel that is ready and has something to send is written to");
  CHECK(len >= 1 && len <= WMAX, "a pending command is written, never an empty or run-away block");
  ++nwrites;
  if (r == 251) return 0;
  if (r == 252) { errno = EAGAIN; return -1; }
  if (r >= 253) { errno = EPIPE; return -1; }
  w = r; if (w < 1) w = 1; if (w > len) w = (unsigned int) len;           /* a pipe write accepts 1..len bytes */
  for (i = 0; i < WMAX; ++i) {
    if (i >= w) break;
    CHECK(ngot < WMAX, "harness sizing");
    if (ngot < WMAX) got[ngot++] = ((const unsigned char *) buf)[i];
  }
  return (ssize_t) w;
}

static void note(unsigned char c) { if (nwant < WMAX) want[nwant++] = c; }

static void check_prefix(void)
{
  unsigned int i;
  CHECK(ngot <= nwant, "C04: the spawner never receives more than the commands handed over (no command, or part of one, is sent twice)");
  for (i = 0; i < WMAX; ++i) {
    if (i >= ngot) break;
    CHECK(got[i] == want[i], "C04: the spawner receives exactly the bytes of the commands handed over, in order (each delivery command once, intact)");
  }
}

void vmain(void)
{
  unsigned int k, ncmd = 0;
  fd_set wfds;
  int nfds;
  sym_inputs();
  stralloc_ready(&comm_buf[CH], 0); stralloc_ready(&fn, 0);             /* arena slots in a fixed order */
  fn.len = 0; comm_buf[CH].len = 0;
  chanfdout[0] = 1; chanfdout[1] = 3; flagspawnalive[0] = flagspawnalive[1] = 1;
  auto_split = 2;
  for (k = 0; k < K; ++k) {
    step = k;
    if (died) break;
    if (op[k] == 0 && comm_canwrite(CH)) {
      /* del_start(): slot number, message, sender, recipient */
      ASSUME(rbyte[k] != 0);
      recipbuf[0] = (char) rbyte[k]; recipbuf[1] = 0;
      comm_write(CH, (int) dnum[k], 7UL, "s", recipbuf);
      note(dnum[k]); note('1'); note('/'); note('7'); note(0); note('S'); note(0); note(rbyte[k]); note(0);
      ++ncmd;
      if (ncmd >= 2) WITNESS("second_command_accepted");
    }
    nfds = 0; FD_ZERO(&wfds);
    comm_selprep(&nfds, &wfds);
    if (FD_ISSET(chanfdout[CH], &wfds)) {
      CHECK(nfds > chanfdout[CH], "select() is told to look at the channel's descriptor");
      CHECK(ngot < nwant, "writability is asked for only while something is pending");
      if (other_ready) FD_SET(chanfdout[1 - CH], &wfds);
      nwrites = 0;
      comm_do(&wfds);
      CHECK(nwrites == 1, "one write per ready channel and pass");
      if (wres[k] >= 1 && wres[k] < 5 && ngot < nwant && ngot > 0) WITNESS("short_write");
    } else {
      CHECK(ngot == nwant, "C04: a command that was handed over is pending until all of it has been written");
      CHECK(!FD_ISSET(chanfdout[1 - CH], &wfds), "the idle channel is not selected for writing");
    }
    check_prefix();
  }
  if (!died && ncmd && ngot == nwant) WITNESS("all_delivered");
  if (died) WITNESS("pipe_broken");
}
