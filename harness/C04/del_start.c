/* C04 - qmail-send.c del_start()/del_avail()/del_canexit(): the bookkeeping that bounds
 * the number of delivery attempts in flight, from an arbitrary valid state. */
#include "verif.h"
#include "gen_qmail-send.c"

#ifndef CH
#define CH 0
#endif
#define NCMAX 3

unsigned int in_conc;                    /* concurrency[CH]: 0..NCMAX */
unsigned char in_used[NCMAX];
int in_canwrite, in_alive, in_refs;
long in_mpos;

void sym_inputs(void)
{
#ifdef REPLAY
#include "replay_inputs.inc"
#else
  SYM(in_conc); SYM_ARR(in_used); SYM(in_canwrite); SYM(in_alive); SYM(in_refs); SYM(in_mpos);
#endif
}

static struct del dels[NCMAX];
static struct job jobs[2];
static int n_comm, comm_delnum, comm_c; static unsigned long comm_id;
static char recip_[] = "r@h";

int comm_canwrite(int c) { CHECK(c == CH, "asks about its own channel"); return in_canwrite; }
void comm_write(int c, int delnum, unsigned long id, char *sender, char *recip)
{ ++n_comm; comm_c = c; comm_delnum = delnum; comm_id = id; CHECK(recip == recip_, "command carries the recipient"); }
void del_status(void) {}
void log1(char *a) {} void qslog2(char *a, char *b) {} void log3(char *a, char *b, char *c) {}
void logsa(stralloc *s) {} void logsafe(char *s) {} void nomem(void) {} void pausedir(char *d) {}
unsigned int fmt_ulong(char *s, unsigned long u) { if (s) s[0] = '0'; return 1; }   /* log lines only */

void vmain(void)
{
  unsigned int i, used0 = 0, used1 = 0, newslot = NCMAX, changed = 0;
  int avail;
  sym_inputs();
  ASSUME(in_conc <= NCMAX);
  ASSUME(in_canwrite == 0 || in_canwrite == 1); ASSUME(in_alive == 0 || in_alive == 1);
  ASSUME(in_refs >= 1 && in_refs < 1000); ASSUME(in_mpos >= 0);
  numjobs = 2; jo = jobs;
  jobs[1].refs = in_refs; jobs[1].id = 77; jobs[1].channel = CH; jobs[1].sender.s = "s@h"; jobs[1].sender.len = 4; jobs[1].sender.a = 4;
  concurrency[CH] = in_conc; d[CH] = dels; flagspawnalive[CH] = in_alive;
  for (i = 0; i < NCMAX; ++i) { ASSUME(in_used[i] <= 1); if (i >= in_conc) ASSUME(in_used[i] == 0); dels[i].used = in_used[i]; dels[i].mpos = -1; dels[i].j = 0; used0 += in_used[i]; }
  concurrencyused[CH] = used0;

  avail = del_avail(CH);
  CHECK(!avail || (used0 < in_conc && in_alive && in_canwrite), "C04: del_avail only with a free slot, a live spawner and a writable channel");
  CHECK(del_canexit() == !(in_alive && used0 > 0), "C04: the daemon may exit only when no attempt is in flight on a live channel");

  del_start(1, (seek_pos) in_mpos, recip_);

  for (i = 0; i < NCMAX; ++i) {
    used1 += dels[i].used;
    if (dels[i].used != in_used[i]) { ++changed; newslot = i; }
  }
  CHECK(concurrencyused[CH] == used1 && used1 <= in_conc, "C04: attempts in flight never exceed min(configured, announced) concurrency");
  if (n_comm) {
    CHECK(n_comm == 1 && changed == 1 && newslot < in_conc && !in_used[newslot] && dels[newslot].used == 1, "C04: exactly one previously free slot is taken");
    CHECK(dels[newslot].j == 1 && dels[newslot].mpos == in_mpos, "C04: the slot remembers the job and the record offset for the D mark");
    CHECK(jobs[1].refs == in_refs + 1, "C04: the job is referenced once more while the attempt is in flight");
    CHECK(comm_c == CH && comm_delnum == (int) newslot && comm_id == 77, "the delivery command carries this slot's number and the message");
    CHECK(used0 < in_conc && in_alive && in_canwrite, "C04: started only with a free slot, live spawner, writable channel");
    WITNESS("started");
  } else {
    CHECK(changed == 0 && used1 == used0 && jobs[1].refs == in_refs, "C04: nothing changes when no attempt can be started");
    CHECK(!(used0 < in_conc && in_alive && in_canwrite), "an attempt is started whenever it can be");
    if (used0 == in_conc && in_alive && in_canwrite) WITNESS("no_free_slot");
    if (used0 < in_conc && in_alive && !in_canwrite) WITNESS("channel_busy");
  }
}
