/* C20 kernel - report() of qmail-rspawn.c (PROG 0) and qmail-lspawn.c (PROG 1): the
 * child's output is `len` bytes that need not contain a NUL anywhere.  Output block of
 * exactly L bytes (grid), all contents symbolic, any wait status: every read stays inside
 * the block (cbmc checks; ASan on a malloc(L) block natively).  The functional side
 * (K/Z/D classification) is C09 / C11. */
#include "verif.h"
#if PROG == 0
#include "gen_qmail-rspawn.c"
#else
#include "gen_qmail-lspawn.c"
#endif

#ifndef L
#define L 4
#endif

unsigned char out[L];
int wstat;
static unsigned int nput;
static unsigned char first;
static substdio ssrep;

void sym_inputs(void)
{
#ifdef REPLAY
#include "replay_inputs.inc"
#else
  SYM_ARR(out); SYM(wstat);
#endif
}

int ideal_getc(substdio *s) { return -1; }
int ideal_putc(substdio *s, unsigned char c) { if (!nput) first = c; ++nput; return 0; }
int ideal_flush(substdio *s) { return 0; }

void vmain(void)
{
  char *blk;
  unsigned int i, hasnul = 0;
#ifdef VERIF_CBMC
  static char store[L];
  blk = store;
#else
  blk = (char *) malloc(L);
#endif
  sym_inputs();
  ASSUME(wstat >= 0 && wstat <= 65535);
  for (i = 0; i < L; ++i) { blk[i] = (char) out[i]; if (!out[i]) hasnul = 1; }
  report(&ssrep, wstat, blk, L);
  CHECK(nput >= 1 && (first == 'K' || first == 'Z' || first == 'D'), "report starts with K, Z or D");
  if (!hasnul && wstat == 0) WITNESS("exit0_output_without_any_nul");
  if (wstat == 0 && out[L - 1] != 0 && hasnul) WITNESS("exit0_last_field_unterminated");
  WITNESS("reported");
}
