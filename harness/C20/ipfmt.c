/* C20 - ip.c ip_fmt() length contract and the ip_fmt -> ip_scan / ip_scanbracket round trip
 * (obligation scan_ip covers ip_scan on arbitrary strings; this adds the formatting side).
 * Callers size their buffers with IPFMT (qmail-tcpto: tmp[FMT_ULONG + IPFMT], tcp-env, the
 * Received: line of qmail-smtpd via remoteip, ipme) or with ip_fmt(FMT_LEN,ip).
 * Real code: ip.c, fmt_ulong.c, fmt_str.c, scan_ulong.c.  Input: any 4 address bytes.
 * Obligations: ip_fmt(0,ip) == ip_fmt(buf,ip) == bytes written, 7..15 <= IPFMT (the block
 * handed over is exactly that long); the text is a dotted quad; ip_scan reads it back to the
 * same address and consumes exactly its length; ip_scanbracket does so for "[text]" - the
 * two directions of ip.c agree. */
#include "verif.h"
#include "ip.h"
#include "fmt.h"

unsigned char d_in[4];

void sym_inputs(void)
{
#ifdef REPLAY
#include "replay_inputs.inc"
#else
  SYM_ARR(d_in);
#endif
}

void vmain(void)
{
  struct ip_address ip, back;
  unsigned int len, len2, i, dots = 0, r;
  sym_inputs();
  for (i = 0; i < 4; ++i) { ip.d[i] = d_in[i]; back.d[i] = (unsigned char) ~d_in[i]; }
  len = ip_fmt(FMT_LEN, &ip);
  CHECK(len >= 7 && len <= 15 && len <= IPFMT, "C20(ip_fmt): a dotted quad needs 7..15 bytes, IPFMT is enough");
  ASSUME(len >= 7 && len <= 15);
  {
#ifdef VERIF_CBMC
    static char store[15]; char *blk = store + (15 - len);          /* block of exactly len bytes */
    static char zstore[18]; char *z = zstore + (15 - len);          /* "[" text "]" NUL, exactly len + 3 bytes */
#else
    char *blk = (char *) malloc(len);
    char *z = (char *) malloc(len + 3);
#endif
    len2 = ip_fmt(blk, &ip);
    CHECK(len2 == len, "C20(ip_fmt): same length with and without buffer");
    z[0] = '[';
    for (i = 0; i < 15; ++i) {
      if (i >= len) break;
      CHECK((blk[i] >= '0' && blk[i] <= '9') || blk[i] == '.', "digits and dots only");
      if (blk[i] == '.') ++dots;
      z[i + 1] = blk[i];
    }
    CHECK(dots == 3, "three dots");
    z[len + 1] = 0;
    r = ip_scan(z + 1, &back);
    CHECK(r == len, "C20(ip): ip_scan consumes exactly what ip_fmt wrote");
    CHECK(back.d[0] == ip.d[0] && back.d[1] == ip.d[1] && back.d[2] == ip.d[2] && back.d[3] == ip.d[3], "C20(ip): ip_scan(ip_fmt(ip)) == ip");
    z[len + 1] = ']'; z[len + 2] = 0;
    for (i = 0; i < 4; ++i) back.d[i] = (unsigned char) ~d_in[i];
    r = ip_scanbracket(z, &back);
    CHECK(r == len + 2, "C20(ip): ip_scanbracket consumes the brackets and the address");
    CHECK(back.d[0] == ip.d[0] && back.d[1] == ip.d[1] && back.d[2] == ip.d[2] && back.d[3] == ip.d[3], "C20(ip): ip_scanbracket([ip_fmt(ip)]) == ip");
  }
  if (len == 15) WITNESS("longest_255_255_255_255_style");
  if (len == 7) WITNESS("shortest");
  WITNESS("round_trip");
}
