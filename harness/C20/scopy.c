/* C20 layer 0 (b') - substdio_copy.c over the REAL substdi.c and substdo.c: the
 * composition of the two halves.  Input stream: any valid state of a BI-byte buffer plus a
 * symbolic source (short reads, EINTR, EOF, hard error); output stream: any valid state of
 * a BO-byte buffer, op with short writes, EINTR, hard error.
 *   rc  0: (bytes op received ++ bytes still buffered in ssout)
 *          == (ssout's old pending bytes) ++ (the whole input stream), input exhausted;
 *   rc -2: only after a hard read error;  rc -3: only after a hard write error;
 *   in both cases what op received so far is a prefix of that sequence.
 * Same contract as substdio_copy() in lib/ideal_substdio.c. */
#include "verif.h"
#include <errno.h>
#include "substdio.h"

#ifndef BI
#define BI 2
#endif
#ifndef BO
#define BO 2
#endif
#define SMAX 3
#define RT (SMAX + 4)             /* read tape */
#define WT (BO + BI + SMAX + 3)   /* write tape */

unsigned char xin[BI];  unsigned int pin0;
unsigned char xout[BO]; unsigned int pout0;
unsigned char src[SMAX]; unsigned int slen;
unsigned char rtape[RT], wtape[WT];   /* 0 EINTR, 255 hard error, k: transfer min(k, len, available) */

static char ibuf[BI], obuf[BO];
static substdio ssin, ssout;
static unsigned int srcpos, nrd, nwr, rderr, wrerr, sinklen;

void sym_inputs(void)
{
#ifdef REPLAY
#include "replay_inputs.inc"
#else
  SYM_ARR(xin); SYM(pin0); SYM_ARR(xout); SYM(pout0); SYM_ARR(src); SYM(slen); SYM_ARR(rtape); SYM_ARR(wtape);
#endif
}

/* byte i of (old pending output ++ buffered input ++ source) */
static unsigned char expect(unsigned int i)
{
  if (i < pout0) return xout[i];
  i -= pout0;
  if (i < pin0) return xin[BI - pin0 + i];
  return src[i - pin0];
}

static ssize_t rd(int fd, char *buf, size_t len)
{
  unsigned int t, w, i;
  CHECK(fd == 0, "copy reads from ssin's descriptor");
  CHECK(nrd < RT, "read tape long enough (harness sizing)");
  ASSUME(nrd < RT);
  t = rtape[nrd++];
  if (t == 0) { errno = EINTR; return -1; }
  if (t == 255) { rderr = 1; errno = EIO; return -1; }
  if (srcpos >= slen) return 0;
  w = t; if (w > len) w = (unsigned int) len; if (w > slen - srcpos) w = slen - srcpos;
  for (i = 0; i < SMAX; ++i) { if (i >= w) break; buf[i] = (char) src[srcpos++]; }
  return (ssize_t) w;
}

static ssize_t wr(int fd, const char *buf, size_t len)
{
  unsigned int t, w, i;
  CHECK(fd == 1, "copy writes to ssout's descriptor");
  CHECK(nwr < WT, "write tape long enough (harness sizing)");
  ASSUME(nwr < WT);
  t = wtape[nwr++];
  if (t == 0) { errno = EINTR; return -1; }
  if (t == 255) { wrerr = 1; errno = EIO; return -1; }
  w = t < len ? t : (unsigned int) len;
  for (i = 0; i < BO + BI + SMAX; ++i) {
    if (i >= w) break;
    CHECK(sinklen < pout0 + pin0 + slen, "layer0(copy): op never receives more bytes than exist");
    ASSUME(sinklen < pout0 + pin0 + slen);
    CHECK((unsigned char) buf[i] == expect(sinklen), "layer0(copy): bytes arrive at the sink unchanged and in order");
    ++sinklen;
  }
  return (ssize_t) w;
}

void vmain(void)
{
  unsigned int i, nz = 0, total;
  int rc;
  sym_inputs();
  ASSUME(pin0 <= BI && pout0 <= BO && slen <= SMAX);
  for (i = 0; i < RT; ++i) if (rtape[i] == 0) ++nz;
  for (i = 0; i < WT; ++i) if (wtape[i] == 0) ++nz;
  ASSUME(nz <= 1);                                    /* at most one EINTR in the whole run */
  for (i = 0; i < BI; ++i) ibuf[i] = (char) xin[i];
  for (i = 0; i < BO; ++i) obuf[i] = (char) xout[i];
  ssin.x = ibuf; ssin.p = (int) pin0; ssin.n = (int) (BI - pin0); ssin.fd = 0; ssin.op = rd;
  ssout.x = obuf; ssout.p = (int) pout0; ssout.n = BO; ssout.fd = 1; ssout.op = wr;
  total = pout0 + pin0 + slen;

  rc = substdio_copy(&ssout, &ssin);

  CHECK(rc == 0 || rc == -2 || rc == -3, "layer0(copy): returns 0, -2 or -3");
  CHECK(ssout.p >= 0 && ssout.p <= BO && ssout.n == BO && ssout.x == obuf, "layer0(copy): output state valid");
  CHECK(ssin.p >= 0 && ssin.n >= 0 && ssin.p + ssin.n == BI && ssin.x == ibuf, "layer0(copy): input state valid");
  CHECK(sinklen <= total, "layer0(copy): nothing is written twice");
  if (rc == 0) {
    CHECK(!rderr && !wrerr, "layer0(copy): success is not reported after a hard error");
    CHECK(ssin.p == 0 && srcpos == slen, "layer0(copy): returns 0 only when the input is exhausted");
    CHECK(sinklen + (unsigned int) ssout.p == total, "layer0(copy): every input byte is written or buffered in ssout");
    for (i = 0; i < BO; ++i) {
      if (i >= (unsigned int) ssout.p) break;
      CHECK((unsigned char) obuf[i] == expect(sinklen + i), "layer0(copy): bytes still buffered are the unwritten tail, in order");
    }
    if (slen == SMAX && pin0 == BI && pout0 == BO) WITNESS("copied_all_full_buffers");
    if (nz == 1 && nrd + nwr >= 4) WITNESS("copied_with_eintr");
    WITNESS("copied");
  }
  if (rc == -2) { CHECK(rderr, "layer0(copy): -2 only after a hard read error"); WITNESS("read_error"); }
  if (rc == -3) { CHECK(wrerr, "layer0(copy): -3 only after a hard write error"); if (sinklen > 0) WITNESS("write_error_after_prefix"); WITNESS("write_error"); }
}
