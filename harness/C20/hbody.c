/* C20 (g) - headerbody.c over every message of exactly N bytes (grid; all byte values, one
 * read error anywhere): real headerbody.c, hfield.c, stralloc_*; getln = ideal stream,
 * the two static strallocs pre-sized (growth arithmetic: alloc_arith_*).  Standard checks on every access (nextline.s[0], line folding,
 * the "From " and invalid-header branches), plus: header callbacks come before hdone,
 * body callbacks after it, hdone exactly once, every stralloc handed out is non-empty. */
#include "verif.h"
#include "gen_headerbody.c"        /* gives access to the static strallocs line / nextline: pre-sized below */
#ifndef N
#define N 6
#endif
unsigned char in[N ? N : 1]; unsigned int errpos;
static const unsigned int inlen = N;      /* sizes concrete per query */
static unsigned int inpos, nhf, nbl, ndone, order_ok = 1, err_injected;
static substdio ssin_;
#define CAP (N + 14)               /* "MBOX-Line: " + line + LF + catb's spare byte */
static char lbuf[CAP], nbuf[CAP];
static int presized(stralloc *x, unsigned int n)
{
  CHECK(x == &line || x == &nextline, "headerbody grows only its own two strallocs");
  CHECK(n <= CAP, "C20(headerbody): growth stays inside what a message of N bytes can need (harness sizing)");
  ASSUME(n <= CAP);
  return 1;
}
int stralloc_ready(stralloc *x, unsigned int n) { return presized(x, n); }
int stralloc_readyplus(stralloc *x, unsigned int n) { return presized(x, x->len + n); }
void sym_inputs(void)
{
#ifdef REPLAY
#include "replay_inputs.inc"
#else
  SYM_FEED();
  SYM_ARR(in); SYM(errpos);
#endif
}
int ideal_getc(substdio *s)
{
  if (inpos == errpos && !err_injected) { err_injected = 1; return -2; }
  if (inpos >= inlen) return -1;
  return in[inpos++];
}
int ideal_putc(substdio *s, unsigned char c) { return 0; }
int ideal_flush(substdio *s) { return 0; }
static void dohf(stralloc *h) { CHECK(h->len >= 1 && h->s[h->len - 1] == '\n', "C20(headerbody): a header field is a non-empty line ending in LF"); if (ndone) order_ok = 0; ++nhf; }
static void hdone(void) { ++ndone; }
static void dobl(stralloc *b) { CHECK(b->len >= 1 && b->s[b->len - 1] == '\n', "C20(headerbody): a body line is non-empty and ends in LF"); if (!ndone) order_ok = 0; ++nbl; }
void vmain(void)
{
  int r;
  sym_inputs();
  line.s = lbuf; line.a = CAP; line.len = 0; nextline.s = nbuf; nextline.a = CAP; nextline.len = 0;
  r = headerbody(&ssin_, dohf, hdone, dobl);
  CHECK(r == 0 || r == -1, "headerbody returns 0 or -1");
  if (r == 0) {
    CHECK(ndone == 1 && order_ok, "C20(headerbody): header callbacks, then hdone exactly once, then body callbacks");
    if (nhf >= 2) WITNESS("two_fields");
    if (nhf >= 1 && nbl >= 1) WITNESS("header_and_body");
    if (nhf == 0 && nbl >= 2) WITNESS("invalid_first_line_becomes_body");
    WITNESS("parsed");
  } else { CHECK(err_injected, "-1 only after a read error"); WITNESS("read_error"); }
}
