/* C20 layer 0 (a) - output half of substdio: the REAL substdo.c + byte_copy.c.
 *
 * From an ARBITRARY valid output state (buffer of BN bytes, fill p0 <= BN symbolic,
 * buffered bytes symbolic) and a write function that may write short (any 1..len),
 * fail with EINTR (to be retried) or fail hard, one call of
 *     OP 0 substdio_put   1 substdio_bput   2 substdio_putflush   3 substdio_flush
 * with dlen <= LMAX symbolic bytes satisfies the contract that lib/ideal_substdio.c
 * implements (substdio.h usage, DESIGN 2.2):
 *   rc == 0 : (bytes handed to op, in order) ++ (bytes still buffered)
 *             == (bytes buffered before) ++ (the given bytes); nothing lost, duplicated
 *             or reordered; putflush/flush leave the buffer empty; 0 <= p <= n, n and x
 *             unchanged (the post-state is again a valid state: the lemma is inductive);
 *   rc == -1: only after op failed hard; what op received is a prefix of that sequence;
 *   op is only ever called with the stream's descriptor.
 * Memory safety (the CVE-2005-1515 shape: never copy more than the free space) is
 * decided by cbmc's bounds/pointer checks on the exactly-sized buffer xbuf[BN], and by
 * ASan's redzone around it in the native replay. */
#include "verif.h"
#include <errno.h>
#include "substdio.h"

#ifndef BN
#define BN 4
#endif
#ifndef OP
#define OP 0
#endif
#define LMAX 6
#ifndef NINTR
#define NINTR 1
#endif
#define TAPE (BN + LMAX + NINTR + 1)
#define SINKMAX (BN + LMAX)
#define FD 7

unsigned char xinit[BN];      /* bytes sitting in the buffer */
unsigned int p0;              /* how many of them are pending */
unsigned char data[LMAX];     /* bytes given to the call */
unsigned int dlen;
unsigned char tape[TAPE];     /* per op call: 0 EINTR, 255 hard error, k: write min(k,len) bytes */

static char xbuf[BN];
static char dbuf[LMAX];
static substdio ss;
static unsigned int sinklen, ncalls, harderr;   /* sinklen: bytes op has accepted so far */

void sym_inputs(void)
{
#ifdef REPLAY
#include "replay_inputs.inc"
#else
  SYM_ARR(xinit); SYM(p0); SYM_ARR(data); SYM(dlen); SYM_ARR(tape);
#endif
}

static unsigned char expect(unsigned int i) { return i < p0 ? xinit[i] : data[i - p0]; }

/* the bytes are compared with the expected sequence at the moment they are handed to op */
static ssize_t wr(int fd, const char *buf, size_t len)
{
  unsigned int t, w, i;
  CHECK(fd == FD, "layer0(out): op is called with the stream's descriptor");
  CHECK(ncalls < TAPE, "tape long enough (harness sizing)");
  ASSUME(ncalls < TAPE);
  t = tape[ncalls++];
  if (t == 0) { errno = EINTR; return -1; }
  if (t == 255) { harderr = 1; errno = EIO; return -1; }
  w = t < len ? t : (unsigned int) len;
  for (i = 0; i < SINKMAX; ++i) {
    if (i >= w) break;
    CHECK(sinklen < p0 + dlen, "layer0(out): op never receives more bytes than were buffered plus given");
    ASSUME(sinklen < p0 + dlen);
    CHECK((unsigned char) buf[i] == expect(sinklen), "layer0(out): op receives the buffered bytes, then the given bytes, in order");
    ++sinklen;
  }
  return (ssize_t) w;
}

void vmain(void)
{
  unsigned int i, nz = 0, total;
  int rc;
  sym_inputs();
  ASSUME(p0 <= BN && dlen <= LMAX);
  for (i = 0; i < TAPE; ++i) if (tape[i] == 0) ++nz;
  ASSUME(nz <= NINTR);                       /* at most NINTR interrupted writes */
  for (i = 0; i < BN; ++i) xbuf[i] = (char) xinit[i];
  for (i = 0; i < LMAX; ++i) dbuf[i] = (char) data[i];
  ss.x = xbuf; ss.p = (int) p0; ss.n = BN; ss.fd = FD; ss.op = wr;

#if OP == 0
  rc = substdio_put(&ss, dbuf, dlen);
#elif OP == 1
  rc = substdio_bput(&ss, dbuf, dlen);
#elif OP == 2
  rc = substdio_putflush(&ss, dbuf, dlen);
#else
  dlen = 0;
  rc = substdio_flush(&ss);
#endif
  total = p0 + dlen;

  CHECK(rc == 0 || rc == -1, "layer0(out): returns 0 or -1");
  CHECK(ss.x == xbuf && ss.n == BN && ss.fd == FD, "layer0(out): x, n, fd unchanged");
  CHECK(ss.p >= 0 && ss.p <= BN, "layer0(out): 0 <= p <= n afterwards");
  CHECK(sinklen <= total, "layer0(out): no byte is written twice");
  if (rc == 0) {
    CHECK(!harderr, "layer0(out): success is never reported after a hard write error");
    CHECK(sinklen + (unsigned int) ss.p == total, "layer0(out): on success every byte is either written or still buffered");
    for (i = 0; i < BN; ++i) {
      if (i >= (unsigned int) ss.p) break;
      CHECK((unsigned char) xbuf[i] == expect(sinklen + i), "layer0(out): the bytes still buffered are the unwritten tail, in order");
    }
#if OP >= 2
    CHECK(ss.p == 0, "layer0(out): putflush/flush leave nothing buffered");
#endif
    if (sinklen > p0 && ss.p > 0) WITNESS("part_written_part_buffered");
    if (ncalls >= 2 && nz >= 1) WITNESS("short_writes_and_eintr");
    WITNESS("ok");
  } else {
    CHECK(harderr, "layer0(out): -1 only after op failed hard");
    if (sinklen > 0) WITNESS("failed_after_prefix");
    WITNESS("failed");
  }
}
