# C20 - memory safety: layer-0 lemmas on the real substdio/getln/stralloc code + per-kernel obligations.
#
# kills: (hand-made mutants of /repo in scratch worktrees, tools/mutant.sh; every one printed VIOLATION with a native replay rc 1)
#   substdo.c   substdio_put `len > n - p` -> `len > n`                      l0_substdio_out (OOB write in byte_copy, ASan)
#   substdo.c   substdio_bput free space `s->n - s->p` -> `+ 1`              l0_substdio_out
#   substdo.c   allwrite drops `buf += w`                                    l0_substdio_out ("in order")
#   substdo.c   substdio_put drops `if (n > len) n = len`                    l0_substdio_out_huge ("direct write stays inside the caller's data")
#   substdi.c   getthis copies from s->x + s->n + 1                          l0_substdio_in (OOB read)
#   substdi.c   feed: shift `if (q > 0)` -> `if (q > 1)`                     l0_substdio_in ("unread buffered bytes ... in order")
#   substdi.c   getthis `q > 0 / r = len` -> `q >= 0 / r = len + 1`          l0_substdio_in
#   substdi.c   substdio_get direct read asks for len + 1                    l0_substdio_in (write past the caller's block)
#   getln2.c    `*clen = i + 1` -> `i`; `i < n` -> `i <= n`; drop readyplus  l0_getln (three mutants)
#   gen_allocdefs.h  drop the mul-overflow check; drop the add-overflow check  alloc_arith_* (struct instances / all instances + catb)
#   stralloc_catb.c  drop the n+1 overflow check                             alloc_arith_stralloc_catb
#   quote.c     drop the 2*len overflow check                                alloc_arith_quote_doit
#   qmail-qmtpd.c / qmail-qmqpd.c  getlen: drop / weaken the 200000000 guard  netstring_getlen_*
#   qmail-qmtpd.c  failure.s[failure.len - 2]                                netstring_qmtpd_recipients
#   dns.c       findname: drop the `i < 10` check; findip: drop the responseend check; pre-fix tree 356f27c   dns_walkers
#   qmail-rspawn.c pre-fix tree 356f27c (strlen past len); qmail-lspawn.c report `i <= len`   report_*
#   hfield.c    hmatch: drop `if (i >= len) return 0`                        hfield
#   token822.c  count pass forgets ';'                                       token822_parse
#   commands.c  readyplus(&cmd,0)                                            commands_line
#   control.c   striptrailingwhitespace `len >= 0`                           control_readline
#   constmap.c  entry count loop `j < len - 1`                               control_constmap
#   ip.c        ip_scan returns len + 1                                      scan_ip
#   headerbody.c getsa: drop the appended newline                            headerbody
# not killable inside the bounds (stated, not hidden): qmtpd `>= 1000` -> `>= 100000` (needs a 1000-byte recipient: C07 template 5),
# qmtpd drop `len >= biglen` (no memory effect), headerbody nextline.s[1] (stale byte inside the buffer), cdb_seek `++h2 > lenhash` in
# corrupt mode (no memory effect; killed by C11 cdb_seek_spec).
from vlib import Obl, Prog, borrow

OPS_OUT = {0: "substdio_put", 1: "substdio_bput", 2: "substdio_putflush", 3: "substdio_flush"}


def obligations(tier):
    quick = (tier == "quick")
    obls = []

    # ---------------------------------------------------------------- layer 0 (a): substdo.c
    def sout_wit(p):
        w = ["ok", "failed", "short_writes_and_eintr"]
        if not (p["OP"] == 3 and p["BN"] == 1):
            w.append("failed_after_prefix")
        if p["OP"] == 1:
            w.append("part_written_part_buffered")
        return w
    def sout_unwind(p):
        bn, op = p["BN"], p["OP"]
        big = max(bn, 6) if op in (0, 2) else bn       # longest run handed to allwrite in one call
        u = {"allwrite": big + 2, "wr": big + 1}        # one op call per byte + one EINTR, then the exit test
        if op == 0:
            u.update({"substdio_put": 2, "byte_copy": 6 // 4 + 2})
        if op == 1:
            u.update({"substdio_bput": 6 // bn + 2, "byte_copy": min(bn, 6) // 4 + 2})
        return u
    obls.append(Obl(
        "l0_substdio_out", "sout.c",
        repo=["substdo.c", "byte_copy.c"],
        grid=[{"BN": n, "OP": op} for op in (0, 1, 2, 3) for n in ((1, 2, 3, 5, 8) if quick else range(1, 9))],
        # len <= 6 < SUBSTDIO_OUTSIZE: put's direct-write loop runs once; bput flushes at most 6/BN+1 times;
        # allwrite needs one call per byte at worst, plus the EINTR, plus the failing call
        unwind=sout_unwind,
        unwind_default=lambda p: p["BN"] + 12,
        timeout=600,
        functions=["substdo.c:substdio_put", "substdo.c:substdio_bput", "substdo.c:substdio_putflush",
                   "substdo.c:substdio_flush", "substdo.c:allwrite", "byte_copy.c:byte_copy"],
        stubs=["op (write): symbolic tape - short write of any 1..len bytes, EINTR (at most 2), hard error"],
        assumes=["output buffer of BN bytes (grid), any fill 0..BN, any contents; data 0..6 bytes; op never returns 0 or more than len"],
        outside=["buffers larger than 8 bytes, data longer than 6 bytes (the copy arithmetic for huge len is l0_substdio_out_huge)"],
        claim="real substdio_put/bput/putflush/flush from any valid state: bytes handed to op ++ bytes still buffered == old pending ++ given "
              "bytes (in order, none lost or duplicated), or -1 after a hard error with a prefix written; never writes outside the buffer",
        expect_witnesses=sout_wit))
    obls.append(Obl(
        "l0_substdio_out_huge", "sout_huge.c",
        repo=["substdo.c"],
        grid=[{"BN": n, "OP": op} for op in (0, 1) for n in ((1, 8) if quick else (1, 2, 5, 8))],
        unwind_default=5, timeout=600,
        functions=["substdo.c:substdio_put", "substdo.c:substdio_bput", "substdo.c:substdio_flush", "substdo.c:allwrite"],
        stubs=["byte_copy: observing stub (checks destination, length <= free space, source range; copies nothing)",
               "op (write): accepts any 1..len bytes (symbolic 64-bit amounts), fails hard at the latest at its 3rd call"],
        assumes=["any len 0..SIZE_MAX, any fill 0..BN; at most 3 op calls per path (the op fails at the 3rd at the latest)"],
        outside=["paths with more than 3 op calls (a huge len that keeps being accepted: the loop body is the same, but it is not unwound further)"],
        claim="substdio_put/bput with ANY 64-bit len: every byte_copy has length <= free space and stays inside the caller's data, "
              "data is consumed in order, 0 <= p <= n is preserved, accounting of written/buffered bytes is exact on success",
        # bput never writes the caller's data directly: with 3 op calls it can only complete len <= 4*BN
        expect_witnesses=lambda p: ["ok", "failed", "failed_len_above_2_62", "failed_len_low32_small"]
        + (["ok_len_beyond_outsize"] if p["OP"] == 0 else [])))
    # ---------------------------------------------------------------- layer 0 (b): substdi.c
    def sin_wit(p):
        if p["OP"] == 0:
            w = ["get_data", "eof", "error", "eintr_retried", "get_from_buffer_partial" if p["BN"] >= 2 else None,
                 "get_refilled_and_kept_rest" if p["BN"] >= 2 else None, "get_read_directly" if p["BN"] <= 4 else None]
        else:
            w = ["feed_data", "eof", "error", "eintr_retried", "feed_short_read_shifted" if p["BN"] >= 2 else None,
                 "seek_partial" if p["BN"] >= 2 else None]
        return [x for x in w if x]
    obls.append(Obl(
        "l0_substdio_in", "sin.c",
        repo=["substdi.c", "byte_copy.c", "byte_cr.c"],
        grid=[{"BN": n, "OP": op} for op in (0, 1) for n in range(1, 9)],
        unwind=lambda p: dict({"oneread": 4, "rd": 6, "byte_cr.c": p["BN"] // 4 + 2},
                              **({"byte_copy.c": 3} if p["OP"] == 0 else {})),
        unwind_default=lambda p: p["BN"] + 6, timeout=600,
        functions=["substdi.c:substdio_get", "substdi.c:substdio_feed", "substdi.c:getthis", "substdi.c:oneread",
                   "substdio.h:substdio_PEEK", "substdio.h:substdio_SEEK", "byte_copy.c:byte_copy", "byte_cr.c:byte_copyr"],
        stubs=["op (read): symbolic tape - any 1..min(len,remaining) bytes of a symbolic source, EINTR (at most 1), 0 at EOF, hard error"],
        assumes=["input buffer of BN bytes (grid), any number 0..BN of unread bytes at its end, any contents; source 0..4 bytes; get length 1..4"],
        outside=["buffers larger than 8 bytes, requests longer than 4 bytes, len >= 2^31 (getthis takes an int)"],
        claim="real substdio_get / substdio_feed+PEEK+SEEK from any valid state deliver exactly the next bytes of (buffered ++ source), "
              "0 only at EOF, -1 only after a hard error; the post-state is valid and holds exactly the undelivered rest (inductive)",
        expect_witnesses=sin_wit))
    obls.append(Obl(
        "l0_substdio_copy", "scopy.c",
        repo=["substdio_copy.c", "substdi.c", "substdo.c", "byte_copy.c", "byte_cr.c"],
        grid=[{"BI": i, "BO": o} for i in (1, 2) for o in (1, 2)] if quick else
             [{"BI": i, "BO": o} for i in (1, 2, 3) for o in (1, 2, 3)],
        unwind=lambda p: {"substdio_copy": 3 + 3, "oneread": 3, "allwrite": max(p["BI"], p["BO"]) + 2, "substdio_put": 2,
                          "rd": 4, "wr": max(p["BI"], p["BO"]) + 1, "byte_copy.c": 3, "byte_cr.c": 3},
        unwind_default=20, timeout=900,
        functions=["substdio_copy.c:substdio_copy", "substdi.c:substdio_feed", "substdo.c:substdio_put", "substdo.c:substdio_flush"],
        stubs=["read/write ops: symbolic tapes (short transfers, one EINTR, EOF, hard errors)"],
        assumes=["input buffer BI, output buffer BO bytes (grid), any valid fill and contents; source 0..3 bytes; at most one EINTR"],
        outside=["larger buffers / sources"],
        claim="real substdio_copy: sink ++ bytes buffered in ssout == old pending ++ whole input stream on 0; -2 / -3 only after a hard "
              "read / write error, with a prefix written",
        expect_witnesses=["copied", "copied_all_full_buffers", "copied_with_eintr", "read_error", "write_error", "write_error_after_prefix"]))
    # ---------------------------------------------------------------- layer 0 (c): getln
    obls.append(Obl(
        "l0_getln", "gl.c",
        repo=["getln.c", "getln2.c", "substdi.c", "byte_chr.c", "byte_copy.c", "byte_cr.c",
              "stralloc_catb.c", "stralloc_opyb.c"],
        grid=[{"BN": n} for n in ((1, 2, 3) if quick else (1, 2, 3, 4))],
        unwind=lambda p: {"getln2": 4 + 3, "oneread": 3, "rd": 5, "byte_chr": p["BN"] // 4 + 2,
                          "byte_copy.c": (p["BN"] + 4) // 4 + 2, "byte_cr.c": 3},
        unwind_default=lambda p: p["BN"] + 4 + 6, timeout=900,
        functions=["getln.c:getln", "getln2.c:getln2", "substdi.c:substdio_feed", "substdi.c:substdio_get",
                   "stralloc_catb.c:stralloc_catb",
                   "stralloc_opyb.c:stralloc_copyb", "byte_chr.c:byte_chr"],
        stubs=["stralloc_ready/readyplus: one exactly-sized buffer, any request may be refused, extent asked for is recorded "
               "(the real stralloc_eady.c arithmetic is obligation alloc_arith)",
               "op (read): symbolic tape (short reads, one EINTR, EOF, hard error)"],
        assumes=["stream buffer BN bytes (grid), any valid fill; source 0..4 bytes; any separator byte; stralloc unallocated or "
                 "allocated with old contents"],
        outside=["lines longer than BN+4 bytes; larger stream buffers"],
        claim="real getln/getln2 over the real substdio and stralloc: returns exactly the bytes up to and including the first sep "
              "(match 1), or the rest of the input at EOF (match 0), leaves the rest of the stream for the next call; -1 only after a "
              "hard read error or a refused allocation - the contract of lib/ideal_getln.c",
        # BN 1: a refill brings one byte, so nothing can be left behind the separator
        expect_witnesses=lambda p: ["line", "empty_line", "partial_line_at_eof", "eof", "grew", "read_error", "alloc_refused"]
        + (["line_across_refills_rest_kept"] if p["BN"] >= 2 else [])))
    # ---------------------------------------------------------------- (d) allocator arithmetic
    kinds = {0: ("stralloc_readyplus", ["stralloc_eady.c"]), 1: ("stralloc_ready", ["stralloc_eady.c"]),
             2: ("prioq_readyplus", ["prioq.c"]), 3: ("token822_readyplus", ["token822.c"]),
             4: ("ipalloc_readyplus", ["ipalloc.c"]),
             5: ("stralloc_catb", ["stralloc_catb.c", "stralloc_opyb.c", "stralloc_eady.c", "byte_copy.c"]),
             6: ("stralloc_copyb", ["stralloc_opyb.c", "stralloc_eady.c", "byte_copy.c"]),
             7: ("stralloc_append", ["stralloc_pend.c", "stralloc_eady.c"]),
             8: ("quote.c:doit", [])}
    wit = {0: ["grown", "grown_above_2G", "fresh", "already_big_enough", "refused_len_plus_n_wraps", "refused_size_wraps", "refused_by_allocator"],
           5: ["grown_and_copied", "fits_without_growth", "fresh", "refused_n_plus_1_wraps", "refused_len_plus_n_wraps", "refused_by_allocator"],
           6: ["fits_without_growth", "fresh", "refused_n_plus_1_wraps", "refused_by_allocator"],
           7: ["grown_and_copied", "fits_without_growth", "fresh", "refused_by_allocator"]}
    wit[1] = [w for w in wit[0] if w != "refused_len_plus_n_wraps"]       # ready() adds nothing to n
    wit[2] = wit[3] = wit[4] = wit[0]

    def quote_wit(p):
        if p["QL"] < 0:
            return ["refused_2len_plus_2_wraps", "asked_for_more_than_2G", "refused_by_allocator"]
        return ["quoted", "all_special", "refused_by_allocator"]
    for k, (fn, units) in kinds.items():
        obls.append(Obl(
            "alloc_arith_%s" % fn.replace("quote.c:", "quote_"), "alloc.c",
            progs=[Prog("quote.c")] if k == 8 else [],
            repo=units, sysrename=["malloc", "realloc", "free"], defines={"KIND": k},
            grid=[{"QL": q} for q in ((-1, 0, 1, 3) if quick else (-1, 0, 1, 2, 3, 4, 6))] if k == 8 else None,
            unwind={"vf_realloc": 14, "ta_find": 7, "byte_copy": 11} if k in (5, 6) else
                   {"vf_realloc": 14, "ta_find": 7} if k == 7 else {},
            unwind_default=40, timeout=600,
            functions=[fn if ":" in fn else "%s:%s" % (units[0], fn), "gen_allocdefs.h:GEN_ALLOC_readyplus"],
            stubs=["malloc/realloc/free: recording stubs (KIND 0-4: fixed one-byte object or NULL; KIND 5-7: tiny_alloc.h, exactly-sized "
                   "objects, requests above 32 bytes or on demand refused)", "quote doit: stralloc_ready is an observing stub"],
            assumes=["ANY 32-bit len, a, n (len <= a if allocated); users of readyplus start from an honest stralloc of <= 12 bytes"],
            outside=["objects larger than 32 bytes: the arithmetic is proved for all values, the copy loops only for what fits",
                     "quote doit: the int index j of the quoting loop for sain->len >= 2^30 (loop not executed at that size)"],
            claim="%s: returns 0 or leaves a >= len+n in true arithmetic; the size passed to malloc/realloc equals a*sizeof(type) "
                  "without 32-bit wrap; contents preserved/copied exactly; failure leaves the object unchanged" % fn,
            expect_witnesses=quote_wit if k == 8 else wit[k]))
    # ---------------------------------------------------------------- (e) netstring length parsers
    for mode, prog in ((0, "qmail-qmtpd.c"), (1, "qmail-qmqpd.c")):
        obls.append(Obl(
            "netstring_getlen_%s" % prog[6:-2], "netlen.c",
            progs=[Prog(prog, sub=[(r"^main\(\)", "prog_main()", 1)])], lib=["ideal_substdio.c"], sysrename=["_exit"],
            defines={"MODE": mode}, grid=[{"N": 12}], unwind_default=15, timeout=600, backend="cadical",
            functions=["%s:getlen" % prog] + (["qmail-qmqpd.c:getbyte"] if mode else []),
            stubs=["substdio_get on ssin: ideal stream (layer 0), EOF => _exit(0) as saferead does", "_exit: records status, ends the path"],
            assumes=["input: any 0..12 bytes then EOF" + ("; bytesleft: any value" if mode else "")],
            outside=["digit strings longer than 12 bytes (the guard `len > 200000000` is evaluated before every multiplication, so a longer "
                     "string cannot get further than a 10-digit one: argument, not verdict)"],
            claim="getlen() returns only lengths <= 2000000009 that are the decimal value of the digits before ':', else exits 111/100/0; "
                  "no overflow", 
            expect_witnesses=["returned", "maximum_2000000009", "empty_digits_is_zero", "too_long_111", "malformed_100", "eof_0"]))
    obls.append(Obl(
        "netstring_qmtpd_recipients", "qmtprcpt.c",
        progs=[Prog("qmail-qmtpd.c", sub=[(r"^main\(\)", "prog_main()", 1)])], lib=["ideal_substdio.c"],
        repo=["fmt_ulong.c", "fmt_str.c", "stralloc_opys.c", "stralloc_opyb.c", "stralloc_pend.c", "byte_copy.c", "scan_ulong.c"],
        sysrename=["_exit", "alarm", "chdir", "time"],
        grid=[{"M": m} for m in ((6, 9, 12) if quick else (4, 6, 8, 9, 10, 11, 12, 13, 14))],
        # the more specific key (inner length loop) must come first: the outer `for (;;) {` text is a substring of it
        unwind=lambda p: {"prog_main~      for (;;) {": p["M"] + 2, "prog_main~for (;;) {": 2,
                          "prog_main~while (biglen > 0)": p["M"] // 2 + 2,
                          "prog_main~        for (i = 0;i < len;++i)": p["M"] + 1,      # recipient bytes (8 blanks: the inner ones)
                          "prog_main~for (i = 0;i < len;++i)": 2,                       # sender bytes: the template's sender is empty
                          "prog_main~i < failure.len": p["M"] // 2 + 2, "getlen": p["M"] + 2, "check_addr": p["M"] + 2,
                          "strlen": 72, "fmt_str": 72, "fmt_ulong": 12, "substdio_put": 72},
        unwind_default=4, timeout=900,
        functions=["qmail-qmtpd.c:main", "qmail-qmtpd.c:getlen", "qmail-qmtpd.c:getcomma"],
        cuts=["qmail_*, received, rcpthosts, control_*, env_get -> observing stubs (C07)"],
        stubs=["substdio: ideal streams, EOF => _exit(0) as saferead does", "stralloc_ready*: `failure` pre-sized"],
        assumes=["connection = '1:\\n,' '0:,' + M arbitrary bytes (grid) + EOF, the client leaves after its first complete package; "
                 "RELAYCLIENT unset; rcpthosts verdict arbitrary"],
        outside=["longer recipient sections; recipients of 1000 bytes (C07 template 5)"],
        claim="recipients section of qmail-qmtpd main: every index into buf[1000] and failure.s is in range, recipients handed on are "
              "NUL-terminated and < 1000 bytes, int counters do not overflow, exits only 0/100/111",
        expect_witnesses=lambda p: ["badproto_100", "eof_0", "recipient_accepted_then_eof"] + (["two_recipients"] if p["M"] >= 9 else [])
        + (["resources_111"] if p["M"] >= 11 else [])))
    # ---------------------------------------------------------------- (f) dns.c record walkers
    obls.append(Obl(
        "dns_walkers", "dnswalk.c",
        progs=[Prog("dns.c")], sysrename=["dn_expand"], repo=["stralloc_copy.c", "stralloc_opyb.c", "stralloc_pend.c", "byte_copy.c"],
        grid=[{"FN": f} for f in (0, 1, 2, 3)], defines={"B": 40},
        unwind_default=42, unwind=lambda p: {"resolve": 9} if p["FN"] == 3 else {}, timeout=600,
        functions=["dns.c:findname", "dns.c:findip", "dns.c:findmx", "dns.c:getshort", "dns.c:resolve"],
        stubs=["dn_expand: resolver(3) contract (-1, or 1..bytes-remaining and a NUL-terminated name; -1 for a position outside the message)"],
        assumes=["response buffer of exactly 40 bytes, any contents; 0 < responselen < 40; responsepos - buf in 0..responselen+65535; "
                 "numanswers, wanttype any int"],
        outside=["dns_ip()/dns_mxip() as a whole and resolve()'s 64 KiB EDNS retry (no verdict in 400 s, DESIGN C20); FN 3 covers resolve()'s "
                 "question-section loop for replies with TC clear and at least a full header"],
        claim="findname/findip/findmx from any walker state: every read lies inside the response buffer; result in {0,1,2,DNS_SOFT}",
        expect_witnesses=lambda p: ["resolved", "two_questions_skipped", "soft_truncated_question", "reply_shorter_than_header"] if p["FN"] == 3 else
        ["no_more_answers", "record_found", "record_claims_data_beyond_response", "other_type_skipped",
         "soft_position_beyond_end", "soft_truncated_record"]))
    # ---------------------------------------------------------------- (g) numbers, addresses, dates
    FS = ["scan_ulong.c", "ip.c", "fmt_ulong.c", "fmt_uint.c", "fmt_uint0.c", "fmt_str.c", "date822fmt.c", "datetime.c"]
    obls.append(Obl("scan_ip", "fmtscan.c", repo=FS, defines={"KIND": 0},
        grid=[{"S": n} for n in ((0, 3, 7, 9) if quick else range(0, 12))],
        unwind_default=lambda p: p["S"] + 3, timeout=600,
        functions=["scan_ulong.c:scan_ulong", "ip.c:ip_scan", "ip.c:ip_scanbracket"],
        assumes=["any NUL-terminated string of exactly S bytes (grid) in an exactly-sized block"], outside=["longer strings"],
        claim="scan_ulong/ip_scan/ip_scanbracket never read behind the terminating NUL and return an index inside the string",
        expect_witnesses=lambda p: ["scanned"] + (["all_digits"] if p["S"] else []) + (["ip_accepted"] if p["S"] >= 7 else [])
        + (["bracketed_ip_accepted"] if p["S"] >= 9 else [])))
    obls.append(Obl("fmt_ulong_32", "fmtscan.c", repo=FS, defines={"KIND": 1}, unwind={"fmt_ulong": 11}, unwind_default=22,
        timeout=900, backend="cadical",
        functions=["fmt_ulong.c:fmt_ulong"], assumes=["every value below 2^32"],
        outside=["values >= 2^32 (no verdict in 900 s for all 64-bit values: 40 64-bit dividers)"],
        claim="fmt_ulong announces 1..10 bytes (< FMT_ULONG) for u < 2^32 and writes exactly that many decimal digits",
        expect_witnesses=["formatted", "ten_digits", "zero"]))
    obls.append(Obl("fmt_uint0", "fmtscan.c", repo=FS, defines={"KIND": 2}, unwind={"fmt_ulong": 7, "fmt_uint0": 9}, unwind_default=10,
        timeout=600, backend="cadical",
        functions=["fmt_uint0.c:fmt_uint0", "fmt_uint.c:fmt_uint"], assumes=["u < 10^6, field width n <= 8"], outside=["larger values / widths"],
        claim="fmt_uint0 returns max(digits,n) and writes exactly that many bytes, zero padded",
        expect_witnesses=["formatted", "padded", "longer_than_field"]))
    obls.append(Obl("datetime_ranges", "fmtscan.c", repo=FS, defines={"KIND": 3}, unwind_default=3, timeout=900, backend="cadical",
        functions=["datetime.c:datetime_tai"], assumes=["0 <= t < 2^40 seconds"], outside=["negative times, t >= 2^40 (int day counter)"],
        claim="datetime_tai yields hour 0..23, min/sec 0..59, mon 0..11, mday 1..31, wday 0..6 for every t in 0..2^40-1",
        expect_witnesses=["converted", "feb_29", "last_second_of_a_year", "epoch"]))
    obls.append(Obl("date822fmt_len", "fmtscan.c", repo=FS, defines={"KIND": 4}, unwind={"fmt_ulong": 5, "fmt_uint0": 3, "fmt_str": 9},
        unwind_default=10, timeout=900, backend="cadical",
        functions=["date822fmt.c:date822fmt"], assumes=["fields inside the ranges proved by datetime_ranges, year <= 9999"],
        outside=["years after 9999"],
        claim="date822fmt returns 26..27 <= DATE822FMT, the same with and without buffer, and writes exactly that many bytes",
        expect_witnesses=["formatted", "one_digit_day", "two_digit_day"]))
    obls.append(Obl("hfield", "hfield.c", repo=["hfield.c"],
        grid=[{"LN": n} for n in ((0, 1, 5, 8) if quick else range(0, 11))],
        unwind_default=lambda p: max(p["LN"], 34) + 2, timeout=600,
        functions=["hfield.c:hfield_valid", "hfield.c:hfield_known", "hfield.c:hfield_skipname", "hfield.c:hmatch"],
        assumes=["header line of exactly LN bytes (grid), any contents, exactly-sized block"], outside=["longer lines"],
        claim="hfield_valid/known/skipname read only inside the line; skipname <= len; known in 0..28",
        expect_witnesses=lambda p: ["not_a_field"] + (["valid_unknown_field"] if p["LN"] >= 2 else []) + (["known_field"] if p["LN"] >= 3 else [])))
    obls.append(Obl("headerbody", "hbody.c", progs=[Prog("headerbody.c")], repo=["hfield.c", "stralloc_cat.c", "stralloc_catb.c", "stralloc_opyb.c",
                                                     "stralloc_opys.c", "stralloc_copy.c", "stralloc_pend.c", "stralloc_arts.c", "byte_copy.c"],
        lib=["ideal_substdio.c", "ideal_getln.c"],
        grid=[{"N": n} for n in ((0, 2, 4, 6, 8) if quick else range(0, 11))],
        unwind=lambda p: {"headerbody": p["N"] + 2, "getln": p["N"] + 2, "hfield_valid": p["N"] + 2, "byte_copy": (p["N"] + 12) // 4 + 2,
                          "stralloc_starts": 6},
        unwind_default=lambda p: p["N"] + 13, timeout=900,
        functions=["headerbody.c:headerbody", "headerbody.c:getsa", "hfield.c:hfield_valid"],
        stubs=["getln/substdio: ideal streams", "stralloc_ready*: the two static strallocs are pre-sized (N+14 bytes), growth beyond is a failure"],
        assumes=["message of exactly N bytes (grid), any bytes, at most one read error"], outside=["longer messages"],
        claim="headerbody on every message of N bytes: no out-of-bounds access; fields before hdone, body after, hdone once",
        expect_witnesses=lambda p: ["parsed", "read_error"] + (["invalid_first_line_becomes_body"] if p["N"] >= 1 else [])
        + (["header_and_body"] if p["N"] >= 4 else []) + (["two_fields"] if p["N"] >= 6 else [])))
    obls.append(Obl("commands_line", "cmds.c", progs=[Prog("commands.c")], repo=["stralloc_opys.c", "stralloc_opyb.c", "byte_copy.c",
                                                                                  "str_chr.c", "case_diffs.c",
                                                                                  # the rest of the stralloc family, so that a rewrite of the line loop that uses
                                                                                  # other members still links (a missing unit is an error, not a verdict)
                                                                                  "stralloc_pend.c", "stralloc_catb.c", "stralloc_cats.c", "stralloc_cat.c"],
        grid=[{"N": n} for n in ((1, 4, 6, 8) if quick else range(0, 11))],
        unwind_default=lambda p: p["N"] + 3, timeout=600,
        functions=["commands.c:commands", "str_chr.c:str_chr", "case_diffs.c:case_diffs"],
        stubs=["substdio_get: serves the input one byte per call and checks the destination invariant",
               "stralloc_ready*: the static line buffer is pre-sized to exactly N+1 bytes; the extent asked for is recorded"],
        assumes=["input of exactly N bytes (grid), any bytes, then EOF; command table of two verbs + default"],
        outside=["longer lines (growth arithmetic: alloc_arith_stralloc_readyplus)"],
        claim="commands(): every byte is stored at cmd.s+cmd.len inside the extent granted by stralloc_readyplus; handlers get a "
              "NUL-terminated argument inside the buffer; no out-of-bounds access",
        expect_witnesses=lambda p: ["eof", "no_complete_line"] + (["verb_with_argument"] if p["N"] >= 4 else [])
        + (["verb_ab_dispatched_case_insensitively"] if p["N"] >= 3 else []) + (["two_commands"] if p["N"] >= 2 else [])))
    for kind, nm in ((0, "control_constmap"), (1, "control_readline")):
        obls.append(Obl(nm, "ctl.c", progs=[Prog("control.c")],
            repo=["constmap.c", "substdio.c", "stralloc_opys.c", "stralloc_opyb.c", "stralloc_cat.c", "stralloc_catb.c", "stralloc_copy.c",
                  "stralloc_pend.c", "byte_copy.c", "scan_ulong.c", "case_diffb.c"],
            lib=["ideal_substdio.c", "ideal_getln.c"], sysrename=["malloc", "free", "close"], defines={"KIND": kind},
            grid=[{"N": n} for n in (((0, 2, 3) if quick else (0, 1, 2, 3, 4)) if kind == 0 else ((0, 3, 5, 8) if quick else range(0, 11)))],
            unwind_default=lambda p: p["N"] + 4, unwind={"constmap_init~for (h = 0;h <= cm->mask;++h)": 66} if kind == 0 else {}, timeout=900,
            functions=["control.c:control_readfile", "control.c:control_readline", "control.c:control_readint",
                       "control.c:striptrailingwhitespace", "constmap.c:constmap_init", "constmap.c:constmap", "constmap.c:hash"],
            stubs=["getln/substdio: ideal streams", "open_read/close", "stralloc_ready*: pre-sized exactly (N+3)",
                   "malloc: exactly-sized blocks out of concrete pools"],
            assumes=["control file of exactly N bytes (grid), any bytes; lookup key 0..2 bytes; flagcolon any"],
            outside=["longer files (constmap_init over 5 symbolic bytes: no verdict in 900 s - symbolic hash bucket index)"],
            claim="control_readfile/readline/readint and constmap_init/constmap on any file of N bytes: no out-of-bounds access; entries "
                  "NUL-terminated; constmap hits point into the data",
            expect_witnesses=(lambda p: ["no_file", "open_error", "lookup_miss", "only_comments_or_blank"] + (["lookup_hit"] if p["N"] >= 1 else [])
                              + (["two_entries"] if p["N"] >= 3 else [])) if kind == 0 else
                             (lambda p: ["line"] + (["integer", "not_a_number"] if p["N"] >= 1 else [])
                              + (["whitespace_stripped_or_second_line_ignored"] if p["N"] >= 2 else []))))
    obls.append(Obl("token822_parse", "tok.c",
        progs=[Prog("token822.c", sub=[(r"^GEN_ALLOC_(readyplus|ready|append)\(token822_alloc.*$", "", 3)])],
        grid=[{"N": n} for n in ((0, 1, 2, 3) if quick else (0, 1, 2, 3, 4, 5))],
        unwind_default=lambda p: p["N"] + 2, timeout=3600 if not quick else 600,
        functions=["token822.c:token822_parse", "token822.c:atomok", "token822.c:atomcheck"],
        stubs=["token822_ready / stralloc_ready: objects of exactly the size asked for (the GEN_ALLOC instances are removed from the copy)"],
        assumes=["input of exactly N bytes (grid), any bytes, exactly-sized block"],
        outside=["inputs longer than 3 (quick) / 5 (thorough) bytes; 'thousands of tokens'"],
        claim="token822_parse: the fill pass stores exactly the tokens and characters the count pass asked for (no write outside the "
              "exactly-sized objects), every token's text lies inside the buffer",
        expect_witnesses=lambda p: ["parsed"] + (["syntax_error", "one_token_per_byte", "one_atom_all_bytes"] if p["N"] >= 1 else [])
        + (["quoted_string", "comment"] if p["N"] >= 2 else [])))
    # cdb_seek on corrupt / truncated files: the harness lives with C11 (harness/C11/cdbseek.c, MODE 1) and is a C20 obligation too
    obls.append(Obl(
        "cdb_seek_corrupt", "../C11/cdbseek.c", progs=[Prog("cdb_seek.c", cut=["cdb_bread"], link=True)],
        repo=["cdb_hash.c", "cdb_unpack.c"], sysrename=["read", "lseek"], defines={"MODE": 1},
        grid=[{"QL": 0, "NB": 40}, {"QL": 2, "NB": 40}, {"QL": 34, "NB": 64}],
        unwind=lambda p: dict({"cdb_seek": p["NB"] // 8 + 2, "cdb_bread": 33},
                              **({"match~while": 3, "match~for": 33, "cdb_hash": p["QL"] + 1} if p["QL"] else {})),
        unwind_default=40, timeout=900,
        functions=["cdb_seek.c:cdb_seek", "cdb_seek.c:match"],
        cuts=["cdb_bread -> contract: exactly len bytes delivered or -1 (proved on the real code by C11 obligation cdb_bread)"],
        stubs=["file: serves NB arbitrary bytes in the order they are read, then EOF; lseek accepts any offset; one injected failure"],
        assumes=["file = any NB bytes (40/64), truncated anywhere; key block of exactly QL bytes"],
        outside=["corrupt files that keep the reader probing for more than NB/8 slots"],
        claim="on arbitrary/truncated file contents cdb_seek returns -1, 0 or 1 and stays inside packbuf, buf[32] and the key",
        expect_witnesses=["absent", "truncated_file_is_an_error", "io_error", "corrupt_file_can_still_answer_found"]))
    # ---------------------------------------------------------------- spawner reports
    for prog_no, prog in ((0, "qmail-rspawn.c"), (1, "qmail-lspawn.c")):
        obls.append(Obl(
            "report_%s" % prog[6:-2], "report.c",
            progs=[Prog(prog)], lib=["ideal_substdio.c"], defines={"PROG": prog_no},
            grid=[{"L": l} for l in ((1, 3, 5) if quick else (1, 2, 3, 4, 5, 6, 7))],
            unwind_default=lambda p: p["L"] + 3, unwind={"substdio_put": 64}, timeout=600,
            functions=["%s:report" % prog],
            stubs=["substdio on the report stream: ideal stream (layer 0)"],
            assumes=["child output: exactly L bytes (grid) in an exactly-sized block, any contents (no NUL required); wait status 0..65535"],
            outside=["outputs longer than the grid"],
            claim="report() never reads outside the child's output block, whatever it contains, and always emits K, Z or D first",
            expect_witnesses=lambda p: ["reported", "exit0_output_without_any_nul"] + (["exit0_last_field_unterminated"] if p["L"] >= 2 else [])))
    # two guards whose constants lie outside every kernel bound above are decided in their owners' harnesses, with all of cbmc's
    # memory checks on, and are part of this check too: REPORTMAX truncation of spawner reports (parametric copy, C03/C18) and the
    # 1000-byte recipient buffer of qmail-qmtpd with a RELAYCLIENT suffix (template with 999/1000-byte recipients, C07)
    obls += borrow("C03", ["del_dochan_truncation"], tier)
    obls += borrow("C07", ["qmtpd_long_rcpt"], tier)
    # the program-level surfaces of the property (SMTP DATA and address arguments, POP3 sessions, remote SMTP replies, message
    # headers and address lists, .qmail and envelope lines) are decided in their owners' harnesses with all of cbmc's memory
    # checks on; the cheaper ones are part of this check at both tiers, the larger ones at the thorough tier
    obls += borrow("C05", ["smtpd_blast"], tier)
    obls += borrow("C08", ["addrparse_ref"] + ([] if quick else ["smtp_seq"]), tier)
    obls += borrow("C09", ["smtpcode"], tier)
    obls += borrow("C19", ["popup_auth", "retr_top", "session_step"] + ([] if quick else ["popup_commands"]), tier)
    obls += borrow("C13", ["envelope_lines", "bouncexf"] + ([] if quick else ["dotqmail_loop"]), tier)
    obls += borrow("C07", ["received_safe"], tier)
    # the routing tables keep pointers into the buffers they were built over: after a reread that fails half-way they must not
    # point into overwritten or re-allocated memory (use after free on the next rewrite())
    obls += borrow("C10", ["regetcontrols"], tier)
    obls += borrow("C17", ["addrlist_forms"], tier)
    obls += borrow("C18", ["spawn_docmd", "spawn_main"] + ([] if quick else ["spawn_getcmd"]), tier)
    if not quick:
        obls += borrow("C03", ["todo_do"], tier)
    obls += more_kernels(tier)      # remoteinfo, tcpto, dns_mxip, ip_fmt, pw2u, splogger, maildir_scan, newfield, qreceipt (below)
    return obls


# ---------------------------------------------------------------- further kernels that parse untrusted / semi-trusted input
def more_kernels(tier):
    quick = (tier == "quick")
    obls = []
    # kills: (hand-made mutants of /repo in scratch worktrees, tools/mutant.sh; every one printed VIOLATION with a native replay rc 1)
    #   remoteinfo.c  `x == line + sizeof(line) - 1` -> `... sizeof(line)`         remoteinfo_parse (LSZ 8 copy: *x = 0 one past the buffer)
    #   remoteinfo.c  drop the buffer-full break                                      remoteinfo_parse (LSZ 8 copy)
    #   remoteinfo.c  drop `*x = 0`                                                    remoteinfo_parse (all points: "NUL-terminated inside its buffer")
    #   remoteinfo.c  `numcolons < 3` -> `<= 3`                                        remoteinfo_parse (result is not the user-id field)
    #   tcpto.c       getbuf `r >>= 4` -> `r = (r + 15) >> 4`                         tcpto_records ("inside the part of tcpto_buf that was read")
    #   tcpto.c       tcpto_err `if (i >= n)` -> `if (i > n)`                          tcpto_records (byte_copy one record past the buffer)
    #   tcpto.c       read(..., sizeof(tcpto_buf) + 16)                                tcpto_records
    #   tcpto.c       close(fdlock) moved before seek/write                            tcpto_records ("while it is open")
    #   tcpto.c       tcpto() record loop `i < n` -> `i <= n`                          tcpto_records (memcmp past the buffer)
    #   tcpto.c       last seek_set(fdlock,i << 4) -> `i << 3`                         tcpto_records ("goes back to the file offset it was read from")
    #   ip.c          ip_fmt forgets one `len += i`; formats d[2] twice; ip_scan forgets the last `len += i`;
    #                 ip_scanbracket returns len + 1; looks for ']' at s[len + 2]        ip_scan_fmt (five mutants)
    #   dns.c         dns_mxip `mx[i] = mx[--nummx]` -> `mx[nummx--]`; selection loop `j < nummx` -> `j <= nummx`;
    #                 alloc_free(mx[i].sa.s) moved before dns_ipplus (use after free); mx[] allocated with sizeof(struct ip_mx)
    #                                                                                  ipalloc_dns_sort (four mutants, NA 2)
    #   qmail-pw2u.c  drop stralloc_0(&home); drop stralloc_0(&user); drop the NUL-in-line test   pw2u_line (template CM726_N10)
    #   qmail-pw2u.c  `xlen -= i` -> `xlen -= i - 1` behind the gid field              pw2u_line (N 6: byte_chr one past the line; NOT seen by the template point)
    # not killed: dns.c clean-up loop `while (nummx >= 0) alloc_free(mx[nummx--].sa.s)` - harmless (the extra element holds sa.s == 0,
    # free(NULL)); off-by-one mutants of remoteinfo.c only inside the LSZ 8 parametric copy (999 bytes are outside every reply bound)
    obls.append(Obl(
        "remoteinfo_parse", "rinfo.c",
        progs=[Prog("remoteinfo.c", sub=[(r"^static char line\[999\];", "static char line[LSZ];", 1)])],
        repo=["substdio.c", "fmt_ulong.c", "fmt_str.c", "byte_copy.c", "byte_zero.c"], lib=["ideal_substdio.c"],
        sysrename=["socket", "bind", "fcntl", "close"],
        grid=[{"LSZ": 999, "N": n} for n in ((8,) if quick else (0, 4, 8, 12, 14))]
             + [{"LSZ": 64, "N": n} for n in ((16,) if quick else (12, 16, 20))]
             + [{"LSZ": 8, "N": n} for n in ((12,) if quick else (10, 12, 14, 16))],
        unwind=lambda p: {"remoteinfo_get": p["N"] + 2, "fmt_ulong": 6, "fmt_str": 5, "byte_copy": 3, "byte_zero": 6,
                          "substdio_put": 17},
        unwind_default=lambda p: p["N"] + 2, timeout=600,
        functions=["remoteinfo.c:remoteinfo_get"],
        stubs=["substdio_get/putflush: ideal streams (layer 0)", "socket/bind/fcntl/close/timeoutconn: succeed, or one of them fails"],
        assumes=["reply: exactly N arbitrary bytes (grid), then EOF or a read error; ports < 65536",
                 "LSZ 8: parametric copy of remoteinfo.c whose only edit is the size of `line` (999 -> 8), ports < 10"],
        outside=["replies longer than 16 bytes; the buffer-full exit at the shipped size 999 (decided on the parametric copy)"],
        claim="remoteinfo_get on any reply of N bytes: every store is inside line[], the result is NULL or line holding exactly the "
              "user-id field (RFC 1413) cut to sizeof(line)-1 bytes and NUL-terminated inside the buffer",
        expect_witnesses=lambda p: ["connection_failed", "reply_incomplete", "timeout_or_read_error"]
        + (["parsed", "empty_userid"] if p["N"] >= 4 else []) + (["userid_returned"] if p["N"] >= 6 else [])
        + (["buffer_full_truncated"] if p["LSZ"] == 8 and p["N"] >= 10 else [])))
    obls.append(Obl(
        "tcpto_records", "tcptorec.c",
        progs=[Prog("tcpto.c", sub=[(r"^char tcpto_buf\[1024\];", "char tcpto_buf[TBUF];", 1)])],
        repo=["byte_copy.c"],
        sysrename=["read", "write", "close", "lseek", "time", "getpid"],
        grid=[{"TBUF": 64}] + ([] if quick else [{"TBUF": 128}, {"TBUF": 256}]),
        unwind_default=lambda p: p["TBUF"] // 16 + 2, unwind={"memcmp": 6, "byte_copy": 3, "vf_read": 1030},
        flags=["--max-field-sensitivity-array-size", "1024"], timeout=900, backend="cadical",
        functions=["tcpto.c:tcpto", "tcpto.c:tcpto_err", "tcpto.c:getbuf"],
        stubs=["open_write/open_read/lock_ex: succeed, or one of the six calls fails", "read: -1 or any length 0..TBUF of an arbitrary image "
               "(a second, independent image for the second read)", "lseek/write/close: checking stubs", "time: any 0 <= t < 2^40; getpid: any"],
        assumes=["TBUF 64: parametric copy of tcpto.c whose only edit is the size of tcpto_buf (1024 -> 64, 4 records)",
                 "counter byte [4] of every record in 0..126: on a negative char `record[4] << 10` is an undefined shift without memory "
                 "effect, and cbmc (not C) calls `++record[4]` at 127 an overflow; the documents do not mention the format"],
        outside=["the shipped size 1024 = 64 records (12 GB / no verdict; 64, 128, 256 bytes: 5 s, 14 s, 70 s - the loops are the same, the size "
                 "enters only through sizeof(tcpto_buf))", "tcpto_clean() (writes 1024 constant bytes through substdio: l0_substdio_out)"],
        claim="tcpto()/tcpto_err() on arbitrary contents and any length of queue/lock/tcpto: all accesses inside tcpto_buf, read() gets "
              "exactly the buffer, the one record written lies inside the bytes read, at the offset it came from, under the lock",
        expect_witnesses=["address_recently_timed_out", "address_known_not_recent", "new_record_stored_in_full_size_file", "timeout_recorded",
                          "success_clears_counter", "file_length_not_a_multiple_of_16", "open_or_lock_failed", "read_failed"]))
    def mx_wit(p):
        if p["DL"] == 7:
            return ["address_literal", "returned"]
        w = ["returned", "addresses_collected", "allocation_refused_somewhere", "no_mx_falls_back_to_a" if p["NA"] >= 1 else None]
        if p["NA"] >= 2:
            w += ["soft_failure_for_one_exchanger", "soft_error_after_a_name_was_collected", "two_exchangers_looked_up", "equal_preferences_randomised"]
        if p["NA"] * p["AMAX"] >= 12:
            w.append("ipalloc_grew_twice")
        return [x for x in w if x]
    obls.append(Obl(
        "ipalloc_dns_sort", "mxsort.c",
        progs=[Prog("dns.c", cut=["resolve", "findmx", "findip"])],
        repo=["ipalloc.c", "ip.c", "scan_ulong.c", "fmt_ulong.c", "fmt_str.c", "stralloc_copy.c", "stralloc_opys.c", "stralloc_opyb.c",
              "stralloc_pend.c", "byte_copy.c"],
        sysrename=["dn_expand", "realloc"],
        grid=[{"NA": n, "AMAX": 2, "DL": 3} for n in (1, 2)] + [{"NA": 1, "AMAX": 1, "DL": 7}]
             + ([] if quick else [{"NA": 0, "AMAX": 2, "DL": 3}, {"NA": 3, "AMAX": 2, "DL": 3}]),
        unwind=lambda p: {"dns_mxip": p["NA"] + 2, "dns_ipplus": p["AMAX"] + 2, "vmain": max(p["AMAX"] * (p["NA"] + 2) + 3, p["DL"] + 2), "scan_ulong": 9, "strlen": 6, "byte_copy": 4},
        unwind_default=24, timeout=900,
        functions=["dns.c:dns_mxip", "dns.c:dns_ipplus", "dns.c:dns_ip", "ipalloc.c:ipalloc_append", "ipalloc.c:ipalloc_readyplus"],
        cuts=["resolve, findmx, findip -> contracts (2 iff numanswers <= 0, else one answer consumed); their reads of the response: dns_walkers"],
        stubs=["malloc/free: cbmc's own (exactly-sized objects, use-after-free/double-free checks); realloc: exactly-sized blocks of 11 / 23 "
               "elements, may refuse once", "stralloc_ready*: one block per stralloc, a fresh allocation may be refused"],
        assumes=["MX query: NA answers (grid), each skipped / MX with any preference and any name of 0..3 bytes / soft error; each A query: any "
                 "0..AMAX answers; any resolve() outcome; domain: DL arbitrary bytes"],
        outside=["more than 2 (quick) / 3 (thorough) MX records, more than 2 addresses per exchanger: the second growth of the ipalloc (12th "
                 "address) is not reached - NA 3 x AMAX 4: no verdict in 900 s; its arithmetic is alloc_arith_ipalloc_readyplus",
                 "the leak of collected names on the DNS_SOFT exit is not a C20 clause"],
        claim="dns_mxip: indexes stay inside mx[] (exactly numanswers elements) and the ipalloc through collection, selection, "
              "mx[i] = mx[--nummx] and the clean-up loops; no name is used after free or freed twice; len <= a; result sorted by preference",
        expect_witnesses=mx_wit))
    obls.append(Obl(
        "ip_scan_fmt", "ipfmt.c", repo=["ip.c", "fmt_ulong.c", "fmt_str.c", "scan_ulong.c"],
        unwind={"fmt_ulong": 4, "fmt_str": 3, "scan_ulong": 5}, unwind_default=17, timeout=600, backend="cadical",
        functions=["ip.c:ip_fmt", "ip.c:ip_scan", "ip.c:ip_scanbracket"],
        assumes=["any 4 address bytes"], outside=["ip_scan on strings that ip_fmt does not produce: scan_ip"],
        claim="ip_fmt(0,ip) == bytes written, 7..15 <= IPFMT, into an exactly-sized block; ip_scan and ip_scanbracket read the text back "
              "to the same address and consume exactly its length",
        expect_witnesses=["round_trip", "shortest", "longest_255_255_255_255_style"]))
    # pw2u: templates (CM = bit mask of the colon positions up to the sixth colon) reach the printing branch, which no
    # untemplated query reaches in the quick budget: u::i:g::h: (N 10), the same plus a shell byte (N 11), ab::i:g::h: (N 11)
    def pw_wit(p):
        if "CM" in p:
            ulen = (p["CM"] & -p["CM"]).bit_length() - 1
            return ["malformed_line_skipped", "account_skipped", "non_numeric_uid_or_gid", "stat_error_is_fatal", "account_printed"] \
                + (["alias_user"] if ulen == 1 else [])
        n = p["N"]
        return ["malformed_line_skipped"] + (["non_numeric_uid_or_gid"] if n >= 6 else []) + (["stat_error_is_fatal"] if n >= 7 else []) \
            + (["account_skipped", "empty_user_name_prints_nothing"] if n >= 8 else []) + (["account_printed", "alias_user"] if n >= 10 else [])
    obls.append(Obl(
        "pw2u_line", "pw2u.c", progs=[Prog("qmail-pw2u.c", nomain=True)],
        repo=["byte_chr.c", "scan_ulong.c", "str_chr.c", "stralloc_opyb.c", "stralloc_opys.c", "stralloc_cats.c", "stralloc_catb.c",
              "stralloc_pend.c", "byte_copy.c"],
        lib=["ideal_substdio.c", "harness/C20/pw2u_conf.c"], sysrename=["stat", "_exit"],
        grid=[{"N": n} for n in ((5, 6) if quick else (0, 3, 5, 6, 7, 8, 9, 10))] + [{"N": 10, "CM": 0b1011010110}]
             + ([] if quick else [{"N": 11, "CM": 0b1011010110}, {"N": 11, "CM": 0b10110101100}]),
        unwind=lambda p: {"byte_chr": p["N"] + 2, "byte_copy": p["N"] + 2, "scan_ulong": p["N"] + 1, "str_chr": p["N"] + 2,
                          "strlen": 36, "substdio_put": 36, "doaccount": p["N"] + 2, "vf_stat": p["N"] + 3},   # die_home's message: 34 bytes
        unwind_default=lambda p: 2 * p["N"] + 3, timeout=1200,
        functions=["qmail-pw2u.c:doaccount"],
        stubs=["substdio: ideal streams, output observed by scalar counters (length, lines, NUL, line starts)",
               "stat: any outcome (exists with any owner / ENOENT / other error)",
               "stralloc_ready*: the seven strallocs are pre-sized (N+2, allusers 2N+2), filled with stale non-NUL bytes; extents asked for are recorded"],
        assumes=["line of exactly N arbitrary bytes (grid), LF only as last byte (getln); with CM: colons exactly at the positions of the mask up "
                 "to the sixth colon, everything else arbitrary", "users/include, exclude, mailnames absent; default flags; alias user 'a', break '-'"],
        outside=["longer lines; lines of 11 bytes outside the two templates; mailnames/include/exclude tables (constmap: control_constmap); "
                 "dosubuser(); byte-by-byte comparison of the printed lines (length and line count are compared; a byte-sum comparison made "
                 "N=9 undecided in 900 s)"],
        claim="doaccount on any passwd line of N bytes: no out-of-bounds access (every printed or stat()ed field is NUL-terminated inside "
              "its block), output has no NUL and only complete lines, malformed/ineligible lines print nothing, an accepted numeric account "
              "prints two (alias user: three) lines of the total length of the qmail-users(5) assignments",
        expect_witnesses=pw_wit))
    return obls
