from vlib import Obl, Prog

OPS_OUT = {0: "substdio_put", 1: "substdio_bput", 2: "substdio_putflush", 3: "substdio_flush"}


def obligations(tier):
    quick = (tier == "quick")
    obls = []

    # ---------------------------------------------------------------- layer 0 (a): substdo.c
    def sout_wit(p):
        w = ["ok", "failed", "short_writes_and_eintr"]
        if not (p["OP"] == 3 and p["BN"] == 1):
            w.append("failed_after_prefix")
        if p["OP"] == 1:
            w.append("part_written_part_buffered")
        return w
    def sout_unwind(p):
        bn, op = p["BN"], p["OP"]
        big = max(bn, 6) if op in (0, 2) else bn       # longest run handed to allwrite in one call
        u = {"allwrite": big + 2, "wr": big + 1}        # one op call per byte + one EINTR, then the exit test
        if op == 0:
            u.update({"substdio_put": 2, "byte_copy": 6 // 4 + 2})
        if op == 1:
            u.update({"substdio_bput": 6 // bn + 2, "byte_copy": min(bn, 6) // 4 + 2})
        return u
    obls.append(Obl(
        "l0_substdio_out", "sout.c",
        repo=["substdo.c", "byte_copy.c"],
        grid=[{"BN": n, "OP": op} for op in (0, 1, 2, 3) for n in ((1, 2, 3, 5, 8) if quick else range(1, 9))],
        # len <= 6 < SUBSTDIO_OUTSIZE: put's direct-write loop runs once; bput flushes at most 6/BN+1 times;
        # allwrite needs one call per byte at worst, plus the EINTR, plus the failing call
        unwind=sout_unwind,
        unwind_default=lambda p: p["BN"] + 12,
        timeout=600,
        functions=["substdo.c:substdio_put", "substdo.c:substdio_bput", "substdo.c:substdio_putflush",
                   "substdo.c:substdio_flush", "substdo.c:allwrite", "byte_copy.c:byte_copy"],
        stubs=["op (write): symbolic tape - short write of any 1..len bytes, EINTR (at most 2), hard error"],
        assumes=["output buffer of BN bytes (grid), any fill 0..BN, any contents; data 0..6 bytes; op never returns 0 or more than len"],
        outside=["buffers larger than 8 bytes, data longer than 6 bytes (the copy arithmetic for huge len is l0_substdio_out_huge)"],
        claim="real substdio_put/bput/putflush/flush from any valid state: bytes handed to op ++ bytes still buffered == old pending ++ given "
              "bytes (in order, none lost or duplicated), or -1 after a hard error with a prefix written; never writes outside the buffer",
        expect_witnesses=sout_wit))
    obls.append(Obl(
        "l0_substdio_out_huge", "sout_huge.c",
        repo=["substdo.c"],
        grid=[{"BN": n, "OP": op} for op in (0, 1) for n in ((1, 8) if quick else (1, 2, 5, 8))],
        unwind_default=5, timeout=600,
        functions=["substdo.c:substdio_put", "substdo.c:substdio_bput", "substdo.c:substdio_flush", "substdo.c:allwrite"],
        stubs=["byte_copy: observing stub (checks destination, length <= free space, source range; copies nothing)",
               "op (write): accepts any 1..len bytes (symbolic 64-bit amounts), fails hard at the latest at its 3rd call"],
        assumes=["any len 0..SIZE_MAX, any fill 0..BN; at most 3 op calls per path (the op fails at the 3rd at the latest)"],
        outside=["paths with more than 3 op calls (a huge len that keeps being accepted: the loop body is the same, but it is not unwound further)"],
        claim="substdio_put/bput with ANY 64-bit len: every byte_copy has length <= free space and stays inside the caller's data, "
              "data is consumed in order, 0 <= p <= n is preserved, accounting of written/buffered bytes is exact on success",
        # bput never writes the caller's data directly: with 3 op calls it can only complete len <= 4*BN
        expect_witnesses=lambda p: ["ok", "failed", "failed_len_above_2_62", "failed_len_low32_small"]
        + (["ok_len_beyond_outsize"] if p["OP"] == 0 else [])))
    # ---------------------------------------------------------------- layer 0 (b): substdi.c
    def sin_wit(p):
        if p["OP"] == 0:
            w = ["get_data", "eof", "error", "eintr_retried", "get_from_buffer_partial" if p["BN"] >= 2 else None,
                 "get_refilled_and_kept_rest" if p["BN"] >= 2 else None, "get_read_directly" if p["BN"] <= 4 else None]
        else:
            w = ["feed_data", "eof", "error", "eintr_retried", "feed_short_read_shifted" if p["BN"] >= 2 else None,
                 "seek_partial" if p["BN"] >= 2 else None]
        return [x for x in w if x]
    obls.append(Obl(
        "l0_substdio_in", "sin.c",
        repo=["substdi.c", "byte_copy.c", "byte_cr.c"],
        grid=[{"BN": n, "OP": op} for op in (0, 1) for n in ((1, 2, 3, 4, 6) if quick else range(1, 9))],
        unwind=lambda p: dict({"oneread": 4, "rd": 6, "byte_cr.c": p["BN"] // 4 + 2},
                              **({"byte_copy.c": 3} if p["OP"] == 0 else {})),
        unwind_default=lambda p: p["BN"] + 6, timeout=600,
        functions=["substdi.c:substdio_get", "substdi.c:substdio_feed", "substdi.c:getthis", "substdi.c:oneread",
                   "substdio.h:substdio_PEEK", "substdio.h:substdio_SEEK", "byte_copy.c:byte_copy", "byte_cr.c:byte_copyr"],
        stubs=["op (read): symbolic tape - any 1..min(len,remaining) bytes of a symbolic source, EINTR (at most 1), 0 at EOF, hard error"],
        assumes=["input buffer of BN bytes (grid), any number 0..BN of unread bytes at its end, any contents; source 0..4 bytes; get length 1..4"],
        outside=["buffers larger than 8 bytes, requests longer than 4 bytes, len >= 2^31 (getthis takes an int)"],
        claim="real substdio_get / substdio_feed+PEEK+SEEK from any valid state deliver exactly the next bytes of (buffered ++ source), "
              "0 only at EOF, -1 only after a hard error; the post-state is valid and holds exactly the undelivered rest (inductive)",
        expect_witnesses=sin_wit))
    return obls
