/* C20 layer 0 (b) - input half of substdio: the REAL substdi.c + byte_copy.c + byte_cr.c.
 *
 * From an ARBITRARY valid input state (buffer of BN bytes, p0 unread bytes sitting at its
 * end, n = BN - p0, contents symbolic) and a read function that may return fewer bytes
 * than asked for (any 1..len), fail with EINTR (retried), report EOF or fail hard, over a
 * symbolic source of slen <= SMAX bytes:
 *   OP 0  substdio_get(len 1..GMAX)    returns r in 1..len and exactly the next r bytes of
 *         the logical stream (unread buffered bytes ++ source), or 0 only when the stream
 *         is exhausted and op reported EOF, or -1 only after a hard error;
 *   OP 1  substdio_feed + substdio_PEEK + substdio_SEEK(k <= r): feed returns the number
 *         of bytes available at PEEK, they are the next bytes of the stream, nothing is
 *         consumed until SEEK(k), which consumes exactly k.
 * In every case the post-state is again valid (p >= 0, p + n == BN) and
 * (its unread bytes ++ the unread source) == the old stream minus what was delivered:
 * no byte lost, duplicated or reordered.  This is the contract of lib/ideal_substdio.c
 * (substdio_get over ideal_getc) and the lemma is inductive over call sequences. */
#include "verif.h"
#include <errno.h>
#include "substdio.h"

#ifndef BN
#define BN 3
#endif
#ifndef OP
#define OP 0
#endif
#define SMAX 4
#define GMAX 4
#ifndef NINTR
#define NINTR 1
#endif
#define TAPE (NINTR + 2)
#define FD 5

unsigned char xinit[BN];
unsigned int p0;
unsigned char src[SMAX];
unsigned int slen;
unsigned int glen;            /* OP 0: bytes asked for */
unsigned int seekk;           /* OP 1: bytes consumed by SEEK */
unsigned char tape[TAPE];     /* per op call: 0 EINTR, 255 hard error, k: read min(k,len,remaining), 0 bytes at EOF */

static char xbuf[BN];
static char ubuf[GMAX];
static substdio ss;
static unsigned int srcpos, ncalls, harderr, eofseen;

void sym_inputs(void)
{
#ifdef REPLAY
#include "replay_inputs.inc"
#else
  SYM_ARR(xinit); SYM(p0); SYM_ARR(src); SYM(slen); SYM(glen); SYM(seekk); SYM_ARR(tape);
#endif
}

static ssize_t rd(int fd, char *buf, size_t len)
{
  unsigned int t, w, i;
  CHECK(fd == FD, "layer0(in): op is called with the stream's descriptor");
  CHECK(ncalls < TAPE, "tape long enough (harness sizing)");
  ASSUME(ncalls < TAPE);
  t = tape[ncalls++];
  if (t == 0) { errno = EINTR; return -1; }
  if (t == 255) { harderr = 1; errno = EIO; return -1; }
  if (srcpos >= slen) { eofseen = 1; return 0; }
  w = t;
  if (w > len) w = (unsigned int) len;
  if (w > slen - srcpos) w = slen - srcpos;
  for (i = 0; i < SMAX; ++i) {
    if (i >= w) break;
    buf[i] = (char) src[srcpos++];        /* a write outside the destination is a cbmc/ASan failure */
  }
  return (ssize_t) w;
}

/* byte i of the logical stream before the call */
static unsigned char stream0(unsigned int i) { return i < p0 ? xinit[BN - p0 + i] : i - p0 < SMAX ? src[i - p0] : 0; }

/* post-state: valid, and (unread buffered ++ unread source) == old stream from `delivered` on */
static void check_rest(unsigned int delivered)
{
  unsigned int i, p;
  CHECK(ss.x == xbuf && ss.fd == FD, "layer0(in): x, fd unchanged");
  CHECK(ss.p >= 0 && ss.n >= 0 && ss.p + ss.n == BN, "layer0(in): post-state valid: p >= 0, p + n == buffer size");
  p = (unsigned int) ss.p;
  CHECK(p + (slen - srcpos) + delivered == p0 + slen, "layer0(in): no byte of the stream is lost or duplicated");
  for (i = 0; i < BN; ++i) {
    if (i >= p) break;
    CHECK((unsigned char) xbuf[BN - p + i] == stream0(delivered + i), "layer0(in): unread buffered bytes are the next bytes of the stream, in order");
  }
}

void vmain(void)
{
  unsigned int i, nz = 0;
  ssize_t r;
  sym_inputs();
  ASSUME(p0 <= BN && slen <= SMAX);
  for (i = 0; i < TAPE; ++i) if (tape[i] == 0) ++nz;
  ASSUME(nz <= NINTR);
  for (i = 0; i < BN; ++i) xbuf[i] = (char) xinit[i];
  ss.x = xbuf; ss.p = (int) p0; ss.n = (int) (BN - p0); ss.fd = FD; ss.op = rd;

#if OP == 0
  ASSUME(glen >= 1 && glen <= GMAX);
  r = substdio_get(&ss, ubuf + (GMAX - glen), glen);      /* destination ends exactly at the end of ubuf */
  CHECK(r >= -1 && r <= (ssize_t) glen, "layer0(in): get returns -1, 0 or 1..len");
  if (r > 0) {
    for (i = 0; i < GMAX; ++i) {
      if (i >= (unsigned int) r) break;
      CHECK((unsigned char) ubuf[GMAX - glen + i] == stream0(i), "layer0(in): get delivers exactly the next bytes of the stream, in order");
    }
    check_rest((unsigned int) r);
    if (p0 == 0 && ss.p > 0) WITNESS("get_refilled_and_kept_rest");
    if (p0 == 0 && ss.p == 0 && BN <= glen) WITNESS("get_read_directly");
    if (p0 > 0 && (unsigned int) r < p0) WITNESS("get_from_buffer_partial");
    WITNESS("get_data");
  }
#else
  r = substdio_feed(&ss);
  CHECK(r >= -1 && r <= BN, "layer0(in): feed returns -1, 0 or 1..buffer size");
  if (r > 0) {
    char *pk = substdio_PEEK(&ss);
    CHECK(r == ss.p, "layer0(in): feed returns the number of unread buffered bytes");
    CHECK(pk == xbuf + ss.n, "layer0(in): PEEK points at the unread bytes");
    check_rest(0);                                        /* feed alone consumes nothing */
    ASSUME(seekk <= (unsigned int) r);
    substdio_SEEK(&ss, (int) seekk);
    CHECK(substdio_PEEK(&ss) == pk + seekk, "layer0(in): SEEK advances PEEK by k");
    check_rest(seekk);
    if (p0 == 0 && r < BN) WITNESS("feed_short_read_shifted");
    if (seekk > 0 && seekk < (unsigned int) r) WITNESS("seek_partial");
    WITNESS("feed_data");
  }
#endif
  if (r == 0) {
    CHECK(p0 == 0 && srcpos >= slen && eofseen, "layer0(in): 0 (EOF) only when nothing is buffered and op reported EOF");
    check_rest(0);
    WITNESS("eof");
  }
  if (r == -1) {
    CHECK(harderr, "layer0(in): -1 only after op failed hard");
    /* what a failing call leaves in the buffer is not part of the contract; the state must stay valid */
    CHECK(ss.x == xbuf && ss.p >= 0 && ss.n >= 0 && ss.p + ss.n == BN, "layer0(in): state stays valid after an error");
    WITNESS("error");
  }
  if (ncalls >= 2 && nz >= 1 && r > 0) WITNESS("eintr_retried");
}
