/* C20 - tcpto.c: tcpto(), tcpto_err() (qmail-remote's table of hosts that timed out) over an
 * ARBITRARY image of queue/lock/tcpto.  The file is shared between all qmail-remote
 * processes, qmail-tcpto, qmail-tcpok and qmail-rspawn's tcpto_clean(); records are 16
 * bytes (4 address bytes, a counter at [4], a little-endian time at [8..11]).
 *
 * Real code: tcpto.c (regenerated copy; TBUF is the size of tcpto_buf: 1024 as shipped, or -
 * parametric copy whose only edit is that constant - 64 = 4 records), memcmp (byte_equal),
 * byte_copy.c, seek.h, now.h.  open_read/open_write/lock_ex/read/lseek/write/close/time/
 * getpid are stubs.
 *
 * One run = what qmail-remote does for one address: tcpto(ip), then tcpto_err(ip, flagerr).
 * Inputs: two independent file images (another process may have rewritten the file in
 * between), each read() returning -1 or any length 0..TBUF (a file of any length, also not
 * a multiple of 16); any address, clock (0 <= t < 2^40), pid, flagerr; any one of the
 * open/lock calls may fail.
 *
 * Obligations: every access stays inside tcpto_buf (cbmc bounds/pointer checks; ASan
 * natively - the buffer is a global, so ASan's global red zones apply); read() is asked for
 * exactly sizeof(tcpto_buf) bytes into tcpto_buf; every write() hands over exactly one
 * 16-byte record that lies inside the part of the buffer that was read, at the file offset it
 * was read from (the file never grows, no other record is overwritten), while the lock
 * descriptor is still open; nothing is written when the file could not be read or locked.
 * The documents (qmail-tcpto(8)) say nothing about the counter's range, so nothing is
 * demanded of it; see `assumes` for the one restriction on the image. */
#include "verif.h"
#include <stdint.h>
#include <sys/types.h>
#include <unistd.h>
#include <time.h>
#include "gen_tcpto.c"

#ifndef TBUF
#define TBUF 64
#endif
#define FD_LOCK 7
#define FD_RD 8

unsigned char img0[TBUF], img1[TBUF];
int rd0, rd1;                        /* what the two read() calls return */
unsigned char ipb[4];
long clk[3];
int pid_in;
unsigned int flagerr_in, fail_call;  /* 1..6: that open_write/open_read/lock_ex call fails (3 per getbuf) */

static unsigned int ncall, phase, nread[2], nwrite, lock_open, rd_open, nbytes_read;
static long seekpos = -1;
static unsigned int nclk;

void sym_inputs(void)
{
#ifdef REPLAY
#include "replay_inputs.inc"
#else
  SYM_ARR(img0); SYM_ARR(img1); SYM(rd0); SYM(rd1); SYM_ARR(ipb); SYM_ARR(clk); SYM(pid_in); SYM(flagerr_in); SYM(fail_call);
#endif
}

int open_write(const char *fn) { if (++ncall == fail_call) return -1; CHECK(!lock_open, "one lock descriptor at a time"); lock_open = 1; return FD_LOCK; }
int open_read(const char *fn) { if (++ncall == fail_call) return -1; rd_open = 1; return FD_RD; }
int lock_ex(int fd) { CHECK(fd == FD_LOCK && lock_open, "locks the descriptor opened for writing"); if (++ncall == fail_call) return -1; return 0; }
int vf_close(int fd)
{
  if (fd == FD_LOCK) { CHECK(lock_open, "C20(tcpto): the lock descriptor is closed once"); lock_open = 0; }
  else { CHECK(fd == FD_RD && rd_open, "closes only what it opened"); rd_open = 0; }
  return 0;
}
ssize_t vf_read(int fd, void *buf, size_t len)
{
  unsigned int i; int r = phase ? rd1 : rd0;
  CHECK(fd == FD_RD && rd_open && lock_open, "reads the table while holding the lock");
  CHECK(buf == (void *) tcpto_buf && len == sizeof tcpto_buf && len == TBUF, "C20(tcpto): read() is given tcpto_buf and exactly its size");
  for (i = 0; i < TBUF; ++i) { if ((int) i >= r) break; tcpto_buf[i] = (char) (phase ? img1[i] : img0[i]); }
  CHECK(nread[phase] == 0, "the table is read once per call"); ++nread[phase]; nbytes_read = r > 0 ? (unsigned int) r : 0;
  return r;
}
off_t vf_lseek(int fd, off_t pos, int whence) { CHECK(fd == FD_LOCK && whence == SEEK_SET, "seeks the lock descriptor"); seekpos = (long) pos; return pos; }
ssize_t vf_write(int fd, const void *buf, size_t len)
{
  long off;
#ifdef VERIF_CBMC
  CHECK(__CPROVER_same_object(buf, tcpto_buf), "C20(tcpto): the record written lies in tcpto_buf");
  off = (long) __CPROVER_POINTER_OFFSET(buf);
#else
  off = (long) ((uintptr_t) buf - (uintptr_t) tcpto_buf);
#endif
  CHECK(fd == FD_LOCK && lock_open, "C20(tcpto): writes through the lock descriptor while it is open");
  CHECK(len == 16, "C20(tcpto): exactly one 16-byte record is written");
  CHECK(off >= 0 && (off & 15) == 0 && off + 16 <= (long) (nbytes_read & ~15u), "C20(tcpto): the record written lies inside the part of tcpto_buf that was read");
  CHECK(seekpos == off, "C20(tcpto): the record goes back to the file offset it was read from");
  ++nwrite; seekpos = -1;
  return 16;
}
time_t vf_time(time_t *t) { long v = clk[nclk < 3 ? nclk : 2]; ++nclk; return (time_t) v; }
pid_t vf_getpid(void) { return (pid_t) pid_in; }

void vmain(void)
{
  static struct ip_address ip;
  unsigned int i, k, present0 = 0, n0;
  int r;
  sym_inputs();
  ASSUME(rd0 >= -1 && rd0 <= TBUF && rd1 >= -1 && rd1 <= TBUF);
  ASSUME(clk[0] >= 0 && clk[0] < (1L << 40) && clk[1] >= 0 && clk[1] < (1L << 40) && clk[2] >= 0 && clk[2] < (1L << 40));
  ASSUME(pid_in >= 1 && flagerr_in <= 1 && fail_call <= 6);
  /* counters are written by tcpto_err only (0..10) and zeroed by tcpto_clean/qmail-tcpok.  Left out: a byte >= 0x80 (a negative
   * char here: `record[4] << 10` is then a shift of a negative value - no memory effect, gcc defines it) and 0x7f (cbmc evaluates
   * `++record[4]` at char width and calls 127+1 an overflow; C computes it in int, UBSan agrees: not reproducible natively) */
#ifndef ANYCOUNTER
  for (i = 0; i < TBUF / 16; ++i) { ASSUME(img0[16 * i + 4] < 127); ASSUME(img1[16 * i + 4] < 127); }
#endif
  for (k = 0; k < 4; ++k) ip.d[k] = ipb[k];
  n0 = (fail_call >= 1 && fail_call <= 3) || rd0 < 0 ? 0 : (unsigned int) rd0 >> 4;   /* complete records tcpto() gets to see */
  for (i = 0; i < TBUF / 16; ++i) {
    if (i >= n0) break;
    if (img0[16 * i] == ipb[0] && img0[16 * i + 1] == ipb[1] && img0[16 * i + 2] == ipb[2] && img0[16 * i + 3] == ipb[3]) present0 = 1;
  }

  r = tcpto(&ip);
  CHECK(r == 0 || r == 1, "tcpto returns 0 or 1");
  CHECK(nwrite == 0, "C20(tcpto): tcpto() only reads");
  CHECK(!lock_open && !rd_open, "tcpto() leaves no descriptor open");
  if (r == 1) { CHECK(present0, "C20(tcpto): an address is only skipped when a complete record for it was read"); WITNESS("address_recently_timed_out"); }
  if (!r && present0) WITNESS("address_known_not_recent");

  phase = 1; nbytes_read = 0;
  tcpto_err(&ip, (int) flagerr_in);
  CHECK(!lock_open && !rd_open, "tcpto_err() leaves no descriptor open");
  CHECK(nwrite <= 1, "at most one record is written per call");
  if (!nread[1] || rd1 < 16) CHECK(nwrite == 0, "C20(tcpto): nothing is written when no complete record could be read");
  if (nwrite && flagerr_in) {
    if (!present0 && rd1 == TBUF) WITNESS("new_record_stored_in_full_size_file");
    WITNESS("timeout_recorded");
  }
  if (nwrite && !flagerr_in) WITNESS("success_clears_counter");
  if (nread[1] && rd1 > 16 && (rd1 & 15)) WITNESS("file_length_not_a_multiple_of_16");
  if (fail_call) WITNESS("open_or_lock_failed");
  if ((nread[0] && rd0 == -1) || (nread[1] && rd1 == -1)) WITNESS("read_failed");
}
