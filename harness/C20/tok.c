/* C20 (g) - token822.c token822_parse(): the two passes (count tokens and characters, then
 * fill) must agree, or the fill pass writes past what the count pass asked for.
 * Input: any N bytes (grid) in an exactly-sized block.  token822_ready / stralloc_ready are
 * replaced by stubs that hand out objects of EXACTLY the size asked for (numtoks tokens,
 * numchars bytes): one token or character too many in the fill pass is an out-of-bounds
 * write for cbmc and for ASan.  (The three GEN_ALLOC instances of token822.c are removed
 * from the regenerated copy; their arithmetic is alloc_arith_token822_readyplus.) */
#include "verif.h"
#include "gen_token822.c"

#ifndef N
#define N 3
#endif
unsigned char in[N ? N : 1];
static unsigned int asked_toks, asked_chars, nready;

void sym_inputs(void)
{
#ifdef REPLAY
#include "replay_inputs.inc"
#else
  SYM_ARR(in);
#endif
}

#ifdef VERIF_CBMC
static struct token822 tstore[N + 1];
static char cstore[N + 1];
#endif

int token822_ready(token822_alloc *ta, unsigned int n)
{
  CHECK(n <= N, "C20(token822): at most one token per input byte");
  ASSUME(n <= N);
  asked_toks = n; ++nready;
#ifdef VERIF_CBMC
  ta->t = tstore + (N + 1 - n);                 /* exactly n tokens up to the end of the object */
#else
  ta->t = (struct token822 *) malloc(n ? n * sizeof(struct token822) : 1);
#endif
  ta->a = n;
  return 1;
}
int token822_readyplus(token822_alloc *ta, unsigned int n) { CHECK(0, "not used by token822_parse"); return 0; }
int token822_append(token822_alloc *ta, struct token822 *t) { CHECK(0, "not used by token822_parse"); return 0; }

int stralloc_ready(stralloc *x, unsigned int n)
{
  CHECK(n <= N, "C20(token822): at most one character per input byte");
  ASSUME(n <= N);
  asked_chars = n; ++nready;
#ifdef VERIF_CBMC
  x->s = cstore + (N + 1 - n);
#else
  x->s = (char *) malloc(n ? n : 1);
#endif
  x->a = n;
  return 1;
}

void vmain(void)
{
  token822_alloc ta = {0};
  stralloc sa = {0}, buf = {0};
  unsigned int i, total = 0;
  int r;
#ifdef VERIF_CBMC
  static char istore[N ? N : 1]; char *blk = istore + (N ? 0 : 1);
#else
  char *blk = (char *) malloc(N ? N : 1);
#endif
  sym_inputs();
  for (i = 0; i < N; ++i) blk[i] = (char) in[i];
  sa.s = blk; sa.len = N; sa.a = N;
  r = token822_parse(&ta, &sa, &buf);
  CHECK(r == 1 || r == 0, "token822_parse returns 1 or 0 (no allocation failure here)");
  if (r == 1) {
    CHECK(nready == 2 && ta.len == asked_toks, "C20(token822): the token count of pass 1 is the length of the result");
    for (i = 0; i < N; ++i) {
      if (i >= ta.len) break;
      CHECK(ta.t[i].type >= TOKEN822_ATOM && ta.t[i].type <= TOKEN822_DOT, "C20(token822): every counted token was filled in");
      if (ta.t[i].type <= TOKEN822_COMMENT) {
        CHECK(ta.t[i].slen >= 0 && ta.t[i].s >= buf.s && ta.t[i].s + ta.t[i].slen <= buf.s + asked_chars, "C20(token822): token text lies inside the character buffer");
        total += (unsigned int) ta.t[i].slen;
      }
    }
    CHECK(total == asked_chars, "C20(token822): the character count of pass 1 is exactly what pass 2 stored");
    if (ta.len == N && N) WITNESS("one_token_per_byte");
    if (asked_chars == N && N) WITNESS("one_atom_all_bytes");
    if (ta.len >= 1 && ta.t[0].type == TOKEN822_QUOTE) WITNESS("quoted_string");
    if (ta.len >= 1 && ta.t[0].type == TOKEN822_COMMENT) WITNESS("comment");
    WITNESS("parsed");
  } else WITNESS("syntax_error");
}
