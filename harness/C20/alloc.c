/* C20 (d) - allocator arithmetic of the REAL gen_allocdefs.h instances and their users.
 *
 * KIND 0 stralloc_readyplus   1 stralloc_ready     (stralloc_eady.c,  char,              base 30)
 *      2 prioq_readyplus                           (prioq.c,          struct prioq_elt,  base 100)
 *      3 token822_readyplus                        (token822.c,       struct token822,   base 30)
 *      4 ipalloc_readyplus                         (ipalloc.c,        struct ip_mx,      base 10)
 *   for ALL 32-bit len, a, n and field NULL / non-NULL:  returns 0 (errno ENOMEM, object
 *   and pointer untouched) or 1 with  a >= len + n  in true (64-bit) arithmetic, and the
 *   size handed to malloc/realloc is exactly  a * sizeof(type)  without 32-bit wrap, so
 *   that `a` never claims more elements than the object holds.  (CVE-2005-1513 shape.)
 * KIND 5 stralloc_catb  6 stralloc_copyb  7 stralloc_append: from any honest small
 *   stralloc (unallocated, or a0 <= 12 bytes with len <= a0) and ANY 32-bit n: returns 0
 *   with len unchanged, or 1 with the bytes appended/copied exactly, len + 1 <= a; byte_copy
 *   is only reached after a successful allocation (otherwise its huge n shows up as an
 *   out-of-bounds access / unwinding failure).
 * KIND 8 quote.c doit(), stralloc_ready replaced by an observing stub:
 *   QL < 0 : ANY 32-bit sain->len, the stub refuses: the size asked for is exactly 2*len+2
 *            in true arithmetic, or doit fails with ENOMEM before asking;
 *   QL >= 0: sain->len == QL (grid), the stub hands out an object of exactly the size asked
 *            for: every write of the quoting loop is inside it, result is the quoted string.
 *
 * KIND 0-4 never touch the object: malloc/realloc record the size and return a fixed
 * one-byte object or NULL.  KIND 5-7 use tiny_alloc.h: requests above TA_POOLSZ bytes are
 * refused (legal for an allocator), granted objects are exactly-sized, requests recorded. */
#include "verif.h"
#include <errno.h>
#include <stdint.h>
#include <stddef.h>
#include "stralloc.h"

#ifndef KIND
#define KIND 0
#endif

#if KIND == 2
#include "prioq.h"
typedef prioq GA; typedef struct prioq_elt ELT;
#define FIELD p
extern int prioq_readyplus();
#define CALL(x, n) prioq_readyplus(x, n)
#elif KIND == 3
#include "token822.h"
typedef token822_alloc GA; typedef struct token822 ELT;
#define FIELD t
#define CALL(x, n) token822_readyplus(x, n)
#elif KIND == 4
#include "ipalloc.h"
typedef ipalloc GA; typedef struct ip_mx ELT;
#define FIELD ix
#define CALL(x, n) ipalloc_readyplus(x, n)
#elif KIND <= 1
typedef stralloc GA; typedef char ELT;
#define FIELD s
#if KIND == 0
#define CALL(x, n) stralloc_readyplus(x, n)
#else
#define CALL(x, n) stralloc_ready(x, n)
#endif
#endif

#if KIND <= 4
/* recording allocator: the object is never looked at by the code under test */
#define TA_POOLS 2
unsigned char ta_fail[TA_POOLS];          /* INPUT: the i-th request is refused */
static unsigned int ta_calls;
static size_t ta_req[TA_POOLS];
static void *ta_oldarg;
static char ta_oldobj[1], ta_newobj[1];
static void *ta_get(size_t size)
{
  unsigned int idx = ta_calls++;
  CHECK(idx < TA_POOLS, "C20(alloc): at most one allocator call");
  ASSUME(idx < TA_POOLS);
  ta_req[idx] = size;
  return ta_fail[idx] ? 0 : (void *) ta_newobj;
}
void *vf_malloc(size_t size) { return ta_get(size); }
void *vf_realloc(void *p, size_t size) { ta_oldarg = p; return ta_get(size); }
void vf_free(void *p) { CHECK(0, "C20(alloc): readyplus never frees"); }
#elif KIND <= 7
#define TA_POOLSZ 32
#include "tiny_alloc.h"
#else
#ifndef QL
#define QL -1
#endif
#define TA_POOLSZ (QL < 0 ? 4 : 2 * QL + 2)
unsigned char ta_fail[1];
unsigned char in_guard[TA_POOLSZ];      /* initial contents of the output object (guard bytes behind what was asked for) */
static unsigned int ta_calls;
static size_t ta_req[2];
static char qbuf[TA_POOLSZ];
int stralloc_ready(stralloc *x, unsigned int n)      /* observing stand-in (stralloc_eady.c is KIND 0/1) */
{
  CHECK(ta_calls == 0, "C20(quote): one allocation request");
  ASSUME(ta_calls == 0);
  ta_req[ta_calls++] = n;
  if (QL < 0 || ta_fail[0]) { errno = ENOMEM; return 0; }
  CHECK(n >= QL + 2 && n <= TA_POOLSZ, "C20(quote): asks for at least len+2 and at most the worst case 2*len+2 bytes");
  ASSUME(n >= QL + 2 && n <= TA_POOLSZ);
  /* the object handed out has TA_POOLSZ bytes; only the first n were asked for: the rest is a guard zone with symbolic
   * contents that must come back untouched (checked in vmain) */
  { unsigned int g; for (g = 0; g < TA_POOLSZ; ++g) qbuf[g] = (char) in_guard[g]; }
  x->s = qbuf; x->a = n;
  return 1;
}
#endif

#if KIND == 8
#include "gen_quote.c"
#endif

#define OLDMAX 12
unsigned int in_len, in_a, in_n;        /* ANY 32-bit values */
unsigned int in_alloc;                  /* 0: field is NULL */
#if KIND >= 5
unsigned int in_osz;                    /* bytes of the pre-existing object */
unsigned char in_old[OLDMAX];           /* its contents */
#endif
#if KIND >= 5
unsigned char in_src[TA_POOLSZ];        /* bytes to append / copy / quote */
#endif
char in_ch;

void sym_inputs(void)
{
#ifdef REPLAY
#include "replay_inputs.inc"
#else
  SYM(in_len); SYM(in_a); SYM(in_n); SYM(in_alloc); SYM(in_ch);
  SYM_ARR(ta_fail);
#if KIND == 8
  SYM_ARR(in_guard);
#endif
#if KIND >= 5
  SYM(in_osz); SYM_ARR(in_old); SYM_ARR(in_src);
#endif
#endif
}

#if KIND <= 4
void vmain(void)
{
  GA x;
  char *old = 0;
  uint64_t need;
  int rc;
  sym_inputs();
  if (in_alloc) {
    old = ta_oldobj;
    ASSUME(in_len <= in_a);               /* the only invariant of an allocated gen_alloc object */
  }
  x.FIELD = (ELT *) old; x.len = in_len; x.a = in_a;
  errno = 0;
  rc = CALL(&x, in_n);
#if KIND == 1
  need = (uint64_t) in_n;                                       /* ready: room for n elements */
#else
  need = (uint64_t) (in_alloc ? in_len : 0) + (uint64_t) in_n;   /* readyplus: room for len+n; an unallocated object has len 0 */
#endif
  CHECK(rc == 0 || rc == 1, "C20(alloc): returns 0 or 1");
  CHECK(ta_calls <= 1, "C20(alloc): at most one allocator call");
  if (ta_calls == 1) {
    CHECK((uint64_t) ta_req[0] >= need * sizeof(ELT),
          "C20(alloc): the size given to malloc/realloc holds len+n elements in true arithmetic (no 32-bit wrap)");
    CHECK(in_alloc ? ta_oldarg == (void *) old : ta_oldarg == 0, "C20(alloc): realloc is given the current object");
  }
  if (rc == 1) {
    CHECK((uint64_t) x.a >= need, "C20(alloc): on success a >= len + n in true arithmetic (no 32-bit wrap)");
    CHECK(x.len == (in_alloc ? in_len : 0), "C20(alloc): len unchanged (0 for a fresh object)");
    if (ta_calls == 1) {
      CHECK((uint64_t) ta_req[0] == (uint64_t) x.a * sizeof(ELT),
            "C20(alloc): the size given to malloc/realloc is exactly a*sizeof(type), without wrap");
      CHECK((char *) x.FIELD == ta_newobj, "C20(alloc): the field is the object the allocator returned");
      if (in_alloc) { if (in_len > 0 && sizeof(ELT) * (uint64_t) x.a > 0x7fffffffULL) WITNESS("grown_above_2G"); WITNESS("grown"); }
      else WITNESS("fresh");
    } else {
      CHECK(in_alloc && (char *) x.FIELD == old && x.a == in_a, "C20(alloc): no allocator call only when the object is already big enough");
      WITNESS("already_big_enough");
    }
  } else {
    CHECK(errno == ENOMEM, "C20(alloc): failure sets errno to ENOMEM");
    CHECK((char *) x.FIELD == old, "C20(alloc): on failure the old object (or NULL) is kept");
    if (in_alloc) CHECK(x.a == in_a && x.len == in_len, "C20(alloc): on failure len and a are unchanged");
    if (ta_calls == 0 && need > 0xffffffffULL) WITNESS("refused_len_plus_n_wraps");
    if (ta_calls == 0 && need <= 0xffffffffULL) WITNESS("refused_size_wraps");
    if (ta_calls == 1) WITNESS("refused_by_allocator");
  }
}

#elif KIND <= 7
void vmain(void)
{
  stralloc sa;
  char *old = 0;
  unsigned int i, len0;
  int rc;
  sym_inputs();
  ASSUME(in_osz <= OLDMAX);
  if (in_alloc) {
    old = (char *) ta_preexisting(in_osz);
    for (i = 0; i < OLDMAX; ++i) { if (i >= in_osz) break; old[i] = (char) in_old[i]; }
    ASSUME(in_len <= in_osz);
  }
  sa.s = old; sa.len = in_len; sa.a = in_alloc ? in_osz : in_a;      /* honest: a == object size */
  len0 = in_alloc ? in_len : 0;
#if KIND == 5
  rc = stralloc_catb(&sa, (char *) in_src, in_n);
#elif KIND == 6
  rc = stralloc_copyb(&sa, (char *) in_src, in_n);
  len0 = 0;
#else
  in_n = 1; in_src[0] = (unsigned char) in_ch;
  rc = stralloc_append(&sa, &in_ch);
#endif
  CHECK(rc == 0 || rc == 1, "C20(alloc): returns 0 or 1");
  if (rc == 1) {
    CHECK(sa.s != 0 && (uint64_t) sa.len == (uint64_t) len0 + in_n, "C20(alloc): len grows by exactly n (no wrap)");
    CHECK(sa.len <= sa.a, "C20(alloc): len <= a");
    if (ta_calls) CHECK((uint64_t) ta_req[ta_calls - 1] == (uint64_t) sa.a, "C20(alloc): allocation size == a");
#if KIND != 6
    for (i = 0; i < OLDMAX; ++i) { if (i >= len0) break; CHECK((unsigned char) sa.s[i] == in_old[i], "C20(alloc): old bytes kept"); }
#endif
    for (i = 0; i < TA_POOLSZ; ++i) { if (i >= in_n) break; CHECK((unsigned char) sa.s[len0 + i] == in_src[i], "C20(alloc): new bytes copied exactly"); }
    if (ta_calls && in_alloc && len0 > 0) WITNESS("grown_and_copied");
    if (!ta_calls) WITNESS("fits_without_growth");
    if (!in_alloc) WITNESS("fresh");
  } else {
    CHECK(errno == ENOMEM, "C20(alloc): failure sets errno to ENOMEM");
    if (in_alloc) CHECK(sa.s == old && sa.len == in_len && sa.a == in_osz, "C20(alloc): on failure the stralloc is unchanged");
#if KIND != 7
    if (in_n == 0xffffffffU) WITNESS("refused_n_plus_1_wraps");
    if (in_n < 0xffffffffU && (uint64_t) len0 + in_n + 1 > 0xffffffffULL) WITNESS("refused_len_plus_n_wraps");
#endif
    if (ta_calls) WITNESS("refused_by_allocator");
  }
}

#else /* KIND == 8: quote.c doit() */
void vmain(void)
{
  stralloc sain, saout;
  unsigned int i, j, nspecial = 0;
  int rc;
  sym_inputs();
  saout.s = 0; saout.len = in_len; saout.a = in_a;
#if QL >= 0
  in_n = QL;
#endif
  /* sain: its bytes are only read once the output has been allocated */
  sain.s = (char *) in_src; sain.len = in_n; sain.a = in_n;
  errno = 0;
  rc = doit(&saout, &sain);
  CHECK(rc == 0 || rc == 1, "C20(quote): returns 0 or 1");
  if (ta_calls) CHECK((uint64_t) ta_req[0] >= (uint64_t) in_n + 2 && (uint64_t) ta_req[0] <= 2 * (uint64_t) in_n + 2,
                      "C20(quote): asks for between len+2 and 2*len+2 bytes in true arithmetic (no wrapped length)");
  if (rc == 1) {
    CHECK(ta_calls == 1, "C20(quote): success only after the allocation");
    for (i = 0; i < TA_POOLSZ; ++i) { if (i >= in_n) break; if (in_src[i] == '\r' || in_src[i] == '\n' || in_src[i] == '"' || in_src[i] == '\\') ++nspecial; }
    CHECK(saout.len == in_n + nspecial + 2 && saout.len <= saout.a, "C20(quote): output length is len + specials + 2, inside the allocation");
#if QL >= 0
    for (i = 0; i < TA_POOLSZ; ++i) if (i >= ta_req[0]) CHECK((unsigned char) qbuf[i] == in_guard[i], "C20(quote): nothing is written behind the bytes that were asked for");
#endif
    CHECK(saout.s[0] == '"' && saout.s[saout.len - 1] == '"', "C20(quote): result is enclosed in double quotes");
    j = 1;
    for (i = 0; i < TA_POOLSZ; ++i) {
      if (i >= in_n) break;
      if (in_src[i] == '\r' || in_src[i] == '\n' || in_src[i] == '"' || in_src[i] == '\\') { CHECK(saout.s[j] == '\\', "C20(quote): special byte is backslash-quoted"); ++j; }
      CHECK((unsigned char) saout.s[j] == in_src[i], "C20(quote): bytes copied in order"); ++j;
    }
    if (nspecial == in_n) WITNESS("all_special");
    WITNESS("quoted");
  } else {
    CHECK(errno == ENOMEM, "C20(quote): failure sets errno to ENOMEM");
    if (ta_calls == 0) { CHECK(2 * (uint64_t) in_n + 2 > 0xffffffffULL, "C20(quote): fails without asking only when 2*len+2 does not fit 32 bits"); WITNESS("refused_2len_plus_2_wraps"); }
    if (ta_calls && in_n > 0x40000000U) WITNESS("asked_for_more_than_2G");
    if (ta_calls) WITNESS("refused_by_allocator");
  }
}
#endif
