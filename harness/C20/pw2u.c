/* C20 - qmail-pw2u.c doaccount(): the per-line parser of the passwd file read from stdin
 * (`user:password:uid:gid:gecos:home:shell`), whose output becomes users/assign and, through
 * qmail-newu, the table qmail-lspawn obeys.
 *
 * Real code: qmail-pw2u.c before main() (doaccount and its static strallocs), byte_chr.c,
 * scan_ulong.c, str_chr.c, stralloc_opyb.c, stralloc_opys.c, stralloc_cats.c, stralloc_catb.c,
 * stralloc_pend.c, byte_copy.c.  substdio = ideal streams; stat() = stub (any outcome).
 * users/include, exclude, mailnames absent (okincl = okexcl = okmana = 0), flags as shipped
 * (-U -o), alias user "a", break character "-" (conf-users / conf-break choices that keep
 * the alias branch inside the bound).
 *
 * Input: a line of exactly N arbitrary bytes (grid), as getln delivers it (no terminator
 * behind it; the newline, if any, is the last byte).  The seven strallocs are exactly as
 * qmail-pw2u keeps them between lines: allocated, holding stale non-NUL bytes of earlier,
 * longer lines up to their capacity - so a terminator that is not written is not there.
 *
 * Obligations: standard checks on every access (a field that is printed or handed to stat()
 * without its NUL runs off the end of its block); what is asked of stralloc_ready* covers
 * what is stored; and from qmail-users(5) / qmail-pw2u(8): the output contains no NUL and
 * consists of complete lines; a line with fewer than six colons, a NUL, uid 0, an uppercase
 * user or a home that does not exist / belongs to someone else prints nothing; an accepted
 * account with numeric uid and gid prints the lines
 *     [+:USER:UID:GID:HOME:-::]  =USER:USER:UID:GID:HOME:::  +USER-:USER:UID:GID:HOME:-::
 * (the first only for the alias user) - compared by number of lines, total length and byte
 * sum, not byte by byte (an output array written at a symbolic index is what made the first
 * version of this query take 2.4 M variables at N=5).  Non-numeric uid/gid text: the documents are silent,
 * only the structural checks apply. */
#include "verif.h"
#include <errno.h>
#include <sys/types.h>
#include <sys/stat.h>
#include "gen_qmail-pw2u.c"

#ifndef N
#define N 10
#endif
#define CAP (N + 2)                  /* a field, or all of them with their colons, is shorter than the line */
#define CAPALL (2 * N + 2)           /* allusers: user:uugh NUL */

unsigned char in[N ? N : 1];
unsigned int stat_mode;              /* 0: exists; 1: ENOENT; 2: other error */
unsigned int stat_uid;
/* auto_usera = "a", auto_break = "-": pw2u_conf.c */

static unsigned int outlen, out_nul, out_badstart, out_bol = 1, out_lines, out_colons, out_sum, nstat, died;
static char b_line[N ? N : 1], b_user[CAP], b_uid[CAP], b_gid[CAP], b_home[CAP], b_uugh[CAP], b_all[CAPALL];
static unsigned int granted[7];
static substdio so_, se_, si_;
substdio *subfdout = &so_, *subfderr = &se_, *subfdin = &si_;

void sym_inputs(void)
{
#ifdef REPLAY
#include "replay_inputs.inc"
#else
  SYM_ARR(in); SYM(stat_mode); SYM(stat_uid);
#endif
}

static int slot_of(stralloc *x)
{
  return x == &user ? 0 : x == &uidstr ? 1 : x == &gidstr ? 2 : x == &home ? 3 : x == &uugh ? 4 : x == &allusers ? 5 : x == &line ? 6 : 7;
}
int stralloc_ready(stralloc *x, unsigned int n)
{
  int k = slot_of(x);
  CHECK(k < 7, "doaccount grows only its own strallocs");
  CHECK(n <= x->a, "growth stays inside what a line of N bytes can need (harness sizing)");
  ASSUME(k < 7 && n <= x->a);
  if (n > granted[k]) granted[k] = n;
  return 1;
}
int stralloc_readyplus(stralloc *x, unsigned int n) { return stralloc_ready(x, x->len + n); }

char *constmap(struct constmap *cm, char *s, int len) { CHECK(0, "users/include, exclude, mailnames are absent: no lookup"); return 0; }
int ideal_getc(substdio *s) { return -1; }
int ideal_putc(substdio *s, unsigned char c)     /* scalar observer: an output array written at a symbolic index costs 64 updates per byte */
{
  if (s == &se_) return 0;
  if (!c) out_nul = 1;
  if (out_bol && c != '=' && c != '+') out_badstart = 1;
  out_bol = (c == '\n');
  if (c == '\n') ++out_lines;
  if (c == ':') ++out_colons;
#ifdef BYTESUM
  out_sum += c;
#endif
  ++outlen;
  return 0;
}
int ideal_flush(substdio *s) { return 0; }
void vf__exit(int st)
{
  died = 1;
  CHECK(st == 111, "qmail-pw2u dies with 111 only");
  CHECK(nstat == 1 && (stat_mode == 2), "C20(pw2u): doaccount only gives up when stat() fails for another reason than ENOENT");
  WITNESS("stat_error_is_fatal");
  PATH_END();
#ifdef VERIF_CBMC
  __CPROVER_assume(0);
#endif
}
int vf_stat(const char *path, struct stat *st)
{
  unsigned int i, ok = 0;
  ++nstat;
  CHECK(path == home.s, "stat() is given the home field");
  for (i = 0; i < CAP; ++i) { if (!path[i]) { ok = 1; break; } }     /* reads it as the kernel would */
  CHECK(ok && i == home.len - 1, "C20(pw2u): the path handed to stat() is the NUL-terminated home field");
  if (stat_mode == 1) { errno = ENOENT; return -1; }
  if (stat_mode == 2) { errno = EIO; return -1; }
  st->st_uid = stat_uid;
  return 0;
}

/* reference: the k-th colon-separated field of the line */
static unsigned int fstart[8], flen_[8], nfields;
static void split(void)
{
  unsigned int i, s = 0;
  nfields = 0;
  for (i = 0; i < N; ++i) {
    if (in[i] == ':' && nfields < 7) { fstart[nfields] = s; flen_[nfields] = i - s; ++nfields; s = i + 1; }
  }
}
static unsigned int explen, expsum;
static void ex_c(unsigned int c) { ++explen;
#ifdef BYTESUM
  expsum += c;
#endif
}
static void ex_f(unsigned int k) { unsigned int i; for (i = 0; i < N; ++i) { if (i >= flen_[k]) break; ex_c(in[fstart[k] + i]); } }
static void ex_tail(void) { ex_c(':'); ex_f(0); ex_c(':'); ex_f(2); ex_c(':'); ex_f(3); ex_c(':'); ex_f(5); ex_c(':'); }

void vmain(void)
{
  unsigned int i, hasnul = 0, upper = 0, numeric = 1, uidzero = 1, accept;
  sym_inputs();
  ASSUME(stat_mode <= 2);
  for (i = 0; i + 1 < N; ++i) ASSUME(in[i] != '\n');      /* getln: the separator can only be the last byte of a line */
#ifdef CM
  /* template (grid): bit i of CM set <=> byte i is a colon, for every byte up to and including the sixth colon (all bytes if CM
   * has fewer than six bits); bytes behind the sixth colon - the shell field - are free.  Every line of N bytes matches exactly
   * one such template; field boundaries are then concrete, field contents symbolic */
  { unsigned int seen = 0; for (i = 0; i < N; ++i) { if (seen >= 6) break; if ((CM >> i) & 1) { ASSUME(in[i] == ':'); ++seen; } else { ASSUME(in[i] != ':'); } } }
#endif
  for (i = 0; i < N; ++i) { b_line[i] = (char) in[i]; if (!in[i]) hasnul = 1; }
  for (i = 0; i < CAP; ++i) { b_user[i] = b_uid[i] = b_gid[i] = b_home[i] = b_uugh[i] = '#'; }
  for (i = 0; i < CAPALL; ++i) b_all[i] = '#';
  line.s = b_line; line.len = N; line.a = N;
  user.s = b_user; uidstr.s = b_uid; gidstr.s = b_gid; home.s = b_home; uugh.s = b_uugh; allusers.s = b_all;
  user.a = uidstr.a = gidstr.a = home.a = uugh.a = CAP; allusers.a = CAPALL;
  user.len = uidstr.len = gidstr.len = home.len = uugh.len = CAP;        /* stale contents of an earlier, longer line */
  if (!stralloc_copys(&allusers, "")) return;                             /* as main() does before the first line */

  split();
  if (nfields >= 6) {
    for (i = 0; i < N; ++i) { if (i >= flen_[0]) break; if (in[fstart[0] + i] >= 'A' && in[fstart[0] + i] <= 'Z') upper = 1; }
    for (i = 0; i < N; ++i) { if (i >= flen_[2]) break; if (in[fstart[2] + i] < '0' || in[fstart[2] + i] > '9') numeric = 0; else if (in[fstart[2] + i] != '0') uidzero = 0; }
    for (i = 0; i < N; ++i) { if (i >= flen_[3]) break; if (in[fstart[3] + i] < '0' || in[fstart[3] + i] > '9') numeric = 0; }
    if (!flen_[2] || !flen_[3]) numeric = 0;
  }

  doaccount();

  CHECK(!out_nul, "C20(pw2u): assignment lines must not contain NUL (qmail-users(5))");
  CHECK(out_bol && !out_badstart, "C20(pw2u): output consists of complete assignment lines starting with = or +");
  CHECK((!granted[0] || user.len <= granted[0]) && (!granted[1] || uidstr.len <= granted[1]) && (!granted[2] || gidstr.len <= granted[2]) && (!granted[3] || home.len <= granted[3]) && (!granted[4] || uugh.len <= granted[4])
        && allusers.len <= granted[5], "C20(pw2u): every stralloc was grown to cover what it holds");
  if (hasnul || nfields < 6) { CHECK(outlen == 0 && nstat == 0, "C20(pw2u): a line with a NUL or fewer than six colons is skipped"); WITNESS("malformed_line_skipped"); return; }
  if (numeric) {
    accept = !uidzero && !upper && stat_mode == 0;
    if (accept) {
      /* stat_uid == uid is decided by comparing with the decimal value: for <= 9 digits no overflow; the reference recomputes it without division */
      unsigned long v = 0;
      for (i = 0; i < N; ++i) { if (i >= flen_[2]) break; v = v * 10 + (in[fstart[2] + i] - '0'); }
      accept = ((unsigned long) stat_uid == v);
    }
    if (!accept) { CHECK(outlen == 0, "C20(pw2u): uid 0, uppercase user, missing or foreign home: the account is skipped (qmail-pw2u(8) RULES)"); WITNESS("account_skipped"); return; }
    if (flen_[0] == 1 && in[fstart[0]] == 'a') { ex_c('+'); ex_tail(); ex_c('-'); ex_c(':'); ex_c(':'); ex_c('\n'); }
    if (flen_[0]) {
      ex_c('='); ex_f(0); ex_tail(); ex_c(':'); ex_c(':'); ex_c('\n');
      ex_c('+'); ex_f(0); ex_c('-'); ex_tail(); ex_c('-'); ex_c(':'); ex_c(':'); ex_c('\n');
    }
    CHECK(outlen == explen && out_sum == expsum, "C20(pw2u): an accepted account prints =user:user:uid:gid:home::: and +user-:user:uid:gid:home:-:: "
          "(qmail-users(5)): same length and byte sum as the reference lines");
    CHECK(out_lines == (flen_[0] ? 2u : 0u) + (flen_[0] == 1 && in[fstart[0]] == 'a' ? 1u : 0u), "C20(pw2u): two lines per account, three for the alias user");
    if (flen_[0] == 1 && in[fstart[0]] == 'a') WITNESS("alias_user");
    if (flen_[0] && flen_[5]) WITNESS("account_printed");
    if (!flen_[0]) WITNESS("empty_user_name_prints_nothing");
    return;
  }
  WITNESS("non_numeric_uid_or_gid");
}
