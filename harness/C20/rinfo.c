/* C20 - remoteinfo.c remoteinfo_get(): the RFC 1413 (ident) client of tcp-env.  The reply
 * line comes from the NETWORK (the remote host's port 113) and is parsed into the static
 * buffer `line`, which tcp-env then exports as TCPREMOTEINFO.
 *
 * Real code: remoteinfo.c (regenerated copy: `line` is file-static), substdio.c
 * (substdio_fdbuf), fmt_ulong.c, fmt_str.c, byte_copy.c, byte_zero.c.  substdio_get /
 * substdio_putflush = ideal streams (layer 0).  socket/bind/fcntl/close and timeoutconn
 * are stubs that succeed or fail (symbolic).
 *
 * Input: a reply of exactly N arbitrary bytes (grid), then end of file or a read error
 * (a timeout is a read error); ports rp, lp any 16-bit values.
 * LSZ is the size of `line`: 999 as shipped, or - parametric copy whose only edit is that
 * constant - 8, so that the "buffer full" exit of the loop lies inside the bound (with
 * LSZ 8 the ports are one digit each, the query "r , l\r\n" then fits the same buffer).
 *
 * Oracle (RFC 1413: `<port> , <port> : USERID : <opsys> : <user-id> CR LF`; tcp-env(1):
 * TCPREMOTEINFO is "a connection-specific string, perhaps a username, supplied by the
 * remote host"): the result is NULL, or it points at `line`, which then holds exactly the
 * bytes behind the third colon of the first reply line, blanks/tabs/CRs dropped, cut after
 * LSZ-1 bytes, followed by a NUL that lies INSIDE the buffer.  NULL when the connection
 * ended before the line did.  Every store is inside line[] (cbmc bounds checks / ASan). */
#include "verif.h"
#include <stdarg.h>
#include <sys/types.h>
#include "gen_remoteinfo.c"

#ifndef N
#define N 12
#endif
#ifndef LSZ
#define LSZ 999
#endif

unsigned char in[N ? N : 1];
unsigned int rp_in, lp_in, fail_at, rd_error;
static unsigned int inpos, nclose, nsock;
static unsigned char req[48]; static unsigned int reqlen;

void sym_inputs(void)
{
#ifdef REPLAY
#include "replay_inputs.inc"
#else
  SYM_ARR(in); SYM(rp_in); SYM(lp_in); SYM(fail_at); SYM(rd_error);
#endif
}

int ideal_getc(substdio *s) { if (inpos >= N) return rd_error ? -2 : -1; return in[inpos++]; }
int ideal_putc(substdio *s, unsigned char c) { if (reqlen < sizeof req) req[reqlen] = c; ++reqlen; return 0; }
int ideal_flush(substdio *s) { return fail_at == 4 ? -1 : 0; }
ssize_t timeoutread(int tmo, int fd, char *buf, size_t len) { CHECK(0, "ideal stream: the op is never called"); return -1; }
ssize_t timeoutwrite(int tmo, int fd, const void *buf, size_t len) { CHECK(0, "ideal stream: the op is never called"); return -1; }
int timeoutconn(int s, struct ip_address *ipx, unsigned int port, int tmo) { CHECK(port == 113, "ident port"); return fail_at == 3 ? -1 : 0; }
int vf_socket(int d, int ty, int pr) { ++nsock; return fail_at == 1 ? -1 : 5; }
int vf_bind(int s, const struct sockaddr *a, socklen_t l) { CHECK(l == sizeof(struct sockaddr_in), "bind gets a sockaddr_in"); return fail_at == 2 ? -1 : 0; }
int vf_fcntl(int fd, int cmd, ...) { return 0; }
int vf_close(int fd) { ++nclose; return 0; }

void vmain(void)
{
  static struct ip_address ipr, ipl;
  unsigned char ref[N + 1]; unsigned int reflen = 0, colons = 0, i, complete = 0;
  char *res;
  sym_inputs();
  ASSUME(rp_in <= 65535 && lp_in <= 65535 && fail_at <= 4 && rd_error <= 1);
#if LSZ < 16
  ASSUME(rp_in <= 9 && lp_in <= 9);                /* "r , l\r\n" = 7 bytes: the query is built in the same buffer */
#endif
  /* reference: RFC 1413 reply line -> user-id field without white space */
  for (i = 0; i < N; ++i) {
    unsigned char c = in[i];
    if (c == ' ' || c == '\t' || c == '\r') continue;
    if (c == '\n') { complete = 1; break; }
    if (colons < 3) { if (c == ':') ++colons; continue; }
    ref[reflen++] = c;
    if (reflen == LSZ - 1) { complete = 1; break; }   /* tcp-env keeps what fits */
  }

  res = remoteinfo_get(&ipr, (unsigned long) rp_in, &ipl, (unsigned long) lp_in, 30);

  CHECK(res == 0 || res == line, "C20(remoteinfo): the result is NULL or the static buffer");
  if (nsock) CHECK(nclose == (fail_at == 1 ? 0 : 1), "the socket is closed exactly once");
  if (fail_at) { CHECK(res == 0, "no result when the connection could not be made"); WITNESS("connection_failed"); return; }
  CHECK(reqlen >= 7 && reqlen <= 15 && reqlen <= LSZ && req[reqlen - 2] == '\r' && req[reqlen - 1] == '\n',
        "C20(remoteinfo): the query `rp , lp CR LF` fits the buffer it is built in");
  if (!complete) { CHECK(res == 0, "no result when the reply line is incomplete"); WITNESS("reply_incomplete"); if (rd_error) WITNESS("timeout_or_read_error"); return; }
  CHECK(res == line, "a complete reply line gives a result");
  if (res != line) return;
  CHECK(reflen <= LSZ - 1, "reference sizing");
  CHECK(line[reflen] == 0, "C20(remoteinfo): the result is NUL-terminated inside its buffer, right behind the user-id bytes");
  for (i = 0; i < N; ++i) { if (i >= reflen) break; CHECK((unsigned char) line[i] == ref[i], "C20(remoteinfo): the result holds exactly the user-id field of the reply"); }
  if (reflen == LSZ - 1) WITNESS("buffer_full_truncated");
  if (reflen == 0) WITNESS("empty_userid");
  if (reflen >= 2 && colons == 3) WITNESS("userid_returned");
  WITNESS("parsed");
}
