/* C20 - dns.c dns_mxip(): the MX collection / sorting / selection loops and the growth of the
 * ipalloc they fill (dns_ipplus, dns_ip, ipalloc_append, ipalloc_readyplus).  Everything the
 * loops work on comes from DNS responses: the number of answers (the size of mx[]), the
 * preferences, the exchanger names, the number of A records per exchanger.
 *
 * Real code: dns.c (regenerated copy; resolve, findmx, findip are CUT - their own reads of the
 * response are obligation dns_walkers), ipalloc.c, ip.c, scan_ulong.c, stralloc_copy.c,
 * stralloc_opys.c, stralloc_opyb.c, stralloc_pend.c, byte_copy.c (str_len = strlen).
 * Stubs (contracts): resolve() answers 0 / DNS_SOFT / DNS_HARD / DNS_MEM and sets numanswers
 * (NA for the MX query - grid -, any 0..AMAX for each A query); findmx()/findip() return 2
 * exactly when numanswers <= 0, else consume one answer and return 0, 1 or DNS_SOFT, a 1
 * delivering any preference and any name of 0..3 bytes / any address.
 * Memory: under cbmc mx[] and every name are separate exactly-sized malloc objects (cbmc's
 * own malloc/free: out-of-bounds, use after free, double free and free of a non-heap pointer
 * are its standard checks); realloc (ipalloc growth: 11, then 23 elements) is a stub handing
 * out exactly-sized blocks, and may refuse once.  Natively everything is the C library under
 * ASan.  stralloc_ready/readyplus: one block per stralloc, a fresh allocation may be refused
 * (growth arithmetic: alloc_arith_*).
 *
 * Obligations: standard checks on mx[nummx], mx[i] = mx[--nummx], the clean-up loops and
 * ia->ix[ia->len++]; plus: result is 0, 1 or a DNS_* code; ia->len <= ia->a; ia holds exactly
 * the addresses the A lookups delivered (when nothing was refused); preferences in ia never
 * decrease (qmail-remote walks ia in order: RFC 5321 5.1 lowest preference first).
 * Not demanded: that names are freed on the DNS_SOFT exit (they are not - a leak in a
 * process that exits, no memory-safety clause). */
#include "verif.h"
#include <stdint.h>
#include <stdlib.h>
static int resolve(), findmx(), findip();     /* the cut callees: contracts below */
#include "gen_dns.c"

#ifndef NA
#define NA 2
#endif
#ifndef AMAX
#define AMAX 2
#endif
#ifndef DL
#define DL 3
#endif
#define SCAP 8
#define MAXQ (NA + 2)                 /* A queries: one per exchanger, or one for the domain itself */
#define IPMAX (MAXQ * AMAX + 1 < 23 ? MAXQ * AMAX + 1 : 23)     /* addresses that can be delivered inside the bound */

unsigned char dom[DL];
unsigned char mx_r[NA ? NA : 1], mx_name[NA ? 3 * NA : 3];    /* per answer of the MX query */
unsigned short mx_pref[NA ? NA : 1];
unsigned char res_code[MAXQ + 1];     /* result class of each resolve() call */
unsigned char a_num[MAXQ + 1];        /* answers of each A query */
unsigned char ip_r[MAXQ * AMAX + 1], ip_b[MAXQ * AMAX + 1];
unsigned long rnd;
unsigned int sr_fail, re_fail;        /* stralloc allocation number sr_fail / realloc number re_fail is refused (0: none) */

static unsigned int nresolve, nmx, nipcall, nip1, nsr, nre, refused;

void sym_inputs(void)
{
#ifdef REPLAY
#include "replay_inputs.inc"
#else
  SYM_ARR(dom); SYM_ARR(mx_r); SYM_ARR(mx_pref); SYM_ARR(res_code); SYM_ARR(a_num); SYM_ARR(ip_r); SYM_ARR(ip_b);
  SYM_ARR(mx_name);
  SYM(rnd); SYM(sr_fail); SYM(re_fail);
#endif
}

/* ---- allocation */
int stralloc_ready(stralloc *x, unsigned int n)
{
  if (!x->s) {
    if (++nsr == sr_fail) { refused = 1; return 0; }
#ifdef VERIF_CBMC
    x->s = (char *) malloc(SCAP); x->a = SCAP;
#else
    x->s = (char *) malloc(n ? n : 1); x->a = n;          /* exactly what was asked for: ASan sees one byte too many */
#endif
    x->len = 0;
  }
#ifdef VERIF_CBMC
  CHECK(n <= x->a, "stralloc growth inside the bound (harness sizing: names <= 3 bytes, domain <= 7)");
  ASSUME(n <= x->a);
#else
  if (n > x->a) { x->s = (char *) realloc(x->s, n); x->a = n; }
#endif
  return 1;
}
int stralloc_readyplus(stralloc *x, unsigned int n) { return stralloc_ready(x, (x->s ? x->len : 0) + n); }

#ifdef VERIF_CBMC
static long pool11[11], pool23[23];                       /* sizeof(struct ip_mx) == 8 */
#endif
#undef realloc                                            /* -Drealloc=vf_realloc: natively the stub hands on to the C library */
void *vf_realloc(void *p, size_t size)
{
  if (++nre == re_fail) { refused = 1; return 0; }
#ifdef VERIF_CBMC
  CHECK(sizeof(struct ip_mx) == 8, "harness sizing");
  if (size == 11 * 8) { CHECK(p != (void *) pool11 && p != (void *) pool23, "first growth starts from the empty block"); free(p); return pool11; }
  CHECK(size == 23 * 8 && p == (void *) pool11, "C20(ipalloc): growth asks for 11, then 23 elements");
  ASSUME(size == 23 * 8 && p == (void *) pool11);
  { unsigned int i; for (i = 0; i < 11; ++i) pool23[i] = pool11[i]; }
  return pool23;
#else
  return realloc(p, size);
#endif
}

/* ---- the cut resolver functions (contracts) */
int vf_dn_expand(const unsigned char *m, const unsigned char *e, const unsigned char *s, char *d, int n) { CHECK(0, "resolve/find* are cut: dn_expand is not reached"); return -1; }

static int resolve(stralloc *domain, int type)
{
  unsigned int k = nresolve++, i; unsigned char touch = 0;
  CHECK(k <= MAXQ, "one MX query, then at most one A query per exchanger or one for the domain");
  ASSUME(k <= MAXQ);
  CHECK(domain->s != 0 && domain->len <= SCAP, "C20(dns): resolve() is given a live name");
  for (i = 0; i < SCAP; ++i) { if (i >= domain->len) break; touch |= (unsigned char) domain->s[i]; }   /* reads it: a freed name is caught here */
  if (k == 0) { CHECK(type == T_MX, "first query asks for MX"); numanswers = NA; }
  else { CHECK(type == T_A, "later queries ask for A"); numanswers = a_num[k]; }
  switch (res_code[k] & 3) { case 1: return DNS_SOFT; case 2: return DNS_HARD; case 3: refused = 1; return DNS_MEM; }
  return 0;
}
static int findmx(int wanttype)
{
  unsigned int k;
  if (numanswers <= 0) return 2;
  --numanswers;
  k = nmx++;
  CHECK(k < (NA ? NA : 1), "findmx delivers at most NA answers"); ASSUME(k < (NA ? NA : 1));
  if (mx_r[k] == 0) return 0;
  if (mx_r[k] == 2) return DNS_SOFT;
  pref = mx_pref[k];
  name[0] = (char) mx_name[3 * k]; name[1] = (char) mx_name[3 * k + 1]; name[2] = (char) mx_name[3 * k + 2]; name[3] = 0;
  return 1;
}
static int findip(int wanttype)
{
  unsigned int k;
  if (numanswers <= 0) return 2;
  --numanswers;
  k = nipcall++;
  CHECK(k < MAXQ * AMAX + 1, "findip calls bounded by the answers handed out"); ASSUME(k < MAXQ * AMAX + 1);
  if (ip_r[k] == 0) return 0;
  if (ip_r[k] == 2) return DNS_SOFT;
  ip.d[0] = ip_b[k]; ip.d[1] = 2; ip.d[2] = 3; ip.d[3] = (unsigned char) nip1;
  ++nip1;
  return 1;
}

void vmain(void)
{
  static ipalloc ia; static stralloc sa; static char sabuf[DL + 1];
  unsigned int i; int r;
  sym_inputs();
  for (i = 0; i < (NA ? NA : 1); ++i) ASSUME(mx_r[i] <= 2);
  for (i = 0; i < MAXQ * AMAX + 1; ++i) ASSUME(ip_r[i] <= 2);
  for (i = 0; i <= MAXQ; ++i) ASSUME(a_num[i] <= AMAX);
  ASSUME(sr_fail <= 6 && re_fail <= 3);
  for (i = 0; i < DL; ++i) sabuf[i] = (char) dom[i];
  sa.s = sabuf; sa.len = DL; sa.a = DL + 1;

  r = dns_mxip(&ia, &sa, rnd);

  CHECK(r == 0 || r == 1 || r == DNS_SOFT || r == DNS_HARD || r == DNS_MEM, "C20(dns): dns_mxip returns 0, 1 or a DNS_* code");
  if (ia.ix) {
    CHECK(ia.len <= ia.a && ia.a <= 23, "C20(ipalloc): len <= a");
    for (i = 0; i + 1 < IPMAX; ++i) { if (i + 1 >= ia.len) break; CHECK(ia.ix[i].pref <= ia.ix[i + 1].pref, "C20(dns): preferences in the result never decrease"); }
    if (!nresolve && !refused) { CHECK(ia.len == 1 && r == 0, "an address literal gives exactly itself"); WITNESS("address_literal"); return; }
    if (!refused) CHECK(ia.len == nip1, "C20(dns): the result holds exactly the addresses the A lookups delivered");
    CHECK(ia.len <= IPMAX, "no more elements than answers");
    for (i = 0; i < IPMAX; ++i) { if (i >= ia.len) break; CHECK(ia.ix[i].ip.d[1] == 2 && ia.ix[i].ip.d[3] <= nip1, "every element was filled from an answer"); }
    if (ia.len > 11) WITNESS("ipalloc_grew_twice");
    if (ia.len >= 1) WITNESS("addresses_collected");
  }
  if (refused) WITNESS("allocation_refused_somewhere");
  if (r == 1) WITNESS("soft_failure_for_one_exchanger");
  if (r == DNS_SOFT && nmx >= 2) WITNESS("soft_error_after_a_name_was_collected");
  if (nmx == NA && NA >= 2 && nresolve >= 3 && !refused) WITNESS("two_exchangers_looked_up");
  if (NA >= 2 && nresolve >= 3 && mx_pref[0] == mx_pref[1] && mx_r[0] == 1 && mx_r[1] == 1) WITNESS("equal_preferences_randomised");
  if (r == 0 && nresolve == 2 && nmx == NA && NA >= 1 && mx_r[0] != 1) WITNESS("no_mx_falls_back_to_a");
  WITNESS("returned");
}
