/* C20 layer 0 (c) - getln.c + getln2.c over the REAL substdi.c, the REAL stralloc_catb.c /
 * stralloc_opyb.c and byte_chr/byte_copy/byte_copyr.  Only stralloc_ready/readyplus
 * (stralloc_eady.c, proved in alloc_arith) are replaced: one exactly-sized buffer of CAP
 * bytes, any request may be refused, and the largest extent ever asked for is recorded so
 * that "getln never uses more than it asked for" is checked (sa.len <= granted).
 *
 * Contract (getln.3 / getln2.3, and exactly what lib/ideal_getln.c implements): from any
 * valid input-stream state (BN-byte buffer, p0 unread bytes, symbolic source with short
 * reads / EINTR / EOF / hard error) and any stralloc (unallocated, or allocated with old
 * contents), getln(ss,sa,&match,sep)
 *   returns 0, match 1: sa holds exactly the stream's bytes up to and including the first
 *                       sep; the stream is left positioned right after it;
 *   returns 0, match 0: the stream held no sep, ended (EOF), and sa holds all of it;
 *   returns -1        : only after a hard read error or a refused allocation;
 * and never touches memory outside sa's allocation or the stream buffer. */
#include "verif.h"
#include <errno.h>
#include "substdio.h"
#include "stralloc.h"
#include "getln.h"

#ifndef BN
#define BN 2
#endif
#define SMAX 4
#define TMAX (BN + SMAX)
#define CAP (TMAX + 1)          /* + the byte stralloc_catb writes behind the data */
#define NALLOC (SMAX + 4)
#define TAPE (SMAX + 4)
#define FD 5

unsigned char xinit[BN]; unsigned int p0;
unsigned char src[SMAX]; unsigned int slen;
unsigned char tape[TAPE];       /* per read: 0 EINTR, 255 hard error, k: min(k,len,remaining) bytes, 0 at EOF */
unsigned char sep;
unsigned int sa_pre;            /* 0: sa unallocated; else allocated, sa_len0 bytes of old contents */
unsigned int sa_len0;
unsigned char sa_old[CAP];
unsigned char afail[NALLOC];    /* afail[i] != 0: the i-th stralloc_ready/readyplus call is refused */

static char xbuf[BN];
static substdio ss;
static stralloc sa;
static unsigned int srcpos, ncalls, harderr, eofseen;
static char sabuf[CAP];
static unsigned int acalls, granted, ta_failed;

static int sa_need(stralloc *x, unsigned int n)
{
  unsigned int idx = acalls++;
  CHECK(idx < NALLOC, "allocation tape long enough (harness sizing)");
  ASSUME(idx < NALLOC);
  if (afail[idx]) { ta_failed = 1; errno = ENOMEM; return 0; }
  CHECK(n <= CAP, "layer0(getln): never asks for more than the line can need inside the bound");
  ASSUME(n <= CAP);
  if (!x->s) { x->s = sabuf; x->len = 0; x->a = CAP; }
  if (n > granted) granted = n;
  return 1;
}
int stralloc_ready(stralloc *x, unsigned int n) { return sa_need(x, n); }
int stralloc_readyplus(stralloc *x, unsigned int n) { return sa_need(x, (x->s ? x->len : 0) + n); }

void sym_inputs(void)
{
#ifdef REPLAY
#include "replay_inputs.inc"
#else
  SYM_ARR(xinit); SYM(p0); SYM_ARR(src); SYM(slen); SYM_ARR(tape); SYM(sep);
  SYM(sa_pre); SYM(sa_len0); SYM_ARR(sa_old); SYM_ARR(afail);
#endif
}

static ssize_t rd(int fd, char *buf, size_t len)
{
  unsigned int t, w, i;
  CHECK(fd == FD, "op is called with the stream's descriptor");
  CHECK(ncalls < TAPE, "tape long enough (harness sizing)");
  ASSUME(ncalls < TAPE);
  t = tape[ncalls++];
  if (t == 0) { errno = EINTR; return -1; }
  if (t == 255) { harderr = 1; errno = EIO; return -1; }
  if (srcpos >= slen) { eofseen = 1; return 0; }
  w = t; if (w > len) w = (unsigned int) len; if (w > slen - srcpos) w = slen - srcpos;
  for (i = 0; i < SMAX; ++i) { if (i >= w) break; buf[i] = (char) src[srcpos++]; }
  return (ssize_t) w;
}

static unsigned char stream0(unsigned int i) { return i < p0 ? xinit[BN - p0 + i] : i - p0 < SMAX ? src[i - p0] : 0; }

void vmain(void)
{
  unsigned int i, nz = 0, total, k;
  int rc, match = 7;
  sym_inputs();
  ASSUME(p0 <= BN && slen <= SMAX);
  for (i = 0; i < TAPE; ++i) if (tape[i] == 0) ++nz;
  ASSUME(nz <= 1);
  for (i = 0; i < BN; ++i) xbuf[i] = (char) xinit[i];
  ss.x = xbuf; ss.p = (int) p0; ss.n = (int) (BN - p0); ss.fd = FD; ss.op = rd;
  if (sa_pre) {
    ASSUME(sa_len0 <= CAP);
    for (i = 0; i < CAP; ++i) sabuf[i] = (char) sa_old[i];
    sa.s = sabuf; sa.a = CAP; sa.len = sa_len0;
  }
  total = p0 + slen;
  k = total;                                      /* index of the first sep in the stream, or total */
  for (i = 0; i < TMAX; ++i) { if (i >= total) break; if (stream0(i) == sep) { k = i; break; } }

  rc = getln(&ss, &sa, &match, (int) sep);

  CHECK(rc == 0 || rc == -1, "layer0(getln): returns 0 or -1");
  CHECK(ss.x == xbuf && ss.p >= 0 && ss.n >= 0 && ss.p + ss.n == BN, "layer0(getln): stream state stays valid");
  if (sa.s) CHECK(sa.len <= sa.a, "layer0(getln): len <= a");
  if (rc == -1) {
    CHECK(harderr || ta_failed, "layer0(getln): -1 only after a hard read error or a refused allocation");
    if (harderr) WITNESS("read_error");
    if (ta_failed && !harderr) WITNESS("alloc_refused");
  } else {
    unsigned int p = (unsigned int) ss.p, want = (k < total) ? k + 1 : total;
    CHECK(sa.len <= granted, "layer0(getln): the line never occupies more than getln asked the allocator for");
    CHECK(match == 0 || match == 1, "layer0(getln): match is set to 0 or 1");
    CHECK(match == (k < total), "layer0(getln): match says whether the separator was found");
    if (match == 0) CHECK(eofseen, "layer0(getln): a partial line is only returned at end of input");
    CHECK(sa.s != 0 && sa.len == want, "layer0(getln): line is exactly the bytes up to and including the first separator (or all, at EOF)");
    for (i = 0; i < TMAX; ++i) {
      if (i >= want || i >= sa.len) break;
      CHECK((unsigned char) sa.s[i] == stream0(i), "layer0(getln): line bytes are the stream's bytes, in order");
    }
    /* the rest of the stream is left for the next call */
    CHECK(p + (slen - srcpos) + want == total, "layer0(getln): nothing after the separator is consumed or lost");
    for (i = 0; i < BN; ++i) {
      if (i >= p) break;
      CHECK((unsigned char) xbuf[BN - p + i] == stream0(want + i), "layer0(getln): bytes after the separator stay in the buffer, in order");
    }
    if (match && k >= BN && ss.p > 0) WITNESS("line_across_refills_rest_kept");
    if (match && want == 1) WITNESS("empty_line");
    if (!match && total > 0) WITNESS("partial_line_at_eof");
    if (!match && total == 0) WITNESS("eof");
    if (acalls >= 3) WITNESS("grew");
    WITNESS("line");
  }
}
