/* C20 (f) - dns.c record walkers findname / findip / findmx (static; reached by including
 * a regenerated copy of dns.c), driven directly from a symbolic walker state:
 *   response buffer of exactly B bytes, all contents symbolic; responselen any 1..B-1
 *   (resolve() guarantees 0 < responselen < responsebuflen); responsepos anywhere from
 *   the start of the buffer up to responselen + 65535 (where an earlier record's
 *   `responsepos += rrdlen` can have left it); numanswers and wanttype any int.
 * One call of FN 0 findname, 1 findip, 2 findmx; FN 3: resolve() itself with the resolver
 * call replaced by a stub that fills the buffer and returns any length 1..B-1 (TC bit clear:
 * the 64 KiB EDNS retry is outside), i.e. its question-section loop over qdcount.  Obligation: every read is inside the
 * buffer (cbmc pointer/bounds checks; ASan on a malloc(B) block natively), result is one of
 * 0, 1, 2, DNS_SOFT, and a record is only reported (1) when its data lies in the buffer.
 *
 * dn_expand is replaced by its resolver(3) contract: returns -1, or the number of bytes
 * the compressed name occupies, 1..(eom - src), and then stores a NUL-terminated name in
 * dst (< dstsiz bytes); a src outside [msg, eom) is an error (-1, EMSGSIZE in glibc/BIND). */
#include "verif.h"
#include <stdint.h>
#include "gen_dns.c"

#ifndef B
#define B 40
#endif
#ifndef FN
#define FN 1
#endif

unsigned char rbytes[B];
unsigned int rlen, roff;
int nans, wtype;
unsigned char dn_fail;          /* dn_expand call k fails if bit k is set */
unsigned int dn_len[2];         /* bytes the compressed name occupies (clipped to 1..remaining) */
unsigned char dn_name[3];       /* expanded name (<= 2 bytes + NUL) */

#ifdef VERIF_CBMC
static unsigned char rstore[B];
#define POFF(q) ((long) __CPROVER_POINTER_OFFSET(q))
#else
#define POFF(q) ((long) ((uintptr_t) (q) - (uintptr_t) response.buf))
#endif
static unsigned int dn_calls;

void sym_inputs(void)
{
#ifdef REPLAY
#include "replay_inputs.inc"
#else
  SYM_ARR(rbytes); SYM(rlen); SYM(roff); SYM(nans); SYM(wtype); SYM(dn_fail); SYM_ARR(dn_len); SYM_ARR(dn_name);
#endif
}

int vf_dn_expand(const unsigned char *msg, const unsigned char *eom, const unsigned char *src, char *dst, int dstsiz)
{
  long off = POFF(src), end = POFF(eom), r;
  unsigned int k = dn_calls++;
  CHECK(msg == response.buf && end == (long) rlen, "dn_expand is given the response and its end");
  CHECK(dst == name && dstsiz == MAXDNAME, "dn_expand expands into name[MAXDNAME]");
#if FN != 3
  CHECK(k < 2, "at most two names per record");
  ASSUME(k < 2);
#endif
  if (off < 0 || off >= end) return -1;                 /* name would start outside the message */
  if (dn_fail & (1u << (k & 7))) return -1;
  r = (long) dn_len[k & 1];
  if (r < 1) r = 1;
  if (r > end - off) r = end - off;
  dst[0] = (char) dn_name[0];
  if (dn_name[0]) { dst[1] = (char) dn_name[1]; if (dn_name[1]) dst[2] = 0; }
  return (int) r;
}

#if FN == 3
#ifdef VERIF_CBMC
/* glibc accessors behind `_res` and `h_errno`: plain objects for cbmc (natively the real ones are used) */
static struct __res_state the_res; static int the_h_errno;
struct __res_state *__res_state(void) { return &the_res; }
int *__h_errno_location(void) { return &the_h_errno; }
#endif
int stralloc_ready(stralloc *x, unsigned int n) { CHECK(x == &glue && n <= 8, "glue is pre-sized (harness sizing)"); ASSUME(n <= 8); return 1; }
int stralloc_readyplus(stralloc *x, unsigned int n) { return stralloc_ready(x, x->len + n); }
static int my_lookup(const char *dname, int class, int type, unsigned char *answer, int anslen)
{
  unsigned int i;
  CHECK(answer == response.buf && anslen == responsebuflen, "the resolver is given the response buffer and its size");
  CHECK(class == C_IN, "class IN");
  for (i = 0; i < B; ++i) answer[i] = rbytes[i];
  return (int) rlen;
}
#endif

void vmain(void)
{
  int r;
  unsigned int i;
  sym_inputs();
  ASSUME(rlen >= 1 && rlen < B);
#if FN == 3
  {
    static char dom[] = "ab", gstore[8];
    stralloc d;
    d.s = dom; d.len = 2; d.a = 3;
    ASSUME(!(rbytes[2] & 2));                         /* TC clear: no 64 KiB retry over TCP */
    /* a reply shorter than its own 12-byte header is allowed: resolve() then reads qdcount/ancount from bytes that
     * are inside the buffer but behind the reply, and the walkers refuse the position behind the end */
#ifdef VERIF_CBMC
    response.buf = rstore;
#else
    response.buf = (unsigned char *) malloc(B);
#endif
    responsebuflen = B;
    glue.s = gstore; glue.a = sizeof gstore; glue.len = 0;
    lookup = my_lookup;
    r = resolve(&d, wtype);
    CHECK(r == 0 || r == DNS_SOFT || r == DNS_HARD || r == DNS_MEM, "C20(dns): resolve returns 0 or a DNS_* code");
    if (r == 0) {
      if (rlen >= sizeof(HEADER)) CHECK(POFF(responsepos) >= (long) sizeof(HEADER) && POFF(responsepos) <= (long) rlen, "C20(dns): after the question section the walker stands inside the response");
      if (rlen < sizeof(HEADER)) WITNESS("reply_shorter_than_header");
      if (dn_calls >= 2) WITNESS("two_questions_skipped");
      WITNESS("resolved");
    }
    if (r == DNS_SOFT) WITNESS("soft_truncated_question");
    return;
  }
#endif
  ASSUME(roff <= rlen + 65535);
#ifdef VERIF_CBMC
  response.buf = rstore;
#else
  response.buf = (unsigned char *) malloc(B);
#endif
  for (i = 0; i < B; ++i) response.buf[i] = rbytes[i];
  responsebuflen = B;
  responselen = (int) rlen;
  responseend = response.buf + rlen;
  responsepos = response.buf + roff;
  numanswers = nans;

#if FN == 0
  r = findname(wtype);
#elif FN == 1
  r = findip(wtype);
#else
  r = findmx(wtype);
#endif

  CHECK(r == 0 || r == 1 || r == 2 || r == DNS_SOFT, "C20(dns): result is 0, 1, 2 or DNS_SOFT");
  CHECK(POFF(responsepos) >= 0, "C20(dns): the walker never moves backwards out of the buffer");
  if (r == 2) { CHECK(nans <= 0, "2 only when no answers are left"); WITNESS("no_more_answers"); }
  if (r == 1) {
    CHECK(roff < rlen, "C20(dns): a record is only reported when it starts inside the response");
    if (POFF(responsepos) > (long) rlen) WITNESS("record_claims_data_beyond_response");
    WITNESS("record_found");
  }
  if (r == 0) WITNESS("other_type_skipped");
  if (r == DNS_SOFT && roff > rlen) WITNESS("soft_position_beyond_end");
  if (r == DNS_SOFT && roff < rlen && dn_calls >= 1 && !(dn_fail & 1)) WITNESS("soft_truncated_record");
}
