/* C20 (f) - dns.c record walkers findname / findip / findmx (static; reached by including
 * a regenerated copy of dns.c), driven directly from a symbolic walker state:
 *   response buffer of exactly B bytes, all contents symbolic; responselen any 1..B-1
 *   (resolve() guarantees 0 < responselen < responsebuflen); responsepos anywhere from
 *   the start of the buffer up to responselen + 65535 (where an earlier record's
 *   `responsepos += rrdlen` can have left it); numanswers and wanttype any int.
 * One call of FN 0 findname, 1 findip, 2 findmx.  Obligation: every read is inside the
 * buffer (cbmc pointer/bounds checks; ASan on a malloc(B) block natively), result is one of
 * 0, 1, 2, DNS_SOFT, and a record is only reported (1) when its data lies in the buffer.
 *
 * dn_expand is replaced by its resolver(3) contract: returns -1, or the number of bytes
 * the compressed name occupies, 1..(eom - src), and then stores a NUL-terminated name in
 * dst (< dstsiz bytes); a src outside [msg, eom) is an error (-1, EMSGSIZE in glibc/BIND). */
#include "verif.h"
#include <stdint.h>
#include "gen_dns.c"

#ifndef B
#define B 40
#endif
#ifndef FN
#define FN 1
#endif

unsigned char rbytes[B];
unsigned int rlen, roff;
int nans, wtype;
unsigned char dn_fail;          /* dn_expand call k fails if bit k is set */
unsigned int dn_len[2];         /* bytes the compressed name occupies (clipped to 1..remaining) */
unsigned char dn_name[3];       /* expanded name (<= 2 bytes + NUL) */

#ifdef VERIF_CBMC
static unsigned char rstore[B];
#define POFF(q) ((long) __CPROVER_POINTER_OFFSET(q))
#else
#define POFF(q) ((long) ((uintptr_t) (q) - (uintptr_t) response.buf))
#endif
static unsigned int dn_calls;

void sym_inputs(void)
{
#ifdef REPLAY
#include "replay_inputs.inc"
#else
  SYM_ARR(rbytes); SYM(rlen); SYM(roff); SYM(nans); SYM(wtype); SYM(dn_fail); SYM_ARR(dn_len); SYM_ARR(dn_name);
#endif
}

int vf_dn_expand(const unsigned char *msg, const unsigned char *eom, const unsigned char *src, char *dst, int dstsiz)
{
  long off = POFF(src), end = POFF(eom), r;
  unsigned int k = dn_calls++;
  CHECK(msg == response.buf && end == (long) rlen, "dn_expand is given the response and its end");
  CHECK(dst == name && dstsiz == MAXDNAME, "dn_expand expands into name[MAXDNAME]");
  CHECK(k < 2, "at most two names per record");
  ASSUME(k < 2);
  if (off < 0 || off >= end) return -1;                 /* name would start outside the message */
  if (dn_fail & (1u << k)) return -1;
  r = (long) dn_len[k];
  if (r < 1) r = 1;
  if (r > end - off) r = end - off;
  dst[0] = (char) dn_name[0];
  if (dn_name[0]) { dst[1] = (char) dn_name[1]; if (dn_name[1]) dst[2] = 0; }
  return (int) r;
}

void vmain(void)
{
  int r;
  unsigned int i;
  sym_inputs();
  ASSUME(rlen >= 1 && rlen < B);
  ASSUME(roff <= rlen + 65535);
#ifdef VERIF_CBMC
  response.buf = rstore;
#else
  response.buf = (unsigned char *) malloc(B);
#endif
  for (i = 0; i < B; ++i) response.buf[i] = rbytes[i];
  responsebuflen = B;
  responselen = (int) rlen;
  responseend = response.buf + rlen;
  responsepos = response.buf + roff;
  numanswers = nans;

#if FN == 0
  r = findname(wtype);
#elif FN == 1
  r = findip(wtype);
#else
  r = findmx(wtype);
#endif

  CHECK(r == 0 || r == 1 || r == 2 || r == DNS_SOFT, "C20(dns): result is 0, 1, 2 or DNS_SOFT");
  CHECK(POFF(responsepos) >= 0, "C20(dns): the walker never moves backwards out of the buffer");
  if (r == 2) { CHECK(nans <= 0, "2 only when no answers are left"); WITNESS("no_more_answers"); }
  if (r == 1) {
    CHECK(roff < rlen, "C20(dns): a record is only reported when it starts inside the response");
    if (POFF(responsepos) > (long) rlen) WITNESS("record_claims_data_beyond_response");
    WITNESS("record_found");
  }
  if (r == 0) WITNESS("other_type_skipped");
  if (r == DNS_SOFT && roff > rlen) WITNESS("soft_position_beyond_end");
  if (r == DNS_SOFT && roff < rlen && dn_calls >= 1 && !(dn_fail & 1)) WITNESS("soft_truncated_record");
}
