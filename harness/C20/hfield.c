/* C20 (g) - hfield.c: hfield_valid, hfield_known, hfield_skipname on any header line of
 * exactly LN bytes (no terminator) in an exactly-sized block: every read is inside the
 * line; skipname <= len; known is an index into the name table. */
#include "verif.h"
#include "hfield.h"
#ifndef LN
#define LN 6
#endif
unsigned char line[LN ? LN : 1];
void sym_inputs(void)
{
#ifdef REPLAY
#include "replay_inputs.inc"
#else
  SYM_ARR(line);
#endif
}
void vmain(void)
{
#ifdef VERIF_CBMC
  static char store[LN ? LN : 1]; char *blk = store + (LN ? 0 : 1);
#else
  char *blk = (char *) malloc(LN ? LN : 1);
#endif
  unsigned int i, sk; int v, k;
  sym_inputs();
  for (i = 0; i < LN; ++i) blk[i] = (char) line[i];
  v = hfield_valid(blk, LN);
  k = hfield_known(blk, LN);
  sk = hfield_skipname(blk, LN);
  CHECK(v == 0 || v == 1, "hfield_valid returns 0 or 1");
  CHECK(k >= 0 && k <= 28, "C20(hfield): hfield_known returns an index of the name table");
  CHECK(sk <= LN, "C20(hfield): hfield_skipname stays inside the line");
  if (k) { CHECK(v, "a known field is a valid field"); WITNESS("known_field"); }
  if (v && !k) WITNESS("valid_unknown_field");
  if (!v) WITNESS("not_a_field");
}
