/* C20 (g) - control files: control.c (control_readfile, control_readline, control_readint,
 * striptrailingwhitespace) and constmap.c (constmap_init, constmap) on a control file of
 * exactly N arbitrary bytes (grid; NULs, no final newline, comment lines included).
 * getln = ideal stream; the strallocs are pre-sized exactly; constmap's five arrays come
 * from a malloc stub that hands out exactly-sized blocks (sizes are num*sizeof: concrete
 * pools, end-aligned), so a token count that disagrees with the fill loop is an
 * out-of-bounds access.
 * KIND 0: readfile -> constmap_init(flagcolon any) -> one constmap() lookup (key <= 2 bytes):
 *         the answer is NULL or points into the file data.
 * KIND 1: readline / readint on the same bytes. */
#include "verif.h"
#include <errno.h>
#include "gen_control.c"
#include "constmap.h"

#ifndef N
#define N 5
#endif
#ifndef KIND
#define KIND 0
#endif
#define CAP (N + 3)
#define POOLB (8 * (N + 2))

unsigned char in[N ? N : 1];
unsigned char key[2]; unsigned int klen, flagcolon, open_mode;
static unsigned int inpos;
static char sabuf[CAP], linebuf[CAP];
static stralloc sa;
static long pool0[POOLB / 8], pool1[POOLB / 8], pool2[POOLB / 8], pool3[POOLB / 8], firstpool[64 * sizeof(int) / 8];
static long *const pool[4] = { pool0, pool1, pool2, pool3 };     /* separate objects: an overflow leaves the object */
static unsigned int npool;

void sym_inputs(void)
{
#ifdef REPLAY
#include "replay_inputs.inc"
#else
  SYM_ARR(in); SYM_ARR(key); SYM(klen); SYM(flagcolon); SYM(open_mode);
#endif
}

int ideal_getc(substdio *s) { if (inpos >= N) return -1; return in[inpos++]; }
int ideal_putc(substdio *s, unsigned char c) { return 0; }
int ideal_flush(substdio *s) { return 0; }
int open_read(const char *fn) { if (open_mode == 1) { errno = ENOENT; return -1; } if (open_mode == 2) { errno = EIO; return -1; } return 3; }
int vf_close(int fd) { return 0; }

static int presized(stralloc *x, unsigned int n)
{
  CHECK(x == &sa || x == &line, "control.c grows the caller's stralloc and its own line buffer");
  CHECK(n <= CAP, "C20(control): growth stays inside what a file of N bytes can need (harness sizing)");
  ASSUME(n <= CAP);
  return 1;
}
int stralloc_ready(stralloc *x, unsigned int n) { return presized(x, n); }
int stralloc_readyplus(stralloc *x, unsigned int n) { return presized(x, x->len + n); }

void *vf_malloc(size_t size)
{
  if (size == 64 * sizeof(int)) return firstpool;                 /* cm->first: 64 buckets for up to 64 entries */
  CHECK(npool < 4 && size <= POOLB, "constmap_init: four arrays of num entries (harness sizing)");
  ASSUME(npool < 4 && size <= POOLB);
  return (char *) pool[npool++] + (POOLB - size);                 /* block ends where the pool ends */
}
void vf_free(void *p) {}

void vmain(void)
{
  int r;
  sym_inputs();
  ASSUME(open_mode <= 2 && klen <= 2);
  sa.s = sabuf; sa.a = CAP; line.s = linebuf; line.a = CAP;
#if KIND == 0
  {
    struct constmap cm;
    char *hit;
    r = control_readfile(&sa, "control/locals", 0);
    CHECK(r == 1 || r == 0 || r == -1, "control_readfile returns 1, 0 or -1");
    if (r == 0) { CHECK(open_mode == 1, "0 only when the file does not exist"); WITNESS("no_file"); return; }
    if (r == -1) { CHECK(open_mode == 2, "-1 only on a real error"); WITNESS("open_error"); return; }
    CHECK(sa.len <= N + 1, "C20(control): the data is never longer than the file plus one terminator");
    CHECK(sa.len == 0 || sa.s[sa.len - 1] == 0, "C20(control): every entry is NUL-terminated");
    if (!constmap_init(&cm, sa.s, sa.len, flagcolon)) { CHECK(0, "allocation does not fail here"); return; }
    CHECK(cm.num >= 0 && cm.num <= N + 1, "entry count bounded by the file size");
    hit = constmap(&cm, (char *) key, klen);
    if (hit) {
      CHECK(hit > sa.s && hit <= sa.s + sa.len, "C20(constmap): a hit points into the control data");
      WITNESS("lookup_hit");
    } else WITNESS("lookup_miss");
    if (cm.num >= 2) WITNESS("two_entries");
    if (sa.len == 0) WITNESS("only_comments_or_blank");
  }
#else
  {
    int val = -7;
    r = control_readline(&sa, "control/me");
    CHECK(r == 1 || r == 0 || r == -1, "control_readline returns 1, 0 or -1");
    if (r == 1) { CHECK(sa.len <= N, "line not longer than the file"); if (sa.len && sa.len < N) WITNESS("whitespace_stripped_or_second_line_ignored"); WITNESS("line"); }
    inpos = 0;
    r = control_readint(&val, "control/databytes");
    CHECK(r == 1 || r == 0 || r == -1, "control_readint returns 1, 0 or -1");
    if (r == 1) WITNESS("integer");
    if (r == 0 && open_mode == 0) WITNESS("not_a_number");
  }
#endif
}
