/* C20 (g) small kernels - numbers and addresses in text form.  Real code: scan_ulong.c,
 * ip.c, fmt_ulong.c, fmt_uint.c, fmt_uint0.c, fmt_str.c, date822fmt.c, datetime.c.
 * KIND 0  scan_ulong / ip_scan / ip_scanbracket on any NUL-terminated string of S bytes held
 *         in an exactly-sized block: no read behind the NUL, result <= strlen (so the callers'
 *         `s[result]` is inside the string), digits consumed are exactly the leading digits.
 * KIND 1  fmt_ulong(s,u), every u < 2^32 (64-bit dividers in a 20-round loop do not close):
 *         the length announced by fmt_ulong(0,u) is 1..10 < FMT_ULONG, and exactly that many
 *         bytes are written (block of exactly that size), decimal digits only.
 * KIND 2  fmt_uint0(s,u,n), u < 10^6, n <= 8: length == max(digits,n), exactly that many
 *         bytes written, zero padded.
 * KIND 3  datetime_tai(t) for every 0 <= t < 2^40: hour 0..23, min/sec 0..59, mon 0..11 (the
 *         index into date822fmt's month table), mday 1..31, wday 0..6, year 70..34912.
 * KIND 4  date822fmt(s,dt) for every dt inside those ranges with year+1900 <= 9999: returns
 *         the same length with and without buffer, 26..27 bytes <= DATE822FMT, writes exactly
 *         that many bytes (block of exactly that size). */
#include "verif.h"
#include <string.h>
#include "scan.h"
#include "fmt.h"
#include "ip.h"
#include "datetime.h"
#include "date822fmt.h"

#ifndef KIND
#define KIND 0
#endif
#ifndef S
#define S 6
#endif

#ifdef VERIF_CBMC
#define BLOCK(name, n) static char name##_store[(n) ? (n) : 1]; char *name = name##_store + ((n) ? 0 : 1)
#else
#define BLOCK(name, n) char *name = (char *) malloc((n) ? (n) : 1)
#endif

unsigned char str[S + 1];
unsigned long u64;
unsigned int u32, pad;
long tsec;
struct datetime dtin;

void sym_inputs(void)
{
#ifdef REPLAY
#include "replay_inputs.inc"
#else
  SYM_ARR(str); SYM(u64); SYM(u32); SYM(pad); SYM(tsec); SYM(dtin);
#endif
}

void vmain(void)
{
  unsigned int i;
  sym_inputs();
#if KIND == 0
  {
    BLOCK(blk, S + 1);
    unsigned int n, r, nd = 0;
    unsigned long v;
    struct ip_address ip;
    for (i = 0; i < S; ++i) { ASSUME(str[i] != 0); blk[i] = (char) str[i]; }
    blk[S] = 0;
    for (i = 0; i < S; ++i) { if (str[i] < '0' || str[i] > '9') break; ++nd; }
    n = scan_ulong(blk, &v);
    CHECK(n == nd, "C20(scan): scan_ulong consumes exactly the leading digits");
    r = ip_scan(blk, &ip);
    CHECK(r <= S, "C20(scan): ip_scan result is an index inside the string");
    if (r) { CHECK(r >= 7, "a dotted quad has at least 7 characters"); WITNESS("ip_accepted"); }
    r = ip_scanbracket(blk, &ip);
    CHECK(r <= S, "C20(scan): ip_scanbracket result is an index inside the string");
    if (r) { CHECK(blk[0] == '[' && blk[r - 1] == ']', "bracketed"); WITNESS("bracketed_ip_accepted"); }
    if (nd == S) WITNESS("all_digits");
    WITNESS("scanned");
  }
#elif KIND == 1
  {
    unsigned int len, len2;
    ASSUME(u64 <= 0xffffffffUL);
    len = fmt_ulong(FMT_LEN, u64);
    CHECK(len >= 1 && len <= 10, "C20(fmt): a 32-bit number has 1..10 digits (< FMT_ULONG)");
    ASSUME(len >= 1 && len <= 10);
    {
#ifdef VERIF_CBMC
      static char store[20]; char *blk = store + (20 - len);          /* block of exactly len bytes */
#else
      char *blk = (char *) malloc(len);
#endif
      len2 = fmt_ulong(blk, u64);
      CHECK(len2 == len, "C20(fmt): same length with and without buffer");
      for (i = 0; i < 20; ++i) { if (i >= len) break; CHECK(blk[i] >= '0' && blk[i] <= '9', "digits only"); }
    }
    if (len == 10) WITNESS("ten_digits");
    if (u64 == 0) WITNESS("zero");
    WITNESS("formatted");
  }
#elif KIND == 2
  {
    unsigned int len, len2, nd;
    ASSUME(u32 < 1000000 && pad <= 8);
    nd = u32 < 10 ? 1 : u32 < 100 ? 2 : u32 < 1000 ? 3 : u32 < 10000 ? 4 : u32 < 100000 ? 5 : 6;
    len = fmt_uint0(FMT_LEN, u32, pad);
    CHECK(len == (nd > pad ? nd : pad), "C20(fmt): fmt_uint0 length is max(digits, n)");
    ASSUME(len <= 8);
    {
#ifdef VERIF_CBMC
      static char store[8]; char *blk = store + (8 - len);
#else
      char *blk = (char *) malloc(len);
#endif
      len2 = fmt_uint0(blk, u32, pad);
      CHECK(len2 == len, "same length with and without buffer");
      for (i = 0; i < 8; ++i) { if (i + nd >= len) break; CHECK(blk[i] == '0', "zero padded on the left"); }
    }
    if (pad > nd) WITNESS("padded");
    if (nd > pad) WITNESS("longer_than_field");
    WITNESS("formatted");
  }
#elif KIND == 3
  {
    struct datetime dt;
    ASSUME(tsec >= 0 && tsec < (1L << 40));
    datetime_tai(&dt, tsec);
    CHECK(dt.hour >= 0 && dt.hour <= 23 && dt.min >= 0 && dt.min <= 59 && dt.sec >= 0 && dt.sec <= 59, "C20(date): time of day in range");
    CHECK(dt.mon >= 0 && dt.mon <= 11, "C20(date): month index 0..11 (date822fmt's montab[12])");
    CHECK(dt.mday >= 1 && dt.mday <= 31, "C20(date): day of month 1..31");
    CHECK(dt.wday >= 0 && dt.wday <= 6, "C20(date): day of week 0..6");
    CHECK(dt.year >= 70 && dt.year <= 34912, "C20(date): year 1970..36812 for t < 2^40");
    if (dt.mon == 1 && dt.mday == 29) WITNESS("feb_29");
    if (dt.mon == 11 && dt.mday == 31 && dt.hour == 23 && dt.min == 59 && dt.sec == 59) WITNESS("last_second_of_a_year");
    if (tsec == 0) { CHECK(dt.year == 70 && dt.mon == 0 && dt.mday == 1 && dt.wday == 4, "epoch is Thu 1 Jan 1970"); WITNESS("epoch"); }
    WITNESS("converted");
  }
#else
  {
    unsigned int len, len2;
    ASSUME(dtin.hour >= 0 && dtin.hour <= 23 && dtin.min >= 0 && dtin.min <= 59 && dtin.sec >= 0 && dtin.sec <= 59);
    ASSUME(dtin.mon >= 0 && dtin.mon <= 11 && dtin.mday >= 1 && dtin.mday <= 31 && dtin.year >= 70 && dtin.year <= 8099);
    len = date822fmt(FMT_LEN, &dtin);
    CHECK(len >= 26 && len <= 27 && len <= DATE822FMT, "C20(date): date822fmt needs 26..27 bytes, DATE822FMT is enough");
    ASSUME(len >= 26 && len <= 27);
    {
#ifdef VERIF_CBMC
      static char store[27]; char *blk = store + (27 - len);
#else
      char *blk = (char *) malloc(len);
#endif
      len2 = date822fmt(blk, &dtin);
      CHECK(len2 == len, "C20(date): same length with and without buffer");
      CHECK(blk[len - 1] == '\n' && blk[len - 7] == ' ' && blk[len - 6] == '-', "ends with ' -0000' and newline");
    }
    if (len == 26) WITNESS("one_digit_day");
    if (len == 27) WITNESS("two_digit_day");
    WITNESS("formatted");
  }
#endif
}
