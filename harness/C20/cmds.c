/* C20 (g) - commands.c commands(): the SMTP/POP3 command reader, every input stream of
 * exactly N bytes (grid; all byte values) followed by EOF.  The line buffer `cmd` grows one
 * byte per input byte through stralloc_readyplus(&cmd,1) - the CVE-2005-1514 shape: the
 * growth arithmetic for ANY 32-bit length is alloc_arith_stralloc_readyplus; here the buffer
 * is pre-sized (N+1 bytes exactly) and at every read the invariant
 *     destination == cmd.s + cmd.len  and  cmd.len < what was asked for
 * is checked, as are the NUL-termination and the argument pointer handed to the handlers. */
#include "verif.h"
#include "gen_commands.c"

#ifndef N
#define N 6
#endif
unsigned char in[N ? N : 1];
static unsigned int inpos, ncalls, nflush;
static unsigned int granted;
static char cbuf[N + 1];
static substdio ssin_;

void sym_inputs(void)
{
#ifdef REPLAY
#include "replay_inputs.inc"
#else
  SYM_ARR(in);
#endif
}

int stralloc_ready(stralloc *x, unsigned int n)
{
  CHECK(x == &cmd && n <= N + 1, "C20(commands): never asks for more than the line needs (harness sizing)");
  ASSUME(n <= N + 1);
  if (n > granted) granted = n;
  return 1;
}
int stralloc_readyplus(stralloc *x, unsigned int n) { return stralloc_ready(x, x->len + n); }

ssize_t substdio_get(substdio *s, char *buf, size_t len)
{
  CHECK(s == &ssin_ && len == 1, "reads one byte at a time");
  /* the byte may be read straight into the line buffer (then it must lie inside what was
   * granted) or into some other one-byte object and appended afterwards */
  if (buf >= cmd.s && buf <= cmd.s + N + 1) {
    CHECK(buf == cmd.s + cmd.len, "C20(commands): a byte read in place goes to cmd.s + cmd.len");
    CHECK(cmd.len < granted && granted <= cmd.a, "C20(commands): ... which is inside what stralloc_readyplus granted");
  }
  if (inpos >= N) return 0;
  *buf = (char) in[inpos++];
  return 1;
}

static void check_arg(char *arg)
{
  unsigned int i, nul = 0;
  ++ncalls;
  CHECK(arg >= cmd.s && arg <= cmd.s + cmd.len, "C20(commands): the argument points into the line buffer");
  CHECK(cmd.len < granted && granted <= cmd.a, "C20(commands): the terminating NUL at cmd.s[cmd.len] lies inside what stralloc_readyplus granted");
  for (i = 0; i < N + 1; ++i) { if (arg + i > cmd.s + cmd.len) break; if (!arg[i]) { nul = 1; break; } }
  CHECK(nul, "C20(commands): the argument is NUL-terminated inside the buffer");
}
static void f_ab(char *arg) { check_arg(arg); WITNESS("verb_ab_dispatched_case_insensitively"); }
static void f_q(char *arg) { check_arg(arg); if (arg[0]) WITNESS("verb_with_argument"); }
static void f_default(char *arg) { check_arg(arg); }
static void fl(void) { ++nflush; }
static struct commands tab[] = { { "ab", f_ab, 0 }, { "q", f_q, fl }, { 0, f_default, 0 } };

void vmain(void)
{
  int r;
  sym_inputs();
  cmd.s = cbuf; cmd.a = N + 1; cmd.len = 0;
  r = commands(&ssin_, tab);
  CHECK(r == 0, "commands returns 0 at end of input");
  if (ncalls >= 2) WITNESS("two_commands");
  if (ncalls == 0) WITNESS("no_complete_line");
  WITNESS("eof");
}
