/* tiny_alloc.h - malloc/realloc/free stand-ins for the C20 unit lemmas (included by the
 * harness; the code under test is compiled with -Dmalloc=vf_malloc etc., see sysrename).
 *
 * A very small machine: TA_POOLS objects of TA_POOLSZ bytes.  A request larger than
 * TA_POOLSZ fails (a legal behaviour of malloc), a request may also fail on demand
 * (ta_fail[], filled by the harness in sym_inputs), otherwise the caller gets a pointer
 * such that the object ENDS exactly at the end of a pool: any access beyond the requested
 * size is outside the object for cbmc and inside ASan's redzone natively.  cbmc never
 * sees an allocation of symbolic size.  Every request is recorded (ta_req[]). */
#ifndef TINY_ALLOC_H
#define TINY_ALLOC_H
#include <stddef.h>

#ifndef TA_POOLSZ
#define TA_POOLSZ 64
#endif
#define TA_POOLS 6

static char ta_p0[TA_POOLSZ], ta_p1[TA_POOLSZ], ta_p2[TA_POOLSZ], ta_p3[TA_POOLSZ], ta_p4[TA_POOLSZ], ta_p5[TA_POOLSZ];
static char *const ta_pool[TA_POOLS] = { ta_p0, ta_p1, ta_p2, ta_p3, ta_p4, ta_p5 };
static size_t ta_size[TA_POOLS];          /* size of the object living in pool k */
static int ta_freed[TA_POOLS];
static unsigned int ta_used;              /* pools handed out so far */
unsigned char ta_fail[TA_POOLS];          /* INPUT: ta_fail[i] != 0: the i-th request fails */
static unsigned int ta_calls;             /* requests so far */
static size_t ta_req[TA_POOLS];           /* requested sizes, in order */
static int ta_failed;                     /* some request was refused */

static void *ta_get(size_t size)
{
  unsigned int idx = ta_calls++;
  CHECK(idx < TA_POOLS, "tiny_alloc: more allocation requests than TA_POOLS (harness sizing)");
  ASSUME(idx < TA_POOLS);
  ta_req[idx] = size;
  if (size > TA_POOLSZ || ta_fail[idx]) { ta_failed = 1; return 0; }
  CHECK(ta_used < TA_POOLS, "tiny_alloc: out of pools (harness sizing)");
  ASSUME(ta_used < TA_POOLS);
  ta_size[ta_used] = size;
  return ta_pool[ta_used++] + (TA_POOLSZ - size);
}

static int ta_find(const void *p)
{
  unsigned int k;
  for (k = 0; k < TA_POOLS; ++k)
    if (k < ta_used && (const char *) p == ta_pool[k] + (TA_POOLSZ - ta_size[k])) return (int) k;
  return -1;
}

/* an object of `size` bytes as a pre-state (not counted as a request) */
static void *ta_preexisting(size_t size)
{
  ASSUME(size <= TA_POOLSZ && ta_used < TA_POOLS);
  ta_size[ta_used] = size;
  return ta_pool[ta_used++] + (TA_POOLSZ - size);
}

void *vf_malloc(size_t size) { return ta_get(size); }

void vf_free(void *p)
{
  int k;
  if (!p) return;
  k = ta_find(p);
  CHECK(k >= 0 && !ta_freed[k], "free() of a pointer that is not a live allocation");
  if (k >= 0) ta_freed[k] = 1;
}

void *vf_realloc(void *p, size_t size)
{
  int k;
  char *q;
  size_t i, n;
  if (!p) return ta_get(size);
  k = ta_find(p);
  CHECK(k >= 0 && !ta_freed[k], "realloc() of a pointer that is not a live allocation");
  ASSUME(k >= 0);
  q = (char *) ta_get(size);
  if (!q) return 0;                       /* the old object stays valid */
  n = ta_size[k] < size ? ta_size[k] : size;
  for (i = 0; i < TA_POOLSZ; ++i) { if (i >= n) break; q[i] = ((char *) p)[i]; }
  ta_freed[k] = 1;
  return q;
}
#endif
