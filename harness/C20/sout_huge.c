/* C20 layer 0 (a') - substdio_put / substdio_bput (REAL substdo.c) for ANY len up to
 * SIZE_MAX from an arbitrary valid state: the copy arithmetic only (the CVE-2005-1515
 * shape: a length that is truncated or compared in the wrong type makes byte_copy write
 * past the buffer).
 *
 * Nothing is copied here: byte_copy is an observing stub (byte_copy.c is not linked) that
 * checks, at every call, destination == x + p, length <= free space, and source range
 * inside [buf, buf+len); op never looks at the bytes, it accepts any 1..len of them
 * (symbolic 64-bit amounts) or fails.  Loops over a huge len cannot be unwound, so the op
 * is made to fail hard at the latest at its KMAX-th call (stated bound): every path has at
 * most KMAX op calls, each of them with an arbitrary length.
 * Success (rc 0) is therefore only reachable for len <= 2*max(8192,n)+n, failure for all. */
#include "verif.h"
#include <errno.h>
#include "substdio.h"

#ifndef BN
#define BN 4
#endif
#ifndef OP
#define OP 0          /* 0 put, 1 bput */
#endif
#define KMAX 3
#define FD 7

unsigned int p0;                    /* fill of the buffer, 0..BN */
size_t hlen;                        /* ANY length */
unsigned long wtape[KMAX];          /* per op call: 0 = hard error, else accept min(w,len) bytes */

static char xbuf[BN];
static char dbuf[4];                /* never dereferenced */
static substdio ss;
static unsigned int ncalls;
static int harderr;
static size_t from_x, from_d;       /* bytes op accepted out of the buffer / out of the caller's data */
static size_t copied;               /* bytes byte_copy moved from the caller's data into the buffer */

void sym_inputs(void)
{
#ifdef REPLAY
#include "replay_inputs.inc"
#else
  SYM(p0); SYM(hlen); SYM_ARR(wtape);
#endif
}

#ifdef VERIF_CBMC
#define IN_XBUF(q) (__CPROVER_POINTER_OBJECT(q) == __CPROVER_POINTER_OBJECT(xbuf))
#define DOFF(q) ((size_t) __CPROVER_POINTER_OFFSET(q))      /* offset from dbuf; the pointer may lie far outside it */
#else
#include <stdint.h>
#define IN_XBUF(q) ((uintptr_t) (q) >= (uintptr_t) xbuf && (uintptr_t) (q) <= (uintptr_t) (xbuf + BN))
#define DOFF(q) ((size_t) ((uintptr_t) (q) - (uintptr_t) dbuf))
#endif

static ssize_t wr(int fd, const char *buf, size_t len)
{
  size_t w;
  CHECK(fd == FD, "op is called with the stream's descriptor");
  CHECK(len >= 1, "layer0(out,huge): op is never asked to write 0 bytes");
  if (ncalls >= KMAX || wtape[ncalls] == 0) { ++ncalls; harderr = 1; errno = EIO; return -1; }
  w = wtape[ncalls++];
  if (w > len) w = len;
  if (IN_XBUF(buf)) {
    CHECK((size_t) (buf - xbuf) + len <= BN, "layer0(out,huge): a flush writes only bytes of the buffer");
    from_x += w;
  } else {
    size_t off = DOFF(buf);
    CHECK(off <= hlen && len <= hlen - off, "layer0(out,huge): a direct write stays inside the caller's data");
    CHECK(off == from_d + copied, "layer0(out,huge): caller's data is consumed in order, nothing skipped");
    from_d += w;
  }
  return (ssize_t) w;
}

/* observing stand-in for byte_copy.c (contract: copies n bytes from `from` to `to`) */
void byte_copy(char *to, unsigned int n, char *from)
{
  size_t off = DOFF(from);
  CHECK(to == xbuf + ss.p, "layer0(out,huge): data is appended at x+p");
  CHECK(ss.p >= 0 && ss.p <= BN && n <= (unsigned int) (BN - ss.p),
        "layer0(out,huge): copy length never exceeds the free space (CVE-2005-1515 shape)");
  CHECK(off <= hlen && n <= hlen - off, "layer0(out,huge): copy source stays inside the caller's data");
  CHECK(off == from_d + copied, "layer0(out,huge): caller's data is consumed in order, nothing skipped");
  copied += n;
}

void vmain(void)
{
  int rc;
  sym_inputs();
  ASSUME(p0 <= BN);
  ss.x = xbuf; ss.p = (int) p0; ss.n = BN; ss.fd = FD; ss.op = wr;
#if OP == 0
  rc = substdio_put(&ss, dbuf, hlen);
#else
  rc = substdio_bput(&ss, dbuf, hlen);
#endif
  CHECK(rc == 0 || rc == -1, "returns 0 or -1");
  CHECK(ss.p >= 0 && ss.p <= BN && ss.n == BN && ss.x == xbuf, "layer0(out,huge): 0 <= p <= n afterwards, x and n unchanged");
  if (rc == 0) {
    CHECK(!harderr, "success is never reported after a hard write error");
    CHECK(from_d + copied == hlen, "layer0(out,huge): on success exactly len bytes were taken from the caller");
    CHECK(from_x + (size_t) ss.p == (size_t) p0 + copied, "layer0(out,huge): buffered bytes are written or still buffered");
    if (hlen > 8192 + BN) WITNESS("ok_len_beyond_outsize");
    WITNESS("ok");
  } else {
    CHECK(harderr, "-1 only after op failed hard");
    if (hlen > ((size_t) 1 << 62)) WITNESS("failed_len_above_2_62");
    if (hlen > 0xffffffffUL && (hlen & 0xffffffffUL) <= BN) WITNESS("failed_len_low32_small");
    WITNESS("failed");
  }
}
