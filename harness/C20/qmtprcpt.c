/* C20 (e) - qmail-qmtpd.c main(): the recipients section with its inner netstring-length
 * loop (the one that is not getlen()).  Template: the connection is
 *     "1:\n,"  "0:,"  followed by M arbitrary bytes (all 256 values) and EOF,
 * i.e. a one-byte message, an empty sender, and then whatever the client likes as
 * `biglen ':' (len ':' recipient ',')* ','`.  Real code: qmail-qmtpd.c main, getlen, getcomma,
 * fmt_*, stralloc_opys/pend; substdio = ideal streams with saferead's "EOF => _exit(0)";
 * qmail_*, received, rcpthosts, control_*, env_get are observing stubs (their side: C07).
 * Obligations: cbmc's bounds/pointer/overflow checks on buf[1000], failure.s[...], the int
 * counters; every recipient handed to rcpthosts()/qmail_to() is NUL-terminated inside buf and
 * shorter than 1000 bytes; the program ends only through 0, 100 or 111.
 * The functional side of the same section (replies, framing) is C07 qmtpd_tmpl_rcpt. */
#include "verif.h"
#include "gen_qmail-qmtpd.c"

#ifndef M
#define M 10
#endif
#define PRE 7
unsigned char tail[M ? M : 1];
unsigned char rcpt_verdict[4];
static const unsigned char pre[PRE] = { '1', ':', '\n', ',', '0', ':', ',' };
static unsigned int inpos, nto, nrh, package_done;
static char fbuf[M + 2];

void sym_inputs(void)
{
#ifdef REPLAY
#include "replay_inputs.inc"
#else
  SYM_ARR(tail); SYM_ARR(rcpt_verdict);
#endif
}

int ideal_getc(substdio *s)
{
  CHECK(s == &ssin, "QMTP input is descriptor 0");
  if (inpos >= PRE + M || package_done) { _exit(0); }      /* the client goes away after its first complete package */
  ++inpos;
  return inpos <= PRE ? pre[inpos - 1] : tail[inpos - 1 - PRE];
}
int ideal_putc(substdio *s, unsigned char c) { return 0; }
int ideal_flush(substdio *s) { return 0; }

int stralloc_ready(stralloc *x, unsigned int n)
{
  CHECK(x == &failure && n <= M + 2, "one failure byte per recipient (harness sizing)");
  ASSUME(n <= M + 2);
  return 1;
}
int stralloc_readyplus(stralloc *x, unsigned int n) { return stralloc_ready(x, x->len + n); }

static void check_addr(const char *a)
{
  unsigned int i, nul = 0;
  CHECK(a == buf, "addresses are passed in buf");
  for (i = 0; i < M + 1; ++i) if (!a[i]) { nul = 1; break; }
  CHECK(nul, "C20(qmtpd): a recipient handed on is NUL-terminated inside the bytes that were read");
}
void sig_pipeignore() {} void sig_alarmcatch() {}
unsigned int vf_alarm(unsigned int s) { return 0; }
int vf_chdir(const char *d) { return 0; }
int control_init() { return 0; } int rcpthosts_init() { return 0; }
int control_readint(int *i, char *fn) { return 0; }
char *env_get(char *n) { return 0; }
int qmail_open(struct qmail *q) { return 0; }
unsigned long qmail_qp(struct qmail *q) { return 4711; }
void qmail_put(struct qmail *q, char *s, unsigned int len) {}
void qmail_fail(struct qmail *q) {}
void qmail_from(struct qmail *q, char *s) {}
void qmail_to(struct qmail *q, char *s) { check_addr(s); ++nto; }
char *qmail_close(struct qmail *q) { package_done = 1; return ""; }
void received() {}
time_t vf_time(time_t *t) { return 1000000000; }
int rcpthosts(char *b, int len)
{
  unsigned int k = nrh < 4 ? nrh : 3;
  ++nrh;
  check_addr(b);
  CHECK(len >= 0 && len < 1000 && b[len] == 0, "C20(qmtpd): rcpthosts sees a length below 1000 that ends at the NUL");
  return rcpt_verdict[k] == 0 ? 0 : rcpt_verdict[k] == 1 ? 1 : -1;
}
char auto_qmail[] = "/var/qmail";

void vf__exit(int status)
{
  CHECK(status == 0 || status == 100 || status == 111, "C20(qmtpd): malformed input ends in a documented exit code");
  if (status == 100) WITNESS("badproto_100");
  if (status == 111) WITNESS("resources_111");
  if (status == 0 && nto >= 1) WITNESS("recipient_accepted_then_eof");
  if (status == 0 && nrh >= 2) WITNESS("two_recipients");
  if (status == 0) WITNESS("eof_0");
  PATH_END();
#ifdef VERIF_CBMC
  __CPROVER_assume(0);
#endif
}

void vmain(void)
{
  sym_inputs();
  failure.s = fbuf; failure.a = M + 2; failure.len = 0;
  prog_main();
  CHECK(0, "qmail-qmtpd only ends through _exit");
}
