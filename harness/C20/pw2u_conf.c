/* configuration constants for harness pw2u.c (conf-users / conf-break / conf-qmail choices): a one-letter alias user keeps the
 * alias branch of doaccount() inside the line bound.  A unit of its own: defined in the harness TU, ahead of auto_users.h's
 * `extern char auto_usera[];`, cbmc 6.11 took the object for empty inside doaccount() (spurious out-of-bounds in strcmp). */
char auto_usera[] = "a";
char auto_break[] = "-";
char auto_qmail[] = "/q";
