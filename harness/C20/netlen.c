/* C20 (e) - netstring length parsers: getlen() of qmail-qmtpd.c (MODE 0) and of
 * qmail-qmqpd.c (MODE 1), real code, over every input of at most N bytes followed by EOF
 * (all 256 byte values; saferead's "EOF or error => _exit(0)" is kept by the stream hook).
 *   returns len : every byte before the ':' was a decimal digit, len is their value, and
 *                 len <= 2000000009 < 2^31 - so the `int i; for (i = 0; i < len; ++i)`
 *                 loops of the callers can never overflow their counter;
 *   or the program exits with 111 (resources), 100 (badproto / byte budget) or 0 (EOF);
 *   no signed overflow, shift or out-of-bounds access on the way (standard checks). */
#include "verif.h"
#if MODE == 0
#include "gen_qmail-qmtpd.c"
#else
#include "gen_qmail-qmqpd.c"
#endif

#ifndef N
#define N 12
#endif

unsigned char in[N];
unsigned int inlen;
unsigned long budget;            /* MODE 1: bytesleft before the call (any value) */

static unsigned int inpos;
static int exited = -1;

void sym_inputs(void)
{
#ifdef REPLAY
#include "replay_inputs.inc"
#else
  SYM_ARR(in); SYM(inlen); SYM(budget);
#endif
}

int ideal_getc(substdio *s)
{
  CHECK(s == &ssin, "netstrings are read from descriptor 0 only");
  if (inpos >= inlen) { _exit(0); }             /* saferead: EOF or error ends the program */
  return in[inpos++];
}
int ideal_putc(substdio *s, unsigned char c) { return 0; }
int ideal_flush(substdio *s) { return 0; }

/* reference: value of the digits before the first ':' (at most 12 digits: fits 64 bits) */
static int ref_digits_then_colon(unsigned long *val)
{
  unsigned int i; unsigned long v = 0;
  for (i = 0; i < N; ++i) {
    if (i >= inlen) return 0;
    if (in[i] == ':') { *val = v; return 1; }
    if (in[i] < '0' || in[i] > '9') return 0;
    v = v * 10 + (unsigned long) (in[i] - '0');
  }
  return 0;
}

void vf__exit(int status)
{
  unsigned long v;
  exited = status;
  CHECK(status == 0 || status == 100 || status == 111, "C20(netstring): malformed length ends in a documented exit code");
  if (status == 0) CHECK(inpos >= inlen, "C20(netstring): exit 0 only at end of input");
  if (status == 111) { CHECK(!ref_digits_then_colon(&v) || v > 200000000UL, "C20(netstring): resources() only for an over-long length"); WITNESS("too_long_111"); }
  if (status == 100) WITNESS("malformed_100");
  if (status == 0) WITNESS("eof_0");
  PATH_END();
#ifdef VERIF_CBMC
  __CPROVER_assume(0);
#endif
}

void vmain(void)
{
  unsigned long len, v = 0;
  sym_inputs();
  ASSUME(inlen <= N);
#if MODE == 1
  bytesleft = budget;
#endif
  len = getlen();
  CHECK(exited == -1, "getlen returned");
  CHECK(len <= 2000000009UL, "C20(netstring): a length that is returned is at most 2000000009");
  CHECK(len <= 2147483647UL, "C20(netstring): ... and therefore fits the int loop counters of the callers");
  CHECK(ref_digits_then_colon(&v) && v == len, "C20(netstring): the length is the decimal value of the digits before ':'");
  if (len == 2000000009UL) WITNESS("maximum_2000000009");
  if (len == 0 && inpos == 1) WITNESS("empty_digits_is_zero");
  WITNESS("returned");
}
