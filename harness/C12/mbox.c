/* C12 - qmail-local.c mailfile(): mbox delivery.
 *
 * Encoded from /repo: qmail-local.c (text before main: mailfile, temp_*), gfrom.c,
 * open_append.c, lock_ex.c, substdio.c (substdio_fdbuf), error_str.c,
 * seek.h (inline lseek/ftruncate wrappers), stralloc_pend.c.
 * substdio/getln = ideal byte streams (layer 1), dispatched on the descriptor number
 * because mailfile()'s substdio objects are locals.
 *
 * FAULTS == 0 (content round trip, mbox(5) "HOW A MESSAGE IS READ"):
 *   message of exactly N bytes, every byte value symbolic; ufline/rpline/dtline short
 *   concrete lines.  The bytes appended to the mbox are handed to a reference reader
 *   written from mbox.5: an entry begins with a From_ line ("From " at the start of a
 *   line), lasts until the next From_ line or end of file, its final blank line is
 *   stripped and one '>' is removed from every line matching >+From_.  What the
 *   reader returns must be exactly rpline ++ dtline ++ message (++ "\n" if the message
 *   does not end with a newline: mbox.5 "If the last line of the message was a partial
 *   line, it writes two newlines").
 *
 * FAULTS == 1 (roll-back and lock protocol):
 *   every output operation (each byte handed to the stream, the flush, the fsync), the
 *   open, the rewind, the read of any message byte may fail (one symbolic position);
 *   the lock may be granted, never granted (the 30 s alarm fires inside flock) or fail
 *   at once; the mbox had len_open bytes when it was opened and len_lock >= len_open
 *   when the lock was granted (other deliveries appended meanwhile).
 *   - any failure => exit status 111 (temporary), never a normal return;
 *   - failure after the lock was granted => ftruncate(fd, len_lock) and nothing is
 *     written afterwards, i.e. the file is back at the length it had at lock time;
 *   - lock_ex is attempted before seek_end, every byte is written after the lock
 *     attempt and before close, to the descriptor open_append returned, and that
 *     descriptor was opened O_APPEND (non-interleaving then follows from flock).
 *   Judgement (DESIGN C12 "Out"): when lock_ex fails for a reason other than the alarm
 *   the code delivers unlocked and does not truncate on error.  That is outside C12's
 *   fault list; no roll-back is demanded on those paths, only status 111.
 */
#include "verif.h"
#include <errno.h>
#include <sys/types.h>
#include <sys/file.h>
#include <fcntl.h>
#include "gen_qmail-local.c"

#ifndef N
#define N 6
#endif
#ifndef FAULTS
#define FAULTS 0
#endif
#define NA (N ? N : 1)

static char UF[] = "From s d\n";
static char RP[] = "R: <s>\n";
static char DT[] = "D: r\n";
#define UFLEN (sizeof UF - 1)
#define RPLEN (sizeof RP - 1)
#define DTLEN (sizeof DT - 1)
#define OUTMAX (UFLEN + RPLEN + DTLEN + N + N / 5 + 3)
#define EXPMAX (RPLEN + DTLEN + N + 1)
#define MBOXFD 5

/* ---------------- symbolic inputs */
unsigned char in[NA];          /* the message, exactly N bytes */
unsigned char split_at[N + 1];     /* per line: how many of its bytes were carried over from an earlier buffer fill (getln2 readers) */
unsigned int fail_op;          /* FAULTS: output operation number that fails (>= count: none) */
unsigned int read_err;         /* FAULTS: read error instead of message byte read_err (> N: none) */
unsigned char misc_fail;       /* FAULTS: 1 rewind fails, 2 open fails */
unsigned char lock_how;        /* FAULTS: 0 granted, 1 never granted (alarm), 2 fails at once */
long len_open, len_lock;       /* FAULTS: mbox length at open / when the lock is granted */

void sym_inputs(void)
{
#ifdef REPLAY
#include "replay_inputs.inc"
#else
  SYM_FEED();
  SYM_ARR(in); SYM(fail_op); SYM(read_err); SYM(misc_fail); SYM(lock_how); SYM(len_open); SYM(len_lock); SYM_ARR(split_at);
#endif
}

/* ---------------- model state */
static unsigned int inpos;
/* a reader built on getln2() gets every line in two pieces; where the read-buffer boundary
 * falls is not under the caller's control: symbolic per line */
static unsigned int nsplit;
unsigned int ideal_getln2_split(unsigned int linelen)
{
  unsigned int k = split_at[nsplit < N ? nsplit : N];
  ++nsplit;
  return k < linelen ? k : 0;
}
static unsigned char outb[OUTMAX];
static unsigned int outlen;               /* bytes accepted by the mbox stream */
static unsigned int nops;                 /* output operations so far */
static int opened, lock_tried, lock_granted, closed, truncated, fault_hit, write_after_trunc;
static int o_append;
static long flen, cur_off, trunc_pos;
static unsigned int alarm_secs;
static void (*alarm_handler)(void);
static int exited = -1;

/* strerr_die.c is not linked: the diagnostics text is not part of C12, the status is */
void strerr_warn(char *x1, char *x2, char *x3, char *x4, char *x5, char *x6, struct strerr *se) {}
void strerr_die(int e, char *x1, char *x2, char *x3, char *x4, char *x5, char *x6, struct strerr *se)
{
  _exit(e);
#ifdef VERIF_CBMC
  __CPROVER_assume(0);
#endif
}

static int out_fault(void)
{
#if FAULTS
  if (nops++ == fail_op) { fault_hit = 1; errno = ENOSPC; return 1; }
#endif
  return 0;
}

int ideal_getc(substdio *s)
{
  CHECK(s->fd == 0, "the message is read from descriptor 0");
#if FAULTS
  if (inpos == read_err) { fault_hit = 1; errno = EIO; return -2; }
#endif
  if (inpos >= N) return -1;
  return in[inpos++];
}

int ideal_putc(substdio *s, unsigned char c)
{
  CHECK(s->fd == MBOXFD && opened, "C12(c): output goes to the descriptor open_append returned");
  CHECK(lock_tried && !closed, "C12(c): every write happens between lock_ex and close");
  if (truncated) write_after_trunc = 1;
  if (out_fault()) return -1;
  CHECK(outlen < OUTMAX, "output fits OUTMAX (harness sizing)");
  ASSUME(outlen < OUTMAX);
  outb[outlen++] = c;
  ++flen;
  return 0;
}

int ideal_flush(substdio *s)
{
  CHECK(s->fd == MBOXFD && opened, "C12(c): output goes to the descriptor open_append returned");
  CHECK(lock_tried && !closed, "C12(c): every write happens between lock_ex and close");
  if (out_fault()) return -1;
  return 0;
}

/* ---------------- system calls */
off_t vf_lseek(int fd, off_t off, int whence)
{
  if (fd == 0) {
    CHECK(off == 0 && whence == SEEK_SET, "descriptor 0 is only rewound");
#if FAULTS
    if (misc_fail == 1) { fault_hit = 1; errno = ESPIPE; return -1; }
#endif
    inpos = 0;
    return 0;
  }
  CHECK(fd == MBOXFD && opened && !closed, "lseek on the open mbox");
  CHECK(off == 0, "mbox offset is only queried");
  if (whence == SEEK_END) {
    CHECK(lock_tried, "C12(c): lock_ex precedes seek_end");
    cur_off = flen;
  } else {
    CHECK(whence == SEEK_CUR, "seek_end / seek_cur only");
  }
  return cur_off;
}

int vf_open(const char *path, int flags, ...)
{
  CHECK(!opened, "mbox opened once");
  CHECK((flags & O_ACCMODE) == O_WRONLY && (flags & O_CREAT), "open_append: O_WRONLY|O_CREAT");
  o_append = !!(flags & O_APPEND);
#if FAULTS
  if (misc_fail == 2) { fault_hit = 1; errno = EACCES; return -1; }
#endif
  opened = 1;
  flen = FAULTS ? len_open : 0;
  cur_off = 0;
  return MBOXFD;
}

void sig_alarmcatch(void (*f)()) { alarm_handler = (void (*)(void)) f; }
void sig_alarmdefault(void) { alarm_handler = 0; }
unsigned int vf_alarm(unsigned int s) { alarm_secs = s; return 0; }

int vf_flock(int fd, int op)
{
  CHECK(fd == MBOXFD && opened && !closed, "flock on the open mbox");
  CHECK(op == LOCK_EX, "C12: the lock is exclusive");
  CHECK(outlen == 0, "C12(c): nothing written before the lock attempt");
  lock_tried = 1;
#if FAULTS
  if (lock_how == 1) {
    /* somebody holds the lock for ever: the only way out is the alarm */
    fault_hit = 1;
    if (alarm_secs && alarm_handler) alarm_handler();
    errno = EINTR; return -1;
  }
  if (lock_how == 2) { errno = ENOLCK; return -1; }
  flen = len_lock;                                       /* others appended while we waited */
#endif
  lock_granted = 1;
  return 0;
}

int vf_fsync(int fd)
{
  CHECK(fd == MBOXFD && opened && !closed, "fsync on the open mbox");
  if (out_fault()) return -1;
  return 0;
}

int vf_ftruncate(int fd, off_t pos)
{
  CHECK(fd == MBOXFD && opened && !closed, "ftruncate on the open mbox");
  truncated = 1; trunc_pos = pos; flen = pos;
  return 0;
}

int vf_close(int fd)
{
  CHECK(fd == MBOXFD && opened, "close of the mbox descriptor");
  closed = 1;
  return 0;
}

void vf__exit(int status)
{
  exited = status;
#if FAULTS
  CHECK(fault_hit, "mailfile gives up only after a failure");
  CHECK(status == 111, "C12(b): a failed mbox delivery reports a temporary failure (111)");
  if (lock_granted) {
    CHECK(truncated && trunc_pos == len_lock, "C12(b): after a failure the mbox is truncated to its length at lock time");
    CHECK(flen == len_lock && !write_after_trunc, "C12(b): nothing is written after the roll-back");
    if (fail_op < nops && outlen > 0) WITNESS("write_failed_rolled_back");
    if (read_err <= N) WITNESS("read_failed_rolled_back");
  } else {
    if (lock_how == 1) {
      CHECK(outlen == 0 && !truncated, "C12(b): lock timeout leaves the mbox untouched");
      WITNESS("lock_timeout");
    }
    if (lock_how == 2) WITNESS("unlocked_failure");
    if (misc_fail == 2) WITNESS("open_failed");
  }
#else
  CHECK(0, "no exit without an injected failure");
#endif
  PATH_END();
#ifdef VERIF_CBMC
  __CPROVER_assume(0);
#endif
}

/* ---------------- mbox(5) reference reader over outb[0..outlen), compared on the fly
 * with the delivered message exp[0..explen) */
static unsigned char expb[EXPMAX];
static unsigned int explen;

static int from_at(unsigned int j)
{
  return j + 5 <= outlen && outb[j] == 'F' && outb[j + 1] == 'r' && outb[j + 2] == 'o' && outb[j + 3] == 'm' && outb[j + 4] == ' ';
}

static void check_reads_back(void)
{
  unsigned int j, i = 0, end, k, g, q;
  int bol = 1;
  /* the entry begins with a From_ line: the one mailfile was given */
  CHECK(outlen >= UFLEN + 1, "C12(a): entry holds at least the From_ line and the blank line");
  if (outlen < UFLEN + 1) return;
  CHECK(from_at(0), "C12(a): entry begins with a From_ line");
  for (k = 0; k < UFLEN; ++k) CHECK(outb[k] == (unsigned char) UF[k], "C12(a): From_ line is ufline");
  j = UFLEN;
  /* ... and ends with a blank line; the reader strips it */
  CHECK(outb[outlen - 1] == '\n' && outb[outlen - 2] == '\n', "C12(a): entry ends with a blank line");
  end = outlen - 1;
  for (k = 0; k < OUTMAX; ++k) {
    unsigned char c;
    if (j >= end) break;
    if (bol) {
      g = 0;
      for (q = 0; q < N + 1; ++q) { if (j + g < end && outb[j + g] == '>') ++g; else break; }
      if (from_at(j + g)) {
        CHECK(g > 0, "C12(a): no From_ line inside the entry (the reader would split it)");
        if (g > 0) ++j;                                  /* reader removes one '>' */
      }
    }
    c = outb[j++];
    CHECK(i < explen, "C12(a): reader returns no more than the delivered message");
    if (i >= explen) return;
    CHECK(c == expb[i], "C12(a): reader returns the delivered bytes, unchanged and in order");
    ++i;
    bol = (c == '\n');
  }
  CHECK(j == end, "C12(a): entry read completely");
  CHECK(i == explen, "C12(a): reader returns all of the delivered message");
}

void vmain(void)
{
  unsigned int k;
  sym_inputs();
#if FAULTS
  ASSUME(misc_fail <= 2 && lock_how <= 2);
  ASSUME(len_open >= 0 && len_open <= len_lock && len_lock < (1L << 40));
#endif
  ufline.s = UF; ufline.len = UFLEN; ufline.a = sizeof UF;
  rpline.s = RP; rpline.len = RPLEN; rpline.a = sizeof RP;
  dtline.s = DT; dtline.len = DTLEN; dtline.a = sizeof DT;

  mailfile("./Mailbox");

  CHECK(exited == -1, "mailfile returned");
  CHECK(!fault_hit, "C12(b): a failed write, flush, fsync or read never ends as a successful delivery");
  CHECK(opened && closed && lock_tried && !truncated, "delivery: opened, locked, closed, not truncated");
  CHECK(o_append, "C12(c): the mbox is opened in append mode");
#if FAULTS
  CHECK(flen == (lock_granted ? len_lock : len_open) + outlen, "C12: the entry is appended after the existing contents");
  WITNESS("delivered");
#else
  for (k = 0; k < RPLEN; ++k) expb[explen++] = (unsigned char) RP[k];
  for (k = 0; k < DTLEN; ++k) expb[explen++] = (unsigned char) DT[k];
  for (k = 0; k < N; ++k) expb[explen++] = in[k];
  if (N > 0 && in[N - 1] != '\n') expb[explen++] = '\n';
  check_reads_back();
  if (N >= 5 && in[0] == 'F' && in[1] == 'r' && in[2] == 'o' && in[3] == 'm' && in[4] == ' ') WITNESS("from_line_quoted");
  if (N >= 6 && in[0] == '>' && in[1] == 'F' && in[2] == 'r' && in[3] == 'o' && in[4] == 'm' && in[5] == ' ') WITNESS("gt_from_line_quoted");
  if (N >= 7 && in[0] == '>' && in[1] == '>' && in[2] == 'F' && in[3] == 'r' && in[4] == 'o' && in[5] == 'm' && in[6] == ' ') WITNESS("gtgt_from_line_quoted");
  if (N >= 6 && in[0] == '\n' && in[1] == 'F' && in[2] == 'r' && in[3] == 'o' && in[4] == 'm' && in[5] == ' ') WITNESS("from_on_second_line");
  if (N > 0 && in[N - 1] != '\n') WITNESS("partial_last_line");
  WITNESS("delivered");
#endif
}
