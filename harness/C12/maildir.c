/* C12 - qmail-local.c maildir() / maildir_child(): maildir delivery is atomic.
 *
 * Encoded from /repo: qmail-local.c (text before main: maildir, maildir_child,
 * tryunlinktmp, sigalrm, temp_*), open_excl.c, wait_pid.c, fmt_str.c, fmt_strn.c,
 * fmt_ulong.c, error_temp.c, seek.h/now.h inlines.
 *
 * SIDE 0 - the child (fork() returns 0).  Small file-system model: directory entries
 *   tmp_x / new_x are synchronous, the one inode keeps {len, synced}; the user-level
 *   buffer of the output stream is a pending counter that may be written out early at
 *   any put and must be written at flush; chdir, open, every write-out, fsync, close,
 *   link, the read of any message byte may fail (tape[], "at most one" with ONEFAULT,
 *   any number otherwise); the name may already exist (EEXIST, up to every attempt);
 *   SIGALRM may arrive before any system call made after the file was created.
 *   crash_check() runs at the entry of every stub (= every instant at which the
 *   process or the machine may stop, unsynced data lost):
 *        new/<name> exists  =>  the inode is complete (rpline+dtline+message, message
 *                               read to EOF) and all of it is synced.
 *   At link(): buffer flushed, fsync and close succeeded after the last write, the two
 *   names are tmp/T.P.H and new/T.P.H with T the current time, P the pid, H the host.
 *   The file is created with O_EXCL|O_CREAT only (never a name somebody else uses),
 *   after a timer of at most 24 h was started; a name that turned out to exist is never
 *   unlinked.  _exit(0) <=> linked (the "<=" direction is not demanded when SIGALRM
 *   arrives after the link: the property only says success is reported *only if* the
 *   message is in new/).  Every failure after creation: tmp/ name unlinked, status != 0.
 *
 * SIDE 1 - the parent: fork fails or returns a pid; the wait status is any value
 *   0..65535.  maildir() returns (instruction succeeded) iff the child exited 0 without
 *   a signal; everything else ends in exit status 111 (temporary, qmail-local(8)).
 */
#include "verif.h"
#include <errno.h>
#include <sys/types.h>
#include <sys/wait.h>
#include <fcntl.h>
#include "gen_qmail-local.c"

#ifndef M
#define M 2                      /* message length (contents irrelevant here) */
#endif
#ifndef SIDE
#define SIDE 0
#endif
#ifndef ONEFAULT
#define ONEFAULT 1
#endif
#define TAPE 20
#define NOSTUB 1000u
#define NOW0 1000000000L
#define MYPID 4242
#define TMPFD 7
#define CHILD 77

static char RP[] = "R: <s>\n";
static char DT[] = "D: r\n";
#define RPLEN (sizeof RP - 1)
#define DTLEN (sizeof DT - 1)
#define WANT (RPLEN + DTLEN + M)

/* ---------------- symbolic inputs */
unsigned char tape[TAPE];        /* one entry per call that may fail: nonzero = fails */
unsigned char early[TAPE];       /* one entry per put: nonzero = buffer written out now */
unsigned char exist[4];          /* per open attempt: nonzero = the name already exists */
unsigned int read_err;           /* read error instead of message byte read_err (> M: none) */
unsigned int alarm_at;           /* SIGALRM before system call number alarm_at (>= NOSTUB: never) */
unsigned char fork_fails;        /* SIDE 1 */
int wstat_in;                    /* SIDE 1: status reported by waitpid */

void sym_inputs(void)
{
#ifdef REPLAY
#include "replay_inputs.inc"
#else
  SYM_ARR(tape); SYM_ARR(early); SYM_ARR(exist); SYM(read_err); SYM(alarm_at); SYM(fork_fails); SYM(wstat_in);
#endif
}

/* ---------------- model state */
static unsigned int tp, ep, nstub, nopen;
static int tmp_x, new_x;                       /* directory entries */
static unsigned int ilen, isync;               /* inode: written / durable length */
static unsigned int pending;                   /* accepted by the stream, not yet written */
static int created, fd_open, closed_ok, eof_seen, write_after_link, foreign_name;
static unsigned int msgpos;
static int fault_hit, alarm_fired, in_handler;
static int f_write, f_fsync, f_close, f_link, f_chdir, f_read;   /* which call failed (witness probes only) */
static unsigned int alarm_secs;
static void (*alarm_handler)(void);
static long clock_ = NOW0;
static int forked, waited, exited = -1;

static unsigned char draw(void) { return tp < TAPE ? tape[tp++] : 0; }

static void crash_check(void)
{
  if (new_x) {
    CHECK(ilen == WANT && eof_seen, "C12: a message visible in new/ is complete (Return-Path, Delivered-To, whole message)");
    CHECK(isync == ilen, "C12: a message visible in new/ is synced to disk");
    CHECK(!write_after_link, "C12: a message visible in new/ is not written to any more");
  }
}

/* entry of every system call: crash instant, and possibly SIGALRM */
static void enter(void)
{
  crash_check();
  if (created && !alarm_fired && !in_handler && nstub == alarm_at && alarm_secs && alarm_handler) {
    alarm_fired = 1; in_handler = 1;
    alarm_handler();
  }
  ++nstub;
}

void strerr_warn(char *x1, char *x2, char *x3, char *x4, char *x5, char *x6, struct strerr *se) {}
void strerr_die(int e, char *x1, char *x2, char *x3, char *x4, char *x5, char *x6, struct strerr *se)
{
  _exit(e);
#ifdef VERIF_CBMC
  __CPROVER_assume(0);
#endif
}

/* ---------------- buffered ideal stream (length only) */
static int write_out(substdio *s)
{
  unsigned int n = pending;
  if (!n) return 0;
  enter();
  CHECK(s->fd == TMPFD && fd_open, "C12: message bytes go to the tmp/ file that was just created");
  pending = 0;
  if (new_x) write_after_link = 1;
  if (draw()) { fault_hit = f_write = 1; ilen += n - 1; errno = ENOSPC; return -1; }   /* short write, then error */
  ilen += n;
  return 0;
}

static int put_model(substdio *s, unsigned int len)
{
  pending += len;
  if (ep < TAPE && early[ep++]) return write_out(s);
  return 0;
}

int substdio_put(substdio *s, const char *b, size_t len) { return put_model(s, (unsigned int) len); }
int substdio_bput(substdio *s, const char *b, size_t len) { return put_model(s, (unsigned int) len); }
int substdio_flush(substdio *s) { return write_out(s); }

int substdio_copy(substdio *out, substdio *in)
{
  unsigned int i;
  CHECK(in->fd == 0, "the message is read from descriptor 0");
  for (i = 0; i < M + 1; ++i) {
    enter();                                              /* read(0) */
    if (msgpos == read_err) { fault_hit = f_read = 1; errno = EIO; return -2; }
    if (msgpos >= M) { eof_seen = 1; return 0; }
    ++msgpos;
    if (put_model(out, 1) == -1) return -3;
  }
  return 0;
}

/* ---------------- system calls */
off_t vf_lseek(int fd, off_t off, int whence)
{
  CHECK(fd == 0 && off == 0 && whence == SEEK_SET, "descriptor 0 is rewound");
  CHECK(!forked, "rewind happens before fork");
  if (draw()) { fault_hit = 1; errno = ESPIPE; return -1; }
  msgpos = 0;
  return 0;
}

pid_t vf_fork(void)
{
  forked = 1;
#if SIDE == 1
  if (fork_fails) { fault_hit = 1; errno = EAGAIN; return -1; }
  return CHILD;
#else
  return 0;
#endif
}

pid_t vf_waitpid(pid_t pid, int *wstat, int options)
{
  CHECK(SIDE == 1 && forked && pid == CHILD && options == 0, "parent waits for the child it forked");
  if (draw()) { errno = EINTR; return -1; }
  waited = 1;
  *wstat = wstat_in;
  return CHILD;
}

int vf_chdir(const char *d)
{
  unsigned char t;
  enter();
  t = draw();
  if (t) { fault_hit = f_chdir = 1; errno = (t & 1) ? EIO : ENOENT; return -1; }
  return 0;
}

pid_t vf_getpid(void) { return MYPID; }
int vf_gethostname(char *name, size_t len) { name[0] = 'h'; name[1] = 0; return 0; }
time_t vf_time(time_t *t) { return clock_; }
unsigned int vf_sleep(unsigned int s) { enter(); clock_ += s; return 0; }
void sig_alarmcatch(void (*f)()) { alarm_handler = (void (*)(void)) f; }
unsigned int vf_alarm(unsigned int s) { alarm_secs = s; return 0; }

static int str_is(const char *a, const char *b)
{
  unsigned int i;
  for (i = 0; i < 40; ++i) { if (a[i] != b[i]) return 0; if (!b[i]) return 1; }
  return 0;
}

/* reference name: <dir>/<time>.<pid>.<host>, time = NOW0 + d with d a single digit */
static void ref_name(char *out, const char *dir)
{
  static const char body[] = "/1000000000.4242.h";
  unsigned int i;
  for (i = 0; i < 3; ++i) out[i] = dir[i];
  for (i = 0; i < sizeof body; ++i) out[3 + i] = body[i];
  out[3 + 10] = (char) ('0' + (clock_ - NOW0));
}

int vf_open(const char *path, int flags, ...)
{
  char want[40];
  enter();
  CHECK(!created, "one tmp/ file per delivery");
  CHECK((flags & O_EXCL) && (flags & O_CREAT), "C12: the tmp/ file is created with O_EXCL (a name no other delivery uses)");
  CHECK(alarm_secs > 0 && alarm_secs <= 86400 && alarm_handler != 0, "C12: a timer of at most 24 hours runs before the file is created (maildir(5))");
  CHECK(clock_ - NOW0 <= 9, "harness sizing: at most four attempts");
  ref_name(want, "tmp");
  CHECK(path == fntmptph && str_is(path, want), "C12: file name is tmp/<time>.<pid>.<host> with the current time");
  ++nopen;
  if (exist[nopen <= 4 ? nopen - 1 : 3]) { foreign_name = 1; errno = EEXIST; return -1; }
  if (draw()) { fault_hit = 1; errno = EIO; return -1; }
  foreign_name = 0;
  created = 1; tmp_x = 1; fd_open = 1; ilen = isync = 0;
  return TMPFD;
}

int vf_fsync(int fd)
{
  enter();
  CHECK(fd == TMPFD && fd_open, "fsync of the tmp/ file");
  if (draw()) { fault_hit = f_fsync = 1; errno = EIO; return -1; }
  isync = ilen;
  return 0;
}

int vf_close(int fd)
{
  enter();
  CHECK(fd == TMPFD && fd_open, "close of the tmp/ file");
  fd_open = 0;
  if (draw()) { fault_hit = f_close = 1; errno = EIO; return -1; }       /* NFS reports the write error here */
  closed_ok = 1;
  return 0;
}

int vf_link(const char *a, const char *b)
{
  char want[40];
  enter();
  CHECK(created && tmp_x && a == fntmptph && b == fnnewtph, "C12: link(tmp/name, new/name) of the file just written");
  ref_name(want, "new");
  CHECK(str_is(b, want), "C12: new/ name is new/<time>.<pid>.<host>, same unique part as the tmp/ name");
  /* the commit point */
  CHECK(pending == 0, "C12: stream flushed before link");
  CHECK(ilen == WANT && eof_seen, "C12: tmp file holds rpline + dtline + the whole message at link");
  CHECK(isync == ilen, "C12: fsync succeeded after the last write, before link");
  CHECK(closed_ok, "C12: close succeeded before link");
  CHECK(!fault_hit, "C12: no failed call is ignored before link");
  /* link may fail for any reason; EEXIST in particular means the new/ name is already taken
   * by ANOTHER delivery - the message of this delivery is then not in new/ */
  { unsigned char t = draw(); if (t) { fault_hit = f_link = 1; errno = (t & 2) ? EEXIST : EIO; return -1; } }
  new_x = 1;
  return 0;
}

int vf_unlink(const char *p)
{
  enter();
  CHECK(p == fntmptph, "only the tmp/ name is ever unlinked");
  CHECK(created && !foreign_name, "C12: a name this delivery did not create is never unlinked");
  tmp_x = 0;
  return 0;
}

void vf__exit(int status)
{
  crash_check();
  exited = status;
#if SIDE == 0
  if (status == 0) CHECK(new_x, "C12: success is reported only if the message is in new/");
  if (new_x && !alarm_fired) CHECK(status == 0, "C12: a delivered message is reported as success");
  if (!new_x) {
    CHECK(status != 0, "C12: failure is reported with a non-zero status");
    if (created) CHECK(!tmp_x, "C12: after a failure the tmp/ file is unlinked");
  }
  if (status == 0) CHECK(!fault_hit, "C12: no failure is reported as success");
  if (status == 0 && nopen == 1) WITNESS("delivered");
  if (status == 0 && nopen == 3) WITNESS("delivered_third_attempt");
  if (status != 0 && nopen == 3 && !created) WITNESS("name_exists_three_times");
  if (f_read) WITNESS("read_error");
  if (alarm_fired) WITNESS("timeout");
  if (alarm_fired && new_x) WITNESS("timeout_after_link");
  if (f_chdir) WITNESS("chdir_failed");
  if (f_link) WITNESS("link_failed");
  if (f_close) WITNESS("close_failed");
  if (f_fsync) WITNESS("fsync_failed");
  if (f_write) WITNESS("write_failed");
#else
  CHECK(status == 111, "C12: a maildir delivery that did not succeed ends in a temporary failure (111)");
  CHECK(fault_hit || (waited && ((wstat_in & 127) || (wstat_in >> 8) != 0)), "C12: the parent gives up only if fork failed or the child did not exit 0");
  if (waited && (wstat_in & 127)) WITNESS("child_crashed");
  if (waited && !(wstat_in & 127) && (wstat_in >> 8) == 1) WITNESS("child_failed");
  if (fork_fails) WITNESS("fork_failed");
#endif
  PATH_END();
#ifdef VERIF_CBMC
  __CPROVER_assume(0);
#endif
}

void vmain(void)
{
  unsigned int i, nf = 0;
  sym_inputs();
#if ONEFAULT
  for (i = 0; i < TAPE; ++i) if (tape[i]) ++nf;
  if (read_err <= M) ++nf;
  if (alarm_at < NOSTUB) ++nf;
  ASSUME(nf <= 1);
#endif
  ASSUME(wstat_in >= 0 && wstat_in <= 0xffff);
  rpline.s = RP; rpline.len = RPLEN; rpline.a = sizeof RP;
  dtline.s = DT; dtline.len = DTLEN; dtline.a = sizeof DT;

  maildir("./Maildir/");

#if SIDE == 0
  CHECK(0, "the child never returns from maildir()");
#else
  CHECK(forked && waited && !fault_hit, "maildir() returns only after waiting for the child");
  CHECK((wstat_in & 127) == 0 && (wstat_in >> 8) == 0, "C12: maildir() succeeds only if the child exited with status 0");
  WITNESS("child_succeeded");
#endif
}
