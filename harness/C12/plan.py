# C12 - mailbox deliveries are complete or absent: maildir atomic, mbox rolled back.
#
# kills (hand-made mutants of /repo in a scratch worktree; each was reported as VIOLATION with a
# native replay that reproduced, rc 1):
#   mbox_content : gfrom() no longer skips leading '>' (">From " lines not quoted);
#                  mailfile() no longer writes the '>' for a From_ line
#   mbox_faults  : `if (flaglocked) seek_trunc(fd,pos)` removed from writeerrs;
#                  seek_end/seek_cur moved above lock_ex (pos taken before the lock);
#                  return value of fsync(fd) ignored in mailfile()
#   maildir_child: link() moved above fsync()/close(); result of link() ignored (exit 0 after a
#                  failed link); substdio_flush() before fsync() removed
#   maildir_parent: wait_crashed() test removed from maildir()
#   ufline       : '\n' dropped from the sanitising test in main() (space and tab only)
from vlib import Obl, Prog

MBOX_UNITS = ["gfrom.c", "open_append.c", "lock_ex.c", "substdio.c", "error_str.c", "stralloc_pend.c"]
MBOX_SYS = ["_exit", "lseek", "open", "flock", "fsync", "ftruncate", "close", "alarm"]
MDIR_UNITS = ["open_excl.c", "wait_pid.c", "fmt_str.c", "fmt_strn.c", "fmt_ulong.c", "error_temp.c", "error_str.c",
              "byte_copy.c", "substdio.c"]
MDIR_SYS = ["_exit", "lseek", "fork", "waitpid", "chdir", "getpid", "gethostname", "time", "sleep", "alarm", "open",
            "fsync", "close", "link", "unlink"]
UF_UNITS = ["sgetopt.c", "subgetopt.c", "myctime.c", "datetime.c", "fmt_str.c", "fmt_uint.c", "fmt_uint0.c", "fmt_ulong.c",
            "stralloc_cat.c", "stralloc_catb.c", "stralloc_cats.c", "stralloc_copy.c", "stralloc_opyb.c", "stralloc_opys.c",
            "stralloc_pend.c", "byte_copy.c", "byte_rchr.c", "str_chr.c", "str_rchr.c", "case_lowerb.c", "substdio.c"]

IDEAL = "substdio_put/bput/flush/get, getln: ideal byte streams (lib/ideal_substdio.c, lib/ideal_getln.c), dispatched on the descriptor; contract proved on the real substdio/getln by the C20 layer-0 lemmas"
STRERR = "strerr_warn/strerr_die: the text is dropped, strerr_die(e,...) = _exit(e)"
EXIT = "_exit: records the status, runs the end-of-run assertions, ends the path"


def w_content(p):
    n = p["N"]
    return (["delivered"] + (["partial_last_line"] if n >= 1 else []) + (["from_line_quoted"] if n >= 5 else [])
            + (["gt_from_line_quoted", "from_on_second_line"] if n >= 6 else []) + (["gtgt_from_line_quoted"] if n >= 7 else []))


def obligations(tier):
    quick = tier == "quick"
    local = Prog("qmail-local.c", nomain=True)
    mbox = dict(progs=[local], repo=MBOX_UNITS, lib=["ideal_substdio.c", "ideal_getln.c", "arena_stralloc.c"],
                sysrename=MBOX_SYS,
                functions=["qmail-local.c:mailfile", "qmail-local.c:temp_rewind", "qmail-local.c:temp_slowlock", "gfrom.c:gfrom",
                           "open_append.c:open_append", "lock_ex.c:lock_ex", "seek.h:seek_set/seek_end/seek_cur/seek_trunc",
                           "substdio.c:substdio_fdbuf", "stralloc_pend.c:stralloc_append"],
                stubs=[IDEAL, STRERR, EXIT,
                       "open/flock/lseek/ftruncate/fsync/close/alarm, sig_alarmcatch/sig_alarmdefault: model of one mbox file "
                       "{length, offset, opened, lock attempted/granted, truncated, closed}; the alarm handler is called from "
                       "inside flock when the lock is never granted",
                       "stralloc_ready/readyplus: arena (messline only)"])
    mdir = dict(progs=[local], repo=MDIR_UNITS, sysrename=MDIR_SYS,
                functions=["qmail-local.c:maildir", "qmail-local.c:maildir_child", "qmail-local.c:tryunlinktmp",
                           "qmail-local.c:sigalrm", "qmail-local.c:temp_rewind/temp_fork/temp_childcrashed",
                           "open_excl.c:open_excl", "wait_pid.c:wait_pid", "fmt_str.c", "fmt_strn.c", "fmt_ulong.c",
                           "error_temp.c:error_temp", "now.h:now", "wait.h:wait_crashed/wait_exitcode"],
                stubs=["substdio_put/copy/flush: buffered ideal stream, lengths only (pending counter, may be written out early "
                       "at any put, short write + error possible at every write-out); layer-0 lemmas in C20",
                       "file system: tmp/ and new/ directory entries synchronous, one inode {len, synced}; fsync sets synced=len; "
                       "crash_check() at the entry of every system call stub",
                       "chdir/open/write-out/fsync/close/link/lseek/waitpid may fail (tape), read of any message byte may fail, "
                       "name may exist (EEXIST) at every attempt, SIGALRM may arrive before any call after creation",
                       "getpid/gethostname/time: concrete (4242, 'h', 1000000000 advanced by sleep); unlink never fails",
                       STRERR, EXIT])
    return [
        Obl("mbox_content", "mbox.c", defines={"FAULTS": 0, "ARENA_CAP": 16, "ARENA_SLOTS": 2},
            grid=[{"N": n} for n in (range(0, 9) if quick else range(0, 12))],
            unwind=lambda p: {"mailfile": p["N"] + 2, "getln": p["N"] + 2},
            unwind_default=lambda p: 40 + p["N"],
            backend="minisat", timeout=900 if quick else 3400,
            assumes=["message of exactly N bytes, every byte value 0..255; ufline/rpline/dtline are the concrete lines "
                     "'From s d', 'R: <s>', 'D: r' (shape of ufline for every sender: obligation ufline); no injected failure"],
            outside=["messages longer than the grid (two From_ lines need 11 bytes: thorough tier only)",
                     "chunking of reads/writes inside the real 1024-byte buffers (layer-0 lemma)"],
            claim="the bytes mailfile() appends are split and unquoted by the mbox(5) reader (entry = From_ line .. next From_ "
                  "line or EOF, final blank line stripped, one '>' removed from every >+From_ line) to exactly rpline + dtline + "
                  "message (+ newline if the message lacked its final one); the entry starts with ufline, holds no other From_ "
                  "line and ends with a blank line",
            expect_witnesses=w_content, **mbox),
        Obl("mbox_faults", "mbox.c", defines={"FAULTS": 1, "ARENA_CAP": 16, "ARENA_SLOTS": 2},
            grid=[{"N": n} for n in ([0, 2, 6] if quick else [0, 1, 2, 3, 5, 6, 7])],
            unwind=lambda p: {"mailfile": p["N"] + 2, "getln": p["N"] + 2},
            unwind_default=lambda p: 40 + p["N"],
            backend="cadical", timeout=900 if quick else 3400,
            assumes=["message of exactly N symbolic bytes; one failing output operation at a symbolic position (any byte handed "
                     "to the stream, the flush, the fsync), and/or a read error at a symbolic message position, a failing "
                     "rewind or open; lock granted / never granted (alarm) / failing at once; mbox length at open and at lock "
                     "time symbolic (0 <= len_open <= len_lock < 2^40); ftruncate and close do not fail"],
            outside=["lock_ex failing for a reason other than the alarm: the code delivers unlocked and does not roll back "
                     "(outside C12's fault list; only status 111 is demanded on those paths)",
                     "two/three concurrent deliveries as schedules: reduced to the lock protocol (lock attempt before seek_end, "
                     "all writes between lock and close, O_APPEND) given flock semantics", "NFS"],
            claim="every failure ends in _exit(111), never in a normal return; after the lock was granted a failing write, "
                  "flush, fsync or read is followed by ftruncate(fd, length at lock time) and nothing is written afterwards; "
                  "lock timeout leaves the file untouched; lock_ex precedes seek_end, every write lies between the lock "
                  "attempt and close and goes to the O_APPEND descriptor",
            expect_witnesses=["delivered", "write_failed_rolled_back", "read_failed_rolled_back", "lock_timeout",
                              "unlocked_failure", "open_failed"], **mbox),
        Obl("maildir_child", "maildir.c", defines={"SIDE": 0}, std_checks=True,
            grid=[{"M": m, "ONEFAULT": 1} for m in (0, 1, 2)] + [{"M": m, "ONEFAULT": 0} for m in ((0, 2) if quick else (0, 1, 2, 3, 4))],
            unwind_default=24, backend="minisat", timeout=600,
            assumes=["message of M bytes (lengths only); ONEFAULT=1: at most one injected failure / read error / SIGALRM, "
                     "ONEFAULT=0: any number (tape of 20 calls); EEXIST at any subset of the open attempts in both modes"],
            outside=["link() reporting EEXIST although it succeeded (NFS, see the comment in the code)", "a failing unlink",
                     "real buffer boundaries (layer-0 lemma)"],
            claim="at link(tmp,new): stream flushed, fsync and close succeeded after the last write, inode length = rpline + "
                  "dtline + message read to EOF; at every crash instant: new/ entry exists => complete and synced, never "
                  "written again; names are tmp|new/<time>.<pid>.<host> with the current time, created O_EXCL|O_CREAT under a "
                  "timer <= 24 h, a name that existed is never unlinked; _exit(0) <=> linked (=> only, if SIGALRM hits after "
                  "the link); every failure after creation: tmp unlinked, status != 0",
            **mdir),
        Obl("maildir_parent", "maildir.c", defines={"SIDE": 1, "M": 0}, grid=[{"ONEFAULT": 0}],
            unwind_default=24, backend="minisat", timeout=300,
            assumes=["fork fails or returns a pid; waitpid may be interrupted (EINTR) any number of times; wait status any value 0..65535"],
            claim="maildir() returns iff the child exited with status 0 and no signal; fork failure, unseekable message and "
                  "every other child status end in _exit(111) (temporary)",
            **mdir),
        Obl("ufline", "ufline.c",
            progs=[Prog("qmail-local.c", main_as="local_main", cut=["checkhome", "bouncexf", "qmesearch"])],
            repo=UF_UNITS, lib=["ideal_substdio.c", "arena_stralloc.c"],
            defines={"ARENA_CAP": 72, "ARENA_SLOTS": 8}, sysrename=["_exit", "umask", "chdir", "time", "strlen"],
            grid=[{"S": n} for n in (range(0, 7) if quick else range(0, 11))],
            unwind_default=lambda p: 64, backend="minisat", timeout=600,
            functions=["qmail-local.c:main (first statement .. call of qmesearch)", "sgetopt.c", "subgetopt.c", "myctime.c:myctime",
                       "datetime.c:datetime_tai", "fmt_uint.c", "fmt_uint0.c", "fmt_ulong.c", "fmt_str.c", "stralloc_*.c",
                       "case_lowerb.c", "byte_rchr.c", "str_chr.c"],
            cuts=["checkhome, bouncexf -> no-ops (C13 obligations qmesearch, bouncexf)",
                  "qmesearch -> end of path; the stub inspects ufline",
                  "quote2 -> copying stub (feeds rpline only; C13 obligation envelope_lines)"],
            stubs=["env_init/env_put2: observing stubs (env.c allocates with symbolic sizes)",
                   "strlen: returns S for the sender after checking that this is its length, scans every other string",
                   "umask, chdir, sig_pipeignore: no-ops; time: concrete", STRERR, EXIT,
                   "stralloc_ready/readyplus: arena (72 bytes)"],
            assumes=["sender = S symbolic non-NUL bytes (every value, including space, tab, newline); the other arguments concrete"],
            outside=["senders longer than the grid"],
            claim="ufline = 'From ' + sender with space/tab/newline replaced by '-' (MAILER-DAEMON if empty) + ' ' + 24-character "
                  "date + newline: one word, exactly one newline, at the end",
            expect_witnesses=lambda p: ["ufline_built"] + (["empty_sender"] if p["S"] == 0 else ["newline_in_sender"])
                + (["space_tab_in_sender"] if p["S"] >= 2 else [])),
    ]
