# kills (hand-made mutants of /repo that this check reports): see bottom of file
from vlib import Obl, Prog

MBOX_UNITS = ["gfrom.c", "open_append.c", "lock_ex.c", "substdio.c", "error_str.c",
              "stralloc_pend.c"]
MDIR_UNITS = ["open_excl.c", "wait_pid.c", "fmt_str.c", "fmt_strn.c", "fmt_ulong.c", "error_temp.c", "error_str.c", "byte_copy.c", "substdio.c"]
MDIR_SYS = ["_exit", "lseek", "fork", "waitpid", "chdir", "getpid", "gethostname", "time", "sleep", "alarm", "open",
            "fsync", "close", "link", "unlink"]
MBOX_SYS = ["_exit", "lseek", "open", "flock", "fsync", "ftruncate", "close", "alarm"]


def obligations(tier):
    ns = list(range(0, 7)) if tier == "quick" else list(range(0, 9))
    local = Prog("qmail-local.c", nomain=True)
    return [
        Obl("mbox_content", "mbox.c", progs=[local], repo=MBOX_UNITS,
            lib=["ideal_substdio.c", "ideal_getln.c", "arena_stralloc.c"],
            defines={"FAULTS": 0, "ARENA_CAP": 16, "ARENA_SLOTS": 2}, sysrename=MBOX_SYS,
            grid=[{"N": n} for n in ns],
            unwind=lambda p: {"mailfile": p["N"] + 2, "getln": p["N"] + 2, "gfrom": p["N"] + 2},
            unwind_default=lambda p: 40 + p["N"],
            backend="minisat", timeout=900,
            claim="mbox round trip",
            expect_witnesses=lambda p: ["delivered"] + (["partial_last_line"] if p["N"] >= 1 else [])
                + (["from_line_quoted"] if p["N"] >= 5 else []) + (["gt_from_line_quoted", "from_on_second_line"] if p["N"] >= 6 else [])
                + (["gtgt_from_line_quoted"] if p["N"] >= 7 else [])),
        Obl("mbox_faults", "mbox.c", progs=[local], repo=MBOX_UNITS,
            lib=["ideal_substdio.c", "ideal_getln.c", "arena_stralloc.c"],
            defines={"FAULTS": 1, "ARENA_CAP": 16, "ARENA_SLOTS": 2}, sysrename=MBOX_SYS,
            grid=[{"N": n} for n in ([0, 2, 6] if tier == "quick" else [0, 1, 2, 3, 5, 6, 7])],
            unwind=lambda p: {"mailfile": p["N"] + 2, "getln": p["N"] + 2},
            unwind_default=lambda p: 40 + p["N"],
            backend="cadical", timeout=900,
            claim="mbox rollback",
            expect_witnesses=["delivered", "write_failed_rolled_back", "read_failed_rolled_back", "lock_timeout",
                              "unlocked_failure", "open_failed"]),
        Obl("maildir_child", "maildir.c", progs=[local], repo=MDIR_UNITS, sysrename=MDIR_SYS,
            defines={"SIDE": 0},
            grid=[{"M": m, "ONEFAULT": 1} for m in (0, 1, 2)] + ([] if tier == "quick" else [{"M": m, "ONEFAULT": 0} for m in (0, 1, 2)]),
            unwind_default=24, backend="minisat", timeout=900,
            claim="maildir child",
            ),
        Obl("maildir_parent", "maildir.c", progs=[local], repo=MDIR_UNITS, sysrename=MDIR_SYS,
            defines={"SIDE": 1, "M": 0},
            grid=[{"ONEFAULT": 0}],
            unwind_default=24, backend="minisat", timeout=300,
            claim="maildir parent",
            ),
        Obl("ufline", "ufline.c",
            progs=[Prog("qmail-local.c", main_as="local_main", cut=["checkhome", "bouncexf", "qmesearch"])],
            repo=["sgetopt.c", "subgetopt.c", "myctime.c", "datetime.c", "fmt_str.c", "fmt_uint.c", "fmt_uint0.c",
                  "fmt_ulong.c", "stralloc_cat.c", "stralloc_catb.c", "stralloc_cats.c", "stralloc_copy.c", "stralloc_opyb.c",
                  "stralloc_opys.c", "stralloc_pend.c", "byte_copy.c", "byte_rchr.c", "str_chr.c", "str_rchr.c", "case_lowerb.c",
                  "substdio.c"],
            lib=["ideal_substdio.c", "arena_stralloc.c"],
            defines={"ARENA_CAP": 72, "ARENA_SLOTS": 8}, sysrename=["_exit", "umask", "chdir", "time", "strlen"],
            grid=[{"S": n} for n in ([0, 1, 2, 3] if tier == "quick" else [0, 1, 2, 3, 4, 5])],
            unwind_default=lambda p: 64, backend="minisat", timeout=600,
            claim="ufline",
            expect_witnesses=lambda p: ["ufline_built"] + (["empty_sender"] if p["S"] == 0 else ["newline_in_sender"])
                + (["space_tab_in_sender"] if p["S"] >= 2 else []),
            ),
    ]
