/* C12 - qmail-local.c main(): construction of the mbox From_ line (ufline).
 *
 * main() is run from its first statement with a real argument vector whose sender is
 * S symbolic non-NUL bytes; it is stopped at the call of qmesearch() (cut: the stub
 * inspects ufline and ends the path).  checkhome() and bouncexf() are cut to no-ops
 * (they do not touch ufline; they are C13 obligations), env_init/env_put2 are observing
 * stubs (env.c allocates with symbolic sizes), quote2() is a copying stub (it feeds rpline,
 * not ufline; it is a C13 obligation).  strlen() is replaced by a version that returns S
 * for the sender - after checking that this is its length - so that every stralloc
 * offset stays concrete (a symbolic strlen result turned every later byte_copy into a
 * copy at a symbolic offset: no verdict in 600 s).  Everything else on the way is the
 * real code: sgetopt/subgetopt, myctime/datetime_tai, the stralloc units, the sanitising
 * loop itself.
 *
 * Reference (mbox(5)): the From_ line is "From " envsender " " date, envsender is one
 * word without spaces or tabs: the envelope sender with every space, tab and newline
 * replaced by a hyphen, or MAILER-DAEMON if the sender is empty; date is 24 characters.
 * For the mbox reader of mbox_content this means: exactly one newline, at the very end
 * (a newline smuggled in by the sender would end the From_ line early and the rest
 * would be read as message text).
 */
#include "verif.h"
#include <errno.h>
#include <sys/types.h>
#include <sys/stat.h>
void checkhome(void);                /* cut: definitions renamed to *_real in the generated copy */
void bouncexf(void);
void qmesearch(int *fd, int *cutable);
#include "gen_qmail-local.c"

#ifndef S
#define S 3
#endif

char sender_in[S + 1];

void sym_inputs(void)
{
#ifdef REPLAY
#include "replay_inputs.inc"
#else
  SYM_ARR(sender_in);
#endif
}

static int chdir_done, exited = -1;
static unsigned int nenv;

void strerr_warn(char *x1, char *x2, char *x3, char *x4, char *x5, char *x6, struct strerr *se) {}
void strerr_die(int e, char *x1, char *x2, char *x3, char *x4, char *x5, char *x6, struct strerr *se)
{
  _exit(e);
#ifdef VERIF_CBMC
  __CPROVER_assume(0);
#endif
}
static char errbuf_[16];
static substdio sserr_ = SUBSTDIO_FDBUF(write, 2, errbuf_, sizeof errbuf_);
substdio *subfderr = &sserr_;
int ideal_getc(substdio *s) { return -1; }
int ideal_putc(substdio *s, unsigned char c) { return 0; }
int ideal_flush(substdio *s) { return 0; }

size_t vf_strlen(const char *s)
{
  size_t n = 0;
#ifdef VERIF_CBMC
  if (__CPROVER_POINTER_OBJECT(s) == __CPROVER_POINTER_OBJECT(sender_in) && __CPROVER_POINTER_OFFSET(s) == 0) {   /* decided during symbolic execution */
#else
  if (s == sender_in) {
#endif
    unsigned int i;
    for (i = 0; i < S; ++i) CHECK(sender_in[i] != 0, "harness: sender has S non-NUL bytes");
    CHECK(sender_in[S] == 0, "harness: sender is NUL-terminated at S");
    return S;
  }
  while (s[n]) ++n;
  return n;
}

int quote2(stralloc *sa, char *s) { return stralloc_copys(sa, s); }

int env_init(void) { return 1; }
int env_put2(char *name, char *val) { ++nenv; return 1; }
void sig_pipeignore(void) {}
mode_t vf_umask(mode_t m) { return 022; }
int vf_chdir(const char *d) { chdir_done = 1; return 0; }
time_t vf_time(time_t *t) { return 820458334; }          /* the date of the mbox(5) example */

void checkhome(void) {}
void bouncexf(void) {}

void vf__exit(int status)
{
  exited = status;
  CHECK(0, "main() does not give up before the .qmail lookup with these arguments");
  PATH_END();
#ifdef VERIF_CBMC
  __CPROVER_assume(0);
#endif
}

void qmesearch(int *fd, int *cutable)
{
  static const char md[] = "MAILER-DAEMON";
  unsigned int w = S ? S : 13, i, nl = 0;
  CHECK(ufline.len == 5 + w + 1 + 24 + 1, "C12: From_ line is 'From ' sender ' ' 24-character date newline");
  if (ufline.len == 5 + w + 1 + 24 + 1) {
    CHECK(ufline.s[0] == 'F' && ufline.s[1] == 'r' && ufline.s[2] == 'o' && ufline.s[3] == 'm' && ufline.s[4] == ' ',
          "C12: From_ line begins with 'From '");
    for (i = 0; i < w; ++i) {
      char c = ufline.s[5 + i];
      CHECK(c != ' ' && c != '\t' && c != '\n', "C12: envelope sender in the From_ line is one word: no space, tab or newline");
      if (S) {
        char o = sender_in[i];
        if (o == ' ' || o == '\t' || o == '\n') { CHECK(c == '-', "C12: space, tab, newline in the sender become hyphens"); }
        else CHECK(c == o, "C12: every other sender byte is kept");
      } else {
        CHECK(c == md[i], "C12: empty sender is written as MAILER-DAEMON");
      }
    }
    CHECK(ufline.s[5 + w] == ' ', "C12: one space between sender and date");
    for (i = 0; i < 5 + 13 + 1 + 24 + 1 + S; ++i) { if (i >= ufline.len) break; if (ufline.s[i] == '\n') ++nl; }
    CHECK(nl == 1 && ufline.s[ufline.len - 1] == '\n', "C12: the From_ line is exactly one line");
  }
  CHECK(chdir_done && nenv >= 8, "main ran through the environment set-up");
  if (S >= 1 && sender_in[0] == '\n') WITNESS("newline_in_sender");
  if (S >= 2 && sender_in[0] == ' ' && sender_in[1] == '\t') WITNESS("space_tab_in_sender");
  if (S == 0) WITNESS("empty_sender");
  WITNESS("ufline_built");
  PATH_END();
}

void vmain(void)
{
  static char *argv[10];
  unsigned int i;
  sym_inputs();
  for (i = 0; i < S; ++i) ASSUME(sender_in[i] != 0);
  ASSUME(sender_in[S] == 0);
  argv[0] = "qmail-local"; argv[1] = "u"; argv[2] = "/h"; argv[3] = "u-x"; argv[4] = "-"; argv[5] = "x";
  argv[6] = "h"; argv[7] = sender_in; argv[8] = "./Mailbox"; argv[9] = 0;
  local_main(9, argv);
  CHECK(0, "main() does not return");
}
