/* C09 - qmail-remote.c dropped() and quit(): what the two ways out of the SMTP dialogue
 * write to the report stream.  They are cut in smtp.c / smtpcode.c (observing stubs that
 * check WHEN they are called); this unit closes the composition.
 * Encoded from /repo: qmail-remote.c dropped, quit, outhost, outsmtptext, out, zero,
 * zerodie; ip.c ip_fmt, fmt_ulong.c, fmt_str.c.
 *
 * Oracle (property C09, qmail-remote(8) RESULTS: "each report is terminated by a 0 byte",
 * "begins with a single letter"):
 *   MODE 0  dropped(), flagcritical symbolic, any peer address:
 *           exactly one report is appended: it starts with Z (temporary failure), holds no
 *           NUL but its terminator, says "Possible duplicate" iff flagcritical is set;
 *           flushed; exit status 0.
 *   MODE 1  quit(letter..., append) with any captured server text (smtptext, <= 6 bytes,
 *           every byte value incl. NUL and LF): exactly one report, starting with the
 *           letter the caller chose; the server text adds no NUL (cannot forge further
 *           reports); flushed; exit 0.  If the write of QUIT fails (safewrite() calls
 *           dropped()): exactly one report, Z - an accepted message may then be retried,
 *           which the property allows ("delivered ONLY IF"), never the other way round. */
#include "verif.h"
#include "gen_qmail-remote.c"

#ifndef MODE
#define MODE 0
#endif
#define TL 6
#define REPMAX 112

unsigned char in_crit;
unsigned char in_ip[4];
unsigned char in_letter;       /* MODE 1: 0,1,2 -> K,Z,D */
unsigned char in_text[TL];     /* MODE 1: captured server text */
unsigned int in_textlen;
unsigned char in_quitfail;     /* MODE 1: the write of QUIT fails */

static unsigned char rep[REPMAX];
static unsigned int replen;
static int rep_dirty;
static unsigned int sent;      /* bytes put on the connection */
static int quit_failed;
static char textbuf[TL + 1];
static char prepend[3];

char subfd_outbufsmall[256];
static substdio it_outsmall = SUBSTDIO_FDBUF(write, 1, subfd_outbufsmall, 256);
substdio *subfdoutsmall = &it_outsmall;

void sym_inputs(void)
{
#ifdef REPLAY
#include "replay_inputs.inc"
#else
  SYM(in_crit); SYM_ARR(in_ip); SYM(in_letter); SYM_ARR(in_text); SYM(in_textlen); SYM(in_quitfail);
#endif
}

int ideal_getc(substdio *s) { CHECK(0, "nothing is read here"); return -1; }

int ideal_putc(substdio *s, unsigned char c)
{
  if (s == &smtpto) { ++sent; return 0; }
  CHECK(s == subfdoutsmall, "only the connection and the report stream are written");
  CHECK(replen < REPMAX, "report fits (harness sizing)");
  ASSUME(replen < REPMAX);
  rep[replen++] = c;
  rep_dirty = 1;
  return 0;
}

int ideal_flush(substdio *s)
{
  if (s == &smtpto) {
    /* the real flush ends in safewrite(), which calls dropped() when the write fails */
    if (MODE == 1 && in_quitfail && !quit_failed) { quit_failed = 1; dropped(); }
    return 0;
  }
  rep_dirty = 0;
  return 0;
}

void vf__exit(int status)
{
  static const char pat[] = "Possible duplicate";
  unsigned int i, m = 0, nul = 0;
  int dup = 0;
  char want;
  CHECK(status == 0, "qmail-remote always exits zero");
  CHECK(replen >= 2, "C09: a report was written");
  CHECK(!rep_dirty, "C09: the report is flushed before exit");
  for (i = 0; i < REPMAX; ++i) {
    unsigned char c;
    if (i >= replen) break;
    c = rep[i];
    if (c == 0) ++nul;
    if (c == (unsigned char) pat[m]) { if (++m == sizeof pat - 1) { dup = 1; m = 0; } }
    else m = (c == 'P') ? 1 : 0;
  }
  CHECK(nul == 1 && replen >= 1 && rep[replen - 1] == 0, "C09: exactly one report, NUL-terminated (server text cannot add reports)");
  if (MODE == 0) {
    want = 'Z';
    CHECK(dup == (in_crit != 0), "C09: 'Possible duplicate' iff the connection was lost after the final dot was sent (flagcritical)");
    if (in_crit) WITNESS("dropped_critical"); else WITNESS("dropped_not_critical");
  } else if (quit_failed) {
    want = 'Z';
    CHECK(!dup, "C09: no duplicate warning outside the critical window");
    WITNESS("quit_write_failed");
  } else {
    want = "KZD"[in_letter];
    CHECK(sent == 6, "QUIT was sent");
    if (in_letter == 0 && in_textlen == TL && in_text[2] == 0 && in_text[3] == 'K') WITNESS("quit_K_text_with_nul");
    if (in_letter == 2 && in_textlen == 0) WITNESS("quit_D_no_text");
  }
  CHECK(replen >= 1 && rep[0] == (unsigned char) want, "C09: the report starts with the verdict letter");
  PATH_END();
#ifdef VERIF_CBMC
  __CPROVER_assume(0);
#endif
}

void vmain(void)
{
  unsigned int i;
  sym_inputs();
  for (i = 0; i < 4; ++i) partner.d[i] = in_ip[i];
#if MODE == 0
  ASSUME(in_crit <= 1);
  flagcritical = in_crit;
  dropped();
#else
  ASSUME(in_letter <= 2 && in_textlen <= TL && in_quitfail <= 1);
  for (i = 0; i < TL; ++i) textbuf[i] = (char) in_text[i];
  smtptext.s = textbuf; smtptext.len = in_textlen; smtptext.a = TL + 1;
  prepend[0] = "KZD"[in_letter]; prepend[1] = ' '; prepend[2] = 0;
  flagcritical = 0;                      /* smtp() clears it before every quit() */
  quit(prepend, " said so");
#endif
  CHECK(0, "dropped()/quit() do not return");
}
