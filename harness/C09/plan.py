# C09 - remote delivery verdicts: qmail-remote.c smtpcode()/smtp()/quit()/dropped() and qmail-rspawn.c report().
#
# Composition: smtp_dialogue proves which reports smtp() writes and WHEN it calls dropped()/blast(); dropped_quit proves
# what dropped()/quit() write; smtpcode proves the reply reader on arbitrary bytes; C06 proves blast(); rspawn_report
# proves what qmail-rspawn relays to qmail-send for whatever qmail-remote wrote / however it ended.
#
# kills (hand-made mutants of /repo in a scratch worktree; each reported as VIOLATION with a native replay, rc 1):
#   qmail-remote.c smtp():   RCPT `code >= 500` -> `> 500`                         smtp_dialogue (recipient report class)
#                            'h' and 's' swapped                                   smtp_dialogue (recipient report class)
#                            `flagcritical = 0` moved before the final smtpcode()  smtp_dialogue (flagcritical iff dot sent)
#                            final `if (code >= 400) quit("Z"...)` removed         smtp_dialogue (message report by class)
#                            greeting `!= 220` -> `>= 400`                         smtp_dialogue (blast only after ...)
#                            `if (!flagbother) quit("DGiving up...")` removed      smtp_dialogue (blast only after ...)
#                            RCPT commands sent in reverse argument order (NR=2)   smtp_dialogue (report per recipient)
#   qmail-remote.c dropped(): `if (flagcritical)` -> `if (!flagcritical)`          dropped_quit (both modes)
#   qmail-remote.c outsmtptext(): NUL -> '?' replacement removed                   dropped_quit MODE1 + smtp_dialogue (forged record)
#   qmail-remote.c smtpcode(): one get() less after a continuation line            smtpcode (truncated reply returned as a code)
#                            third digit `code * 10` -> `code * 8`                 smtpcode (returned code)
#   timeoutread.h GEN_SAFE_TIMEOUTREAD: EOF (r == 0) no longer calls dropped()     smtpcode (saferead returned without a byte)
#   qmail-rspawn.c report(): crash text "Z..." -> "D..."                           rspawn_report (crash => Z)
#                            `case 's': orr = 0` dropped                           rspawn_report (refused recipient relayed as K)
#                            `if (s[j] == 'Z') { result = 0; break; }` dropped     rspawn_report (first complete message report)
#                            exit 111 text "Z..." -> "D..."                        rspawn_report (111 => Z)
#                            pre-fix tree 356f27c (substdio_puts(ss,s+k+1))        rspawn_report L>=3: strlen beyond s[len..],
#                                                                                  ASan heap-buffer-overflow on "h\0K" (fixed: b374315)
#   NOT killed, by design:   report() `if (result <= orr)` guard dropped - changes only the explanatory text appended to a
#                            Z/D report (the K line's text), never the verdict letter; the property is about the verdict.
from vlib import Obl, Prog, borrow


STRALLOC = ["stralloc_opys.c", "stralloc_opyb.c", "stralloc_pend.c", "stralloc_catb.c", "byte_copy.c"]


def obligations(tier):
    report_ls = list(range(0, 9)) if tier == "quick" else list(range(0, 11))
    code_ns = [12] if tier == "quick" else [12, 14, 16, 18]
    nrs = [1, 2] if tier == "quick" else [1, 2, 3]
    # spawn.c relays what qmail-remote printed: the report buffer of a reused slot starts empty (spawn_docmd) and report() gets the wait
    # status and output of that delivery's own child (spawn_main)
    return borrow("C18", ["spawn_docmd", "spawn_main"], tier) + [
        Obl("smtpcode", "smtpcode.c",
            progs=[Prog("qmail-remote.c", nomain=True, cut=["dropped"])],
            repo=STRALLOC, lib=["ideal_substdio.c", "arena_stralloc.c"],
            defines={"ARENA_CAP": 32, "ARENA_SLOTS": 1},
            sysrename=["_exit"],
            grid=[{"N": n} for n in code_ns],
            unwind_default=lambda p: p["N"] + 2,
            # a continuation line costs >= 5 stream bytes, so the outer loop runs <= N/5+1 times inside the
            # bound; the unwinding assertion proves it
            unwind=lambda p: {"substdio_put": 40, "substdio_get": 2, "ref_reply": p["N"] + 1,
                              "smtpcode~for (;;)": p["N"] // 5 + 2},
            backend="cadical", timeout=900 if tier == "quick" else 2400,   # measured: N=12 25-35 s, 16: 112 s, 18: 197 s
            functions=["qmail-remote.c:smtpcode", "qmail-remote.c:get", "qmail-remote.c:saferead", "stralloc_opys.c", "stralloc_pend.c"],
            cuts=["dropped -> observing stub that ends the run (what dropped() reports: obligation dropped_quit)"],
            stubs=["timeoutread: delivers the symbolic stream one byte per call, then 0 (EOF) or -1 (error/timeout), symbolic",
                   "substdio_get/put/flush: ideal byte streams; smtpfrom's read goes through the real saferead()",
                   "stralloc_ready/readyplus: arena (32 bytes); _exit: must be unreachable"],
            assumes=["server stream <= N bytes, all byte values, connection ends (EOF or error) after any number of bytes"],
            outside=["replies longer than N bytes (HUGESMTPTEXT truncation of the captured text)"],
            claim="for every server stream <= N bytes: a well-formed RFC 5321 reply (single/multi-line, LF or CRLF) yields its code, consumes "
                  "exactly the reply and captures it minus CRs; a stream ending inside a reply calls dropped() and only then, with nothing "
                  "reported before and nothing read after; a truncated reply is never returned as a code",
            expect_witnesses=["single_or_multi_complete", "multi_line_reply", "codes_differ", "crlf_reply", "bare_code_reply", "code_250",
                              "code_999", "malformed_returned", "dropped_before_reply", "dropped_in_continuation", "dropped_by_timeout",
                              "dropped_malformed"]),
        Obl("smtp_dialogue", "smtp.c",
            progs=[Prog("qmail-remote.c", nomain=True, cut=["blast", "outhost", "dropped"])],
            repo=STRALLOC, lib=["ideal_substdio.c", "arena_stralloc.c"],
            defines={"ARENA_CAP": 32, "ARENA_SLOTS": 1},
            sysrename=["_exit"],
            grid=[{"NR": n} for n in nrs],
            unwind_default=24,
            unwind=lambda p: {"substdio_put": 40, "substdio_get": 2, "smtpcode~for (;;)": 4, "smtpcode~while (ch": 8,   # generous: a parser that loses sync must show as a verdict, not as a bound
                              "smtp": p["NR"] + 1, "check_rcpt_reports": p["NR"] + 1, "ref_walk": p["NR"] + 1,
                              "vmain": p["NR"] + 6, "server_command": p["NR"] + 1},
            backend="cadical", timeout=1500,      # measured under load: NR=1 100-120 s, NR=2 150-175 s, NR=3 246 s (minisat: 2-3x slower)
            functions=["qmail-remote.c:smtp", "qmail-remote.c:smtpcode", "qmail-remote.c:get", "qmail-remote.c:saferead",
                       "qmail-remote.c:quit", "qmail-remote.c:outsmtptext", "qmail-remote.c:out",
                       "qmail-remote.c:zero", "qmail-remote.c:zerodie"],
            cuts=["blast -> contract stub: message and final dot sent, flagcritical=1 (proved by C06 remote_blast), or a write failure "
                  "before / at the dot calling dropped()",
                  "dropped -> observing stub (when it is called, flagcritical, reports so far); its own report: obligation dropped_quit",
                  "outhost -> prints a fixed marker (formats the peer IP address; no verdict depends on it)"],
            stubs=["timeoutread: scripted server (per phase symbolic code 000-999, optional continuation line, one symbolic "
                   "text byte (CR => CRLF line end), one disconnect at any byte offset of any phase, EOF or error; one failing "
                   "write of a command HELO..DATA)",
                   "substdio: ideal streams; reads go through the real saferead(); the server sees a command when smtpto is flushed",
                   "stralloc_ready/readyplus: arena; _exit: evaluates the oracle, ends the path"],
            assumes=["replies follow the template (well-formed, <= 2 lines, 1 text byte); at most one failing command write and one cut reply"],
            outside=["more than %d recipients" % max(nrs), "malformed replies (smtpcode obligation covers the reader on arbitrary bytes)",
                     "failing write of QUIT (dropped_quit covers it)", "DNS/MX selection, connect, tcpto"],
            claim="for every script: recipient i reported r/h/s by the class of the reply to its RCPT, in argument order; exactly one "
                  "message report: K iff some r and DATA<400 and final<400, D/Z by class at MAIL/DATA/final, Z for greeting!=220, "
                  "HELO!=250; any disconnect calls dropped() at a record boundary with flagcritical set iff the dot was sent; "
                  "NUL in server text adds no record; flushed; exit 0",
            expect_witnesses=lambda p: ["delivered", "junk_reply_after_dot", "delivered_multiline_nul_text", "delivered_crlf", "no_recipient_accepted", "refused_after_dot_5xx",
                                        "deferred_after_dot_4xx", "data_5xx", "mail_5xx", "bad_greeting", "bad_helo",
                                        "lost_inside_final_reply", "lost_while_sending_dot", "lost_while_sending_message",
                                        "lost_before_greeting", "lost_at_last_rcpt", "timeout_at_data", "lost_writing_last_rcpt"]
            + (["delivered_h_then_r", "delivered_r_then_s"] if p["NR"] >= 2 else [])),
        Obl("connect_loop", "connect.c",
            progs=[Prog("qmail-remote.c", main_as="remote_main", cut=["getcontrols", "addrmangle", "smtp"])],
            repo=STRALLOC + ["str_chr.c", "scan_ulong.c"], lib=["ideal_substdio.c", "arena_stralloc.c"],
            defines={"ARENA_CAP": 8, "ARENA_SLOTS": 2},
            sysrename=["_exit", "socket", "close", "chdir", "getpid", "time"],
            grid=[{"NIP": n} for n in ([2] if tier == "quick" else [2, 3])],
            unwind_default=lambda p: p["NIP"] + 3,
            unwind={"substdio_put": 160, "vf__exit": 161, "scan_ulong": 4, "str_chr": 5, "strlen": 161, "byte_copy": 8, "outsafe": 4},
            timeout=900,
            functions=["qmail-remote.c:main", "qmail-remote.c:temp_*", "qmail-remote.c:perm_*", "qmail-remote.c:out", "qmail-remote.c:zerodie"],
            cuts=["getcontrols -> nothing (control files: C20/C10)", "addrmangle -> nothing (C17)", "smtp -> observer (obligation smtp_dialogue)"],
            stubs=["dns_ip/dns_mxip: any result code, any list of up to NIP addresses with symbolic preferences 0..3",
                   "ipme_is, tcpto, socket, timeoutconn: symbolic per address (connects / refused / timed out)", "tcpto_err: observer",
                   "constmap(smtproutes): no route, or the route r:26", "report stream: ideal stream"],
            assumes=["up to NIP addresses; preferences 0..3; one recipient"],
            outside=["the resolver and the timeout table themselves (dns.c walkers: C20; tcpto.c file format not encoded)", "more than NIP addresses"],
            claim="before the dialogue qmail-remote reports D only for: no such host, no exchanger/address, this host is itself the best-preference "
                  "exchanger; every kind of connect trouble (refused, timed out, ruled out by the timeout table, no socket, DNS soft error) gives "
                  "one Z report; candidates are tried in list order, the dialogue runs on the first that connects; exit 0, one report",
            expect_witnesses=["connected", "connected_to_second_after_first_failed", "dns_soft", "dns_hard", "no_address", "best_preference_mx_is_me",
                              "every_candidate_ruled_out_by_the_timeout_table", "no_candidate_connected"]),
        Obl("dropped_quit", "dropped.c",
            progs=[Prog("qmail-remote.c", nomain=True)],
            repo=["ip.c", "fmt_ulong.c", "fmt_str.c"], lib=["ideal_substdio.c"],
            sysrename=["_exit"],
            grid=[{"MODE": 0}, {"MODE": 1}],
            unwind_default=8,
            unwind={"substdio_put": 40, "vf__exit": 113, "fmt_ulong": 4, "fmt_str": 3},
            timeout=600,
            functions=["qmail-remote.c:dropped", "qmail-remote.c:quit", "qmail-remote.c:outhost", "qmail-remote.c:outsmtptext",
                       "qmail-remote.c:out", "qmail-remote.c:zero", "qmail-remote.c:zerodie", "ip.c:ip_fmt", "fmt_ulong.c", "fmt_str.c"],
            stubs=["substdio: ideal streams; a failing write of QUIT is modelled as safewrite() does it: dropped() is called",
                   "_exit: evaluates the oracle, ends the path"],
            assumes=["flagcritical in {0,1}; any peer IPv4 address; captured server text <= 6 bytes, every byte value"],
            outside=["server text longer than 6 bytes"],
            claim="dropped() appends exactly one report: Z, 'Possible duplicate' iff flagcritical, no NUL inside, flushed, exit 0; "
                  "quit(letter...) appends exactly one report starting with that letter whatever the captured server text holds "
                  "(NUL -> '?'), or one Z report if the write of QUIT fails",
            expect_witnesses=lambda p: ["dropped_critical", "dropped_not_critical"] if p["MODE"] == 0
            else ["quit_write_failed", "quit_K_text_with_nul", "quit_D_no_text"]),
        Obl("rspawn_report", "report.c",
            progs=[Prog("qmail-rspawn.c")],
            lib=["ideal_substdio.c"],
            sysrename=["strlen"],
            grid=[{"L": l} for l in report_ls],
            unwind_default=lambda p: p["L"] + 2,
            unwind=lambda p: {"substdio_put": 40,                 # longest fixed text: 34 bytes
                              "vmain": 2 * p["L"] + 50, "vf_strlen": 41},          # constant-bound scan of the captured text (OUTMAX)
            timeout=600,
            functions=["qmail-rspawn.c:report"],
            stubs=["substdio_put/puts: ideal byte stream (lib/ideal_substdio.c)",
                   "strlen: plain byte loop in the harness (bounded by 40), so that an over-read fails at the first byte outside the object"],
            assumes=["wait status = signal 1..126 (+core flag) or exit code 0..255; qmail-remote output exactly L bytes, every byte value, NULs anywhere"],
            outside=["outputs longer than %d bytes" % max(report_ls), "spawn.c's truncreport shortening (not enabled by qmail-rspawn)"],
            claim="for every wait status and every output of L bytes: K is relayed only for exit 0, no crash, first report not h/s and first "
                  "complete message report K; crash/111 => Z, 100 => D, s => Z, h => D; exactly one verdict letter, no NUL in the text; "
                  "no read beyond s[len-1] (heap object of exactly len bytes)",
            expect_witnesses=lambda p: ["done", "crashed", "exit111", "exit100"]
            + (["no_output"] if p["L"] == 0 else [])
            + (["unterminated_output"] if p["L"] >= 1 else [])
            + (["msg_Z"] if p["L"] >= 2 else [])
            + (["r_then_K", "s_then_K", "h_then_K"] if p["L"] >= 4 else [])),
    ] + stall_obligations(tier)


# ---- stalls and disconnects (tag h3): the units that turn a stalled or vanished peer into an error, and the
# saferead()/safewrite() wrappers that act on it.  The harnesses above (and C05/C06/C07/C19) replace the network by ideal
# streams whose read hook may say "ended"; these obligations close that cut.  Borrowed into C05 and C07.
#
# kills (hand-made mutants of /repo in scratch worktrees, each VIOLATION with a native replay rc 1 unless noted): see the
# `# kills:` comment next to each Obl.
def stall_obligations(tier):
    quick = tier == "quick"
    rw = dict(
        sysrename=["select", "read", "write"],
        grid=[{"LEN": n} for n in ([1, 4] if quick else [0, 1, 2, 4, 8])],
        # FD_ZERO is a 16-iteration loop (17 with the exit test) inside the function under test; the harness compares
        # the 16 words of an fd_set and LEN+1 buffer bytes
        unwind_default=18, unwind=lambda p: {"vmain": p["LEN"] + 3, "one_io": p["LEN"] + 2},
        timeout=300,
        stubs=["select: checks the sets and the timeout it is given; fails with any errno, times out (set cleared) or reports the descriptor ready; "
               "stores an arbitrary remaining time", "read/write: one call with symbolic result -1..LEN and errno; read stores symbolic bytes"],
        assumes=["descriptor 0..FD_SETSIZE-1 (symbolic), t any int >= 0, previous errno arbitrary, buffer of LEN bytes"],
        outside=["descriptors >= FD_SETSIZE (undefined for select(2)); a kernel whose select() reports readiness wrongly"])
    return [
        # kills: timeoutread.c  `tv.tv_sec = t` -> `t + 1`; `tv.tv_usec = 0` -> `= t`; `select(fd + 1` -> `select(fd`;
        #          `== -1) return -1` dropped (read attempted after EINTR); `errno = error_timeout` dropped;
        #          `errno = error_timeout; return -1` -> `return 0` (stall reported as end of data);
        #          `FD_ISSET(fd,&rfds)` -> `!FD_ISSET` / -> `1`; rfds passed as the write set; `read(fd,buf,len)` -> `len - 1`;
        #          FD_ZERO dropped (cbmc: uninitialised set; reproduces natively because the replay build dirties the stack first)
        #        (11 of 11 tried)
        Obl("timeoutread_unit", "timeout_rw.c", repo=["timeoutread.c"], defines={"WR": 0},
            functions=["timeoutread.c:timeoutread"],
            claim="timeoutread(t,fd,buf,len) = -1/ETIMEDOUT iff select() on exactly {fd} (read set) with timeout exactly t s did not report fd ready; "
                  "-1 with select's errno if select fails; otherwise exactly the result, errno and buffer contents of ONE read(fd,buf,len)",
            expect_witnesses=lambda p: ["select_failed", "timed_out", "io_error", "end_of_file_or_nothing_written", "io_error_is_itself_etimedout",
                                        "descriptor_0", "descriptor_64", "descriptor_1023", "done"]
            + (["full_transfer"] if p["LEN"] >= 1 else []) + (["short_transfer"] if p["LEN"] >= 2 else []), **rw),
        # kills: timeoutwrite.c the same eleven edits (tv_sec t+1, tv_usec, select(fd, missing -1 test, missing errno, return 0,
        #          !FD_ISSET, `if (1)`, wfds passed as the read set, write(fd,buf,len-1), FD_ZERO dropped)
        Obl("timeoutwrite_unit", "timeout_rw.c", repo=["timeoutwrite.c"], defines={"WR": 1},
            functions=["timeoutwrite.c:timeoutwrite"],
            claim="timeoutwrite(t,fd,buf,len) = -1/ETIMEDOUT iff select() on exactly {fd} (write set) with timeout exactly t s did not report fd "
                  "writable; -1 with select's errno if select fails; otherwise exactly the result and errno of ONE write(fd,buf,len)",
            expect_witnesses=lambda p: ["select_failed", "timed_out", "io_error", "end_of_file_or_nothing_written", "io_error_is_itself_etimedout",
                                        "descriptor_0", "descriptor_64", "descriptor_1023", "done"]
            + (["full_transfer"] if p["LEN"] >= 1 else []) + (["short_transfer"] if p["LEN"] >= 2 else []), **rw),
        # kills: timeoutconn.c  ndelay_on() call dropped; either ndelay_off() dropped; port bytes swapped; `&& (errno != error_wouldblock)`
        #          dropped; `&&` -> `||`; getpeername() test -> `if (0)` (writable taken for connected); `== -1` -> `== 0`;
        #          `errno = error_timeout` dropped; final `return -1` -> `return 0`; `tv.tv_sec = timeout - 1`; select() `== -1` test
        #          dropped; byte_copy(...,3,ip); `select(s,`; wfds passed as the read set; FD_ZERO dropped; connect failure errno
        #          overwritten with error_timeout
        #        ndelay_off.c `& ~O_NONBLOCK` -> `| O_NONBLOCK`; F_SETFL -> F_GETFL;   ndelay.c `| O_NONBLOCK` -> `& O_NONBLOCK`
        #        (20 of 21 tried)  NOT killed, by design: `read(s,&ch,1)` dropped - errno is then getpeername()'s ENOTCONN instead of
        #          the socket's own error; no document says which, both are accepted (still -1, still not ETIMEDOUT unless one says so)
        Obl("timeoutconn_unit", "timeout_conn.c",
            repo=["timeoutconn.c", "ndelay.c", "ndelay_off.c", "byte_copy.c", "byte_zero.c"],
            sysrename=["connect", "select", "getpeername", "read", "fcntl"],
            grid=[{}],
            unwind_default=18,          # FD_ZERO (16 words), byte_zero/byte_copy on 16/4 bytes, harness loops over 16 words/bytes
            timeout=300,
            functions=["timeoutconn.c:timeoutconn", "ndelay.c:ndelay_on", "ndelay_off.c:ndelay_off", "byte_copy.c", "byte_zero.c"],
            stubs=["fcntl: file status flags of the socket (symbolic before the call), fails only for a bad descriptor",
                   "connect: checks address/port/non-blocking mode; 0, or -1 with any errno", "select: checks sets and timeout; -1 / timed out / writable",
                   "getpeername: 0 (connected, stores a peer address) or -1 with any errno; read: -1 with any errno (the pending socket error)"],
            assumes=["socket 0..FD_SETSIZE-1, timeout any int >= 0, port <= 65535, any IPv4 address, arbitrary previous errno and file status flags"],
            outside=["that the kernel's getpeername() fails iff the connect failed (UNIX semantics the code relies on)", "IPv6", "ports > 65535"],
            claim="timeoutconn() returns 0 only if the connection to exactly the given address/port was established (at once, or in progress + writable "
                  "within exactly `timeout` s + completion check passed), with the socket back in blocking mode; -1/ETIMEDOUT iff not writable in time; "
                  "-1 with connect's/select's errno on their failures; -1 when the completion check fails; connect() is issued non-blocking",
            expect_witnesses=["bad_descriptor", "connected_at_once", "refused_at_once", "connect_itself_says_etimedout", "select_failed", "timed_out",
                              "connected_after_wait", "connected_after_ewouldblock", "refused_after_wait", "kernel_timeout_after_wait",
                              "was_nonblocking_before", "descriptor_1023", "done"]),
        # kills: timeoutread.h GEN_SAFE_TIMEOUTREAD  `r == 0 ||` dropped (EOF returned to substdio); `|| r == -1` dropped;
        #          `readfd` -> `fd` (reads descriptor -1)
        #        timeoutwrite.h GEN_SAFE_TIMEOUTWRITE  `doexit` dropped; `r == 0 ||` dropped
        #        qmail-remote.c  saferead built with timeoutconnect instead of timeout; smtpfrom wired to read() instead of saferead;
        #          safewrite's dropped() -> _exit(0) (no report at all); safewrite clears flagcritical before dropped()
        #        (9 of 9 tried)
        Obl("remote_safeio", "safeio.c",
            progs=[Prog("qmail-remote.c", nomain=True, cut=["dropped"])], lib=["ideal_substdio.c"],
            defines={"PROG": 5}, sysrename=["_exit", "read", "write"],
            grid=[{"DIR": d, "RL": rl, "LEN": ln} for (rl, ln) in SAFEIO_SIZES(quick) for d in (0, 1)],
            unwind_default=lambda p: p["RL"] + 32, unwind=lambda p: {"ideal_flush": p["RL"] + 31},
            timeout=300,
            functions=["qmail-remote.c:saferead", "qmail-remote.c:safewrite", "timeoutread.h:GEN_SAFE_TIMEOUTREAD", "timeoutwrite.h:GEN_SAFE_TIMEOUTWRITE",
                       "qmail-remote.c:smtpfrom", "qmail-remote.c:smtpto"],
            cuts=["dropped -> observing stub that ends the run (what dropped() reports: obligation dropped_quit)"],
            stubs=SAFEIO_STUBS,
            assumes=["RL command bytes pending, read buffer of LEN bytes, any split into short writes; timeoutremote any int >= 0, any socket number, flagcritical 0/1"],
            outside=["results < -1 of timeoutread/timeoutwrite (excluded by timeoutread_unit/timeoutwrite_unit + read(2)/write(2))"],
            claim="qmail-remote: a read or write on the SMTP connection that ends with a result <= 0 (EOF, error, timeout) always ends in dropped(), "
                  "flagcritical untouched, never in a return to substdio; positive counts and the data are passed through unchanged; both go "
                  "through timeoutread/timeoutwrite with timeoutremote on smtpfd",
            expect_witnesses=lambda p: safeio_witnesses(5, p["DIR"], p["RL"], p["LEN"])),
        # kills: qmail-smtpd.c saferead  flush() dropped; flush() moved behind timeoutread(); `errno == error_timeout` -> `!=`;
        #          `r == 0 ||` dropped; timeoutread(1200,...) instead of the control value; die_read() emptied;
        #          die_alarm  flush() dropped; "451" -> "250";   safewrite's _exit(1) replaced by `errno = 0`
        #        qmail-qmtpd.c  saferead: substdio_flush(&ssout) dropped; `r == 0 ||` dropped;  safewrite: `r == 0 ||` dropped
        #        qmail-qmqpd.c  saferead: `r == 0 ||` dropped;  safewrite: _exit(0) dropped
        #        qmail-pop3d.c  timeout 1200 -> 12000; ssin wired to read();   qmail-popup.c  ssout on descriptor 0
        #        timeoutread.h / timeoutwrite.h macro edits above (pop3d, popup, smtpd's safewrite)
        #        (19 of 20 tried)  NOT killed: die_alarm() without its _exit(1) - equivalent: saferead() then falls into die_read(), which
        #          exits with the 451 already flushed
        Obl("smtpd_safeio", "safeio.c",
            progs=[Prog("qmail-smtpd.c", nomain=True), Prog("qmail-qmtpd.c", sub=[(r"^main\(\)", "qmtpd_main()", 1)]),
                   Prog("qmail-qmqpd.c", sub=[(r"^main\(\)", "qmqpd_main()", 1)]), Prog("qmail-pop3d.c", nomain=True),
                   Prog("qmail-popup.c", nomain=True)],
            lib=["ideal_substdio.c"], sysrename=["_exit", "read", "write"],
            grid=[{"PROG": g, "DIR": d, "RL": rl, "LEN": ln} for (rl, ln) in SAFEIO_SIZES(quick) for g in range(5) for d in (0, 1)],
            unwind_default=lambda p: p["RL"] + 32, unwind=lambda p: {"ideal_flush": p["RL"] + 31},
            timeout=300,
            functions=["qmail-smtpd.c:saferead", "qmail-smtpd.c:safewrite", "qmail-smtpd.c:flush", "qmail-smtpd.c:out", "qmail-smtpd.c:die_read",
                       "qmail-smtpd.c:die_alarm", "qmail-qmtpd.c:saferead", "qmail-qmtpd.c:safewrite", "qmail-qmqpd.c:saferead",
                       "qmail-qmqpd.c:safewrite", "qmail-pop3d.c:saferead", "qmail-pop3d.c:safewrite", "qmail-pop3d.c:die",
                       "qmail-popup.c:saferead", "qmail-popup.c:safewrite", "qmail-popup.c:die",
                       "timeoutread.h:GEN_SAFE_TIMEOUTREAD", "timeoutwrite.h:GEN_SAFE_TIMEOUTWRITE", "ssin/ssout of each program"],
            stubs=SAFEIO_STUBS + ["qmail_close: must be unreachable"],
            assumes=["PROG 0..4 = qmail-smtpd, -qmtpd, -qmqpd, -pop3d, -popup; RL reply bytes pending, read buffer of LEN bytes, any split into short writes; "
                     "timeoutsmtpd any int >= 0"],
            outside=["SIGALRM (alarm(3600)) as the stall guard of qmail-qmtpd/qmail-qmqpd, which read and write without select()",
                     "the exit status (no document constrains it)"],
            claim="in every network daemon a read or write on the connection that ends with a result <= 0 ends the process at once - never a return "
                  "to substdio, no further I/O, no qmail_close(); positive counts and data pass unchanged; smtpd and qmtpd flush all pending replies "
                  "before they wait for input; smtpd answers a read timeout with a flushed 4xx line; smtpd/pop3d/popup wait through "
                  "timeoutread/timeoutwrite with timeoutsmtpd / 1200 s on descriptors 0 and 1",
            expect_witnesses=lambda p: safeio_witnesses(p["PROG"], p["DIR"], p["RL"], p["LEN"])),
    ]


def SAFEIO_SIZES(quick):          # (pending reply bytes, read buffer length)
    return [(2, 3)] if quick else [(2, 3), (1, 1), (6, 8)]


SAFEIO_STUBS = ["timeoutread/timeoutwrite (smtpd, pop3d, popup, remote) or read/write (qmtpd, qmqpd): one symbolic result per call: -1 with any errno, 0, "
                "or a count up to the length asked for (short transfers); read stores symbolic bytes",
                "output stream: ideal stream whose flush hook offers the unsent bytes to the stream's real op until all are taken (= allwrite, C20 l0_substdio_out)",
                "_exit: observer, ends the path"]


def safeio_witnesses(prog, d, rl=2, ln=3):
    flushes = prog in (0, 1)
    w = ["done"]
    wr = ["gave_up_on_failed_write", "gave_up_on_write_of_nothing"] + (["gave_up_on_failed_second_write"] if rl >= 2 else [])
    if d == 1:
        return w + ["written"] + (["written_in_pieces"] if rl >= 2 else []) + wr
    w += ["read_passed_through", "gave_up_on_end_of_file", "gave_up_on_timeout", "gave_up_on_read_error"] + (["short_read"] if ln >= 2 else [])
    if flushes:
        w += wr + (["reply_flushed_in_pieces_before_read"] if rl >= 2 else [])
    if prog == 0:
        w += ["timeout_reply_sent", "gave_up_on_failed_write_of_the_timeout_reply"]
    return w
