/* C09 - qmail-remote.c smtp(): the whole SMTP dialogue against a scripted server, NR
 * recipients.  Encoded from /repo: qmail-remote.c smtp, smtpcode, get, saferead, quit,
 * outsmtptext, out, zero, zerodie + stralloc units.
 * Cut: blast() (C06 proves what it sends and that flagcritical is 1 once the final dot is
 * out; here a contract stub that "sends message and dot", optionally with a write failure
 * before or at the dot), outhost() (formats the peer address) and dropped() (reachable
 * from each of the ~150 unrolled read sites; with its report writing and the oracle
 * inlined at every site the NR=1 query took 713 s / 6 GB.  Here: an observing stub that
 * checks WHEN it is called and what flagcritical is; WHAT it then reports - one Z record,
 * "Possible duplicate" iff flagcritical - is obligation dropped_quit, dropped.c).
 *
 * Server script (template, DESIGN 3): for each phase - greeting, HELO, MAIL, RCPT 1..NR,
 * DATA, final dot - a symbolic 3-digit code 000..999, a symbolic "two-line reply" flag
 * ("ddd-t LF ddd t LF"), one symbolic text byte t (any value but LF: NUL in the text is
 * covered, and t = CR makes the line end CRLF), and one symbolic disconnect: phase
 * and byte offset inside that phase's reply at which the connection ends (EOF or
 * error/timeout) - i.e. before the reply, inside it, after its first line ... - and/or one
 * failing write of a command (phase index: the command of that phase never arrives).
 * The server answers by command verb (RCPT: by the address in the command), so nothing
 * is assumed about the order in which the client sends commands.
 *
 * Oracle (property C09, qmail-remote(8) RESULTS):
 *   reports are NUL-terminated records; first the recipient reports, in ARGUMENT order,
 *   recipient i: r iff its RCPT reply < 400, h iff >= 500, s otherwise; then exactly one
 *   message report: K iff some r, DATA reply < 400 and final reply < 400; D for >= 500 at
 *   MAIL / DATA / final, Z for 4xx there; Z for greeting != 220 or HELO != 250; a lost
 *   connection: dropped() is called (=> Z), after the complete reports of the recipients
 *   answered so far, with flagcritical set iff the final dot had been sent; no recipient
 *   accepted: Z or D (documents do not say which), never K.  Server text
 *   cannot add records (NUL in a reply).  Report flushed, exit 0.  The message is
 *   transferred only after DATA was accepted for at least one accepted recipient. */
#include "verif.h"
#include "gen_qmail-remote.c"

#ifndef NR
#define NR 1
#endif
#define NPH (5 + NR)
#define PH_GREET 0
#define PH_HELO 1
#define PH_MAIL 2
#define PH_RCPT0 3
#define PH_DATA (3 + NR)
#define PH_DOT (4 + NR)
#define CMDMAX 24

/* ---- the script: all nondeterminism */
unsigned char sc_code[NPH][3];
unsigned char sc_junkph, sc_junkb;     /* one phase (or none: >= NPH) whose reply lines start with a byte that is no digit */
unsigned char sc_cont[NPH];
unsigned char sc_text[NPH];
unsigned char sc_dropph;         /* phase whose reply is cut short; >= NPH: connection stays up */
unsigned char sc_dropoff;        /* bytes of that reply delivered before the end */
int sc_endkind;                  /* 0 EOF, -1 error/timeout */
unsigned char sc_blastfail;      /* blast contract: 0 ok, 1 write fails before the dot, 2 while sending the dot */
unsigned char sc_wfail;          /* k >= 1: the write of the k-th command (HELO=1, MAIL=2, RCPT i=2+i, DATA=3+NR) fails; 0: none */

/* ---- server state */
static int pend = PH_GREET;      /* phase whose reply is being delivered, -1 none */
static unsigned int off;         /* bytes of it delivered */
static int ended;                /* connection reported ended */
static int dot_sent;             /* blast put the final dot */
static int blast_called;
static int quit_seen;
static unsigned int ncmd;        /* commands other than QUIT flushed so far */
static unsigned char cmd[CMDMAX];
static unsigned int cmdlen;
static int answered[NPH];        /* reply of this phase completely delivered */

/* ---- report capture */
static char letters[NR + 2];
static unsigned int nrec;
static int rec_start = 1;
static int rep_unflushed;

/* ---- expected outcome, computed from the script before the run (ref_walk) */
static int exp_lost, exp_dup, exp_giveup, exp_blast;
static unsigned int exp_nrcpt;
static char exp_msg;
static char exp_rc[NR];

char subfd_outbufsmall[256];
static substdio it_outsmall = SUBSTDIO_FDBUF(write, 1, subfd_outbufsmall, 256);
substdio *subfdoutsmall = &it_outsmall;

static stralloc rcp[NR];
static char rcpname[3][2] = { "a", "b", "c" };

void sym_inputs(void)
{
#ifdef REPLAY
#include "replay_inputs.inc"
#else
  SYM_ARR(sc_code[0]); SYM_ARR(sc_code[1]); SYM_ARR(sc_code[2]); SYM_ARR(sc_code[3]); SYM_ARR(sc_code[4]);
  SYM_ARR(sc_code[5]);
#if NR >= 2
  SYM_ARR(sc_code[6]);
#endif
#if NR >= 3
  SYM_ARR(sc_code[7]);
#endif
  SYM_ARR(sc_cont); SYM_ARR(sc_text);
  SYM(sc_junkph); SYM(sc_junkb);
  SYM(sc_dropph); SYM(sc_dropoff); SYM(sc_endkind); SYM(sc_blastfail); SYM(sc_wfail);
#endif
}

/* a reply whose first byte is no digit is no acceptance of anything (RFC 5321 4.2: a reply begins with a three-digit code):
 * the reference treats it as a refusal; whether the client calls that permanent or temporary is not prescribed (JUNK) */
#define JUNK(ph) ((int) sc_junkph == (ph))
static unsigned int code_of(int ph) { return JUNK(ph) ? 999u : 100u * sc_code[ph][0] + 10u * sc_code[ph][1] + sc_code[ph][2]; }
static unsigned int line_len(int ph) { return 6u; }                            /* d d d sep t LF */
static unsigned int reply_len(int ph) { return line_len(ph) * (1u + sc_cont[ph]); }

static unsigned char reply_byte(int ph, unsigned int k)
{
  /* sc_cont[ph] continuation lines "ddd-t LF" (0, 1 or 2 of them) before the final "ddd t LF" */
  unsigned int line = 0;
  if (k >= line_len(ph)) { k -= line_len(ph); line = 1; }
  if (k >= line_len(ph)) { k -= line_len(ph); line = 2; }
  if (k == 0 && JUNK(ph)) return sc_junkb;
  if (k < 3) return (unsigned char) ('0' + sc_code[ph][k]);
  if (k == 3) return (line < sc_cont[ph]) ? '-' : ' ';
  if (k == 4) return sc_text[ph];
  return '\n';
}

/* ---- connection, read side: called by the real saferead() */
ssize_t timeoutread(int t, int fd, char *buf, size_t len)
{
  CHECK(!ended, "C09: no read from the connection after it has ended");
  if (pend < 0) {
    CHECK(0, "client waits for a reply although the server has received no (flushed) command");
    ASSUME(0);
  }
  if (pend == (int) sc_dropph && off >= sc_dropoff) { ended = 1; return sc_endkind; }
  buf[0] = (char) reply_byte(pend, off);
  ++off;
  if (off == reply_len(pend)) { answered[pend] = 1; pend = -1; off = 0; }
  return 1;
}

int ideal_getc(substdio *s)
{
  char c;
  CHECK(s == &smtpfrom, "smtp() reads only the SMTP connection (blast is cut)");
  if (saferead(-1, &c, 1) != 1) { CHECK(0, "saferead returned without a byte"); ASSUME(0); }
  return (unsigned char) c;
}

/* ---- connection, write side: the server sees a command when it is flushed */
static void server_command(void)
{
  int ph = -1;
  unsigned int i;
  CHECK(pend < 0, "harness model: a command arrives only after the previous reply was read (no pipelining)");
  if (cmdlen >= 4 && cmd[0] == 'H' && cmd[1] == 'E' && cmd[2] == 'L' && cmd[3] == 'O') ph = PH_HELO;
  else if (cmdlen >= 4 && cmd[0] == 'M' && cmd[1] == 'A' && cmd[2] == 'I' && cmd[3] == 'L') ph = PH_MAIL;
  else if (cmdlen >= 4 && cmd[0] == 'D' && cmd[1] == 'A' && cmd[2] == 'T' && cmd[3] == 'A') ph = PH_DATA;
  else if (cmdlen >= 4 && cmd[0] == 'Q' && cmd[1] == 'U' && cmd[2] == 'I' && cmd[3] == 'T') { quit_seen = 1; cmdlen = 0; return; }
  else if (cmdlen >= 11 && cmd[0] == 'R' && cmd[1] == 'C' && cmd[2] == 'P' && cmd[3] == 'T' && cmd[8] == '<' && cmd[10] == '>') {
    for (i = 0; i < NR; ++i) if (cmd[9] == (unsigned char) rcpname[i][0]) ph = PH_RCPT0 + (int) i;
  }
  CHECK(ph >= 0, "harness model: the server understands the command");
  ASSUME(ph >= 0);
  CHECK(!answered[ph], "harness model: each command is sent once");
  pend = ph; off = 0; cmdlen = 0;
}

int ideal_putc(substdio *s, unsigned char c)
{
  if (s == &smtpto) {
    CHECK(cmdlen < CMDMAX, "command fits (harness sizing)");
    ASSUME(cmdlen < CMDMAX);
    cmd[cmdlen++] = c;
    return 0;
  }
  CHECK(s == subfdoutsmall, "only the connection and the report stream are written");
  if (rec_start) {
    CHECK(nrec < NR + 1, "C09: at most one report per recipient plus one message report");
    ASSUME(nrec < NR + 1);
    letters[nrec] = (char) c;
    rec_start = 0;
  }
  if (c == 0) { ++nrec; rec_start = 1; }
  rep_unflushed = 1;
  return 0;
}

int ideal_flush(substdio *s)
{
  if (s == &smtpto) {
    if (cmdlen) {
      /* a failing write ends in the real safewrite() calling dropped(); QUIT is not counted:
       * its failure is covered in dropped.c (it turns the message report into Z) */
      if (cmd[0] != 'Q' && ++ncmd == sc_wfail) { ended = 1; dropped(); }
      server_command();
    }
  }
  else rep_unflushed = 0;
  return 0;
}

void outhost(void) { out("@"); }      /* definition cut from the generated copy */

/* contract stub for the cut blast(): C06 proves that the real one sends the encoded
 * message, then sets flagcritical, puts the final dot and flushes.  A failing write on
 * the connection makes the real safewrite() call dropped(); both instants are modelled. */
void blast(void)
{
  CHECK(!blast_called, "the message is transferred once");
  blast_called = 1;
  CHECK(exp_blast && pend < 0 && answered[PH_DATA], "C09: the message is sent only after a recipient and then DATA were accepted");
  if (sc_blastfail == 1) { ended = 1; dropped(); }
  flagcritical = 1;
  dot_sent = 1;
  if (sc_blastfail == 2) { ended = 1; dropped(); }
  pend = PH_DOT; off = 0;
}

/* ---- the oracle */
static char rcpt_class(unsigned int c) { return c >= 500 ? 'h' : c >= 400 ? 's' : 'r'; }
/* the connection is lost in phase ph: the write of its command fails, or its reply is cut */
#define CUT(ph) ((int) sc_dropph == (ph) || ((ph) >= PH_HELO && (ph) <= PH_DATA && (int) sc_wfail == (ph)))

/* reference walk through the dialogue, in protocol order */
static void ref_walk(void)
{
  unsigned int i;
  int some_r = 0;
  if (CUT(PH_GREET)) exp_lost = 1;
  else if (code_of(PH_GREET) != 220) exp_msg = 'Z';
  else if (CUT(PH_HELO)) exp_lost = 1;
  else if (code_of(PH_HELO) != 250) exp_msg = 'Z';
  else if (CUT(PH_MAIL)) exp_lost = 1;
  else if (code_of(PH_MAIL) >= 500) exp_msg = 'D';
  else if (code_of(PH_MAIL) >= 400) exp_msg = 'Z';
  else {
    for (i = 0; i < NR; ++i) {
      if (CUT(PH_RCPT0 + (int) i)) { exp_lost = 1; break; }
      exp_rc[i] = rcpt_class(code_of(PH_RCPT0 + (int) i));
      if (exp_rc[i] == 'r') some_r = 1;
      ++exp_nrcpt;
    }
    if (exp_lost) ;
    else if (!some_r) exp_giveup = 1;
    else if (CUT(PH_DATA)) exp_lost = 1;
    else if (code_of(PH_DATA) >= 500) exp_msg = 'D';
    else if (code_of(PH_DATA) >= 400) exp_msg = 'Z';
    else {
      exp_blast = 1;
      if (sc_blastfail == 1) exp_lost = 1;
      else if (sc_blastfail == 2) { exp_lost = 1; exp_dup = 1; }
      else if (CUT(PH_DOT)) { exp_lost = 1; exp_dup = 1; }
      else if (code_of(PH_DOT) >= 500) exp_msg = 'D';
      else if (code_of(PH_DOT) >= 400) exp_msg = 'Z';
      else exp_msg = 'K';
    }
  }
  if (exp_lost) exp_msg = 'Z';
}

static void check_rcpt_reports(void)
{
  unsigned int i;
  CHECK(nrec >= exp_nrcpt, "C09: one report per answered recipient");
  for (i = 0; i < NR; ++i) {
    if (i >= exp_nrcpt || i >= nrec) break;
    if (JUNK(PH_RCPT0 + (int) i)) { CHECK(letters[i] == 'h' || letters[i] == 's', "C09: a RCPT reply that does not start with a digit never counts as an accepted recipient"); }
    else CHECK(letters[i] == exp_rc[i], "C09: recipient report i (argument order) is r/h/s by the class of its RCPT reply");
  }
}

/* definition cut from the generated copy: called by saferead()/safewrite() when the
 * connection is lost.  The real one (dropped.c) then reports Z, with "Possible
 * duplicate" iff flagcritical, and exits. */
void dropped(void)
{
  CHECK(ended, "C09: 'connection died' only when the connection really ended");
  CHECK(exp_lost, "C09: connection lost exactly where the script ends it");
  CHECK(rec_start && nrec == exp_nrcpt, "C09: the recipient reports made so far are complete; the message report follows");
  check_rcpt_reports();
  CHECK((flagcritical != 0) == exp_dup, "C09: flagcritical (=> 'Possible duplicate') iff the connection is lost after the final dot was sent");
  if (exp_dup && (int) sc_dropph == PH_DOT && sc_dropoff > 0) WITNESS("lost_inside_final_reply");
  if (exp_dup && sc_blastfail == 2) WITNESS("lost_while_sending_dot");
  if (!exp_dup && exp_blast && sc_blastfail == 1) WITNESS("lost_while_sending_message");
  if ((int) sc_dropph == PH_GREET && sc_dropoff == 0) WITNESS("lost_before_greeting");
  if ((int) sc_dropph == PH_RCPT0 + NR - 1 && exp_nrcpt == NR - 1) WITNESS("lost_at_last_rcpt");
  if (sc_endkind == -1 && (int) sc_dropph == PH_DATA) WITNESS("timeout_at_data");
  if ((int) sc_wfail == PH_RCPT0 + NR - 1 && exp_nrcpt == NR - 1 && sc_dropph >= NPH) WITNESS("lost_writing_last_rcpt");
  PATH_END();
#ifdef VERIF_CBMC
  __CPROVER_assume(0);
#endif
}

/* every other way out of smtp(): quit() -> zerodie() -> _exit */
void vf__exit(int status)
{
  CHECK(status == 0, "qmail-remote always exits zero");
  CHECK(!ended && !exp_lost, "C09: a lost connection is reported by dropped(), nothing else");
  CHECK(rec_start && rep_unflushed == 0, "C09: every report is NUL-terminated and flushed before exit");
  CHECK(nrec == exp_nrcpt + 1, "C09: one report per answered recipient, then one message report, nothing else");
  check_rcpt_reports();
  if (nrec >= 1) {
    char m = letters[nrec - 1];
    CHECK(m == 'K' || m == 'Z' || m == 'D', "C09: the last report is a message report");
    if (exp_giveup) { CHECK(m == 'Z' || m == 'D', "C09: no accepted recipient is never success"); }
    else if (exp_msg == 'D' && (JUNK(PH_MAIL) || JUNK(PH_DATA) || JUNK(PH_DOT))) { CHECK(m == 'Z' || m == 'D', "C09: a reply that does not start with a digit is never taken for an acceptance"); if (answered[PH_DOT] && JUNK(PH_DOT)) WITNESS("junk_reply_after_dot"); }
    else { CHECK(m == exp_msg, "C09: message report K/Z/D by the reply classes of the dialogue"); }
  }
  CHECK(blast_called == exp_blast, "C09: the message is transferred iff a recipient and then DATA were accepted");

  if (exp_msg == 'K') WITNESS("delivered");
  if (exp_msg == 'K' && NR >= 2 && exp_rc[0] == 'h' && exp_rc[1] == 'r') WITNESS("delivered_h_then_r");
  if (exp_msg == 'K' && NR >= 2 && exp_rc[0] == 'r' && exp_rc[1] == 's') WITNESS("delivered_r_then_s");
  if (exp_msg == 'K' && sc_cont[PH_DOT] && sc_text[PH_DOT] == 0) WITNESS("delivered_multiline_nul_text");
  if (exp_msg == 'K' && sc_text[PH_DOT] == '\r' && sc_text[PH_GREET] == '\r') WITNESS("delivered_crlf");
  if (exp_giveup) WITNESS("no_recipient_accepted");
  if (exp_msg == 'D' && answered[PH_DOT]) WITNESS("refused_after_dot_5xx");
  if (exp_msg == 'Z' && answered[PH_DOT]) WITNESS("deferred_after_dot_4xx");
  if (exp_msg == 'D' && answered[PH_DATA] && !blast_called) WITNESS("data_5xx");
  if (exp_msg == 'D' && !answered[PH_RCPT0]) WITNESS("mail_5xx");
  if (exp_msg == 'Z' && !answered[PH_HELO]) WITNESS("bad_greeting");
  if (exp_msg == 'Z' && answered[PH_HELO] && !answered[PH_MAIL]) WITNESS("bad_helo");
  PATH_END();
#ifdef VERIF_CBMC
  __CPROVER_assume(0);
#endif
}

void vmain(void)
{
  unsigned int i;
  sym_inputs();
  for (i = 0; i < NPH; ++i) {
    ASSUME(sc_code[i][0] <= 9 && sc_code[i][1] <= 9 && sc_code[i][2] <= 9);
    ASSUME(sc_cont[i] <= 2 && sc_text[i] != '\n');
  }
  ASSUME(sc_junkph <= NPH && sc_junkb != '\n' && !(sc_junkb >= '0' && sc_junkb <= '9'));
  ASSUME(sc_endkind == 0 || sc_endkind == -1);
  ASSUME(sc_blastfail <= 2 && sc_wfail <= PH_DATA);
  if (sc_dropph < NPH) { ASSUME(sc_dropoff < reply_len(sc_dropph)); }
  else { ASSUME(sc_dropph == NPH && sc_dropoff == 0); }
  ref_walk();

  helohost.s = "h"; helohost.len = 1;
  sender.s = "s"; sender.len = 1;
  for (i = 0; i < NR; ++i) { rcp[i].s = rcpname[i]; rcp[i].len = 1; }
  reciplist.sa = rcp; reciplist.len = NR;

  smtp();
  CHECK(0, "smtp() does not return");
}
