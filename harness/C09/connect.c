/* C09 - qmail-remote.c main(): from the MX list to the SMTP dialogue.  "connection loss and
 * connect trouble yield temporary failure"; permanent failure before the dialogue only for a
 * host that does not exist, a host without mail exchanger, and a host for which this machine
 * is itself a best-preference exchanger (qmail-remote(8), the #5.x.x texts in the source).
 *
 * Encoded from /repo: qmail-remote.c main() and the temp_x / perm_x exits (out, zero, zerodie).
 * Cut: getcontrols (control files: C20 control_readline, C10), addrmangle (C17), smtp() (the
 * dialogue: smtp_dialogue; here an observer), constmap on smtproutes -> "no route" or a route,
 * dns_ip/dns_mxip -> any result code and any list of NIP addresses with symbolic preferences,
 * ipme_is / tcpto / socket / timeoutconn -> symbolic per address, tcpto_err -> observer.
 *
 * Reference: the candidates are the addresses whose preference is better (smaller) than the
 * best preference under which this host itself is listed (all of them when it is not listed,
 * or when an smtproutes relay is used).
 *   DNS soft error / out of memory                      -> one Z report
 *   DNS hard error, empty list, no candidate            -> one D report
 *   otherwise the candidates are tried in list order, skipping those the timeout table
 *   (tcpto) rules out; the dialogue starts on the FIRST one that connects;
 *   if none connects - refused, timed out, skipped, no socket -> one Z report, never D. */
#include "verif.h"
#include <errno.h>
#include <sys/types.h>
#include <sys/socket.h>
#include "stralloc.h"
#include "ip.h"
#include "ipalloc.h"
#include "constmap.h"
/* prototypes of the cut / stubbed callees BEFORE the code: the headers declare them K&R style, and an unprototyped call
 * passes its arguments unconverted in cbmc */
void getcontrols(void);
void smtp(void);
void addrmangle(stralloc *saout, char *s);
int ipme_init(void);
int ipme_is(struct ip_address *ip);
int tcpto(struct ip_address *ip);
void tcpto_err(struct ip_address *ip, int flagerr);
int timeoutconn(int fd, struct ip_address *ip, unsigned int prt, int timeout);
int dns_mxip(ipalloc *ia, stralloc *sa, unsigned long random);
int dns_ip(ipalloc *ia, stralloc *sa);
#include "gen_qmail-remote.c"

#ifndef NIP
#define NIP 2
#endif

int in_dns;                        /* what the resolver returns: 0, 1, DNS_SOFT, DNS_HARD, DNS_MEM */
unsigned int in_n;                 /* addresses found */
unsigned char in_pref[NIP], in_me[NIP], in_skip[NIP], in_conn[NIP];   /* in_conn: 0 connects, 1 refused, 2 timed out */
unsigned char in_relay, in_sockfail;

void sym_inputs(void)
{
#ifdef REPLAY
#include "replay_inputs.inc"
#else
  SYM(in_dns); SYM(in_n); SYM_ARR(in_pref); SYM_ARR(in_me); SYM_ARR(in_skip); SYM_ARR(in_conn); SYM(in_relay); SYM(in_sockfail);
#endif
}

static unsigned char rep[160]; static unsigned int replen; static int rep_dirty;
char subfd_outbufsmall[256];
static substdio it_outsmall = SUBSTDIO_FDBUF(write, 1, subfd_outbufsmall, 256);
substdio *subfdoutsmall = &it_outsmall;
int ideal_getc(substdio *s) { CHECK(0, "nothing is read before the dialogue"); return -1; }
int ideal_putc(substdio *s, unsigned char c)
{
  CHECK(s == subfdoutsmall, "only the report stream is written before the dialogue");
  CHECK(replen < sizeof rep, "report fits (harness sizing)"); ASSUME(replen < sizeof rep);
  rep[replen++] = c; rep_dirty = 1;
  return 0;
}
int ideal_flush(substdio *s) { rep_dirty = 0; return 0; }

/* ---- cut callees */
static struct ip_mx ixs[NIP];
static unsigned int n_tried, n_sock, cur = NIP, n_errs;
static unsigned char tried[NIP], err_flag[NIP], err_seen[NIP];
static char route[] = "r:26";

void getcontrols(void) { }
void addrmangle(stralloc *saout, char *s) { }
void sig_pipeignore(void) { }
int ipme_init(void) { return 1; }
time_t vf_time(time_t *t) { return 1000000; }
pid_t vf_getpid(void) { return 4242; }
int vf_chdir(const char *p) { return 0; }
char *constmap(struct constmap *cm, char *s, int len) { CHECK(cm == &maproutes, "routes are looked up in smtproutes"); return in_relay ? (char *) route : (char *) 0; }

static int fill(ipalloc *ia)
{
  unsigned int i;
  if (in_dns != 0 && in_dns != 1) return in_dns;
  for (i = 0; i < NIP; ++i) { ixs[i].ip.d[0] = 10; ixs[i].ip.d[1] = 0; ixs[i].ip.d[2] = 0; ixs[i].ip.d[3] = (unsigned char) (i + 1); ixs[i].pref = in_pref[i]; }
  ia->ix = ixs; ia->len = in_n; ia->a = NIP;
  return in_dns;
}
int dns_mxip(ipalloc *ia, stralloc *sa, unsigned long random) { CHECK(!in_relay, "MX lookup only without a route"); return fill(ia); }
int dns_ip(ipalloc *ia, stralloc *sa) { CHECK(in_relay, "A lookup for a route"); return fill(ia); }

static unsigned int idx_of(struct ip_address *ip) { unsigned int i; for (i = 0; i < NIP; ++i) if (ip == &ixs[i].ip) return i; return NIP; }
int ipme_is(struct ip_address *ip) { unsigned int i = idx_of(ip); ASSUME(i < NIP); return in_me[i]; }
int tcpto(struct ip_address *ip) { unsigned int i = idx_of(ip); ASSUME(i < NIP); return in_skip[i]; }
void tcpto_err(struct ip_address *ip, int flagerr)
{
  unsigned int i = idx_of(ip); ASSUME(i < NIP);
  CHECK(tried[i] && !err_seen[i], "the timeout table is updated once per connection attempt");
  err_seen[i] = 1; err_flag[i] = (unsigned char) flagerr; ++n_errs;
  CHECK((flagerr != 0) == (in_conn[i] == 2), "C09: only a connect time-out counts against the host in the timeout table");
}
int vf_socket(int d, int t, int p) { ++n_sock; if (in_sockfail) { errno = EMFILE; return -1; } return 7; }
int vf_close(int fd) { CHECK(fd == 7, "closes the socket it opened"); return 0; }
int timeoutconn(int fd, struct ip_address *ip, unsigned int prt, int timeout)
{
  unsigned int i = idx_of(ip); ASSUME(i < NIP);
  CHECK(fd == 7 && !tried[i], "each address is tried at most once");
  CHECK(prt == (in_relay ? 26u : 25u), "port 25, or the port of the route");
  tried[i] = 1; ++n_tried; cur = i;
  if (in_conn[i] == 0) return 0;
  errno = (in_conn[i] == 2) ? ETIMEDOUT : ECONNREFUSED;
  return -1;
}

/* ---- reference */
static unsigned int ref_prefme(void)
{
  unsigned int i, p = 100000;
  for (i = 0; i < NIP; ++i) { if (i >= in_n) break; if (in_me[i] && in_pref[i] < p) p = in_pref[i]; }
  return in_relay ? 300000 : p;
}
static int is_cand(unsigned int i) { return i < in_n && in_pref[i] < ref_prefme(); }

void smtp(void)
{
  unsigned int i;
  CHECK(in_dns == 0 || in_dns == 1, "C09: no dialogue without an address list");
  CHECK(cur < NIP && is_cand(cur) && !in_skip[cur] && in_conn[cur] == 0, "C09: the dialogue runs on a candidate address that connected");
  CHECK(partner.d[3] == cur + 1, "the peer recorded for the reports is the one connected to");
  for (i = 0; i < NIP; ++i) { if (i >= cur) break; if (is_cand(i) && !in_skip[i]) { CHECK(tried[i] && in_conn[i] != 0, "C09: addresses are tried in list order; the first that connects is used"); } else { CHECK(!tried[i], "C09: worse-ranked, own and skipped addresses are not contacted"); } }
  CHECK(err_seen[cur] && err_flag[cur] == 0, "a successful connection clears the host in the timeout table");
  CHECK(replen == 0, "nothing is reported before the dialogue");
  WITNESS("connected");
  if (cur > 0 && tried[0]) WITNESS("connected_to_second_after_first_failed");
  PATH_END();
#ifdef VERIF_CBMC
  __CPROVER_assume(0);
#endif
}

void vf__exit(int status)
{
  unsigned int i, nul = 0, ncand = 0, nusable = 0;
  char want;
  CHECK(status == 0, "qmail-remote always exits zero");
  CHECK(replen >= 2 && !rep_dirty, "C09: a report was written and flushed");
  for (i = 0; i < sizeof rep; ++i) { if (i >= replen) break; if (!rep[i]) ++nul; }
  CHECK(nul == 1 && rep[replen - 1] == 0, "C09: exactly one report");
  for (i = 0; i < NIP; ++i) { if (is_cand(i)) { ++ncand; if (!in_skip[i]) ++nusable; } }
  if (in_dns == DNS_SOFT || in_dns == DNS_MEM) { want = 'Z'; WITNESS("dns_soft"); }
  else if (in_dns == DNS_HARD) { want = 'D'; WITNESS("dns_hard"); }
  else if (in_n == 0) { want = in_dns == 1 ? 'Z' : 'D'; WITNESS("no_address"); }
  else if (ncand == 0) { want = 'D'; WITNESS("best_preference_mx_is_me"); }
  else {
    want = 'Z';
    for (i = 0; i < NIP; ++i) if (is_cand(i) && !in_skip[i] && !in_sockfail) CHECK(tried[i] && in_conn[i] != 0, "C09: every usable candidate was tried before giving up");
    if (nusable == 0) WITNESS("every_candidate_ruled_out_by_the_timeout_table");
    else if (!in_sockfail) WITNESS("no_candidate_connected");
  }
  CHECK(rep[0] == (unsigned char) want, "C09: connect trouble (refused, timed out, ruled out by the timeout table, no socket, DNS soft error) is a temporary "
                                          "failure; permanent only for: no such host, no exchanger, this host is the best-preference exchanger");
  PATH_END();
#ifdef VERIF_CBMC
  __CPROVER_assume(0);
#endif
}

static char *args[] = { "qmail-remote", "h", "s", "r", 0 };
void vmain(void)
{
  unsigned int i;
  sym_inputs();
  ASSUME(in_dns == 0 || in_dns == 1 || in_dns == DNS_SOFT || in_dns == DNS_HARD || in_dns == DNS_MEM);
  ASSUME(in_n <= NIP && in_relay <= 1 && in_sockfail <= 1);
  for (i = 0; i < NIP; ++i) ASSUME(in_pref[i] <= 3 && in_me[i] <= 1 && in_skip[i] <= 1 && in_conn[i] <= 2);
  remote_main(4, args);
  CHECK(0, "main() does not return");
}
