/* C09 / C05 / C07 - timeoutread.c and timeoutwrite.c: the two units that turn a STALL of the
 * peer into an error.  Every network read and write of qmail-remote, qmail-smtpd, qmail-pop3d
 * and qmail-popup goes through them (saferead()/safewrite(), obligations remote_safeio and
 * smtpd_safeio); the other harnesses replace them by ideal streams whose read hook may say
 * "timed out".  This unit closes that cut.
 * Encoded from /repo: timeoutread.c timeoutread (WR=0) or timeoutwrite.c timeoutwrite (WR=1),
 * whole file, with select()/read()/write() renamed to the stubs below.
 *
 * Oracle (qmail-remote(8) timeoutremote: "number of seconds qmail-remote will wait for each
 * response"; qmail-smtpd(8) timeoutsmtpd: "number of seconds qmail-smtpd will wait for each new
 * buffer of data"; qmail-pop3d(8): "20-minute idle timeout"; select(2)/read(2)/write(2)):
 *   - the wait is one select() on exactly the given descriptor, in the read set (WR=0) or
 *     the write set (WR=1), nothing else watched, with a timeout of exactly t seconds and
 *     0 microseconds;
 *   - select() fails (-1, e.g. EINTR)        -> -1 with select's errno, no read()/write();
 *   - the descriptor did not become ready (select() returns 0, set cleared)
 *                                            -> -1, errno = ETIMEDOUT, no read()/write()
 *     (a stalled peer is never reported as end of data: the result is not 0);
 *   - ready -> exactly ONE read()/write() on that descriptor with the caller's buffer and
 *     length; its result (count, 0 = end of file, -1) and its errno are the result; the buffer
 *     holds exactly what read() stored.
 * The descriptor is symbolic (0..FD_SETSIZE-1: select(2) does not allow more), t is any int
 * >= 0, the previous errno is arbitrary, the buffer length LEN is concrete per query. */
#include "verif.h"
#include <errno.h>
#include <sys/types.h>
#include <sys/time.h>
#include <sys/select.h>
#include <unistd.h>
#include "timeoutread.h"
#include "timeoutwrite.h"

#ifndef WR
#define WR 0
#endif
#ifndef LEN
#define LEN 4
#endif
#define BL (LEN + 1)                      /* one guard byte behind the caller's buffer */
#define NW (sizeof(fd_set) / sizeof(unsigned long))

/* ---- inputs */
int in_fd, in_t;
int in_errno0;                          /* errno before the call */
int in_sel, in_selerrno;                /* what select() does: -1 / 0 (timed out) / 1 (ready) */
unsigned char in_selclr;                /* a failing select() leaves the sets alone or clears them */
long in_left;                           /* Linux stores the time left into the timeval */
long in_io; int in_ioerrno;             /* what the one read()/write() returns */
unsigned char in_data[BL];              /* WR=0: bytes read() stores; WR=1: the caller's bytes */
unsigned char in_old[BL];               /* WR=0: previous contents of the caller's buffer */

void sym_inputs(void)
{
#ifdef REPLAY
#include "replay_inputs.inc"
#else
  SYM(in_fd); SYM(in_t); SYM(in_errno0); SYM(in_sel); SYM(in_selerrno); SYM(in_selclr); SYM(in_left);
  SYM(in_io); SYM(in_ioerrno); SYM_ARR(in_data); SYM_ARR(in_old);
#endif
}

static unsigned char buf[BL];
static int n_select, n_io;
static int sel_result;

/* set holds exactly {fd} (only == 1) or at most {fd} (only == 0); a null set holds nothing */
static int set_ok(fd_set *s, int fd, int must)
{
  unsigned int w;
  fd_set want;
  if (!s) return !must;
  FD_ZERO(&want);
  FD_SET(fd, &want);
  for (w = 0; w < NW; ++w) {
    unsigned long have = ((unsigned long *) s)[w], full = ((unsigned long *) &want)[w];
    if (must ? (have != full) : ((have & ~full) != 0)) return 0;
  }
  return 1;
}

int vf_select(int nfds, fd_set *rfds, fd_set *wfds, fd_set *efds, struct timeval *tv)
{
  fd_set *mine = WR ? wfds : rfds, *other = WR ? rfds : wfds;
  CHECK(n_select == 0 && n_io == 0, "one wait per call, before the transfer");
  ++n_select;
  CHECK(nfds > in_fd, "select(2): nfds covers the descriptor");
  CHECK(nfds <= FD_SETSIZE, "select(2): nfds within FD_SETSIZE");
  CHECK(set_ok(mine, in_fd, 1), "C09(stall): waits for exactly the given descriptor, in the set of its direction");
  CHECK(other == 0 && efds == 0, "C09(stall): nothing else is waited for");
  CHECK(tv != 0, "C09(stall): the wait is bounded (a null timeout blocks for ever)");
  if (!tv || !mine) { PATH_END(); return -1; }
  CHECK(tv->tv_sec == (long) in_t && tv->tv_usec == 0, "C09(stall): the wait lasts exactly t seconds");
  tv->tv_sec = in_left; tv->tv_usec = 0;
  sel_result = in_sel;
  if (in_sel == -1) {
    if (in_selclr) FD_ZERO(mine);
    errno = in_selerrno;
    return -1;
  }
  if (in_sel == 0) { FD_ZERO(mine); return 0; }
  return 1;                             /* ready: the descriptor stays in its set */
}

static ssize_t one_io(int fd, const void *b, size_t len, int is_write)
{
  unsigned int i;
  CHECK(is_write == WR, "the transfer has the direction of the call");
  CHECK(n_select == 1 && sel_result == 1, "C09(stall): no read()/write() unless select() reported the descriptor ready (it could block for ever)");
  CHECK(n_io == 0, "exactly one read()/write() per call");
  ++n_io;
  CHECK(fd == in_fd, "the transfer is on the given descriptor");
  CHECK(b == (const void *) buf && len == LEN, "the transfer uses the caller's buffer and length");
  if (in_io == -1) { errno = in_ioerrno; return -1; }
  if (!is_write && b == (const void *) buf)
    for (i = 0; i < LEN; ++i) { if (i >= (unsigned long) in_io) break; buf[i] = in_data[i]; }
  return (ssize_t) in_io;
}

ssize_t vf_read(int fd, void *b, size_t len) { return one_io(fd, b, len, 0); }
ssize_t vf_write(int fd, const void *b, size_t len) { return one_io(fd, b, len, 1); }

#ifdef REPLAY
/* native build only: what cbmc treats as an arbitrary uninitialised local (a set that was never FD_ZEROed) would
 * otherwise be whatever the fresh stack page holds, i.e. zero */
static void dirty_stack(void) { volatile unsigned char junk[4096]; unsigned int i; for (i = 0; i < sizeof junk; ++i) junk[i] = 0xa5; }
#endif

void vmain(void)
{
  ssize_t r;
  unsigned int i;
  int e;
  sym_inputs();
  ASSUME(in_fd >= 0 && in_fd < FD_SETSIZE);        /* select(2) */
  ASSUME(in_t >= 0);                               /* control files hold unsigned numbers; the programs pass 1200 or the control value */
  ASSUME(in_sel >= -1 && in_sel <= 1);
  ASSUME(in_selerrno > 0 && in_ioerrno > 0 && in_errno0 >= 0);
  ASSUME(in_io >= -1 && in_io <= LEN);
  for (i = 0; i < BL; ++i) buf[i] = WR ? in_data[i] : in_old[i];
  errno = in_errno0;
#ifdef REPLAY
  dirty_stack();
#endif

#if WR
  r = timeoutwrite(in_t, in_fd, buf, LEN);
#else
  r = timeoutread(in_t, in_fd, (char *) buf, LEN);
#endif
  e = errno;

  CHECK(n_select == 1, "C09(stall): the descriptor is waited for");
  if (sel_result == -1) {
    CHECK(r == -1 && e == in_selerrno, "a failing select() is passed on: -1 with its errno");
    CHECK(n_io == 0, "no transfer after a failed wait");
    WITNESS("select_failed");
  } else if (sel_result == 0) {
    CHECK(r == -1, "C09(stall): a peer that stays silent for t seconds is an error, never a count or end of data");
    CHECK(e == ETIMEDOUT, "C09(stall): ... reported as errno = ETIMEDOUT (error_timeout), which saferead()/main() test for");
    CHECK(n_io == 0, "no transfer after a timeout");
    WITNESS("timed_out");
  } else {
    CHECK(n_io == 1, "ready: the transfer takes place");
    CHECK(r == (ssize_t) in_io, "ready: the result is exactly that of the one read()/write()");
    if (in_io == -1) { CHECK(e == in_ioerrno, "ready: a failing read()/write() keeps its errno"); WITNESS("io_error"); }
    if (in_io == 0) WITNESS("end_of_file_or_nothing_written");
    if (in_io == LEN && LEN > 0) WITNESS("full_transfer");
    if (in_io > 0 && in_io < LEN) WITNESS("short_transfer");
    if (in_io == -1 && in_ioerrno == ETIMEDOUT) WITNESS("io_error_is_itself_etimedout");
  }
  for (i = 0; i < BL; ++i) {
    unsigned char want = WR ? in_data[i] : ((sel_result == 1 && in_io > 0 && i < (unsigned long) in_io && i < LEN) ? in_data[i] : in_old[i]);
    CHECK(buf[i] == want, "the buffer holds what read() stored and is otherwise untouched");
  }
  if (in_fd == 0) WITNESS("descriptor_0");
  if (in_fd == FD_SETSIZE - 1) WITNESS("descriptor_1023");
  if (in_fd == 64) WITNESS("descriptor_64");
  WITNESS("done");
}
