/* C09 - timeoutconn.c: "connect trouble yields temporary failure" starts here.  qmail-remote's
 * main() (obligation connect_loop, where timeoutconn() is a symbolic stub) starts the SMTP dialogue
 * iff timeoutconn() returns 0 and charges the host in the timeout table iff it returns -1 with
 * errno == ETIMEDOUT.  This unit proves what those two results mean.
 * Encoded from /repo: timeoutconn.c timeoutconn, ndelay.c ndelay_on, ndelay_off.c ndelay_off,
 * byte_copy.c, byte_zero.c; connect()/select()/getpeername()/read()/fcntl() are the stubs below.
 *
 * Oracle.  qmail-remote(8) timeoutconnect: "number of seconds qmail-remote will wait for the remote
 * SMTP server to accept a connection"; the comment in the code ("note that connect attempt is
 * continuing"); connect(2), select(2), fcntl(2):
 *   - the connect() is to AF_INET, the given address, the given port in network byte order, and
 *     is issued on a NON-BLOCKING socket (a blocking connect() is bounded by the kernel, "normally
 *     75 seconds", not by timeoutconnect);
 *   - connect() succeeds at once                                        -> 0
 *   - connect() fails with anything but EINPROGRESS / EWOULDBLOCK       -> -1, that errno; no wait
 *   - in progress: one select() on exactly {s} in the write set, timeout exactly `timeout` s:
 *       select() fails                                                  -> -1, its errno
 *       not writable in time                                            -> -1, errno ETIMEDOUT
 *       writable: the outcome of the connect is looked up (the code uses getpeername(), which fails
 *       iff the socket did not get connected; then a read() that fetches the real error):
 *           connected                                                   -> 0
 *           not connected  -> -1; errno is getpeername()'s or the read()'s (documents silent on
 *                             which; ETIMEDOUT only if one of them said so)
 *   - 0 is returned ONLY for an established connection, and then the socket is back in blocking
 *     mode (the dialogue uses blocking reads guarded by select()); after -1 the socket's mode is not
 *     constrained (the caller closes it);
 *   - the socket cannot be made non-blocking (fcntl fails: bad descriptor)  -> -1.
 * Not demanded (undocumented): other file status flags being preserved, sin_zero padding, whether
 * the read() takes place, the third select() set.
 */
#include "verif.h"
#include <errno.h>
#include <stdarg.h>
#include <fcntl.h>
#include <sys/types.h>
#include <sys/time.h>
#include <sys/select.h>
#include <sys/socket.h>
#include <netinet/in.h>
#include <unistd.h>
#include "ip.h"

int timeoutconn(int s, struct ip_address *ip, unsigned int port, int timeout);

#define NW (sizeof(fd_set) / sizeof(unsigned long))

/* ---- inputs */
int in_s, in_timeout;
unsigned char in_ip[4];
unsigned int in_port;
int in_errno0;
int in_flags0;                          /* file status flags of the socket before the call */
unsigned char in_badfd;                 /* fcntl() fails on this descriptor (EBADF) */
int in_conn, in_connerrno;              /* connect(): 0 or -1 with errno */
int in_sel, in_selerrno;                /* select(): -1, 0 (timed out), 1 (writable) */
unsigned char in_selclr;
long in_left;
int in_gpn, in_gpnerrno;                /* getpeername(): 0 connected, -1 (ENOTCONN ...) */
int in_rderrno;                         /* errno of the read() that fetches the pending socket error */
unsigned char in_peer[sizeof(struct sockaddr_in)];

void sym_inputs(void)
{
#ifdef REPLAY
#include "replay_inputs.inc"
#else
  SYM(in_s); SYM(in_timeout); SYM_ARR(in_ip); SYM(in_port); SYM(in_errno0); SYM(in_flags0); SYM(in_badfd);
  SYM(in_conn); SYM(in_connerrno); SYM(in_sel); SYM(in_selerrno); SYM(in_selclr); SYM(in_left);
  SYM(in_gpn); SYM(in_gpnerrno); SYM(in_rderrno); SYM_ARR(in_peer);
#endif
}

/* ---- socket model */
static int flags;                       /* current file status flags */
static int n_connect, n_select, n_gpn, n_read;
static int conn_result = 1, sel_result = 2, gpn_result = 1;      /* "not called" */
static int inprogress;

int vf_fcntl(int fd, int cmd, ...)
{
  va_list ap;
  int arg;
  va_start(ap, cmd);
  arg = va_arg(ap, int);
  va_end(ap);
  CHECK(fd == in_s, "fcntl on the given socket");
  if (in_badfd) { errno = EBADF; return -1; }
  if (cmd == F_GETFL) return flags;
  CHECK(cmd == F_SETFL, "only the file status flags are read and set");
  if (cmd == F_SETFL) flags = arg;
  return 0;
}

int vf_connect(int fd, const struct sockaddr *addr, socklen_t len)
{
  const struct sockaddr_in *sin = (const struct sockaddr_in *) addr;
  const unsigned char *pb, *ab;
  CHECK(n_connect == 0, "one connection attempt");
  ++n_connect;
  CHECK(fd == in_s, "connect on the given socket");
  CHECK(len == sizeof(struct sockaddr_in), "connect(2): address length of a sockaddr_in");
  if (len != sizeof(struct sockaddr_in)) { PATH_END(); return -1; }
  pb = (const unsigned char *) &sin->sin_port; ab = (const unsigned char *) &sin->sin_addr;
  CHECK(sin->sin_family == AF_INET, "C09(connect): IPv4 address family");
  CHECK(ab[0] == in_ip[0] && ab[1] == in_ip[1] && ab[2] == in_ip[2] && ab[3] == in_ip[3], "C09(connect): the address handed in (the MX that will be named in the report)");
  CHECK(pb[0] == ((in_port >> 8) & 255) && pb[1] == (in_port & 255), "C09(connect): the port handed in, network byte order");
  if (in_badfd) { conn_result = -1; errno = EBADF; return -1; }
  CHECK((flags & O_NONBLOCK) != 0, "C09(stall): connect() is issued on a non-blocking socket (otherwise timeoutconnect does not bound it)");
  conn_result = in_conn;
  if (in_conn == 0) return 0;
  errno = in_connerrno;
  inprogress = (in_connerrno == EINPROGRESS || in_connerrno == EWOULDBLOCK);
  return -1;
}

static int set_ok(fd_set *s, int fd, int must)
{
  unsigned int w;
  fd_set want;
  if (!s) return !must;
  FD_ZERO(&want);
  FD_SET(fd, &want);
  for (w = 0; w < NW; ++w) {
    unsigned long have = ((unsigned long *) s)[w], full = ((unsigned long *) &want)[w];
    if (must ? (have != full) : ((have & ~full) != 0)) return 0;
  }
  return 1;
}

int vf_select(int nfds, fd_set *rfds, fd_set *wfds, fd_set *efds, struct timeval *tv)
{
  CHECK(n_select == 0, "one wait");
  ++n_select;
  CHECK(n_connect == 1 && conn_result == -1 && inprogress, "select() only while the connection attempt is in progress");
  CHECK(nfds > in_s && nfds <= FD_SETSIZE, "select(2): nfds covers the socket");
  CHECK(set_ok(wfds, in_s, 1), "C09(connect): waits for exactly this socket to become writable");
  CHECK(set_ok(rfds, in_s, 0) && set_ok(efds, in_s, 0), "no other descriptor is waited for");
  CHECK(tv != 0, "C09(stall): the wait is bounded");
  if (!tv || !wfds) { PATH_END(); return -1; }
  CHECK(tv->tv_sec == (long) in_timeout && tv->tv_usec == 0, "C09(stall): the wait lasts exactly `timeout` seconds");
  tv->tv_sec = in_left; tv->tv_usec = 0;
  sel_result = in_sel;
  if (rfds) FD_ZERO(rfds);
  if (efds) FD_ZERO(efds);
  if (in_sel == -1) { if (in_selclr) FD_ZERO(wfds); errno = in_selerrno; return -1; }
  if (in_sel == 0) { FD_ZERO(wfds); return 0; }
  return 1;
}

int vf_getpeername(int fd, struct sockaddr *addr, socklen_t *len)
{
  unsigned int i;
  CHECK(n_select == 1 && sel_result == 1, "the outcome is looked up once the socket is writable");
  CHECK(fd == in_s, "getpeername on the given socket");
  ++n_gpn;
  gpn_result = in_gpn;
  if (in_gpn == -1) { errno = in_gpnerrno; return -1; }
  CHECK(addr != 0 && len != 0, "getpeername(2): address and length given");
  if (!addr || !len) { PATH_END(); return -1; }
  CHECK(*len <= sizeof(struct sockaddr_in), "getpeername(2): the length passed in is that of the buffer (a sockaddr_in here)");
  for (i = 0; i < sizeof(struct sockaddr_in); ++i) { if (i >= *len) break; ((unsigned char *) addr)[i] = in_peer[i]; }
  *len = sizeof(struct sockaddr_in);
  return 0;
}

ssize_t vf_read(int fd, void *buf, size_t len)
{
  CHECK(fd == in_s && n_gpn >= 1 && gpn_result == -1, "the socket is read only to fetch the error of a failed connect");
  CHECK(len <= 1, "... into a one-byte buffer");
  ++n_read;
  errno = in_rderrno;
  return -1;
}

#ifdef REPLAY
static void dirty_stack(void) { volatile unsigned char junk[4096]; unsigned int i; for (i = 0; i < sizeof junk; ++i) junk[i] = 0xa5; }
#endif

void vmain(void)
{
  struct ip_address ip;
  int r, e, established;
  unsigned int i;
  sym_inputs();
  ASSUME(in_s >= 0 && in_s < FD_SETSIZE);
  ASSUME(in_timeout >= 0);
  ASSUME(in_port <= 65535);
  ASSUME(in_flags0 >= 0);
  ASSUME(in_badfd <= 1);
  ASSUME(in_conn == 0 || in_conn == -1);
  ASSUME(in_sel >= -1 && in_sel <= 1);
  ASSUME(in_gpn == 0 || in_gpn == -1);
  ASSUME(in_errno0 >= 0 && in_connerrno > 0 && in_selerrno > 0 && in_gpnerrno > 0 && in_rderrno > 0);
  for (i = 0; i < 4; ++i) ip.d[i] = in_ip[i];
  flags = in_flags0;
  errno = in_errno0;
#ifdef REPLAY
  dirty_stack();
#endif

  r = timeoutconn(in_s, &ip, in_port, in_timeout);
  e = errno;

  established = (conn_result == 0) || (conn_result == -1 && inprogress && sel_result == 1 && gpn_result == 0);
  CHECK(r == 0 || r == -1, "result is 0 or -1");
  CHECK(r != 0 || established, "C09(connect): 0 only for an established connection (the SMTP dialogue starts on it)");
  for (i = 0; i < 4; ++i) CHECK(ip.d[i] == in_ip[i], "the caller's address is not modified");

  if (in_badfd) {
    CHECK(r == -1, "a socket that cannot be made non-blocking is not connected");
    WITNESS("bad_descriptor");
  } else if (conn_result == 0) {
    CHECK(r == 0, "C09(connect): an immediate connection is reported as such");
    CHECK(n_select == 0 && n_gpn == 0, "nothing to wait for");
    WITNESS("connected_at_once");
  } else if (conn_result == -1 && !inprogress) {
    CHECK(r == -1 && e == in_connerrno, "C09(connect): connect() refused/unreachable: -1 with connect's errno");
    CHECK(n_select == 0, "no wait after a definite failure");
    if (in_connerrno == ECONNREFUSED) WITNESS("refused_at_once");
    if (in_connerrno == ETIMEDOUT) WITNESS("connect_itself_says_etimedout");
  } else if (conn_result == -1) {
    CHECK(n_select == 1, "C09(connect): an attempt in progress is waited for");
    if (sel_result == -1) {
      CHECK(r == -1 && e == in_selerrno, "a failing select() is passed on");
      CHECK(n_gpn == 0, "no look-up after a failed wait");
      WITNESS("select_failed");
    } else if (sel_result == 0) {
      CHECK(r == -1 && e == ETIMEDOUT, "C09(stall): no answer within `timeout` seconds: -1, errno ETIMEDOUT (main() charges the host in the timeout table on exactly this)");
      CHECK(n_gpn == 0, "no look-up after a timeout");
      WITNESS("timed_out");
    } else if (sel_result == 1) {
      CHECK(n_gpn >= 1, "C09(connect): writable does not mean connected: the outcome is looked up");
      if (gpn_result == 0) {
        CHECK(r == 0, "C09(connect): connection completed in time");
        WITNESS("connected_after_wait");
        if (in_connerrno == EWOULDBLOCK) WITNESS("connected_after_ewouldblock");
      } else {
        CHECK(r == -1, "C09(connect): attempt failed (refused, unreachable, ...)");
        CHECK(e == in_gpnerrno || (n_read >= 1 && e == in_rderrno), "errno is that of the look-up or of the read() fetching the socket error");
        if (e == ECONNREFUSED) WITNESS("refused_after_wait");
        if (e == ETIMEDOUT) WITNESS("kernel_timeout_after_wait");
        if (n_read && e == in_rderrno && e != in_gpnerrno) WITNESS("socket_error_fetched_by_read");   /* not required: the read is optional */
      }
    }
  } else {
    CHECK(0, "C09(connect): connect() is called");
  }
  if (r == 0) {
    CHECK((flags & O_NONBLOCK) == 0, "C09(connect): on success the socket is back in blocking mode");
    if (in_flags0 & O_NONBLOCK) WITNESS("was_nonblocking_before");
  }
  if (r == -1 && e == ETIMEDOUT)
    CHECK(sel_result == 0 || in_connerrno == ETIMEDOUT || in_selerrno == ETIMEDOUT || in_gpnerrno == ETIMEDOUT || in_rderrno == ETIMEDOUT || in_errno0 == ETIMEDOUT,
          "C09(stall): ETIMEDOUT is reported only for a timeout");
  if (in_s == FD_SETSIZE - 1) WITNESS("descriptor_1023");
  WITNESS("done");
}
