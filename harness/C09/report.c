/* C09 - qmail-rspawn.c report(): the verdict relayed to qmail-send for one remote
 * delivery, for every wait status and every qmail-remote output of exactly L bytes.
 * Encoded from /repo: qmail-rspawn.c report (whole file included; spawn.c owns main).
 *
 * Reference (property C09, qmail-remote(8) RESULTS, qmail-command(8) exit codes):
 *   qmail-remote's output is a sequence of reports, each TERMINATED by a 0 byte, each
 *   beginning with a letter: r/h/s = recipient report (accepted / permanently /
 *   temporarily rejected), K/Z/D = message report (success / temporary / permanent).
 *   qmail-rspawn runs qmail-remote with ONE recipient, so the first report is that
 *   recipient's.  The relayed verdict is the first byte report() emits (spawn.c frames it
 *   as <delnum> <verdict+text> NUL).
 *     - K is relayed only if the child exited 0, did not crash, the first report is not
 *       a refusal (h/s), and the first COMPLETE message report is K (an unterminated
 *       trailing record is not a report: "unparseable result never becomes success");
 *     - a crash is temporary (Z); exit 111 (soft error, what spawn()'s child uses for
 *       transient fork-side trouble) is Z; exit 100 (hard error) is D; any other
 *       non-zero exit is Z or D, never K;
 *     - first report s => Z, h => D (a refusal is relayed with its own class);
 *       otherwise a first complete message report Z => Z, D => D;
 *     - exactly one verdict letter K/Z/D is emitted, first, and the text contains no
 *       NUL (spawn.c appends the terminator; a NUL inside would let the child forge
 *       the report of another delivery number);
 *     - report() never reads s[len..]: s is a heap object of exactly len bytes, so
 *       cbmc's bounds check (natively: ASan) catches any over-read. */
#include "verif.h"
#include <stdlib.h>
#include "gen_qmail-rspawn.c"

#ifndef L
#define L 4
#endif
#define OUTMAX (2 * L + 48)

unsigned char in[L ? L : 1];     /* qmail-remote's output, exactly L bytes, any values */
unsigned char in_sig;            /* 0 = exited normally, else terminating signal 1..126 */
unsigned char in_core;           /* core-dump flag of a signalled child */
unsigned char in_exit;           /* exit code of a normally exited child */

static unsigned char outb[OUTMAX];
static unsigned int outlen;
static substdio ssrep;           /* the stream report() writes to (spawn.c: ssout) */

void sym_inputs(void)
{
#ifdef REPLAY
#include "replay_inputs.inc"
#else
  SYM_ARR(in); SYM(in_sig); SYM(in_core); SYM(in_exit);
#endif
}

int ideal_getc(substdio *s) { CHECK(0, "report() reads no stream"); return -1; }

/* strlen (behind substdio_puts) is renamed to this by the plan (sysrename), so that a scan
 * running off the end of s ends the path at its first out-of-bounds byte (cbmc: r_ok
 * check below, natively: ASan) instead of reading unconstrained bytes until the
 * unwinding bound of cbmc's own strlen model is exhausted.  Every string report() may
 * legitimately measure is shorter than STRLEN_MAX. */
#define STRLEN_MAX 40
size_t vf_strlen(const char *p)
{
  size_t n;
  for (n = 0; n < STRLEN_MAX; ++n) {
#ifdef VERIF_CBMC
    if (!__CPROVER_r_ok(p + n, 1)) {
      CHECK(0, "C09(report)/C20: strlen reads beyond the end of qmail-remote's output (s[len..])");
      ASSUME(0);
    }
#endif
    if (!p[n]) return n;
  }
  CHECK(0, "strlen: no NUL within 40 bytes (harness sizing)");
  ASSUME(0);
  return n;
}

int ideal_putc(substdio *s, unsigned char c)
{
  CHECK(s == &ssrep, "report() writes only to the stream it was given");
  CHECK(outlen < OUTMAX, "report text fits 2L+48 (harness sizing)");
  ASSUME(outlen < OUTMAX);
  outb[outlen++] = c;
  return 0;
}

int ideal_flush(substdio *s) { return 0; }

/* reference reading of the child's output: letter of the first complete (NUL-terminated)
 * record that is a message report, 0 if there is none */
static char ref_first_message_report(void)
{
  unsigned int k, start = 0;
  for (k = 0; k < L; ++k) {
    if (in[k] == 0) {
      if (in[start] == 'K' || in[start] == 'Z' || in[start] == 'D') return (char) in[start];
      start = k + 1;
    }
  }
  return 0;
}

void vmain(void)
{
  int wstat;
  char *s;
  unsigned int i;
  char verdict, msg;

  sym_inputs();
  ASSUME(in_sig <= 126 && in_core <= 1);
  /* wait(2) status as the kernel builds it: signal | core<<7, or exitcode<<8 */
  wstat = in_sig ? (in_sig | (in_core << 7)) : (in_exit << 8);

  s = malloc(L ? L : 1);
  ASSUME(s != 0);
  for (i = 0; i < L; ++i) s[i] = (char) in[i];

  report(&ssrep, wstat, s, L);

  CHECK(outlen >= 1, "C09(report): a verdict is always relayed");
  if (outlen < 1) return;
  verdict = (char) outb[0];
  CHECK(verdict == 'K' || verdict == 'Z' || verdict == 'D', "C09(report): the relayed report starts with K, Z or D");
  for (i = 1; i < OUTMAX; ++i) {
    if (i >= outlen) break;
    CHECK(outb[i] != 0, "C09(report): no NUL inside the relayed report (framing is spawn.c's)");
  }

  msg = ref_first_message_report();
  if (verdict == 'K') {
    CHECK(!in_sig, "C09(report): a crash is never relayed as success");
    CHECK(in_sig || in_exit == 0, "C09(report): a non-zero exit is never relayed as success");
    CHECK(L > 0 && in[0] != 'h' && in[0] != 's', "C09(report): a refused recipient is never relayed as success");
    CHECK(msg == 'K', "C09(report): success only if the first complete message report is K");
  }
  if (in_sig) {
    CHECK(verdict == 'Z', "C09(report): crash => temporary failure");
    WITNESS("crashed");
  } else if (in_exit == 111) {
    CHECK(verdict == 'Z', "C09(report): exit 111 => temporary failure");
    WITNESS("exit111");
  } else if (in_exit == 100) {
    CHECK(verdict == 'D', "C09(report): exit 100 => permanent failure");
    WITNESS("exit100");
  } else if (in_exit != 0) {
    CHECK(verdict != 'K', "C09(report): odd exit => Z or D");
  } else if (L == 0) {
    CHECK(verdict != 'K', "C09(report): no output is not success");
    WITNESS("no_output");
  } else if (in[0] == 's') {
    CHECK(verdict == 'Z', "C09(report): temporarily refused recipient => Z");
    if (msg == 'K') WITNESS("s_then_K");
  } else if (in[0] == 'h') {
    CHECK(verdict == 'D', "C09(report): permanently refused recipient => D");
    if (msg == 'K') WITNESS("h_then_K");
  } else if (msg == 'Z') {
    CHECK(verdict == 'Z', "C09(report): message report Z => Z");
    WITNESS("msg_Z");
  } else if (msg == 'D') {
    CHECK(verdict == 'D', "C09(report): message report D => D");
  } else if (msg == 'K') {
    /* accepted recipient, message accepted: the only way to success.  (Documents do not
     * say that success MUST be relayed as K; demanded here because anything else makes
     * every delivery fail - and it is what "K" means in qmail-remote(8).) */
    CHECK(verdict == 'K', "C09(report): r + K => K");
    if (in[0] == 'r') WITNESS("r_then_K");
  } else {
    CHECK(verdict != 'K', "C09(report): output without a complete message report is not success");
    if (in[L ? L - 1 : 0] != 0) WITNESS("unterminated_output");
  }
  free(s);
  WITNESS("done");
}
