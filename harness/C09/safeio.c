/* C09 / C05 / C07 - saferead() / safewrite(): the wrappers through which every network read and
 * write of a program goes, and which decide what a stalled or vanished peer means.
 *   PROG 0 qmail-smtpd.c   1 qmail-qmtpd.c   2 qmail-qmqpd.c   3 qmail-pop3d.c   4 qmail-popup.c
 *   PROG 5 qmail-remote.c  (dropped() cut to an observer; what it reports: obligation dropped_quit)
 * The other harnesses (C05 blast/resume, C07 smtp_data/qmtpd/qmqpd, C09 smtp_dialogue, C19) run
 * the protocol code over ideal streams whose read hook "ends the run" on a disconnect, i.e. they
 * ASSUME what is proved here: a read that did not deliver data and a write that did not take data
 * never come back to the caller.
 * Encoded from /repo: <prog>.c saferead, safewrite (GEN_SAFE_TIMEOUTREAD/WRITE of timeoutread.h /
 * timeoutwrite.h where the program uses them), the stream objects ssin/ssout (smtpfrom/smtpto) and,
 * for qmail-smtpd, flush, out, die_read, die_alarm.  The wrappers are reached the way substdio
 * reaches them: through the op pointer and descriptor stored in the stream object, so a stream
 * wired to the wrong function or descriptor fails as well.
 * Below the wrappers: timeoutread()/timeoutwrite() (obligations timeoutread_unit/timeoutwrite_unit)
 * or, in qmail-qmtpd/qmail-qmqpd, read()/write() are stubs with symbolic results.
 * Above: the output stream is the ideal stream of lib/ideal_substdio.c; its flush hook hands the
 * unsent bytes to the stream's real op (safewrite) until all are taken - what substdio_flush /
 * allwrite do (C20 l0_substdio_out).
 *
 * DIR 0 (read):  the program has RL reply bytes pending in its output stream and reads.
 * DIR 1 (write): the program has RL reply bytes pending and flushes.
 *
 * Oracle (property C07 "client disconnect at any byte queues nothing"; C09 "disconnect or stall at
 * any point ... connection loss yields temporary failure"; qmail-smtpd(8) timeoutsmtpd, qmail-
 * remote(8) timeoutremote, qmail-pop3d(8) "20-minute idle timeout"; RFC 5321 lock-step):
 *   R1 a read result <= 0 (end of file, error, timeout) NEVER returns to the caller (substdio would
 *      take 0 for the end of the data and -1 is ignored by every substdio_get() call site): the
 *      program ends right there - _exit(), or dropped() in qmail-remote with flagcritical untouched;
 *      a positive count is returned unchanged, with the bytes read() stored.
 *   R2 a write result <= 0 never returns either (the callers ignore substdio_flush()'s result, so a
 *      returned failure would be taken for a delivered reply / command); the program ends at once,
 *      without further I/O; positive counts (short writes too) are returned unchanged.
 *   R3 the programs documented to have a timeout wait through timeoutread()/timeoutwrite() with
 *      exactly their timeout (qmail-smtpd: control timeoutsmtpd; qmail-remote: timeoutremote;
 *      pop3d/popup: 1200 s), on the descriptor of the stream (qmail-remote: smtpfd).
 *   R4 qmail-smtpd and qmail-qmtpd: everything written so far has reached the client BEFORE the
 *      server waits for input (otherwise both sides wait: 220/250/354 or the QMTP verdict would sit
 *      in the buffer; qmail-qmtpd.c says so itself: "ssout will be flushed when we read from the
 *      network again").  Not demanded of qmqpd/pop3d/popup, which flush explicitly.
 *   R5 qmail-smtpd: a client that stalls (timeoutread -> -1/ETIMEDOUT) gets one complete temporary
 *      reply line (4xx ... CRLF), flushed, before the server exits (C07: "negative reply of the
 *      right class"); on end of file / other errors the documents do not ask for a reply: nothing,
 *      or a 4xx line, is accepted.  The exit status is not constrained by any document.
 *   R6 no path from a failed read or write reaches qmail_close() (the only call that commits a
 *      message): "queues nothing".
 */
#include "verif.h"
#include <errno.h>
#include <sys/types.h>
#include <unistd.h>
#include <stdio.h>

#ifndef PROG
#define PROG 0
#endif
#ifndef DIR
#define DIR 0
#endif

#if PROG == 0
#include "gen_qmail-smtpd.c"
#elif PROG == 1
#include "gen_qmail-qmtpd.c"
#elif PROG == 2
#include "gen_qmail-qmqpd.c"
#elif PROG == 3
#define puts pop3d_puts        /* qmail-pop3d.c defines its own puts(); keep it off libc's */
#include "gen_qmail-pop3d.c"
#elif PROG == 4
#define puts popup_puts
#include "gen_qmail-popup.c"
#else
#include "gen_qmail-remote.c"
#endif

#if PROG == 5
#define INS smtpfrom
#define OUTS smtpto
#else
#define INS ssin
#define OUTS ssout
#endif
#define USES_TIMEOUT (PROG == 0 || PROG == 3 || PROG == 4 || PROG == 5)
#define FLUSHES_BEFORE_READ (PROG == 0 || PROG == 1)

#ifndef RL
#define RL 2                  /* reply bytes pending before the call */
#endif
#ifndef LEN
#define LEN 3                 /* size of the caller's read buffer */
#endif
#define OBMAX (RL + 30)       /* RL + the longest text a die_ routine adds (22 bytes) and room to spare */
#define WT OBMAX             /* write calls on the tape: every byte may go out on its own */

/* ---- inputs */
unsigned char in_reply[RL];
int in_timeout;               /* control timeoutsmtpd / timeoutremote */
int in_fd;                    /* qmail-remote: the socket */
unsigned char in_crit;        /* qmail-remote: flagcritical */
long in_r; int in_rerrno;     /* result of the one read */
unsigned char in_data[LEN], in_old[LEN + 1];
signed char in_w[WT];         /* results of the writes, in order (clamped to the length asked for) */
int in_werrno;

void sym_inputs(void)
{
#ifdef REPLAY
#include "replay_inputs.inc"
#else
  SYM_ARR(in_reply); SYM(in_timeout); SYM(in_fd); SYM(in_crit); SYM(in_r); SYM(in_rerrno); SYM_ARR(in_data); SYM_ARR(in_old);
  SYM_ARR(in_w); SYM(in_werrno);
#endif
}

/* ---- the wire */
static unsigned char obuf[OBMAX];       /* everything the program put into its output stream */
static unsigned int pend, sent;         /* bytes put / bytes taken by successful writes */
static unsigned int pend_at_read;
static unsigned char rbuf[LEN + 1];
static unsigned int n_rd, n_wr;
static long rd_r = 1, last_w;
static int rd_errno, wfail, ended;

#if PROG == 5
char subfd_outbufsmall[256];
static substdio it_outsmall = SUBSTDIO_FDBUF(write, 1, subfd_outbufsmall, 256);
substdio *subfdoutsmall = &it_outsmall;
#endif

static int expect_fd(int out) { return PROG == 5 ? in_fd : out; }
static int expect_t(void) { return (PROG == 3 || PROG == 4) ? 1200 : in_timeout; }

static ssize_t prim_write(int has_t, int t, int fd, const void *b, size_t len)
{
  long r;
  CHECK(!wfail && !ended, "R2: no I/O after a failed write");
  CHECK(!(n_rd && rd_r > 0), "nothing is written between a successful read and its return");
  if (USES_TIMEOUT) {
    CHECK(has_t, "R3/C09(stall): writes to the network wait through timeoutwrite()");
    if (has_t) CHECK(t == expect_t(), "R3: ... with the program's timeout");
  }
  CHECK(fd == expect_fd(1), "R3: the write is on the connection");
  CHECK(b == (const void *) (obuf + sent) && len == pend - sent, "exactly the unsent bytes are offered");
  CHECK(n_wr < WT, "harness sizing: writes on the tape");
  if (n_wr >= WT) { PATH_END(); return -1; }
  r = in_w[n_wr++];
  if (r > (long) len) r = (long) len;
  last_w = r;
  if (r <= 0) { wfail = 1; if (r < 0) errno = in_werrno; return (ssize_t) r; }
  sent += (unsigned int) r;
  return (ssize_t) r;
}

static ssize_t prim_read(int has_t, int t, int fd, void *b, size_t len)
{
  unsigned int i;
  CHECK(!wfail && !ended, "R2: the program does not go on to wait for the peer after a write to it failed");
  CHECK(n_rd == 0, "R1: one read per call; none after a read that failed");
  ++n_rd;
  if (USES_TIMEOUT) {
    CHECK(has_t, "R3/C09(stall): reads from the network wait through timeoutread()");
    if (has_t) CHECK(t == expect_t(), "R3: ... with the program's timeout");
  }
  CHECK(fd == expect_fd(0), "R3: the read is on the connection");
  CHECK(b == (void *) rbuf && len == LEN, "the caller's buffer and length");
  if (FLUSHES_BEFORE_READ)
    CHECK(sent == pend, "R4 (C05/C07): every reply written so far has reached the client before the server waits for it");
  pend_at_read = pend;
  rd_r = in_r; rd_errno = in_rerrno;
  if (in_r == -1) { errno = in_rerrno; return -1; }
  if (b == (void *) rbuf) for (i = 0; i < LEN; ++i) { if (i >= (unsigned long) in_r) break; rbuf[i] = in_data[i]; }
  return (ssize_t) in_r;
}

ssize_t timeoutread(int t, int fd, char *buf, size_t len) { return prim_read(1, t, fd, buf, len); }
ssize_t timeoutwrite(int t, int fd, const void *buf, size_t len) { return prim_write(1, t, fd, buf, len); }
ssize_t vf_read(int fd, void *buf, size_t len) { return prim_read(0, 0, fd, buf, len); }
ssize_t vf_write(int fd, const void *buf, size_t len) { return prim_write(0, 0, fd, buf, len); }

/* ---- ideal output stream */
int ideal_getc(substdio *s) { CHECK(0, "the input stream is read through its op here"); return -1; }

int ideal_putc(substdio *s, unsigned char c)
{
  CHECK(s == &OUTS, "only the connection is written");
  CHECK(!wfail, "R2: nothing more is produced after a failed write");
  CHECK(!(n_rd && rd_r > 0), "nothing is written between a successful read and its return");
  CHECK(pend < OBMAX, "harness sizing: output fits");
  if (pend >= OBMAX) { PATH_END(); return -1; }
  obuf[pend++] = c;
  return 0;
}

int ideal_flush(substdio *s)
{
  unsigned int k;
  CHECK(s == &OUTS, "only the connection is flushed");
  for (k = 0; k < OBMAX; ++k) {
    ssize_t w;
    unsigned int before = sent;
    if (sent >= pend) break;
    w = s->op(s->fd, (char *) obuf + sent, (size_t) (pend - sent));
    CHECK(w > 0, "R2 (C07/C09): safewrite() never hands a failed or empty write back as if it were a count");
    if (w <= 0) { PATH_END(); return -1; }
    CHECK(w == last_w && sent == before + (unsigned int) w, "R2: a positive count is passed through unchanged");
  }
  return 0;
}

/* ---- the ways out */
static void give_up(int is_dropped)
{
  unsigned int extra;
  CHECK(!ended, "one exit");
  ended = 1;
  CHECK(wfail || (n_rd == 1 && rd_r <= 0), "the program gives up here only because a read or a write failed");
  CHECK(is_dropped == (PROG == 5), "qmail-remote reports the lost connection (dropped()), the servers exit");
#if PROG == 5
  CHECK(flagcritical == (int) in_crit, "C09: flagcritical is untouched (dropped() reports 'possible duplicate' from it)");
#endif
  if (wfail) {
    if (n_rd == 0) WITNESS("gave_up_on_failed_write");
    if (n_rd == 0 && n_wr > 1) WITNESS("gave_up_on_failed_second_write");
    if (n_rd == 0 && last_w == 0) WITNESS("gave_up_on_write_of_nothing");
    if (n_rd == 1) WITNESS("gave_up_on_failed_write_of_the_timeout_reply");
  } else {
    extra = pend - pend_at_read;
    if (PROG == 0 && rd_r == -1 && rd_errno == ETIMEDOUT) {
      CHECK(extra >= 6 && obuf[pend_at_read] == '4' && obuf[pend_at_read + 1] >= '0' && obuf[pend_at_read + 1] <= '9'
            && obuf[pend_at_read + 2] >= '0' && obuf[pend_at_read + 2] <= '9' && obuf[pend_at_read + 3] == ' '
            && obuf[pend - 2] == '\r' && obuf[pend - 1] == '\n',
            "R5 (C07): a stalled client gets a complete temporary reply line (4xx text CRLF)");
      CHECK(sent == pend, "R5: ... which is flushed before the server exits");
      WITNESS("timeout_reply_sent");
    } else if (PROG == 0) {
      CHECK(extra == 0 || obuf[pend_at_read] == '4', "R5: a vanished client gets nothing, or a temporary reply - never a positive one");
    }
    if (rd_r == 0) WITNESS("gave_up_on_end_of_file");
    if (rd_r == -1 && rd_errno == ETIMEDOUT) WITNESS("gave_up_on_timeout");
    if (rd_r == -1 && rd_errno == ECONNRESET) WITNESS("gave_up_on_read_error");
  }
  PATH_END();
#ifdef VERIF_CBMC
  __CPROVER_assume(0);
#endif
}

void vf__exit(int status) { give_up(0); }

#if PROG == 5
void dropped(void) { give_up(1); }      /* definition cut from the generated copy */
#endif

#if PROG <= 2
/* R6: the only call that commits a message */
char *qmail_close(struct qmail *qq) { CHECK(0, "R6 (C07): nothing is committed to the queue on the way out of a failed read or write"); return ""; }
#endif

void vmain(void)
{
  unsigned int i;
  ssize_t r;
  sym_inputs();
  ASSUME(in_timeout >= 0);
  ASSUME(in_fd >= 0);
  ASSUME(in_crit <= 1);
  ASSUME(in_r >= -1 && in_r <= LEN);
  ASSUME(in_rerrno > 0 && in_werrno > 0);
  for (i = 0; i < WT; ++i) ASSUME(in_w[i] >= -1);
  for (i = 0; i < LEN + 1; ++i) rbuf[i] = in_old[i];
#if PROG == 0 || PROG == 5
  timeout = in_timeout;
#endif
#if PROG == 5
  smtpfd = in_fd;
  flagcritical = in_crit;
#endif

  /* what the program has produced so far: a reply (a command, for qmail-remote) not yet flushed */
  substdio_put(&OUTS, (char *) in_reply, RL);

#if DIR == 1
  r = substdio_flush(&OUTS);
  CHECK(r == 0 && !wfail && sent == pend && pend == RL, "R2: flush returns only when the connection took every byte");
  WITNESS("written");
  if (n_wr > 1) WITNESS("written_in_pieces");
#else
  r = INS.op(INS.fd, (char *) rbuf, (size_t) LEN);
  CHECK(n_rd == 1, "the read takes place");
  CHECK(rd_r > 0, "R1 (C05/C07/C09): end of file, an error or a timeout is never handed to substdio as a count (0 would be the end of the data)");
  CHECK(r == (ssize_t) rd_r, "R1: a positive count is passed through unchanged");
  for (i = 0; i < LEN + 1; ++i)
    CHECK(rbuf[i] == ((i < (unsigned long) rd_r && i < LEN) ? in_data[i] : in_old[i]), "R1: the buffer holds what the read stored");
  CHECK(pend == RL && !wfail, "nothing but the pending reply was written");
  if (FLUSHES_BEFORE_READ) CHECK(sent == pend, "R4: the reply was flushed");
  WITNESS("read_passed_through");
  if (rd_r < LEN) WITNESS("short_read");
  if (FLUSHES_BEFORE_READ && n_wr > 1) WITNESS("reply_flushed_in_pieces_before_read");
#endif
  CHECK(!ended, "no exit on the successful path");
  WITNESS("done");
}
