/* C09 - qmail-remote.c smtpcode()/get(): reading one SMTP reply, for every server byte
 * stream of up to N bytes (all 256 byte values, end of stream / read error / timeout at
 * any position).
 * Encoded from /repo: qmail-remote.c smtpcode, get, saferead (GEN_SAFE_TIMEOUTREAD),
 * stralloc units.  dropped() is cut to an observing stub (every one of the ~250 unrolled
 * read sites can reach it; inlining its report writing at each made the query 800k steps /
 * no verdict); what dropped() writes is proved in dropped.c, obligation "dropped_quit".
 *
 * Reference reply reader (RFC 5321 4.2 / 4.2.1): a reply is zero or more lines
 * "ddd-" text LF followed by one line "ddd" [SP text] LF (CR before LF optional, "CR
 * ignored" is also how the code documents its reading); every line of a multi-line reply
 * carries the same code.  For a stream that starts with such a reply:
 *   - smtpcode() returns the code and has consumed exactly the reply (so the next reply
 *     is read from its first byte - no desynchronisation);
 *   - smtptext (the text later shown as "Remote host said:") is the reply minus CRs;
 *   - no report is written.
 * For a stream that ends (EOF, error, timeout: timeoutread() <= 0) before such a reply
 * is complete: dropped() is called (=> report Z "connection died", see dropped.c), with
 * flagcritical untouched, nothing written before, nothing read after.
 * Streams that are not a well-formed reply prefix (non-digit code, line shorter than its
 * code, a separator other than SP - CR LF, differing codes in one reply): the documents
 * are silent, so only memory safety, termination inside the stream (no read after the
 * disconnect) and "nothing but dropped() ends the run" are demanded there. */
#include "verif.h"
#include "gen_qmail-remote.c"

#ifndef N
#define N 12
#endif

unsigned char in[N];          /* what the server sends */
unsigned int inlen;           /* ... and how much of it before the connection ends */
int in_endkind;               /* how it ends: 0 = EOF, -1 = error or timeout */

static unsigned int inpos;
static int ended;             /* timeoutread() has reported the end */
static unsigned int replen;    /* bytes written to the report stream */
static int returned;
static int ref_r, ref_same;    /* reference reading of the stream, computed before the run */
static unsigned int ref_code, ref_end;

char subfd_outbufsmall[256];
static substdio it_outsmall = SUBSTDIO_FDBUF(write, 1, subfd_outbufsmall, 256);
substdio *subfdoutsmall = &it_outsmall;

void sym_inputs(void)
{
#ifdef REPLAY
#include "replay_inputs.inc"
#else
  SYM_FEED();
  SYM_ARR(in); SYM(inlen); SYM(in_endkind);
#endif
}

/* ---- environment */
ssize_t timeoutread(int t, int fd, char *buf, size_t len)
{
  CHECK(!ended, "C09: no read from the connection after it has ended");
  CHECK(len >= 1, "read of at least one byte");
  if (inpos >= inlen) { ended = 1; return in_endkind; }
  buf[0] = (char) in[inpos++];
  return 1;
}

int ideal_getc(substdio *s)
{
  char c;
  CHECK(s == &smtpfrom, "smtpcode reads only the SMTP connection");
  /* smtpfrom's read operation is saferead(): the real one is called, it ends the run
   * through dropped() when timeoutread() returns 0 or -1 */
  if (saferead(-1, &c, 1) != 1) { CHECK(0, "saferead returned without a byte"); ASSUME(0); }
  return (unsigned char) c;
}

int ideal_putc(substdio *s, unsigned char c)
{
  CHECK(s == subfdoutsmall, "only the report stream is written");
  ++replen;
  return 0;
}

int ideal_flush(substdio *s) { return 0; }

/* ---- reference reader.  1: in[0..*end) is a complete reply with code *code;
 * 0: the stream ends before a well-formed reply is complete; -1: not well-formed.
 * *same = every line carries the first line's code. */
static int ref_reply(unsigned int *code, unsigned int *end, int *same)
{
  unsigned int pos = 0, line, k;
  *same = 1; *code = 0; *end = 0;
  for (line = 0; line < N / 4 + 1; ++line) {
    unsigned int c = 0;
    int cont;
    for (k = 0; k < 3; ++k) {
      if (pos >= inlen) return 0;
      if (in[pos] < '0' || in[pos] > '9') return -1;
      c = c * 10 + (in[pos] - '0');
      ++pos;
    }
    if (line == 0) *code = c; else if (c != *code) *same = 0;
    if (pos >= inlen) return 0;
    if (in[pos] != '-' && in[pos] != ' ' && in[pos] != '\r' && in[pos] != '\n') return -1;
    cont = (in[pos] == '-');
    for (k = 0; k < N; ++k) {
      if (pos >= inlen) return 0;
      if (in[pos] == '\n') break;
      ++pos;
    }
    ++pos;                               /* the LF */
    if (!cont) { *end = pos; return 1; }
  }
  return 0;                              /* not reached: N/4+1 lines do not fit N bytes */
}

static void check_smtptext(unsigned int end)
{
  unsigned int i, j = 0;
  for (i = 0; i < N; ++i) {
    if (i >= end) break;
    if (in[i] == '\r') continue;
    CHECK(j < smtptext.len && (unsigned char) smtptext.s[j] == in[i], "C09(smtptext): captured reply = reply bytes minus CR");
    ++j;
  }
  CHECK(j == smtptext.len, "C09(smtptext): nothing but the reply is captured");
}

/* definition cut from the generated copy: the connection was lost */
void dropped(void)
{
  CHECK(!returned, "no abort after smtpcode returned");
  CHECK(ended, "C09: dropped() only after the connection really ended");
  CHECK(ref_r != 1, "C09: a complete reply is never treated as a lost connection");
  CHECK(replen == 0, "nothing is reported before dropped()");
  CHECK(flagcritical == 0, "C09: smtpcode does not touch flagcritical");
  if (ref_r == 0 && inlen == 0) WITNESS("dropped_before_reply");
  if (ref_r == 0 && inlen >= 5 && in[3] == '-') WITNESS("dropped_in_continuation");
  if (ref_r == 0 && in_endkind == -1) WITNESS("dropped_by_timeout");
  if (ref_r == -1) WITNESS("dropped_malformed");
  PATH_END();
#ifdef VERIF_CBMC
  __CPROVER_assume(0);
#endif
}

void vf__exit(int status)
{
  CHECK(0, "C09: no exit inside smtpcode other than through dropped()");
  PATH_END();
#ifdef VERIF_CBMC
  __CPROVER_assume(0);
#endif
}

void vmain(void)
{
  unsigned long got;
  unsigned int code, end; int same, r;
  sym_inputs();
  ASSUME(inlen <= N);
  ASSUME(in_endkind == 0 || in_endkind == -1);
  ref_r = ref_reply(&ref_code, &ref_end, &ref_same);
  got = smtpcode();
  returned = 1;
  CHECK(replen == 0, "no report is written while a reply is read");
  r = ref_r; code = ref_code; end = ref_end; same = ref_same;
  CHECK(r != 0, "C09: a reply cut off by the end of the connection is never returned as a code");
  if (r == 1) {
    CHECK(inpos == end, "C09: exactly the reply is consumed (next reply starts in sync)");
    if (same) CHECK(got == code, "C09: returned code is the reply's code");
    check_smtptext(end);
    if (same && in[3] == '-') WITNESS("multi_line_reply");
    if (!same) WITNESS("codes_differ");
    if (end >= 2 && in[end - 2] == '\r') WITNESS("crlf_reply");
    if (end == 4) WITNESS("bare_code_reply");
    if (got == 250) WITNESS("code_250");
    if (got == 999) WITNESS("code_999");
    WITNESS("single_or_multi_complete");
  } else {
    WITNESS("malformed_returned");
  }
}
