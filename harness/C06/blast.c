/* C06 - qmail-remote.c blast(): outbound DATA encoding, all messages up to N bytes.
 * Encoded from /repo: qmail-remote.c (text before main) - blast, out, zero, zerodie,
 * perm_partialline, temp_read.  substdio = ideal byte streams (layer 1). */
#include "verif.h"
#include "gen_qmail-remote.c"

#ifndef N
#define N 6
#endif
#define OUTMAX (3 * N + 8)

unsigned char in[N];
unsigned int inlen;          /* message length */
unsigned int errpos;         /* read error injected before byte errpos (none if >= inlen+1) */

static unsigned int inpos;
static int err_injected;
static unsigned char outb[OUTMAX];
static unsigned int outlen;
static unsigned int flushed;           /* bytes of outb pushed by a flush */
static unsigned char rep[4];           /* first bytes of the delivery report (fd 1) */
static unsigned int replen;
static int crit_at_dot = -1;           /* flagcritical when the final dot's first byte was put */
static int exited = -1;

/* -- substdio.a stand-ins that are not under test here */
char subfd_outbufsmall[256];
static substdio it_outsmall = SUBSTDIO_FDBUF(write, 1, subfd_outbufsmall, 256);
substdio *subfdoutsmall = &it_outsmall;

void sym_inputs(void)
{
#ifdef REPLAY
#include "replay_inputs.inc"
#else
  SYM_FEED();
  SYM_ARR(in); SYM(inlen); SYM(errpos);
#endif
}

int ideal_getc(substdio *s)
{
  CHECK(s == &ssin, "blast reads only the message descriptor");
  if (inpos == errpos && !err_injected) { err_injected = 1; return -2; }
  if (inpos >= inlen) return -1;
  return in[inpos++];
}

int ideal_putc(substdio *s, unsigned char c)
{
  if (s == &smtpto) {
    CHECK(outlen < OUTMAX, "output fits 3N+8 (harness sizing)");
    ASSUME(outlen < OUTMAX);
    outb[outlen++] = c;
    return 0;
  }
  CHECK(s == subfdoutsmall, "only smtpto and the report stream are written");
  if (replen < sizeof rep) rep[replen] = c;
  replen++;
  return 0;
}

/* out() - the emitter of the fixed report texts ("DSMTP cannot transfer messages with partial final lines...") - is cut: the
 * text itself is not the subject here, and going through the ideal substdio_put would force that loop's bound up to the
 * longest text for EVERY call site, including symbolic-length puts of the code under test (HARNESS-GUIDE, round 3) */
void out(char *s)
{
  unsigned int i;
  for (i = 0; i < 120; ++i) { if (!s[i]) break; if (replen < sizeof rep) rep[replen] = (unsigned char) s[i]; replen++; }
}

int ideal_flush(substdio *s)
{
  if (s == &smtpto) flushed = outlen;
  return 0;
}

/* first index at which CRLF.CRLF ends inside (CRLF ++ outb[0..outlen)), or -1.
 * The virtual leading CRLF is the end of the "DATA" command line. */
static int first_eod_end(void)
{
  int st = 2; /* states: 0 none, 1 CR, 2 CRLF, 3 CRLF., 4 CRLF.CR */
  unsigned int i;
  for (i = 0; i < OUTMAX; ++i) {
    unsigned char c;
    if (i >= outlen) break;
    c = outb[i];
    switch (st) {
      case 0: st = (c == '\r') ? 1 : 0; break;
      case 1: st = (c == '\n') ? 2 : (c == '\r') ? 1 : 0; break;
      case 2: st = (c == '.') ? 3 : (c == '\r') ? 1 : 0; break;
      case 3: st = (c == '\r') ? 4 : 0; break;
      case 4: if (c == '\n') return (int) i + 1; st = (c == '\r') ? 1 : 0; break;
    }
  }
  return -1;
}

static void check_no_bare_lf(void)
{
  unsigned int i;
  for (i = 0; i < OUTMAX; ++i) {
    if (i >= outlen) break;
    if (outb[i] == '\n')
      CHECK(i > 0 && outb[i - 1] == '\r', "C06(b): no bare LF in the DATA payload");
  }
}

/* RFC 5321 reference receiver over outb[0..outlen-3) (payload without the final dot
 * line), compared on the fly with the original message:
 *   message without bare CR:  the decoded payload has exactly the message's lines (byte-
 *     identical for CR-free messages; a CRLF line end counts as one line end);
 *   message with a bare CR:   the property only promises "original line contents" and
 *     the suite pins "bare CR -> CRLF", so CR and LF are compared loosely: the decoded
 *     payload and the message must agree after deleting every CR and LF - no other
 *     byte dropped, duplicated, reordered, and no dot lost or left over. */
static void check_decodes_to_input(void)
{
  unsigned int j = 0;            /* index in outb */
  unsigned int i = 0;            /* index in in[] */
  unsigned int end = outlen - 3; /* caller guarantees outlen >= 3 and ends with ".CRLF" */
  int bol = 1;
  int hascr = 0;
  unsigned int k;
  /* loose comparison only for messages with a BARE CR (CR not followed by LF); a message
   * whose CRs all belong to CRLF line ends must come back with exactly its lines */
  for (k = 0; k < N; ++k) if (k < inlen && in[k] == '\r' && !(k + 1 < inlen && in[k + 1] == '\n')) hascr = 1;
  for (k = 0; k < OUTMAX; ++k) {
    unsigned char d;
    if (j >= end) break;
    d = outb[j];
    if (bol && d == '.') {                 /* receiver removes one leading dot */
      ++j;
      CHECK(j < end, "C06(c): stuffed dot is followed by the line");
      if (j >= end) break;
      d = outb[j];
    }
    bol = 0;
    if (d == '\r' && j + 1 < end && outb[j + 1] == '\n') { d = '\n'; j += 2; bol = 1; }
    else ++j;
    /* d is the next decoded byte ('\n' only for a CRLF line end) */
    if (hascr) {
      unsigned int g;
      if (d == '\r' || d == '\n') continue;
      for (g = 0; g < N; ++g) { if (i < inlen && (in[i] == '\r' || in[i] == '\n')) ++i; else break; }
    }
    CHECK(i < inlen, "C06(c): decoded payload is not longer than the message");
    if (i >= inlen) return;
    if (!hascr && in[i] == '\r') {        /* CRLF line end of the message: exactly one line end arrives */
      CHECK(d == '\n', "C06(c): a CRLF line end of the message arrives as exactly one line end");
      i += 2;
      continue;
    }
    CHECK(d == in[i], "C06(c): byte arrives unchanged and in order");
    ++i;
  }
  if (hascr) {
    unsigned int g;
    for (g = 0; g < N; ++g) { if (i < inlen && (in[i] == '\r' || in[i] == '\n')) ++i; else break; }
  }
  CHECK(j == end, "C06(c): payload decodes completely");
  CHECK(i == inlen, "C06(c): no message byte is dropped");
}

void vf__exit(int status)
{
  /* every exit inside blast() is an abort before the final dot: the payload sent so
   * far must not contain an end-of-data sequence, and a report must have been made */
  exited = status;
  CHECK(first_eod_end() == -1, "C06(a): aborted transfer never contains CRLF.CRLF");
  CHECK(replen >= 1 && (rep[0] == 'D' || rep[0] == 'Z'), "abort reports D or Z");
  if (replen >= 1 && rep[0] == 'D') {
    /* perm_partialline: only for a message whose last line lacks its newline */
    CHECK(inlen > 0 && in[inlen - 1] != '\n', "C06(d): partial-line refusal only without final newline");
    WITNESS("partial_line_refused");
  } else {
    WITNESS("read_error_reported");
  }
  PATH_END();
#ifdef VERIF_CBMC
  __CPROVER_assume(0);
#endif
}

void vmain(void)
{
  sym_inputs();
  ASSUME(inlen <= N);
  blast();
  /* complete transfer */
  CHECK(exited == -1, "blast returned");
  CHECK(!err_injected, "a read error never completes the transfer");
  CHECK(outlen >= 3 && outb[outlen - 3] == '.' && outb[outlen - 2] == '\r' && outb[outlen - 1] == '\n',
        "payload ends with the dot line");
  CHECK(first_eod_end() == (int) outlen, "C06(a): CRLF.CRLF occurs exactly once, at the very end");
  check_no_bare_lf();
  if (outlen >= 3) check_decodes_to_input();
  /* a message without final newline is never silently completed, except that a bare CR
   * at the very end has already been turned into a line break */
  CHECK(inlen == 0 || in[inlen - 1] == '\n' || in[inlen - 1] == '\r',
        "C06(d): message without final newline is refused, not completed");
  CHECK(flagcritical == 1, "C06(e): flagcritical set once the final dot is out");
  CHECK(flushed == outlen, "payload flushed before waiting for the reply");
  CHECK(replen == 0, "no report written by blast on the success path");
  if (inlen == N && in[0] == '.' ) WITNESS("complete_dotline_message");
  if (inlen >= 3 && in[inlen - 3] == '\r' && in[inlen - 2] == '.' && in[inlen - 1] == '\n') WITNESS("cr_dot_lf");
  WITNESS("complete");
}
