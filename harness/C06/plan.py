from vlib import Obl, Prog

def obligations(tier):
    ns = [4, 5] if tier == "quick" else [5, 6, 7]
    return [
        Obl("remote_blast", "blast.c",
            progs=[Prog("qmail-remote.c", nomain=True, cut=["out"])],
            lib=["ideal_substdio.c"],
            sysrename=["_exit"],
            grid=[{"N": n} for n in ns],
            unwind=lambda p: {"blast": p["N"] + 2, "substdio_put": p["N"] + 3, "out": 121},
            unwind_default=lambda p: 3 * p["N"] + 10,
            timeout=900 if tier == "quick" else 3000,
            functions=["qmail-remote.c:blast", "qmail-remote.c:out", "qmail-remote.c:zero",
                       "qmail-remote.c:zerodie", "qmail-remote.c:perm_partialline", "qmail-remote.c:temp_read"],
            cuts=["out -> records the first bytes of the fixed report text (the text is not the subject; keeps the put loop bound at N+3)"],
            stubs=["substdio_get/put/flush: ideal byte streams (lib/ideal_substdio.c), contract proved on the real substdio in C20 layer-0 lemmas",
                   "_exit: records status, runs abort-path assertions, ends the path"],
            assumes=["message length <= N bytes, every byte value 0..255, EOF anywhere, at most one read error at any position"],
            outside=["messages longer than N bytes", "chunking of reads inside the real substdio buffers (layer-0 lemma)"],
            claim="for every message <= N bytes: CRLF.CRLF occurs exactly once at the very end of the DATA payload, no bare LF, "
                  "a reference RFC 5321 receiver decodes the payload to the message (CRLF==LF, bare CR as CR or line break), "
                  "partial final line refused with D, flagcritical window, flush before reply",
            expect_witnesses=["complete", "partial_line_refused", "read_error_reported", "complete_dotline_message", "cr_dot_lf"]),
    ]
