/* C11 (1c) - the writer cdbmss_start / cdbmss_add / cdbmss_finish (REAL cdbmss.c,
 * cdbmake_add.c, cdbmake_hash.c, cdbmake_pack.c) on R <= 2 symbolic records: every byte it
 * writes is compared with the cdb format specification (cdbspec.h), i.e. with exactly the
 * file over which cdb_seek_spec proves the reader - so "the compiled database returns for
 * every key what the source says" follows from the two obligations together.
 * The 256-way bucket index is what does not close symbolically (DESIGN C11): the hash
 * residues h & 255 of the records are fixed per query (B0, B1: same bucket, adjacent, 0/255);
 * keys, data, lengths and the upper hash bits are symbolic.
 * substdio = ideal stream (layer 0) writing at the descriptor's position; malloc is real
 * (concrete sizes only). */
#include "verif.h"
#include <sys/types.h>
#include <unistd.h>
#include "cdbspec.h"
#include "cdbmss.h"

#ifndef B0
#define B0 7
#endif
#ifndef B1
#define B1 7
#endif
#define IMG (2048 + 2 * (8 + KL + DL) + 4 * 8)
#define FD 4

static unsigned char img[IMG];
static unsigned char written[IMG];
static uint32 wpos, maxpos;
static struct cdbmss c;

void sym_inputs(void)
{
#ifdef REPLAY
#include "replay_inputs.inc"
#else
  SYM_ARR(rkey[0]); SYM_ARR(rkey[1]); SYM_ARR(rdata[0]); SYM_ARR(rdata[1]); SYM_ARR(rklen); SYM_ARR(rdlen);
#endif
}

off_t vf_lseek(int fd, off_t off, int whence)
{
  CHECK(fd == FD && whence == SEEK_SET && off >= 0 && off <= IMG, "writer seeks absolutely inside the file");
  wpos = (uint32) off;
  return off;
}
int ideal_getc(substdio *s) { return -1; }
int ideal_putc(substdio *s, unsigned char ch)
{
  CHECK(s == &c.ss, "the writer uses its own stream");
  CHECK(wpos < IMG, "C11(1c): the writer produces no byte beyond the end the format prescribes");
  ASSUME(wpos < IMG);
  img[wpos] = ch; written[wpos] = 1; ++wpos;
  if (wpos > maxpos) maxpos = wpos;
  return 0;
}
int ideal_flush(substdio *s) { return 0; }

void vmain(void)
{
  unsigned int i;
  uint32 b, pos;
  sym_inputs();
  for (i = 0; i < R; ++i) ASSUME(rklen[i] <= KL && rdlen[i] <= DL);
  order = 0; epos = 0;
  spec_layout();
#if R >= 1
  ASSUME((rh[0] & 255) == B0);
#endif
#if R >= 2
  ASSUME((rh[1] & 255) == B1);
  order = (B1 < B0);              /* this writer emits the tables in bucket order; the format leaves the order free */
  spec_layout();
#endif

  CHECK(cdbmss_start(&c, FD) == 0, "start");
  for (i = 0; i < R; ++i) CHECK(cdbmss_add(&c, rkey[i], rklen[i], rdata[i], rdlen[i]) == 0, "add");
  CHECK(cdbmss_finish(&c) == 0, "finish");

  CHECK(maxpos == file_end, "C11(1c): file length = header + records + hash tables");
  /* records and hash tables: byte for byte */
  for (pos = 2048; pos < IMG; ++pos) {
    if (pos >= file_end) break;
    CHECK(written[pos], "C11(1c): no hole in the file");
    CHECK(img[pos] == file_byte(pos), "C11(1c): records and hash slots are exactly what the format prescribes");
  }
  /* header: table length of every bucket; table position of every non-empty bucket */
  for (b = 0; b < 256; ++b) {
    uint32 len = (uint32) img[8 * b + 4] | ((uint32) img[8 * b + 5] << 8) | ((uint32) img[8 * b + 6] << 16) | ((uint32) img[8 * b + 7] << 24);
    uint32 tp = (uint32) img[8 * b] | ((uint32) img[8 * b + 1] << 8) | ((uint32) img[8 * b + 2] << 16) | ((uint32) img[8 * b + 3] << 24);
    uint32 wl = (uint32) file_byte(8 * b + 4) | ((uint32) file_byte(8 * b + 5) << 8);
    CHECK(written[8 * b] && written[8 * b + 7], "header entry written");
    CHECK(len == wl, "C11(1c): header gives 2*count slots for the bucket (0 for an empty one)");
    if (wl) { uint32 wp = (uint32) file_byte(8 * b) | ((uint32) file_byte(8 * b + 1) << 8) | ((uint32) file_byte(8 * b + 2) << 16) | ((uint32) file_byte(8 * b + 3) << 24);
              CHECK(tp == wp, "C11(1c): header points at the bucket's hash table"); }
  }
#if R == 2
  if (B0 == B1 && ((rh[0] >> 8) % 4) == ((rh[1] >> 8) % 4)) WITNESS("collision_probed_to_next_slot");
  if (rklen[0] == rklen[1] && rkey[0][0] == rkey[1][0] && rkey[0][1] == rkey[1][1]) WITNESS("duplicate_keys_both_stored_in_order");
#endif
  WITNESS("written");
}
