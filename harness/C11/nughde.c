/* C11 (3) - qmail-lspawn.c nughde_get(): which users/cdb entry (or qmail-getpw) decides a
 * local part.  Real code: qmail-lspawn.c nughde_get (+ report for the exit-code mapping),
 * stralloc_*, byte_chr, case_lowerb, prot.c.  cdb_seek/cdb_bread are replaced by an
 * ABSTRACT TABLE with the documented behaviour of cdb.3 (1 = present, first record with the
 * key, *dlen set, descriptor at its data; 0 = absent; -1 = read error), proved for the real
 * reader by cdb_seek_spec / cdb_bread.
 *
 * Table (what qmail-newu writes, qmail-users.9 + obligation newu_keys): up to 2 entries with
 * arbitrary lower-case keys "!name\0" (simple assignment) or "!prefix" (wildcard) and
 * arbitrary data, plus the entry "" -> break characters; every non-empty wildcard prefix
 * ends in a recorded break character.
 * Oracle (qmail-users.9): the exact entry for lower(local) if there is one (first duplicate),
 * else the entry of the LONGEST prefix of lower(local) that has a wildcard entry, including
 * the empty prefix; result = entry data, with the unmatched rest of local (original case)
 * appended to it for a wildcard, NUL-terminated.  No entry: qmail-getpw is asked, as user
 * auto_userp / group auto_groupn, never as root.  Any cdb error (-1, missing "" record)
 * => _exit(QLX_CDB); every lookup failure exits with a code that report() turns into 'Z'. */
#include "verif.h"
#include <errno.h>
#include "gen_qmail-lspawn.c"

#ifndef L
#define L 3                      /* length of the local part (grid) */
#endif
#define KMAX (L + 2)
#define DMAX 3
#define WMAX 2
#define NT 2
#define GPMAX 4
#define FD 4

unsigned char local[L];
unsigned char tkey[NT][KMAX], tdata[NT][DMAX], wc[WMAX], gp[GPMAX];
unsigned int tklen[NT], tdlen[NT], tn, wclen, has_wc, gplen;
unsigned int open_mode;          /* 0 ok, 1 ENOENT, 2 other error */
unsigned int fail_at;            /* n-th cdb_seek/cdb_bread call returns -1 (0: none) */
unsigned int pipe_fails, fork_ret, slurp_fails, wait_ret, exec_fails, setfail;
int gpwstat_in;

char auto_qmail[] = "/var/qmail";
uid_t auto_uidq;                 /* spawn.c's, not used here */

static char localz[L + 1];
static unsigned int ncdb, cdb_failed, cdb_closed;
static int cur = -2;             /* record the descriptor points at: -1 the "" record, 0.. an entry */
static int exited = -1;
static int in_child;
static unsigned int nsetgroups, nsetgid, nsetuid, order_ok = 1;
static gid_t cur_gid = 0; static uid_t cur_uid = 0; static int groups_set;
static unsigned char rep_first; static unsigned int rep_n;
static substdio ssrep;

void sym_inputs(void)
{
#ifdef REPLAY
#include "replay_inputs.inc"
#else
  SYM_ARR(local); SYM_ARR(tkey[0]); SYM_ARR(tkey[1]); SYM_ARR(tdata[0]); SYM_ARR(tdata[1]); SYM_ARR(wc); SYM_ARR(gp);
  SYM_ARR(tklen); SYM_ARR(tdlen); SYM(tn); SYM(wclen); SYM(has_wc); SYM(gplen); SYM(open_mode); SYM(fail_at);
  SYM(pipe_fails); SYM(fork_ret); SYM(slurp_fails); SYM(wait_ret); SYM(exec_fails); SYM(setfail); SYM(gpwstat_in);
#endif
}

/* ---------------------------------------------------------------- abstract users/cdb */
int open_read(const char *fn)
{
  CHECK(strcmp(fn, "users/cdb") == 0, "nughde_get opens users/cdb");
  if (open_mode == 1) { errno = ENOENT; return -1; }
  if (open_mode == 2) { errno = EIO; return -1; }
  return FD;
}

static int cdb_inject(void) { ++ncdb; if (fail_at && ncdb == fail_at) { cdb_failed = 1; errno = EIO; return 1; } return 0; }

int cdb_seek(int fd, char *key, unsigned int len, uint32 *dlen)
{
  unsigned int i, j;
  CHECK(fd == FD && !cdb_closed, "cdb_seek on the open users/cdb descriptor");
  CHECK(len <= L + 2, "keys are at most '!' + local + NUL");
  if (cdb_inject()) return -1;
  if (len == 0) { if (!has_wc) return 0; *dlen = wclen; cur = -1; return 1; }
  for (i = 0; i < NT; ++i) {
    int eq = (i < tn && tklen[i] == len);
    for (j = 0; j < KMAX; ++j) { if (j >= len) break; if (eq && (unsigned char) key[j] != tkey[i][j]) eq = 0; }
    if (eq) { *dlen = tdlen[i]; cur = (int) i; return 1; }          /* first record with that key */
  }
  return 0;
}

int cdb_bread(int fd, char *buf, int len)
{
  int i;
  CHECK(fd == FD && !cdb_closed && cur >= -1, "cdb_bread right after a successful cdb_seek");
  CHECK(len == (int) (cur == -1 ? wclen : tdlen[cur]), "reads exactly the data length cdb_seek reported");
  if (cdb_inject()) return -1;
  for (i = 0; i < DMAX; ++i) { if (i >= len) break; buf[i] = (char) (cur == -1 ? wc[i] : tdata[cur][i]); }
  return 0;
}

/* ---------------------------------------------------------------- processes */
int vf_close(int fd) { if (fd == FD) cdb_closed = 1; return 0; }
int vf_pipe(int pi[2]) { if (pipe_fails) return -1; pi[0] = 8; pi[1] = 9; return 0; }
static unsigned int nfork;
int vf_fork(void) { ++nfork; if (fork_ret == 0) in_child = 1; return fork_ret == 1 ? -1 : fork_ret == 0 ? 0 : 77; }
int fd_move(int to, int from) { return 0; }
int fd_copy(int to, int from) { return 0; }
int vf_setgroups(size_t n, const gid_t *g)
{
  ++nsetgroups; if (nsetgid || nsetuid) order_ok = 0;
  if (setfail == 1) return -1;
  CHECK(n == 1, "exactly one supplementary group: the user's own");
  groups_set = 1; cur_gid = g[0];
  return 0;
}
static gid_t grp_set;
int vf_setgid(gid_t g) { ++nsetgid; if (!nsetgroups || nsetuid) order_ok = 0; if (setfail == 2) return -1; grp_set = g; return 0; }
int vf_setuid(uid_t u) { ++nsetuid; if (!nsetgroups || !nsetgid) order_ok = 0; if (setfail == 3) return -1; cur_uid = u; return 0; }
uid_t vf_getuid(void) { return cur_uid; }
int vf_chdir(const char *d) { return 0; }

int vf_execv(const char *path, char *const argv[])
{
  CHECK(in_child, "only the forked child execs");
  CHECK(strcmp(path, "bin/qmail-getpw") == 0 && strcmp(argv[0], "bin/qmail-getpw") == 0, "C11(3): the fallback runs bin/qmail-getpw");
  CHECK(argv[1] == localz && argv[2] == 0, "C11(3): qmail-getpw gets the local part and nothing else");
  CHECK(order_ok && nsetgroups == 1 && nsetgid == 1 && nsetuid == 1, "C11(3): setgroups, setgid, setuid - in this order - before qmail-getpw");
  CHECK(cur_gid == auto_gidn && grp_set == auto_gidn && cur_uid == auto_uidp, "C11(3): qmail-getpw runs as auto_userp/auto_groupn");
  WITNESS("getpw_child_execs");
  if (exec_fails) { errno = ENOENT; return -1; }
  PATH_END();
#ifdef VERIF_CBMC
  __CPROVER_assume(0);
#endif
  return -1;
}

int slurpclose(int fd, stralloc *sa, int bufsize)
{
  CHECK(fd == 8 && sa == &nughde, "slurps the read end of the pipe into nughde");
  if (slurp_fails) return -1;
  if (!stralloc_catb(sa, (char *) gp, gplen)) return -1;
  return 0;
}
int wait_pid(int *wstat, int pid) { CHECK(pid == 77, "waits for the qmail-getpw child"); if (wait_ret) return -1; *wstat = gpwstat_in; return pid; }

int ideal_getc(substdio *s) { return -1; }
int ideal_putc(substdio *s, unsigned char c) { if (!rep_n) rep_first = c; ++rep_n; return 0; }
int ideal_flush(substdio *s) { return 0; }

void vf__exit(int status)
{
  exited = status;
  if (in_child) {
    CHECK(status == QLX_USAGE || status == QLX_SYS || status == QLX_EXECPW, "getpw child gives up with a QLX code");
    if (status == QLX_EXECPW) CHECK(exec_fails, "QLX_EXECPW only when exec failed");
    WITNESS("getpw_child_gives_up");
  } else if (fork_ret >= 2 && !pipe_fails && !slurp_fails && !wait_ret && (gpwstat_in & 127) == 0 && (gpwstat_in >> 8) != 0
             && status == (gpwstat_in >> 8)) {
    WITNESS("getpw_exit_code_passed_on");        /* qmail-getpw's own verdict (QLX_NOALIAS, QLX_NFS, QLX_SYS) */
  } else {
    CHECK(status == QLX_CDB || status == QLX_SYS || status == QLX_NOMEM, "C11(3): lookup failures exit with QLX_CDB / QLX_SYS / QLX_NOMEM");
    if (status == QLX_CDB) {
      CHECK(open_mode == 2 || cdb_failed || (open_mode == 0 && !has_wc), "C11(3): QLX_CDB only for a real database problem");
      WITNESS("cdb_trouble_117");
    }
    if (status == QLX_SYS) WITNESS("sys_trouble_118");
    CHECK(status != QLX_NOMEM, "no allocation fails in this harness");
    report(&ssrep, status << 8, "", 0);
    CHECK(rep_n >= 1 && rep_first == 'Z', "C11: the exit code of a failed lookup is reported as Z (deferred), never D");
  }
  PATH_END();
#ifdef VERIF_CBMC
  __CPROVER_assume(0);
#endif
}

/* ---------------------------------------------------------------- reference (qmail-users.9) */
static unsigned char ref_lower(unsigned char c) { return (c >= 'A' && c <= 'Z') ? (unsigned char) (c + 32) : c; }

/* entry i is the simple assignment for the whole local part */
static int is_exact(unsigned int i)
{
  unsigned int j;
  if (i >= tn || tklen[i] != L + 2 || tkey[i][0] != '!' || tkey[i][L + 1] != 0) return 0;
  for (j = 0; j < L; ++j) if (tkey[i][1 + j] != ref_lower(local[j])) return 0;
  return 1;
}
/* entry i is the wildcard assignment for the first plen bytes of the local part */
static int is_wild(unsigned int i, unsigned int plen)
{
  unsigned int j;
  if (i >= tn || tklen[i] != plen + 1 || tkey[i][0] != '!') return 0;
  for (j = 0; j < L; ++j) { if (j >= plen) break; if (tkey[i][1 + j] != ref_lower(local[j])) return 0; }
  return 1;
}

void vmain(void)
{
  unsigned int i, j, plen;
  int want = -1, wantp = -1;
  sym_inputs();
  ASSUME(tn <= NT && wclen <= WMAX && gplen <= GPMAX && open_mode <= 2 && setfail <= 3);
  ASSUME(gpwstat_in >= 0 && gpwstat_in <= 65535);
  for (i = 0; i < L; ++i) { ASSUME(local[i] != 0); localz[i] = (char) local[i]; }
  localz[L] = 0;
  for (i = 0; i < NT; ++i) {
    ASSUME(tklen[i] >= 1 && tklen[i] <= KMAX && tdlen[i] <= DMAX && tkey[i][0] == '!');
    for (j = 0; j < KMAX; ++j) {
      if (j >= tklen[i]) break;
      ASSUME(!(tkey[i][j] >= 'A' && tkey[i][j] <= 'Z'));                  /* qmail-newu lower-cases keys */
      if (j + 1 < tklen[i]) ASSUME(tkey[i][j] != 0);                       /* lines contain no NUL: only the simple-key terminator */
    }
    /* qmail-newu records the last character of every non-empty wildcard prefix as a break character */
    if (i < tn && tklen[i] >= 2 && tkey[i][tklen[i] - 1] != 0) {
      unsigned char lastc = tkey[i][tklen[i] - 1];
      ASSUME(has_wc && ((wclen >= 1 && wc[0] == lastc) || (wclen >= 2 && wc[1] == lastc)));
    }
  }
  auto_gidn = 200; auto_uidp = 300;

  /* expected entry */
  for (i = 0; i < NT; ++i) if (is_exact(NT - 1 - i)) want = (int) (NT - 1 - i);
  if (want < 0)
    for (plen = 0; plen <= L; ++plen)                                      /* longest prefix wins: keep the last hit */
      for (i = 0; i < NT; ++i) if (is_wild(NT - 1 - i, plen)) { want = (int) (NT - 1 - i); wantp = (int) plen; }
  /* first duplicate among equal keys: the inner loop runs downwards, so the lowest index is kept for each plen */

  nughde_get(localz);

  CHECK(exited == -1 && !in_child, "nughde_get returned in the parent");
  if (open_mode == 0) CHECK(cdb_closed, "users/cdb is closed again");
  if (open_mode == 0 && want >= 0) {
    unsigned int dl = tdlen[want], extra = (wantp >= 0) ? L - (unsigned int) wantp : 0;
    CHECK(nfork == 0, "C11(3): an address listed in users/cdb never reaches qmail-getpw");
    CHECK(nughde.len == dl + extra + 1 && nughde.s[nughde.len - 1] == 0, "C11(3): result is the entry's data (+ unmatched rest of the local part) + NUL");
    for (j = 0; j < DMAX; ++j) { if (j >= dl) break; CHECK((unsigned char) nughde.s[j] == tdata[want][j], "C11(3): data of the most specific entry (exact, else longest wildcard; first duplicate)"); }
    for (j = 0; j < L; ++j) { if (j >= extra) break; CHECK((unsigned char) nughde.s[dl + j] == local[(unsigned int) wantp + j], "C11(3): the rest of the local part is appended in its original case"); }
    if (wantp < 0) WITNESS("exact_entry");
    if (wantp == 0) WITNESS("catch_all_entry");
    if (wantp > 0 && wantp < L) WITNESS("wildcard_prefix_entry");
    if (wantp == L) WITNESS("wildcard_covers_whole_local");
    if (want == 0 && tn == 2 && tklen[0] == tklen[1] && (is_exact(1) || (wantp >= 0 && is_wild(1, (unsigned int) wantp)))) WITNESS("duplicate_first_wins");
    if (want == 1 && wantp > 0 && is_wild(0, 0)) WITNESS("longer_prefix_beats_catch_all");
  } else {
    /* not in the table (or no table): qmail-getpw's output is the answer */
    CHECK(nfork == 1 && fork_ret >= 2, "C11(3): without a table entry the answer comes from qmail-getpw");
    CHECK(nughde.len == gplen, "C11(3): answer is exactly what qmail-getpw printed");
    for (j = 0; j < GPMAX; ++j) { if (j >= gplen) break; CHECK((unsigned char) nughde.s[j] == gp[j], "C11(3): qmail-getpw's bytes, unchanged"); }
    if (open_mode == 1) WITNESS("no_database_getpw");
    if (open_mode == 0) WITNESS("not_listed_getpw");
  }
}
