/* C11 (2) - qmail-newu.c main(): what goes into users/cdb for a users/assign file of N
 * bytes: one or two lines of concrete length (grid) with arbitrary contents, then TAIL
 * arbitrary bytes (all byte values, EOF anywhere).
 * Real code: qmail-newu.c main, stralloc_*, byte_chr, case_lowerb; getln/substdio = ideal
 * streams (layer 0); cdbmss_start/add/finish are cut and replaced by a recorder (the
 * writer itself: cdb_writer / format spec).
 *
 * Oracle (qmail-users.9, qmail-newu.8, and the key layout nughde_get relies on):
 *   "=local:user:uid:gid:home:dash:ext:"  -> key "!" lower(local) NUL, data = the six fields,
 *                                            NUL-separated (user NUL uid NUL gid NUL home NUL dash NUL ext)
 *   "+loc:user:uid:gid:home:dash:pre:"    -> key "!" lower(loc), same data
 *   a line starting with "." ends the table; then ONE record "" -> break characters, which
 *   contains the last character of every non-empty wildcard loc (nughde_get skips prefixes
 *   that do not end in one of them);
 *   records are added in file order (first duplicate wins in the reader);
 *   a line without 7 colons / with NUL / an unterminated line / missing "." => complaint,
 *   exit 111, users/cdb is left alone (no rename). */
#include "verif.h"
#include <errno.h>
#include "gen_qmail-newu.c"

/* sizes are concrete per query: line 1 has LEN1 bytes including its newline, line 2 LEN2
 * (0 = absent), then TAIL free bytes (a dot line, garbage, another short line, ...) */
#ifndef LEN1
#define LEN1 10
#endif
#ifndef LEN2
#define LEN2 0
#endif
#ifndef TAIL
#define TAIL 2
#endif
#define N (LEN1 + LEN2 + TAIL)
#define MAXREC 4

unsigned char in[N];
static unsigned int inpos;
static unsigned int line_start;                 /* start of the line being read / just read */
static unsigned int cur_line_start, cur_line_end;
static unsigned int nrec, finished, started, renamed, synced, closed_tmp, dot_seen;
static unsigned char wild_last[MAXREC]; static unsigned int nwild;
static int exited = -1;

char auto_qmail[] = "/var/qmail";
static char errbuf_[16];
static substdio sserr_ = SUBSTDIO_FDBUF(write, 2, errbuf_, sizeof errbuf_);
substdio *subfderr = &sserr_;

void sym_inputs(void)
{
#ifdef REPLAY
#include "replay_inputs.inc"
#else
  SYM_ARR(in);
#endif
}

int ideal_getc(substdio *s)
{
  unsigned char c;
  CHECK(s == &ssin, "users/assign is the only input");
  if (inpos >= N) { cur_line_start = line_start; cur_line_end = N; return -1; }     /* an unterminated last line */
  c = in[inpos++];
  if (c == '\n') { cur_line_start = line_start; cur_line_end = inpos - 1; line_start = inpos; }
  return c;
}
int ideal_putc(substdio *s, unsigned char c) { return 0; }
int ideal_flush(substdio *s) { return 0; }

mode_t vf_umask(mode_t m) { return 0; }
int vf_chdir(const char *d) { return 0; }
int open_read(const char *fn) { CHECK(strcmp(fn, "users/assign") == 0, "reads users/assign"); return 3; }
int open_trunc(const char *fn) { CHECK(strcmp(fn, "users/cdb.tmp") == 0, "writes users/cdb.tmp"); return 4; }
int vf_fsync(int fd) { CHECK(fd == 4 && finished, "fsync of the finished temporary file"); synced = 1; return 0; }
int vf_close(int fd) { if (fd == 4) closed_tmp = 1; return 0; }
int vf_rename(const char *a, const char *b)
{
  CHECK(strcmp(a, "users/cdb.tmp") == 0 && strcmp(b, "users/cdb") == 0, "C11(2): users/cdb.tmp replaces users/cdb");
  CHECK(finished && synced && closed_tmp, "C11(2): only a finished, synced, closed database replaces users/cdb");
  CHECK(dot_seen, "C11(2): only a table that ends with the dot line is installed");
  renamed = 1;
  return 0;
}

int cdbmss_start(struct cdbmss *c, int fd) { CHECK(fd == 4 && !started, "database is written to users/cdb.tmp"); started = 1; return 0; }

/* reference parse of the line in[cur_line_start .. cur_line_end) (without its newline) */
int cdbmss_add(struct cdbmss *c, unsigned char *key, unsigned int keylen, unsigned char *data, unsigned int datalen)
{
  unsigned int ls = cur_line_start, le = cur_line_end, i, colon = le, ncol = 0, dend = le, k;
  CHECK(started && !finished, "records are added between start and finish");
  if (keylen == 0) {
    /* the final record: break characters */
    dot_seen = (cur_line_end > cur_line_start && in[cur_line_start] == '.');
    CHECK(dot_seen, "C11(2): the break-character record is written when the dot line has been read, not before");
    for (i = 0; i < MAXREC; ++i) {
      if (i >= nwild) break;
      k = 0;
      { unsigned int j, hit = 0; for (j = 0; j < N; ++j) { if (j >= datalen) break; if (data[j] == wild_last[i]) hit = 1; } k = hit; }
      CHECK(k, "C11(2): the last character of every non-empty wildcard prefix is recorded as a break character");
    }
    if (nwild >= 2 && wild_last[0] != wild_last[1]) WITNESS("two_break_characters");
    ++nrec;
    return 0;
  }
  CHECK(!dot_seen, "C11(2): nothing after the dot line is compiled");
  CHECK(le > ls && in[ls] != '.', "C11(2): the dot line itself is not compiled");
  CHECK(le < N && in[le] == '\n', "C11(2): an unterminated line is never compiled");
  for (i = 0; i < N; ++i) { if (ls + i >= le) break; if (in[ls + i] == ':') { colon = ls + i; break; } }
  CHECK(colon < le && colon > ls, "C11(2): a compiled line has a non-empty first field ended by a colon");
  ASSUME(colon < le && colon > ls);
  /* key */
  if (in[ls] == '+') {
    CHECK(keylen == colon - ls, "C11(2): wildcard key is '!' + loc");
    if (colon - ls >= 2) { CHECK(nwild < MAXREC, "harness sizing"); ASSUME(nwild < MAXREC); wild_last[nwild++] = in[colon - 1]; }
  } else {
    CHECK(keylen == colon - ls + 1 && key[keylen - 1] == 0, "C11(2): simple key is '!' + local + NUL");
  }
  CHECK(key[0] == '!', "C11(2): keys start with '!'");
  for (i = 1; i < N; ++i) {
    unsigned char c;
    if (ls + i >= colon) break;
    c = in[ls + i]; if (c >= 'A' && c <= 'Z') c = (unsigned char) (c + 32);
    CHECK(key[i] == c, "C11(2): key is the lower-cased address (prefix)");
  }
  /* data: six colon-terminated fields after the first colon */
  for (i = 0; i < N; ++i) {
    if (colon + 1 + i >= le) break;
    if (in[colon + 1 + i] == ':') { ++ncol; if (ncol == 6) { dend = colon + 1 + i; break; } }
  }
  CHECK(ncol == 6, "C11(2): a compiled line has all six fields");
  ASSUME(ncol == 6);
  CHECK(datalen == dend - (colon + 1), "C11(2): data = the six fields without the last colon");
  for (i = 0; i < N; ++i) {
    unsigned char c;
    if (colon + 1 + i >= dend || i >= datalen) break;
    c = in[colon + 1 + i]; if (c == ':') c = 0;
    CHECK(data[i] == c, "C11(2): fields are stored NUL-separated, otherwise unchanged");
  }
  for (i = 0; i < N; ++i) { if (ls + i >= le) break; CHECK(in[ls + i] != 0, "C11(2): a line containing NUL is never compiled"); }
  if (in[ls] == '+' && colon - ls == 1) WITNESS("catch_all_wildcard");
  if (in[ls] == '+' && colon - ls >= 2) WITNESS("wildcard_line");
  if (in[ls] == '=') WITNESS("simple_line");
  if (in[ls] == '=' && in[ls + 1] >= 'A' && in[ls + 1] <= 'Z') WITNESS("mixed_case_key_lowered");
  ++nrec;
  return 0;
}

int cdbmss_finish(struct cdbmss *c) { CHECK(started && !finished && nrec >= 1, "finish after the break-character record"); finished = 1; return 0; }

void vf__exit(int status)
{
  exited = status;
  CHECK(status == 111, "qmail-newu fails with 111");
  CHECK(!renamed, "C11(2): on any complaint users/cdb is left alone");
  WITNESS("bad_format_111");
  PATH_END();
#ifdef VERIF_CBMC
  __CPROVER_assume(0);
#endif
}

void vmain(void)
{
  int rc;
  unsigned int i;
  sym_inputs();
  for (i = 0; i < LEN1 + LEN2; ++i) {
    int nl = (i == LEN1 - 1) || (LEN2 && i == LEN1 + LEN2 - 1);
    ASSUME(nl ? in[i] == '\n' : in[i] != '\n');
  }
  rc = newu_main();
  CHECK(rc == 0 && renamed && finished, "C11(2): a well-formed table is compiled and installed");
  CHECK(nrec >= 1, "the break-character record is always written");
  if (nrec >= 3) WITNESS("two_lines_compiled");
  WITNESS("installed");
}
