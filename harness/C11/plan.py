from vlib import Obl, Prog


def obligations(tier):
    quick = (tier == "quick")
    obls = []
    obls.append(Obl(
        "cdb_hash_agree", "cdbhash.c", repo=["cdb_hash.c", "cdbmake_hash.c"], defines={"MODE": 0, "KMAX": 6 if quick else 8},
        unwind_default=10, timeout=600,
        functions=["cdb_hash.c:cdb_hash", "cdbmake_hash.c:cdbmake_hashadd"],
        assumes=["keys of 0..6 bytes (thorough: 8), all byte values"], outside=["longer keys (the loop body is uniform)"],
        claim="cdb_hash(key) == fold(cdbmake_hashadd, 5381, key) for every key inside the bound: writer and reader hash alike",
        expect_witnesses=["hashed", "empty_key", "full_length_high_byte"]))
    obls.append(Obl(
        "cdb_pack_unpack", "cdbhash.c", repo=["cdb_unpack.c", "cdbmake_pack.c"], defines={"MODE": 1},
        unwind_default=10, timeout=600,
        functions=["cdb_unpack.c:cdb_unpack", "cdbmake_pack.c:cdbmake_pack"],
        assumes=["every 32-bit value"],
        claim="cdb_unpack(cdbmake_pack(u)) == u for all 2^32 values; pack writes exactly 4 little-endian bytes",
        expect_witnesses=["packed", "max"]))
    CDBR = ["cdb_hash.c", "cdb_unpack.c"]
    seekprog = Prog("cdb_seek.c", cut=["cdb_bread"], link=True)
    breadcut = ["cdb_bread -> contract: exactly len bytes delivered or -1 (proved on the real code by obligation cdb_bread)"]
    obls.append(Obl(
        "cdb_seek_spec", "cdbseek.c", progs=[seekprog], repo=CDBR, sysrename=["read", "lseek"], defines={"MODE": 0}, cuts=breadcut,
        grid=[{"R": r} for r in (0, 1, 2)],
        unwind={"cdb_seek": 5, "match~while": 2, "match~for": 4, "cdb_bread": 9, "cdb_hash": 5},
        unwind_default=6, timeout=900,
        functions=["cdb_seek.c:cdb_seek", "cdb_seek.c:match", "cdb_hash.c:cdb_hash", "cdb_unpack.c:cdb_unpack"],
        stubs=["read/lseek: abstract file - every byte is computed from the cdb format specification for R symbolic records "
               "(header entries, records, hash slots); short reads; one injected read/lseek failure"],
        assumes=["R <= 2 records, keys 0..2 bytes, data 0..2 bytes, query key 0..3 bytes, all byte values; hash tables of 2*count slots, "
                 "either file order of the two tables; position field of empty buckets arbitrary"],
        outside=["more than 2 records; tables longer than 4 slots; writer side (cdbmss_*): see cdb_writer"],
        claim="cdb_seek over any database that satisfies the format spec: 1 iff key present, with the data length and data position of "
              "the first record carrying it; 0 iff absent; -1 only after an I/O error",
        expect_witnesses=lambda p: ["absent", "io_error"] + (["found", "absent_but_hash_equal"] if p["R"] >= 1 else [])
        + (["duplicate_key_first_wins", "found_after_probing_past_collision"] if p["R"] == 2 else [])))
    obls.append(Obl(
        "cdb_bread", "cdbseek.c", repo=["cdb_seek.c"], sysrename=["read", "lseek"], defines={"MODE": 2},
        unwind={"cdb_bread~while (len > 0)": 10, "cdb_bread~while ((r == -1)": 3, "vf_read": 9}, unwind_default=12, timeout=600,
        functions=["cdb_seek.c:cdb_bread"],
        stubs=["read: tape - short counts, one EINTR, EOF, hard error"],
        assumes=["len 0..8, file has 0..8 bytes left"],
        claim="cdb_bread returns 0 with exactly the next len bytes (assembled from short reads, EINTR retried) or -1 on error / premature EOF (EIO)",
        expect_witnesses=["complete", "assembled_from_short_reads_and_eintr", "truncated", "read_error"]))
    obls.append(Obl(
        "cdb_seek_corrupt", "cdbseek.c", progs=[seekprog], repo=CDBR, sysrename=["read", "lseek"], defines={"MODE": 1}, cuts=breadcut,
        grid=[{"QL": 0, "NB": 40}, {"QL": 2, "NB": 40}, {"QL": 34, "NB": 64}],
        unwind=lambda p: dict({"cdb_seek": p["NB"] // 8 + 2, "cdb_bread": 33},
                              **({"match~while": 3, "match~for": 33, "cdb_hash": p["QL"] + 1} if p["QL"] else {})),
        unwind_default=40, timeout=900,
        functions=["cdb_seek.c:cdb_seek", "cdb_seek.c:match"],
        stubs=["read: serves NB arbitrary bytes in the order they are read, then EOF; lseek: accepts any offset; one injected failure"],
        assumes=["file = any NB bytes (40/64), truncated anywhere; key block of exactly QL bytes"],
        outside=["corrupt files that keep the reader probing for more than NB/8 slots (lenhash is attacker-chosen: the loop is bounded by "
                 "lenhash, each probe costs one read)"],
        claim="on arbitrary/truncated file contents cdb_seek returns -1, 0 or 1 and stays inside packbuf, buf[32] and the key",
        expect_witnesses=lambda p: ["absent", "truncated_file_is_an_error", "io_error", "corrupt_file_can_still_answer_found"]))
    return obls
