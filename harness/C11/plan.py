# C11 - local deliveries run as the right user: cdb reader/writer pieces, qmail-newu, nughde_get, spawn child, qmail-getpw.
#
# kills: (hand-made mutants of /repo in scratch worktrees, tools/mutant.sh; every one printed VIOLATION with a native replay rc 1)
#   qmail-lspawn.c nughde_get: break-character test on lower.s[i] instead of lower.s[i - 1]      nughde_get
#   qmail-lspawn.c nughde_get: drop `if (r == -1) _exit(QLX_CDB)`                                nughde_get
#   qmail-lspawn.c nughde_get: extension from local + i instead of local + i - 1                 nughde_get
#   qmail-lspawn.c spawn: prot_uid before prot_gid                                               spawn_child
#   qmail-lspawn.c spawn: drop `if (!getuid()) _exit(QLX_ROOT)`                                  spawn_child
#   qmail-lspawn.c spawn: homedir argument taken from the dash field                             spawn_child (NL >= 10)
#   qmail-getpw.c  accept uid 0; ignore home ownership; skip candidates (--extension twice)      getpw_rules
#   qmail-newu.c   break characters only for `i >= 3`; simple keys not lower-cased               newu_keys
#   cdb_seek.c     `++h2 > lenhash`; `(h >> 9) % lenhash`                                        cdb_seek_spec
#   cdb_seek.c     cdb_bread treats EOF as success                                               cdb_bread
#   cdb_hash.c     sign-extended key byte                                                        cdb_hash_agree
#   cdbmake_pack.c third shift by 7                                                              cdb_pack_unpack
from vlib import Obl, Prog, borrow


def obligations(tier):
    quick = (tier == "quick")
    obls = []
    obls.append(Obl(
        "cdb_hash_agree", "cdbhash.c", repo=["cdb_hash.c", "cdbmake_hash.c"], defines={"MODE": 0, "KMAX": 6 if quick else 8},
        unwind_default=10, timeout=600,
        functions=["cdb_hash.c:cdb_hash", "cdbmake_hash.c:cdbmake_hashadd"],
        assumes=["keys of 0..6 bytes (thorough: 8), all byte values"], outside=["longer keys (the loop body is uniform)"],
        claim="cdb_hash(key) == fold(cdbmake_hashadd, 5381, key) for every key inside the bound: writer and reader hash alike",
        expect_witnesses=["hashed", "empty_key", "full_length_high_byte"]))
    obls.append(Obl(
        "cdb_pack_unpack", "cdbhash.c", repo=["cdb_unpack.c", "cdbmake_pack.c"], defines={"MODE": 1},
        unwind_default=10, timeout=600,
        functions=["cdb_unpack.c:cdb_unpack", "cdbmake_pack.c:cdbmake_pack"],
        assumes=["every 32-bit value"],
        claim="cdb_unpack(cdbmake_pack(u)) == u for all 2^32 values; pack writes exactly 4 little-endian bytes",
        expect_witnesses=["packed", "max"]))
    CDBR = ["cdb_hash.c", "cdb_unpack.c"]
    seekprog = Prog("cdb_seek.c", cut=["cdb_bread"], link=True)
    breadcut = ["cdb_bread -> contract: exactly len bytes delivered or -1 (proved on the real code by obligation cdb_bread)"]
    obls.append(Obl(
        "cdb_seek_spec", "cdbseek.c", progs=[seekprog], repo=CDBR, sysrename=["read", "lseek"], defines={"MODE": 0}, cuts=breadcut,
        grid=[{"R": r} for r in (0, 1, 2)],
        unwind={"cdb_seek": 5, "match~while": 2, "match~for": 4, "cdb_bread": 9, "cdb_hash": 5},
        unwind_default=6, timeout=900,
        functions=["cdb_seek.c:cdb_seek", "cdb_seek.c:match", "cdb_hash.c:cdb_hash", "cdb_unpack.c:cdb_unpack"],
        stubs=["read/lseek: abstract file - every byte is computed from the cdb format specification for R symbolic records "
               "(header entries, records, hash slots); short reads; one injected read/lseek failure"],
        assumes=["R <= 2 records, keys 0..2 bytes, data 0..2 bytes, query key 0..3 bytes, all byte values; hash tables of 2*count slots, "
                 "either file order of the two tables; position field of empty buckets arbitrary"],
        outside=["more than 2 records; tables longer than 4 slots; writer side (cdbmss_*): see cdb_writer"],
        claim="cdb_seek over any database that satisfies the format spec: 1 iff key present, with the data length and data position of "
              "the first record carrying it; 0 iff absent; -1 only after an I/O error",
        expect_witnesses=lambda p: ["absent", "io_error"] + (["found", "absent_but_hash_equal"] if p["R"] >= 1 else [])
        + (["duplicate_key_first_wins", "found_after_probing_past_collision"] if p["R"] == 2 else [])))
    obls.append(Obl(
        "cdb_bread", "cdbseek.c", repo=["cdb_seek.c"], sysrename=["read", "lseek"], defines={"MODE": 2},
        unwind={"cdb_bread~while (len > 0)": 10, "cdb_bread~while ((r == -1)": 3, "vf_read": 9}, unwind_default=12, timeout=600,
        functions=["cdb_seek.c:cdb_bread"],
        stubs=["read: tape - short counts, one EINTR, EOF, hard error"],
        assumes=["len 0..8, file has 0..8 bytes left"],
        claim="cdb_bread returns 0 with exactly the next len bytes (assembled from short reads, EINTR retried) or -1 on error / premature EOF (EIO)",
        expect_witnesses=["complete", "assembled_from_short_reads_and_eintr", "truncated", "read_error"]))
    obls.append(Obl(
        "cdb_seek_corrupt", "cdbseek.c", progs=[seekprog], repo=CDBR, sysrename=["read", "lseek"], defines={"MODE": 1}, cuts=breadcut,
        grid=[{"QL": 0, "NB": 40}, {"QL": 2, "NB": 40}, {"QL": 34, "NB": 64}],
        unwind=lambda p: dict({"cdb_seek": p["NB"] // 8 + 2, "cdb_bread": 33},
                              **({"match~while": 3, "match~for": 33, "cdb_hash": p["QL"] + 1} if p["QL"] else {})),
        unwind_default=40, timeout=900,
        functions=["cdb_seek.c:cdb_seek", "cdb_seek.c:match"],
        stubs=["read: serves NB arbitrary bytes in the order they are read, then EOF; lseek: accepts any offset; one injected failure"],
        assumes=["file = any NB bytes (40/64), truncated anywhere; key block of exactly QL bytes"],
        outside=["corrupt files that keep the reader probing for more than NB/8 slots (lenhash is attacker-chosen: the loop is bounded by "
                 "lenhash, each probe costs one read)"],
        claim="on arbitrary/truncated file contents cdb_seek returns -1, 0 or 1 and stays inside packbuf, buf[32] and the key",
        expect_witnesses=lambda p: ["absent", "truncated_file_is_an_error", "io_error", "corrupt_file_can_still_answer_found"]))
    obls.append(Obl(
        "cdb_writer", "cdbwriter.c", repo=["cdbmss.c", "cdbmake_add.c", "cdbmake_hash.c", "cdbmake_pack.c", "substdio.c"],
        lib=["ideal_substdio.c"], sysrename=["lseek"],
        # measured: R >= 1 does not close (no verdict in 900 s: count[h & 255] is a symbolic index for symex even with the residue
        # assumed, so all 256 tables get symbolic lengths).  Only the empty table is decided; see outside.
        grid=[{"R": 0}],
        unwind={"substdio_put": 2050, "cdbmake_throw": 6, "cdbmss_add": 4, "file_byte": 3, "ref_hash": 4},
        unwind_default=2120, timeout=900,
        functions=["cdbmss.c:cdbmss_start", "cdbmss.c:cdbmss_add", "cdbmss.c:cdbmss_finish", "cdbmake_add.c:cdbmake_add",
                   "cdbmake_add.c:cdbmake_split", "cdbmake_add.c:cdbmake_throw", "cdbmake_pack.c:cdbmake_pack", "cdbmake_hash.c:cdbmake_hashadd"],
        stubs=["substdio on the database descriptor: ideal stream writing at the descriptor's position (layer 0)", "lseek: sets that position"],
        assumes=["R <= 2 records, keys and data 0..2 bytes, all byte values; hash residues h&255 fixed per query (B0,B1)"],
        outside=["NOT DECIDED: the writer with one or more records (no verdict in 900 s). The clause 'the compiled database returns for every "
                 "key exactly what the source says' is therefore only claimed for the reader over a spec-conforming file (cdb_seek_spec), "
                 "for hash/pack agreement (cdb_hash_agree, cdb_pack_unpack) and for the records qmail-newu hands to the writer (newu_keys)"],
        claim="cdbmss_start/finish on the empty table produce byte for byte the file the cdb format prescribes (256 empty header entries)",
        expect_witnesses=lambda p: ["written"] + (["collision_probed_to_next_slot", "duplicate_keys_both_stored_in_order"]
                                                   if p["R"] == 2 and p.get("B0") == p.get("B1") else [])))
    STR = ["stralloc_opys.c", "stralloc_cats.c", "stralloc_catb.c", "stralloc_opyb.c", "stralloc_pend.c", "byte_copy.c", "byte_chr.c"]
    obls.append(Obl(
        "nughde_get", "nughde.c", progs=[Prog("qmail-lspawn.c")], repo=STR + ["case_lowerb.c", "prot.c"],
        lib=["ideal_substdio.c", "arena_stralloc.c"], defines={"ARENA_CAP": 16, "ARENA_SLOTS": 4},
        sysrename=["close", "pipe", "fork", "setgroups", "setgid", "setuid", "getuid", "chdir", "execv", "_exit"],
        grid=[{"L": l} for l in ((1, 2, 3) if quick else (1, 2, 3, 4, 5))],
        unwind_default=lambda p: p["L"] + 6, unwind={"substdio_put": 64}, timeout=900,
        functions=["qmail-lspawn.c:nughde_get", "qmail-lspawn.c:report", "prot.c:prot_gid", "case_lowerb.c:case_lowerb"],
        cuts=["cdb_seek/cdb_bread -> abstract table with the cdb.3 contract (proved by cdb_seek_spec, cdb_bread)",
              "slurpclose/wait_pid -> qmail-getpw's output and wait status are symbolic"],
        stubs=["open_read, close, pipe, fork (both sides), setgroups/setgid/setuid (may fail), execv, _exit", "stralloc_ready*: arena"],
        assumes=["local part of exactly L bytes (grid), any non-NUL bytes; table of <= 2 entries + break-character record, keys start "
                 "with '!', are lower-case, NUL only as the simple-key terminator, every non-empty wildcard prefix ends in a recorded "
                 "break character (what qmail-newu writes: newu_keys); data <= 3 bytes; one cdb read error at any call"],
        outside=["tables with more than 2 entries; longer local parts"],
        claim="nughde_get returns the data of the exact entry, else of the longest wildcard prefix (first duplicate), with the rest of the "
              "local part appended, else qmail-getpw's output; getpw runs as auto_userp after setgroups, setgid, setuid; every cdb error "
              "exits QLX_CDB and every failure code is reported as Z",
        expect_witnesses=lambda p: ["exact_entry", "catch_all_entry", "wildcard_covers_whole_local", "duplicate_first_wins",
                                    "no_database_getpw", "not_listed_getpw", "getpw_child_execs", "getpw_child_gives_up",
                                    "getpw_exit_code_passed_on", "cdb_trouble_117", "sys_trouble_118"]
        + (["wildcard_prefix_entry", "longer_prefix_beats_catch_all"] if p["L"] >= 2 else [])))
    obls.append(Obl(
        "spawn_child", "spawnchild.c", progs=[Prog("qmail-lspawn.c", cut=["nughde_get"])],
        repo=["prot.c", "scan_ulong.c", "byte_chr.c", "error_temp.c"], lib=["ideal_substdio.c"],
        sysrename=["fork", "chdir", "setgroups", "setgid", "setuid", "getuid", "execv", "_exit", "close", "pipe"],
        grid=([{"NL": 10, "LL": 2}, {"NL": 7, "LL": 1}, {"NL": 10, "LL": 0}] if quick else
              [{"NL": n, "LL": l} for n in (7, 8, 10, 12) for l in (1, 3)] + [{"NL": 12, "LL": 0}]) + [{"NL": 19, "LL": 1, "UIDTPL": 1}],
        unwind_default=lambda p: p["NL"] + 4, unwind={"substdio_put": 64}, timeout=900,
        functions=["qmail-lspawn.c:spawn", "qmail-lspawn.c:report", "prot.c:prot_gid", "scan_ulong.c:scan_ulong", "byte_chr.c:byte_chr",
                   "error_temp.c:error_temp"],
        cuts=["nughde_get -> installs NL symbolic bytes as the record (lookup itself: obligation nughde_get)"],
        stubs=["fork (child side), chdir, fd_move/fd_copy, setgroups/setgid/setuid/getuid (process identity, may fail), execv (records, may "
               "fail ENOENT/EAGAIN), _exit"],
        assumes=["record: exactly NL bytes, any contents (fields wherever the NULs are); local part LL bytes, domain and sender 2 bytes; "
                 "uid/gid compared with the decimal value only for fields of 1..9 digits"],
        outside=["records longer than 12 bytes (14 bytes: no verdict in 900 s)"],
        claim="qmail-local is executed only after setgroups(1,{gid}), setgid(gid), setuid(uid) all succeeded in this order, never with uid 0 "
              "(QLX_ROOT before execv), with argv exactly {bin/qmail-local,--,user,home,local,dash,ext,domain,sender,defaultdelivery}; "
              "short records and failing steps exit with QLX codes that report() maps to Z",
        expect_witnesses=lambda p: ["trash_address"] if p["LL"] == 0 else
        (["exec_qmail_local", "refused_root_113", "setid_failed_112"] if p.get("UIDTPL") else
         ["exec_qmail_local", "refused_root_113", "exec_failed_hard", "exec_failed_soft", "short_record_112", "setid_failed_112", "fd_failed_118"]
         + (["exec_record_with_trailing_bytes"] if p["NL"] >= 8 else []))))
    obls.append(Obl(
        "getpw_rules", "getpw.c", progs=[Prog("qmail-getpw.c", main_as="getpw_main")],
        repo=["case_lowers.c", "fmt_ulong.c", "byte_copy.c", "error_temp.c", "auto_break.c", "auto_usera.c"], lib=["ideal_substdio.c"],
        sysrename=["getpwnam", "stat", "_exit"],
        grid=[{"L": l} for l in ((1, 2, 3) if quick else (1, 2, 3, 4, 5))],
        unwind_default=lambda p: p["L"] + 32, unwind=lambda p: {"fmt_ulong": 4, "substdio_put": 64, "userext": p["L"] + 2, "case_lowers": p["L"] + 2, "byte_copy": p["L"] // 4 + 2}, timeout=900,
        functions=["qmail-getpw.c:main", "qmail-getpw.c:userext", "case_lowers.c:case_lowers", "fmt_ulong.c:fmt_ulong"],
        stubs=["getpwnam: 2-entry symbolic passwd table + alias account (may be missing), one ETXTBSY at any call",
               "stat: per home directory owner symbolic / ENOENT / EIO", "substdio on fd 1: ideal stream"],
        assumes=["local part of exactly L bytes (grid), any non-NUL bytes; account names 1..2 bytes, any non-NUL bytes; uid, gid 0..999; "
                 "break character and alias user as configured in the tree (auto_break.c, auto_usera.c)"],
        outside=["longer names (the 32-character limit is not reached), more than 2 accounts, uids >= 1000 (fmt_ulong digits)"],
        claim="qmail-getpw prints exactly user,uid,gid,home,dash,ext of the longest user-BREAK-ext match among accounts with nonzero uid "
              "that own their existing home, else of the alias user with ext = local; trouble (ETXTBSY, unreachable home, no alias) "
              "exits nonzero without output",
        expect_witnesses=lambda p: ["alias_catch_all", "no_alias_116", "getpwnam_busy_118", "home_unreachable_115", "mixed_case_local"]
        + (["plain_user", "uid0_account_skipped", "foreign_owned_home_skipped"] if p["L"] <= 2 else [])
        + (["user_dash_ext"] if p["L"] >= 2 else []) + (["longest_user_wins"] if p["L"] >= 3 else [])))
    obls.append(Obl(
        "newu_keys", "newu.c", progs=[Prog("qmail-newu.c", main_as="newu_main")],
        repo=["substdio.c", "stralloc_opys.c", "stralloc_catb.c", "stralloc_opyb.c", "stralloc_pend.c", "byte_copy.c", "byte_chr.c",
              "case_lowerb.c"],
        lib=["ideal_substdio.c", "ideal_getln.c", "arena_stralloc.c"], defines={"ARENA_CAP": 32, "ARENA_SLOTS": 5},
        sysrename=["umask", "chdir", "fsync", "close", "rename", "_exit"],
        grid=[{"LEN1": 10, "LEN2": 0, "TAIL": 2}, {"LEN1": 3, "LEN2": 0, "TAIL": 0}, {"LEN1": 11, "LEN2": 0, "TAIL": 0},
              {"LEN1": 10, "LEN2": 10, "TAIL": 2}] if quick else
             [{"LEN1": 10, "LEN2": 0, "TAIL": 2}, {"LEN1": 3, "LEN2": 0, "TAIL": 0}, {"LEN1": 11, "LEN2": 0, "TAIL": 0},
              {"LEN1": 12, "LEN2": 0, "TAIL": 2}, {"LEN1": 10, "LEN2": 10, "TAIL": 2}, {"LEN1": 10, "LEN2": 11, "TAIL": 2}],
        unwind=lambda p: {"substdio_put": 64, "newu_main~for (;;)": 2 + (1 if p["LEN2"] else 0) + p["TAIL"] + 1,
                          "getln": max(p["LEN1"], p["LEN2"], p["TAIL"]) + 2,
                          "byte_chr": max(p["LEN1"], p["LEN2"]) // 4 + 2, "byte_copy": max(p["LEN1"], p["LEN2"]) // 4 + 2,
                          "case_lowerb": max(p["LEN1"], p["LEN2"]) + 1, "newu_main~for (i = 0;i < data.len;++i)": max(p["LEN1"], p["LEN2"])},
        unwind_default=lambda p: p["LEN1"] + p["LEN2"] + p["TAIL"] + 3, timeout=900,
        functions=["qmail-newu.c:main", "case_lowerb.c:case_lowerb", "byte_chr.c:byte_chr"],
        cuts=["cdbmss_start/add/finish -> recorder that compares every record with a reference parse of the line (writer: cdb format spec)"],
        stubs=["getln/substdio: ideal streams", "open_read/open_trunc/umask/chdir/fsync/close/rename", "stralloc_ready*: arena"],
        assumes=["users/assign = one or two lines of concrete length (grid: LEN1, LEN2 bytes incl. newline, any other bytes) + TAIL free bytes"],
        outside=["longer lines / more lines (two complete lines: thorough tier)"],
        claim="every compiled record has key '!'+lower(local)+NUL (simple) or '!'+lower(loc) (wildcard) and the six fields NUL-separated as "
              "data, in file order; the final '' record holds the last character of every non-empty wildcard prefix; malformed input "
              "(missing fields, NUL, unterminated line, no dot line) exits 111 and users/cdb is not replaced",
        expect_witnesses=lambda p: (["bad_format_111"] if not p["TAIL"] else
                                    ["installed", "bad_format_111", "simple_line", "wildcard_line", "mixed_case_key_lowered"]
                                    + (["catch_all_wildcard"] if p["LEN1"] == 10 else [])
                                    + (["two_lines_compiled", "two_break_characters"] if p["LEN2"] else []))))
    # writer -> reader on a concrete key set with a duplicate; CDBMAKE_HPLIST (records per chunk) scaled 1000 -> 1 in the regenerated
    # copy of cdbmake.h, so that the order of duplicates ACROSS chunks - which needs > 1000 records otherwise - is exercised
    gen = [Prog("cdbmake.h", out="cdbmake.h", sub=[(r"^#define CDBMAKE_HPLIST 1000$", "#define CDBMAKE_HPLIST 1", 1)])] + \
          [Prog(f, link=True) for f in ("cdbmss.c", "cdbmake_add.c", "cdbmake_hash.c", "cdbmake_pack.c")]
    obls.append(Obl("cdb_round_trip", "cdbround.c", progs=gen,
        repo=["cdb_seek.c", "cdb_hash.c", "cdb_unpack.c", "substdio.c"], lib=["ideal_substdio.c"], sysrename=["read", "lseek"],
        unwind_default=300, unwind={"substdio_put": 2100}, timeout=600,     # the 2048-byte header is written with one put
        flags=["--max-field-sensitivity-array-size", "4096"],   # element-wise constant propagation for the 2 kB header / 256-entry tables
        functions=["cdbmss.c:cdbmss_start/add/finish", "cdbmake_add.c:cdbmake_add/split/throw", "cdbmake_hash.c", "cdbmake_pack.c",
                   "cdb_seek.c:cdb_seek/cdb_bread/match", "cdb_hash.c", "cdb_unpack.c"],
        cuts=["CDBMAKE_HPLIST 1000 -> 1 in the regenerated cdbmake.h (parametric: one record per chunk)"],
        stubs=["file = byte array written through the ideal stream at the seek position and read back by read()/lseek() stubs"],
        assumes=["three records with concrete one-byte keys a, b, a (duplicate) and symbolic one-byte data"],
        outside=["symbolic keys (cdb_seek_spec / cdb_writer), more than three records, the real chunk size 1000"],
        claim="for the table (a,b,a): the database written by the real writer returns through the real reader the first line's data for the "
              "duplicated key, the right data for the other key and 'not found' for an absent key",
        expect_witnesses=["round_trip"]))
    # spawn.c (anchor of this property) hands the command's sender and recipient, unchanged and split at the last @, to spawn()
    obls += borrow("C18", ["spawn_getcmd", "spawn_docmd"], tier)
    return obls
