/* C11 (1a) - the writer and the reader of users/cdb agree on hashing and on number packing.
 * MODE 0: cdb_hash(key,len) (reader, cdb_hash.c) == CDBMAKE_HASHSTART folded with
 *         cdbmake_hashadd over the key bytes (writer, cdbmake_hash.c, as cdbmss_add does),
 *         for every key of 0..KMAX bytes.
 * MODE 1: cdb_unpack(cdbmake_pack(u)) == u for every 32-bit u, and cdbmake_pack writes
 *         exactly 4 bytes, little-endian (cdb format: "32-bit little-endian numbers"). */
#include "verif.h"
#include "cdb.h"
#include "cdbmake.h"

#ifndef KMAX
#define KMAX 6
#endif

unsigned char key[KMAX];
unsigned int klen;
uint32 u;

void sym_inputs(void)
{
#ifdef REPLAY
#include "replay_inputs.inc"
#else
  SYM_ARR(key); SYM(klen); SYM(u);
#endif
}

void vmain(void)
{
  sym_inputs();
#if MODE == 0
  {
    uint32 h = CDBMAKE_HASHSTART, hr;
    unsigned int i;
    ASSUME(klen <= KMAX);
    for (i = 0; i < KMAX; ++i) { if (i >= klen) break; h = cdbmake_hashadd(h, (unsigned int) key[i]); }
    hr = cdb_hash(key, klen);
    CHECK(hr == h, "C11(1a): reader's cdb_hash equals the writer's folded cdbmake_hashadd");
    if (klen == 0) { CHECK(hr == 5381, "hash of the empty key is 5381"); WITNESS("empty_key"); }
    if (klen == KMAX && key[0] >= 128) WITNESS("full_length_high_byte");
    WITNESS("hashed");
  }
#else
  {
    unsigned char buf[6];
    buf[0] = 0xa5; buf[5] = 0x5a;
    cdbmake_pack(buf + 1, u);
    CHECK(buf[0] == 0xa5 && buf[5] == 0x5a, "C11(1a): cdbmake_pack writes exactly four bytes");
    CHECK(buf[1] == (u & 255) && buf[2] == ((u >> 8) & 255) && buf[3] == ((u >> 16) & 255) && buf[4] == (u >> 24),
          "C11(1a): numbers are stored little-endian");
    CHECK(cdb_unpack(buf + 1) == u, "C11(1a): cdb_unpack inverts cdbmake_pack for every 32-bit value");
    if (u == 0xffffffffu) WITNESS("max");
    WITNESS("packed");
  }
#endif
}
